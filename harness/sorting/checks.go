package main

import (
	"fmt"
	"runtime"
	"strings"

	"rare/cmd/helpers"
	"rare/pkg/aggregation"
	"rare/pkg/aggregation/sorting"
	"rare/pkg/expressions/funclib"
)

type fail struct{ sig, detail string }

func failf(sig, format string, a ...any) *fail {
	return &fail{sig: sig, detail: fmt.Sprintf(format, a...)}
}

// spec is one way a command obtains a sorter.
type spec struct {
	name  string // argument of helpers.BuildSorter, or "pkg:<constructor>" for sorters the commands take from the package directly
	group string // specs of one group differ only in direction (S9)
	mode  string // text | numeric | contextual | date | value
	desc  bool   // documented direction
	build func() (sorting.NameValueSorter, error)
	// only for sorters that AccumulatingGroup.Groups can take
	nameSorter func() sorting.NameSorter
	reuse      bool // take part in the (more expensive) re-use enumeration
}

func buildSpecs() []*spec {
	var out []*spec
	bases := []struct{ name, mode string }{
		{"text", "text"}, {"", "text"}, {"numeric", "numeric"}, {"contextual", "contextual"}, {"context", "contextual"}, {"date", "date"}, {"value", "value"},
	}
	// docs/usage/aggregators.md: value "Defaults to descending order";
	// ":reverse -- Reverse of the default", ":asc", ":desc"
	for _, b := range bases {
		for _, mod := range []string{"", ":asc", ":desc", ":rev", ":reverse"} {
			def := b.mode == "value"
			desc := def
			switch mod {
			case ":asc":
				desc = false
			case ":desc":
				desc = true
			case ":rev", ":reverse":
				desc = !def
			}
			name := b.name + mod
			out = append(out, &spec{name: name, group: b.name, mode: b.mode, desc: desc,
				build: func() (sorting.NameValueSorter, error) { return helpers.BuildSorter(name) },
				reuse: b.name != "" && b.name != "context" && (mod == "" || mod == ":desc" || mod == ":asc")})
		}
	}
	for _, v := range []struct {
		name, group, mode string
		desc              bool
	}{{"NUMERIC:Desc", "numeric", "numeric", true}, {"Value:REVERSE", "value", "value", false}, {"Date", "date", "date", false}} {
		name := v.name
		out = append(out, &spec{name: name, group: v.group, mode: v.mode, desc: v.desc,
			build: func() (sorting.NameValueSorter, error) { return helpers.BuildSorter(name) }})
	}
	// sorters used without BuildSorter: pkg/csv (NV*Sorter, ByName) and cmd/reduce.go (ByContextual, Reverse)
	out = append(out,
		&spec{name: "pkg:NVValueSorter", group: "pkg:NVValueSorter", mode: "value", desc: true,
			build: func() (sorting.NameValueSorter, error) { return sorting.NVValueSorter, nil }, reuse: true},
		&spec{name: "pkg:NVNameSorter", group: "pkg:NVNameSorter", mode: "text",
			build: func() (sorting.NameValueSorter, error) { return sorting.NVNameSorter, nil }},
		&spec{name: "pkg:NVSmartSorter", group: "pkg:NVSmartSorter", mode: "numeric",
			build: func() (sorting.NameValueSorter, error) { return sorting.NVSmartSorter, nil }},
		&spec{name: "pkg:ByName", group: "pkg:ByName", mode: "text",
			build:      func() (sorting.NameValueSorter, error) { return sorting.ValueNilSorter(sorting.ByName), nil },
			nameSorter: func() sorting.NameSorter { return sorting.ByName }},
		&spec{name: "pkg:ByContextual", group: "pkg:ByContextual", mode: "contextual",
			build:      func() (sorting.NameValueSorter, error) { return sorting.ValueNilSorter(sorting.ByContextual()), nil },
			nameSorter: func() sorting.NameSorter { return sorting.ByContextual() }, reuse: true},
		&spec{name: "pkg:Reverse(ByContextual)", group: "pkg:ByContextual", mode: "contextual", desc: true,
			build: func() (sorting.NameValueSorter, error) {
				return sorting.ValueNilSorter(sorting.Reverse(sorting.ByContextual())), nil
			},
			nameSorter: func() sorting.NameSorter { return sorting.Reverse(sorting.ByContextual()) }, reuse: true},
		&spec{name: "pkg:ByDateWithContextual", group: "pkg:ByDateWithContextual", mode: "date",
			build: func() (sorting.NameValueSorter, error) {
				return sorting.ValueNilSorter(sorting.ByDateWithContextual()), nil
			}},
	)
	return out
}

var specs = buildSpecs()

func specByName(n string) *spec {
	for _, s := range specs {
		if s.name == n {
			return s
		}
	}
	return nil
}

// nv is one row/column handed to the sorter: a pool key and its total.
type nv struct {
	k int
	v int64
}

func names(xs []nv) []string {
	out := make([]string, len(xs))
	for i, x := range xs {
		out[i] = pool[x.k].s
	}
	return out
}

func show(xs []nv) string {
	var sb strings.Builder
	sb.WriteString("[")
	for i, x := range xs {
		if i > 0 {
			sb.WriteString(" ")
		}
		fmt.Fprintf(&sb, "%q=%d", pool[x.k].s, x.v)
	}
	return sb.String() + "]"
}

func same(a, b []nv) bool {
	if len(a) != len(b) {
		return false
	}
	for i := range a {
		if a[i] != b[i] {
			return false
		}
	}
	return true
}

func reversed(a []nv) []nv {
	out := make([]nv, len(a))
	for i, x := range a {
		out[len(a)-1-i] = x
	}
	return out
}

func keysOf(xs []nv) ([]*poolKey, []int64) {
	ks := make([]*poolKey, len(xs))
	vs := make([]int64, len(xs))
	for i, x := range xs {
		ks[i] = &pool[x.k]
		vs[i] = x.v
	}
	return ks, vs
}

func panicClass(p any) string {
	s := fmt.Sprint(p)
	if e, ok := p.(runtime.Error); ok {
		s = strings.TrimPrefix(e.Error(), "runtime error: ")
	}
	var sb strings.Builder
	for _, r := range s {
		switch {
		case r >= '0' && r <= '9':
			if !strings.HasSuffix(sb.String(), "N") {
				sb.WriteByte('N')
			}
		case r == ' ' || r == ':' || r == '/':
			sb.WriteByte('-')
		case r > 32 && r < 127:
			sb.WriteRune(r)
		}
		if sb.Len() > 40 {
			break
		}
	}
	return sb.String()
}

// sortOnce sorts a copy of items the way the aggregators do (sorting.SortBy
// with an extractor to NameValuePair).
func sortOnce(s sorting.NameValueSorter, items []nv) (out []nv, f *fail) {
	out = append([]nv{}, items...)
	defer func() {
		if p := recover(); p != nil {
			f = failf("C13/panic/SortBy/"+panicClass(p), "panic while sorting %s: %v", show(items), p)
		}
	}()
	sorting.SortBy(out, s, func(o nv) sorting.NameValuePair {
		return sorting.NameValuePair{Name: pool[o.k].s, Value: o.v}
	})
	return
}

func (sp *spec) fresh() (sorting.NameValueSorter, *fail) {
	s, err := sp.build()
	if err != nil || s == nil {
		return nil, failf("C13/build-error/"+sp.mode, "BuildSorter(%q) failed: %v", sp.name, err)
	}
	return s, nil
}

func forEachPerm(n int, f func(p []int) bool) {
	p := make([]int, n)
	for i := range p {
		p[i] = i
	}
	var rec func(k int) bool
	rec = func(k int) bool {
		if k == n {
			return f(p)
		}
		for i := k; i < n; i++ {
			p[k], p[i] = p[i], p[k]
			if !rec(k + 1) {
				p[k], p[i] = p[i], p[k]
				return false
			}
			p[k], p[i] = p[i], p[k]
		}
		return true
	}
	rec(0)
}

func permuted(data []nv, p []int) []nv {
	out := make([]nv, len(data))
	for i, j := range p {
		out[i] = data[j]
	}
	return out
}

// checkData: S1/S4 — every permutation of the data, each with a fresh sorter,
// must sort to one sequence; S5..S8 on that sequence. Returns the canonical
// sequence (nil when there is none).
func checkData(sp *spec, data []nv) (canon []nv, sorts int, fs []*fail) {
	ks, vs := keysOf(data)
	level, class := classify(sp.mode, ks, vs)
	var first, firstIn []nv
	ok := true
	forEachDataPerm(len(data), func(p []int) bool {
		in := permuted(data, p)
		s, f := sp.fresh()
		if f != nil {
			fs, ok = append(fs, f), false
			return false
		}
		out, f := sortOnce(s, in)
		sorts++
		if f != nil {
			fs, ok = append(fs, f), false
			return false
		}
		if first == nil {
			first, firstIn = out, in
			return true
		}
		if !same(out, first) {
			fs = append(fs, failf("C13/"+level+"/order-depends-on-permutation/"+sigClass(class),
				"sort %q: the same data handed over in two orders sorts to two different sequences\n  in %s -> %q\n  in %s -> %q", sp.name, show(firstIn), names(first), show(in), names(out)))
			ok = false
			return false
		}
		return true
	})
	if !ok {
		return nil, sorts, fs
	}
	if first == nil {
		first = []nv{}
	}
	oks, ovs := keysOf(first)
	if msg := semanticViolation(sp.mode, sp.desc, oks, ovs); msg != "" {
		dir := "ascending"
		if sp.desc {
			dir = "descending"
		}
		fs = append(fs, failf("C13/"+level+"/wrong-order/"+sigClass(class), "sort %q (%s): %s: %s -> %q", sp.name, dir, msg, show(data), names(first)))
	}
	return first, sorts, fs
}

// checkDirections: S9 — within a group, equal direction gives the same
// sequence and the opposite direction exactly the reverse.
func checkDirections(group []*spec, canon map[*spec][]nv, data []nv) []*fail {
	var ref *spec
	for _, sp := range group {
		if canon[sp] != nil {
			ref = sp
			break
		}
	}
	if ref == nil {
		return nil
	}
	ks, vs := keysOf(data)
	var fs []*fail
	for _, sp := range group {
		c := canon[sp]
		if c == nil || sp == ref {
			continue
		}
		want := canon[ref]
		if sp.desc != ref.desc {
			want = reversed(want)
		}
		if !same(c, want) {
			level, class := classify(sp.mode, ks, vs)
			fs = append(fs, failf("C13/"+level+"/reverse-mismatch/"+sigClass(class), "sort %q gives %q but %q gives %q for %s: same direction must agree, opposite direction must be the exact reverse", ref.name, names(canon[ref]), sp.name, names(c), show(data)))
		}
	}
	return fs
}

// checkReuse: the commands build the sorter once and use it for every render.
// One sorter instance sorts `earlier` and then every permutation of data; the
// second result must be the canonical sequence of data.
func checkReuse(sp *spec, earlier, data, canon []nv, relation string) (sorts int, f *fail) {
	forEachPerm(len(data), func(p []int) bool {
		in := permuted(data, p)
		s, ff := sp.fresh()
		if ff != nil {
			f = ff
			return false
		}
		if _, ff = sortOnce(s, earlier); ff != nil {
			f = ff
			return false
		}
		out, ff := sortOnce(s, in)
		sorts += 2
		if ff != nil {
			f = ff
			return false
		}
		if !same(out, canon) {
			ks, vs := keysOf(data)
			level, class := classify(sp.mode, ks, vs)
			// This check only runs where a fresh instance gives ONE order, i.e.
			// two spellings of one day/month are not a failure class here: the
			// input class is "a pure weekday/month set".
			switch class {
			case "weekday-same-position":
				class = "all-weekday"
			case "month-same-position":
				class = "all-month"
			case "date-same-instant":
				class = "all-date-same-layout"
			}
			f = failf("C13/"+level+"/order-depends-on-earlier-sort/"+sigClass(class),
				"sort %q: a sorter instance that first sorted %s (%s) sorts %s to %q; a fresh instance sorts every permutation of it to %q", sp.name, show(earlier), relation, show(in), names(out), names(canon))
			return false
		}
		return true
	})
	return
}

// less asks a fresh sorter for one decision.
func (sp *spec) less(a, b nv) (bool, *fail) {
	s, f := sp.fresh()
	if f != nil {
		return false, f
	}
	return call(s, a, b)
}

func call(s sorting.NameValueSorter, a, b nv) (r bool, f *fail) {
	defer func() {
		if p := recover(); p != nil {
			f = failf("C13/panic/comparator/"+panicClass(p), "panic comparing %q and %q: %v", pool[a.k].s, pool[b.k].s, p)
		}
	}()
	return s(sorting.NameValuePair{Name: pool[a.k].s, Value: a.v}, sorting.NameValuePair{Name: pool[b.k].s, Value: b.v}), nil
}

func classOf(sp *spec, xs ...nv) (string, string) { return classOfEx(sp, true, xs...) }

func classOfEx(sp *spec, tiesFirst bool, xs ...nv) (string, string) {
	seen := map[int]bool{}
	var d []nv
	for _, x := range xs {
		if !seen[x.k] {
			seen[x.k] = true
			d = append(d, x)
		}
	}
	ks, vs := keysOf(d)
	return classifyEx(sp.mode, ks, vs, tiesFirst)
}

// checkPair: S2 — exactly one of less(a,b), less(b,a) for distinct keys.
func checkPair(sp *spec, a, b nv) *fail {
	x, f := sp.less(a, b)
	if f != nil {
		return f
	}
	y, f := sp.less(b, a)
	if f != nil {
		return f
	}
	if x == y {
		level, class := classOf(sp, a, b)
		return failf("C13/"+level+"/distinct-keys-not-strictly-ordered/"+sigClass(class), "sort %q: less(%q,%q)=%v and less(%q,%q)=%v (values %d,%d): the two keys have no fixed order", sp.name, pool[a.k].s, pool[b.k].s, x, pool[b.k].s, pool[a.k].s, y, a.v, b.v)
	}
	return nil
}

// checkTriple: S3 — a<b and b<c imply a<c.
func checkTriple(sp *spec, a, b, c nv) *fail {
	ab, f := sp.less(a, b)
	if f != nil || !ab {
		return f
	}
	bc, f := sp.less(b, c)
	if f != nil || !bc {
		return f
	}
	ac, f := sp.less(a, c)
	if f != nil || ac {
		return f
	}
	level, class := classOf(sp, a, b, c)
	return failf("C13/"+level+"/non-transitive/"+sigClass(class), "sort %q: %q < %q and %q < %q but not %q < %q (values %d,%d,%d)", sp.name, pool[a.k].s, pool[b.k].s, pool[b.k].s, pool[c.k].s, pool[a.k].s, pool[c.k].s, a.v, b.v, c.v)
}

// checkHistory: S2 "the same way every time" — the decision for (a,b) of an
// instance that compared (c,d) before equals the decision of a fresh instance.
func checkHistory(sp *spec, c, d, a, b nv) *fail {
	want, f := sp.less(a, b)
	if f != nil {
		return f
	}
	s, f := sp.fresh()
	if f != nil {
		return f
	}
	if _, f = call(s, c, d); f != nil {
		return f
	}
	got, f := call(s, a, b)
	if f != nil {
		return f
	}
	if got != want {
		level, class := classOfEx(sp, false, a, b, c, d)
		return failf("C13/"+level+"/decision-depends-on-earlier-comparison/"+sigClass(class), "sort %q: a fresh instance says less(%q,%q)=%v; an instance that compared (%q,%q) before says %v", sp.name, pool[a.k].s, pool[b.k].s, want, pool[c.k].s, pool[d.k].s, got)
	}
	return nil
}

// checkAggregators: the same data through the accessors the commands use
// (items are collected from Go maps before sorting). Only called when the
// canonical sequence exists, so the verdict does not depend on the map order.
func checkAggregators(sp *spec, data, canon []nv) (runs int, fs []*fail) {
	ks, vs := keysOf(data)
	level, _ := classify(sp.mode, ks, vs)
	want := names(canon)
	report := func(accessor string, got []string, arrival []nv) {
		if !equalStrings(got, want) {
			fs = append(fs, failf("C13/"+level+"/aggregator-order-differs/"+accessor, "sort %q: %s gives %q for samples arriving as %s; sorting the same keys and totals directly gives %q", sp.name, accessor, got, show(arrival), want))
		}
	}
	guard := func(accessor string, f func()) {
		defer func() {
			if p := recover(); p != nil {
				fs = append(fs, failf("C13/panic/"+accessor+"/"+panicClass(p), "panic in %s with sort %q for %s: %v", accessor, sp.name, show(data), p))
			}
		}()
		f()
	}
	for _, arrival := range [][]nv{data, reversed(data)} {
		arrival := arrival
		runs++
		guard("MatchCounter.ItemsSortedBy", func() {
			s, _ := sp.fresh()
			c := aggregation.NewCounter()
			for _, x := range arrival {
				c.Sample(fmt.Sprintf("%s\x00%d", pool[x.k].s, x.v))
			}
			var got []string
			for _, it := range c.ItemsSortedBy(len(arrival), s) {
				got = append(got, it.Name)
			}
			report("MatchCounter.ItemsSortedBy", got, arrival)
			// the first N rows (`-n N`) are the first N of that order, whatever
			// order the map hands the items over in (asked several times: every call
			// iterates the map afresh); a selection shortcut for N << groups must
			// not change which rows are shown
			for _, n := range []int{1, 2, 3, 5, len(arrival) / 3} {
				if n < 1 || 2*n >= len(arrival) || len(fs) > 0 {
					continue
				}
				for rep := 0; rep < 6; rep++ {
					s2, _ := sp.fresh()
					var top []string
					for _, it := range c.ItemsSortedBy(n, s2) {
						top = append(top, it.Name)
					}
					if !equalStrings(top, want[:n]) {
						fs = append(fs, failf("C13/"+level+"/aggregator-top-n-differs/MatchCounter.ItemsSortedBy", "sort %q: ItemsSortedBy(%d) gives %q for %d groups; the first %d of the full order are %q", sp.name, n, top, len(arrival), n, want[:n]))
						break
					}
				}
			}
		})
		guard("SubKeyCounter.ItemsSorted", func() {
			s, _ := sp.fresh()
			c := aggregation.NewSubKeyCounter()
			for _, x := range arrival {
				c.Sample(fmt.Sprintf("%s\x00k\x00%d", pool[x.k].s, x.v))
			}
			var got []string
			for _, it := range c.ItemsSorted(s) {
				got = append(got, it.Name)
			}
			report("SubKeyCounter.ItemsSorted", got, arrival)
		})
		guard("TableAggregator.OrderedRows", func() {
			s, _ := sp.fresh()
			t := aggregation.NewTable("\x00")
			for _, x := range arrival {
				t.Sample(fmt.Sprintf("c\x00%s\x00%d", pool[x.k].s, x.v))
			}
			var got []string
			for _, r := range t.OrderedRows(s) {
				got = append(got, r.Name())
			}
			report("TableAggregator.OrderedRows", got, arrival)
		})
		guard("TableAggregator.OrderedColumns", func() {
			s, _ := sp.fresh()
			t := aggregation.NewTable("\x00")
			for _, x := range arrival {
				t.Sample(fmt.Sprintf("%s\x00r\x00%d", pool[x.k].s, x.v))
			}
			report("TableAggregator.OrderedColumns", append([]string{}, t.OrderedColumns(s)...), arrival)
		})
		if sp.nameSorter != nil {
			for _, sortExpr := range []string{"", "{0}"} {
				sortExpr := sortExpr
				guard("AccumulatingGroup.Groups", func() {
					g := aggregation.NewAccumulatingGroup(funclib.NewKeyBuilder())
					if err := g.AddGroupExpr("g", "{0}"); err != nil {
						panic(err)
					}
					if err := g.AddDataExpr("n", "{sumi {.} 1}", "0"); err != nil {
						panic(err)
					}
					if sortExpr != "" {
						if err := g.SetSort(sortExpr); err != nil {
							panic(err)
						}
					}
					for _, x := range arrival {
						g.Sample(pool[x.k].s)
					}
					var got []string
					for _, k := range g.Groups(sp.nameSorter()) {
						got = append(got, string(k))
					}
					report("AccumulatingGroup.Groups", got, arrival)
				})
			}
		}
	}
	return
}

func equalStrings(a, b []string) bool {
	if len(a) != len(b) {
		return false
	}
	for i := range a {
		if a[i] != b[i] {
			return false
		}
	}
	return true
}
