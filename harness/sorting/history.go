package main

// HISTORY families for C13: "state reached through a history == state reached
// from scratch". The commands build their sorter(s) once and use them for every
// render (cmd/histo.go, bargraph.go, reduce.go: one; tabulate.go, heatmap.go,
// spark.go: a row sorter and a column sorter, used alternately). The statement
// makes the order a function of the keys and their values only, so
//
//  (H1) long-lived instance: ONE sorter instance sorts a list of data sets
//       A1..Am of DIFFERENT key classes and sizes (2..42 keys: insertion sort
//       and the code paths above 12), then the same list in reverse order;
//       every result must equal what a fresh instance gives for that data set.
//       text / numeric / value (every spelling, modifier and package
//       constructor) see lists that mix numbers, text, calendar names and
//       dates, and (value) the same names with different totals. contextual
//       and date see only homogeneous lists (all weekday names; all month
//       names; all ISO dates; all US dates), because their behaviour after a
//       key outside the first inferred set/layout is the recorded known
//       finding (sticky fallback) and is not re-reported here;
//  (H2) two instances: two sorters built by two calls of helpers.BuildSorter /
//       BuildSorterOrFail (the second also through the real --sort flag
//       definitions helpers.DefaultSortFlag / DefaultSortFlagWithDefault parsed
//       by urfave/cli) sort their own lists alternately A1 B1 A2 B2 ...; every
//       result must equal the fresh-instance result, i.e. the two instances
//       share no state - including two instances of the SAME sort name, where
//       a weekday list alternates with a month list and an ISO list with a US
//       list.

import (
	"fmt"
	"io"

	"rare/cmd/helpers"
	"rare/pkg/aggregation/sorting"

	"github.com/urfave/cli/v2"
)

var historySizes = []int{2, 3, 7, 12, 13, 30, 42}

// classSets: for each size two arrival orders (stride interleaving, reverse) of the class's first n keys.
func classSets(class string, vals func(i, n int) int64) (out [][]nv) {
	c := sizeClassByName(class)
	if c == nil {
		panic("harness: unknown size class " + class)
	}
	for _, n := range historySizes {
		if n > c.max {
			continue
		}
		d := c.data(n)
		if vals != nil {
			for i := range d {
				d[i].v = vals(i, len(d))
			}
		}
		stride := make([]nv, len(d))
		s := 3
		for gcdInt(s, len(d)) != 1 {
			s += 2
		}
		for i := range d {
			stride[i] = d[(i*s)%len(d)]
		}
		out = append(out, stride, reversed(d))
	}
	return
}

func gcdInt(a, b int) int {
	for b != 0 {
		a, b = b, a%b
	}
	return a
}

// mainViewSets: small mixed sets of the hand-written pool (numbers in several
// spellings, text, calendar names, dates, nan), consecutive windows of 4 keys.
func mainViewSets() (out [][]nv) {
	keys := views[0].keys
	for from := 0; from+4 <= len(keys); from += 3 {
		var d []nv
		for i := from; i < from+4; i++ {
			d = append(d, nv{keys[i], int64(1 + i%2)})
		}
		out = append(out, d)
	}
	return
}

func interleave(lists ...[][]nv) (out [][]nv) {
	for i := 0; ; i++ {
		any := false
		for _, l := range lists {
			if i < len(l) {
				out = append(out, l[i])
				any = true
			}
		}
		if !any {
			return
		}
	}
}

// historyLists: the data-set lists a long-lived instance of the mode may see
// (see the file comment). Each list is one history.
func historyLists(mode string) map[string][][]nv {
	switch mode {
	case "text", "numeric":
		return map[string][][]nv{"mixed-classes": interleave(
			classSets("integers", nil), classSets("text", nil), classSets("weekday-names", nil), classSets("number-spellings", nil),
			classSets("iso-dates", nil), classSets("numbers-and-text", nil), classSets("month-names", nil), classSets("us-dates", nil), mainViewSets())}
	case "value":
		// the same names with different totals, one after the other
		return map[string][][]nv{"mixed-classes-and-totals": interleave(
			classSets("value-distinct-totals", nil), classSets("value-three-totals", nil), classSets("value-equal-totals", nil), classSets("value-huge-totals", nil),
			classSets("integers", nil), classSets("weekday-names", func(i, n int) int64 { return int64(i % 2) }), mainViewSets())}
	case "contextual":
		return map[string][][]nv{"all-weekday": classSets("weekday-names", nil), "all-month": classSets("month-names", nil)}
	case "date":
		return map[string][][]nv{"all-iso-dates": classSets("iso-dates", nil), "all-us-dates": classSets("us-dates", nil),
			"all-ms-datetimes": classSets("iso-ms-datetimes", nil), "all-offset-datetimes": classSets("offset-datetimes", nil)}
	}
	panic("harness: unknown mode " + mode)
}

var historyListOrder = map[string][]string{
	"text": {"mixed-classes"}, "numeric": {"mixed-classes"}, "value": {"mixed-classes-and-totals"},
	"contextual": {"all-weekday", "all-month"}, "date": {"all-iso-dates", "all-us-dates", "all-ms-datetimes", "all-offset-datetimes"},
}

// expectFresh: what a fresh instance of the spec gives for the data set.
func expectFresh(sp *spec, d []nv) ([]nv, *fail) {
	s, f := sp.fresh()
	if f != nil {
		return nil, f
	}
	return sortOnce(s, d)
}

// checkLongLived (H1): one instance, the list forwards and then backwards.
func checkLongLived(sp *spec, listName string, list [][]nv) (sorts int, f *fail) {
	s, f := sp.fresh()
	if f != nil {
		return 0, f
	}
	idx := make([]int, 0, 2*len(list))
	for i := range list {
		idx = append(idx, i)
	}
	for i := len(list) - 1; i >= 0; i-- {
		idx = append(idx, i)
	}
	for step, i := range idx {
		want, f := expectFresh(sp, list[i])
		if f != nil {
			return sorts, f
		}
		got, f := sortOnce(s, list[i])
		sorts += 2
		if f != nil {
			return sorts, f
		}
		if !same(got, want) {
			ks, vs := keysOf(list[i])
			level, class := classify(sp.mode, ks, vs)
			prev := "nothing"
			if step > 0 {
				prev = brief(names(list[idx[step-1]]))
			}
			return sorts, failf("C13/"+level+"/order-depends-on-earlier-sort/"+class+"/long-lived-instance",
				"sort %q, history %s: ONE instance sorted %d data sets before (the last one %s) and now sorts %s to %s; a fresh instance sorts it to %s",
				sp.name, listName, step, prev, show2(list[i]), brief(names(got)), brief(names(want)))
		}
	}
	return sorts, nil
}

func show2(d []nv) string {
	if len(d) <= 14 {
		return show(d)
	}
	return show(d[:10]) + fmt.Sprintf(" ... (%d keys)", len(d))
}

// ---------------------------------------------------------------- two instances

// builder: one of the ways a command obtains its sorter from a sort name.
type builder struct {
	name  string
	build func(sortName string) (sorting.NameValueSorter, error)
}

func viaFlag(flag *cli.StringFlag, pass bool) func(string) (sorting.NameValueSorter, error) {
	return func(sortName string) (sorting.NameValueSorter, error) {
		var got string
		fl := *flag // the commands register the flag value itself; a copy per parse keeps the parses independent
		app := &cli.App{
			Name:   "x",
			Writer: io.Discard, ErrWriter: io.Discard,
			Flags:  []cli.Flag{&fl},
			Action: func(c *cli.Context) error { got = c.String(helpers.DefaultSortFlag.Name); return nil },
		}
		args := []string{"x"}
		if pass {
			args = append(args, "--sort", sortName)
		}
		if err := app.Run(args); err != nil {
			return nil, err
		}
		return helpers.BuildSorterOrFail(got), nil
	}
}

var builders = []builder{
	{"BuildSorter", helpers.BuildSorter},
	{"BuildSorterOrFail", func(n string) (sorting.NameValueSorter, error) { return helpers.BuildSorterOrFail(n), nil }},
	{"--sort-flag", viaFlag(helpers.DefaultSortFlag, true)},
}

// flagDefault: the sorter a command gets when --sort is not given and the flag was made with the given default.
func flagDefault(def string) (sorting.NameValueSorter, error) {
	return viaFlag(helpers.DefaultSortFlagWithDefault(def), false)(def)
}

var twoInstanceNames = []string{"text", "numeric", "contextual", "date", "value", "value:asc", "numeric:desc", "contextual:desc", "date:desc"}

// checkTwoInstances (H2): instance A (sort name a) and instance B (sort name b,
// built by builder bi) sort their lists alternately.
func checkTwoInstances(a, b string, bi int) (sorts int, f *fail) {
	spA, spB := specByName(a), specByName(b)
	if spA == nil || spB == nil {
		panic("harness: unknown sort name " + a + " / " + b)
	}
	pick := func(sp *spec, slot int) (string, [][]nv) {
		order := historyListOrder[sp.mode]
		lists := historyLists(sp.mode)
		if len(order) > 1 {
			return order[slot], lists[order[slot]]
		}
		// one mixed list: A takes the even entries, B the odd ones
		var out [][]nv
		for i, d := range lists[order[0]] {
			if i%2 == slot {
				out = append(out, d)
			}
		}
		return fmt.Sprintf("%s (entries %d mod 2)", order[0], slot), out
	}
	nameA, listA := pick(spA, 0)
	nameB, listB := pick(spB, 1)
	sA, err := helpers.BuildSorter(a)
	if err != nil {
		return 0, failf("C13/build-error/"+spA.mode, "BuildSorter(%q) failed: %v", a, err)
	}
	var sB sorting.NameValueSorter
	if bi < len(builders) {
		sB, err = builders[bi].build(b)
	} else {
		sB, err = flagDefault(b)
	}
	if err != nil || sB == nil {
		return 0, failf("C13/build-error/"+spB.mode, "building the second sorter %q failed: %v", b, err)
	}
	bname := "flag default"
	if bi < len(builders) {
		bname = builders[bi].name
	}
	n := len(listA)
	if len(listB) > n {
		n = len(listB)
	}
	for i := 0; i < 2*n; i++ {
		sp, s, list, which, other := spA, sA, listA, "first", nameB
		if i%2 == 1 {
			sp, s, list, which, other = spB, sB, listB, "second", nameA
		}
		if len(list) == 0 {
			continue
		}
		d := list[(i/2)%len(list)]
		want, f := expectFresh(sp, d)
		if f != nil {
			return sorts, f
		}
		got, f := sortOnce(s, d)
		sorts += 2
		if f != nil {
			return sorts, f
		}
		if !same(got, want) {
			ks, vs := keysOf(d)
			level, class := classify(sp.mode, ks, vs)
			return sorts, failf("C13/"+level+"/two-instances-share-state/"+class,
				"two sorters built by BuildSorter(%q) and %s(%q) are used alternately (the first on the history %s, the second on %s): after %d sorts the %s instance sorts %s to %s; a fresh instance sorts it to %s (the other instance has been sorting %s)",
				a, bname, b, nameA, nameB, i, which, show2(d), brief(names(got)), brief(names(want)), other)
		}
	}
	return sorts, nil
}
