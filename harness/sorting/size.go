package main

// SIZE families for C13. The exhaustive views sort sets of at most 5 keys (7
// weekdays, 12 months): insertion sort only. Go's sort switches algorithm at
// 12 elements and uses further code paths above (ninther pivots at 50, pattern
// detection, heap sort fallback); a comparator that is only consulted in a
// different ORDER there, a scratch array of fixed size, a key compared by a
// bounded prefix or a number compared through a narrower type are invisible in
// the small views. Each class below is ONE simple generated key set
// parametrised by n (element i carries i: its name, its magnitude, its
// calendar position, its date or its total), sorted for n = 0..70 and
// 2^k-1, 2^k, 2^k+1 (k >= 7) up to the class's bound, handed to the sorter in
// a bounded family of permutations (identity, reverse, rotations, adjacent
// transpositions, stride interleavings), each with a fresh sorter instance.
//
// Oracle (the statement's clauses, as in the small views):
//   S1/S4 every permutation sorts to ONE sequence
//   S5-S8 the semantic clause of the mode on that sequence (semanticViolation)
//   S2    every adjacent pair of the sorted sequence is decided the same way
//         by a fresh instance asked about that pair alone ("ordered the same
//         way every time")
//   S9    inside a name group, equal directions agree and opposite directions
//         are exact reverses
// Only homogeneous classes and fresh instances are used, so none of the known
// contextual/date findings (mixtures, re-use after foreign keys) is involved.

import (
	"fmt"
	"math"
	"strconv"
	"strings"
	"time"
)

type sizeClass struct {
	name  string
	modes []string // sort modes the class is run under
	max   int      // number of keys available
	maxQ  int      // largest n, quick
	maxT  int      // largest n, thorough
	keys  []int    // pool indexes, element i carries i
	// fixed: the class has a fixed number of keys and n is the key LENGTH
	// (keysFor builds the set for n)
	keysFor func(n int) []int
	// value sorts: the totals of the keys ("" = alternating 1,2 as in the small views)
	values func(i, n int) int64
}

var poolIndexMap map[string]int

// internKey returns the pool index of a generated key, adding it if needed.
func internKey(k poolKey) int {
	if poolIndexMap == nil {
		poolIndexMap = map[string]int{}
		for i := range pool {
			if _, dup := poolIndexMap[pool[i].s]; !dup {
				poolIndexMap[pool[i].s] = i
			}
		}
	}
	if i, ok := poolIndexMap[k.s]; ok {
		if pool[i].kind != k.kind || (k.kind == kNumber && pool[i].num != k.num) || ((k.kind == kWeekday || k.kind == kMonth) && pool[i].pos != k.pos) || (k.kind == kDate && (pool[i].hasInst != k.hasInst || pool[i].sec != k.sec || pool[i].ns != k.ns)) {
			panic("harness: pool disagrees about " + k.s)
		}
		return i
	}
	k.generated = true
	pool = append(pool, k)
	poolIndexMap[k.s] = len(pool) - 1
	return len(pool) - 1
}

const (
	sizeMaxQuick    = 1025
	sizeMaxThorough = 16385
)

func letters3(i int) string {
	return string([]byte{'a' + byte(i/676%26), 'a' + byte(i/26%26), 'a' + byte(i%26)})
}

func buildSizeClasses() []sizeClass {
	var out []sizeClass
	gen := func(name string, modes []string, max, maxQ, maxT int, f func(i int) poolKey) *sizeClass {
		c := sizeClass{name: name, modes: modes, max: max, maxQ: maxQ, maxT: maxT}
		for i := 0; i < max; i++ {
			c.keys = append(c.keys, internKey(f(i)))
		}
		out = append(out, c)
		return &out[len(out)-1]
	}
	nameModes := []string{"text", "numeric", "contextual"}
	// integers ..., -6, -3, 0, 3, 6, ... in ascending order of magnitude
	gen("integers", nameModes, sizeMaxThorough, sizeMaxQuick, sizeMaxThorough, func(i int) poolKey {
		v := (i - 40) * 3
		return poolKey{s: strconv.Itoa(v), kind: kNumber, num: float64(v)}
	})
	// distinct magnitudes in four spellings: 12, 13.25, 14e0, -15
	gen("number-spellings", []string{"numeric", "contextual"}, sizeMaxThorough, sizeMaxQuick, sizeMaxThorough, func(i int) poolKey {
		switch i % 4 {
		case 0:
			return poolKey{s: strconv.Itoa(i), kind: kNumber, num: float64(i)}
		case 1:
			return poolKey{s: strconv.Itoa(i) + ".25", kind: kNumber, num: float64(i) + 0.25}
		case 2:
			return poolKey{s: strconv.Itoa(i) + "e0", kind: kNumber, num: float64(i)}
		}
		return poolKey{s: "-" + strconv.Itoa(i), kind: kNumber, num: -float64(i)}
	})
	// magnitudes 1e0, -1e0, 1e4, -1e4, ... up to 1e296 (beyond every narrower floating-point or integer type)
	gen("number-magnitudes", []string{"numeric", "contextual"}, 150, 150, 150, func(i int) poolKey {
		e := i / 2 * 4
		if i%2 == 0 {
			return poolKey{s: "1e" + strconv.Itoa(e), kind: kNumber, num: math.Pow10(e)}
		}
		return poolKey{s: "-1e" + strconv.Itoa(e), kind: kNumber, num: -math.Pow10(e)}
	})
	// text: k + three letters, in byte order
	gen("text", nameModes, sizeMaxThorough, sizeMaxQuick, sizeMaxThorough, func(i int) poolKey {
		return poolKey{s: "k" + letters3(i), kind: kText}
	})
	// numbers and text alternating
	gen("numbers-and-text", []string{"text", "numeric", "contextual"}, sizeMaxThorough, sizeMaxQuick, sizeMaxThorough, func(i int) poolKey {
		if i%2 == 0 {
			return poolKey{s: strconv.Itoa(i*5 - 100), kind: kNumber, num: float64(i*5 - 100)}
		}
		return poolKey{s: "w" + letters3(i), kind: kText}
	})
	base := time.Date(2000, 1, 1, 0, 0, 0, 0, time.UTC)
	gen("iso-dates", []string{"date"}, 4097, sizeMaxQuick, 4097, func(i int) poolKey {
		return poolKey{s: base.AddDate(0, 0, 3*i).Format("2006-01-02"), kind: kDate, layout: "iso", day: 3 * i}
	})
	gen("us-dates", []string{"date"}, 4097, sizeMaxQuick, 4097, func(i int) poolKey {
		return poolKey{s: base.AddDate(0, 0, 3*i).Format("01/02/2006"), kind: kDate, layout: "us", day: 3 * i}
	})
	// timestamps of one layout, 37 ms apart (27 keys per second) / one wall clock under offsets +14:00, +13:59, ...
	// (one minute apart, in the opposite order of the text)
	gen("iso-ms-datetimes", []string{"date"}, 1025, 257, 1025, func(i int) poolKey {
		t := i * 37
		return stampKey("iso-ms", stamp{Y: 2022, M: 3, D: 4, h: 10, m: t / 60000, s: t / 1000 % 60, ns: t % 1000 * ms})
	})
	gen("offset-datetimes", []string{"date"}, 1025, 257, 1025, func(i int) poolKey {
		return stampKey("iso-offset", stamp{Y: 2022, M: 3, D: 4, h: 10, off: 840 - i})
	})
	// weekday / month names: full name and abbreviation in three letter cases,
	// element j = (form j/7, day j%7): the first 7 are one spelling of each day
	calendar := func(names []string, k kind) (keys []poolKey) {
		seen := map[string]bool{}
		for form := range spellingForms {
			for pos, nm := range names {
				s := spell(nm, form)
				if !seen[s] {
					seen[s] = true
					keys = append(keys, poolKey{s: s, kind: k, pos: pos})
				}
			}
		}
		return
	}
	wd := calendar(weekdayNames, kWeekday)
	gen("weekday-names", []string{"contextual", "date"}, len(wd), len(wd), len(wd), func(i int) poolKey { return wd[i] })
	mo := calendar(monthNames, kMonth)
	gen("month-names", []string{"contextual", "date"}, len(mo), len(mo), len(mo), func(i int) poolKey { return mo[i] })

	// key LENGTH: 13 keys with a common prefix of n bytes (text: 2 more bytes) / n leading zeros (numbers: 1-4 digits)
	lengthClass := func(name string, modes []string, f func(n, j int) poolKey) {
		out = append(out, sizeClass{name: name, modes: modes, max: 13, maxQ: 4097, maxT: 65537, keysFor: func(n int) []int {
			var ks []int
			for j := 0; j < 13; j++ {
				ks = append(ks, internKey(f(n, j)))
			}
			return ks
		}})
	}
	lengthClass("text-key-length", nameModes, func(n, j int) poolKey {
		b := make([]byte, n)
		for i := range b {
			b[i] = 'a' + byte((i*7+i/26)%26)
		}
		return poolKey{s: "p" + string(b) + string([]byte{'a' + byte(j/4), 'a' + byte(j%4)}), kind: kText}
	})
	lengthClass("number-key-length", []string{"numeric", "contextual"}, func(n, j int) poolKey {
		// 2, 30, 400, 5, 60, 700, ...: one to four digits, so that the byte order of the keys is not their order of magnitude
		v := j + 2
		for d := 0; d < j%3; d++ {
			v *= 10
		}
		return poolKey{s: strings.Repeat("0", n) + strconv.Itoa(v), kind: kNumber, num: float64(v)}
	})

	// value sorts: text keys with four patterns of totals
	valueClass := func(name string, f func(i, n int) int64) {
		c := gen(name, []string{"value"}, sizeMaxThorough, sizeMaxQuick, sizeMaxThorough, func(i int) poolKey {
			return poolKey{s: "k" + letters3(i), kind: kText}
		})
		c.values = f
	}
	valueClass("value-distinct-totals", func(i, n int) int64 { return int64((i*7919)%100003) - 50000 }) // 100003 is prime: distinct for i < 100003
	valueClass("value-three-totals", func(i, n int) int64 { return int64(i%3) - 1 })
	valueClass("value-equal-totals", func(i, n int) int64 { return 7 })
	valueClass("value-huge-totals", func(i, n int) int64 {
		if i%2 == 0 {
			return 4611686018427387904 + int64(i)
		}
		return -4611686018427387904 - int64(i)
	})
	return out
}

var sizeClasses = buildSizeClasses()

func sizeClassByName(n string) *sizeClass {
	for i := range sizeClasses {
		if sizeClasses[i].name == n {
			return &sizeClasses[i]
		}
	}
	return nil
}

// sizesUpTo: 0..70 and 2^k-1, 2^k, 2^k+1 for k = 7.. while <= max.
func sizesUpTo(max int) []int {
	var out []int
	for n := 0; n <= 70 && n <= max; n++ {
		out = append(out, n)
	}
	for k := 7; ; k++ {
		p := 1 << k
		if p-1 > max {
			break
		}
		for _, n := range []int{p - 1, p, p + 1} {
			if n <= max {
				out = append(out, n)
			}
		}
	}
	return out
}

func (c *sizeClass) sizes(quick bool) []int {
	if quick {
		return sizesUpTo(c.maxQ)
	}
	return sizesUpTo(c.maxT)
}

// data: the key set of the class for n, in generation order (element i carries i).
func (c *sizeClass) data(n int) []nv {
	var ks []int
	if c.keysFor != nil {
		ks = c.keysFor(n)
	} else {
		ks = c.keys[:n]
	}
	out := make([]nv, len(ks))
	for i, k := range ks {
		v := int64(1 + i%2)
		if c.values != nil {
			v = c.values(i, len(ks))
		}
		out[i] = nv{k, v}
	}
	return out
}

// forEachSizePerm: the bounded family of permutations of a generated set of m
// keys. Up to 70 keys: identity, reverse, every rotation, every adjacent
// transposition of the identity, the stride interleavings i -> (i*s) mod m for
// s in {2,3,5,7} made coprime to m. Above: identity, reverse, rotations by 1,
// m/2 and m-1, transpositions at the front, in the middle and at the end, two
// stride interleavings.
func forEachSizePerm(m int, f func(p []int) bool) {
	p := make([]int, m)
	ident := func() {
		for i := range p {
			p[i] = i
		}
	}
	ident()
	if !f(p) || m < 2 {
		return
	}
	for i := range p {
		p[i] = m - 1 - i
	}
	if !f(p) {
		return
	}
	var rots, swaps []int
	if m <= 70 {
		for r := 1; r < m; r++ {
			rots = append(rots, r)
		}
		for j := 0; j+1 < m; j++ {
			swaps = append(swaps, j)
		}
	} else {
		rots = []int{1, m / 2, m - 1}
		swaps = []int{0, m / 2, m - 2}
	}
	for _, r := range rots {
		for i := range p {
			p[i] = (i + r) % m
		}
		if !f(p) {
			return
		}
	}
	for _, j := range swaps {
		ident()
		p[j], p[j+1] = p[j+1], p[j]
		if !f(p) {
			return
		}
	}
	gcd := func(a, b int) int {
		for b != 0 {
			a, b = b, a%b
		}
		return a
	}
	strides := []int{2, 3, 5, 7}
	if m > 70 {
		strides = []int{2, m*618/1000 + 1}
	}
	seen := map[int]bool{1: true, m - 1: true}
	for _, s := range strides {
		for s < m && gcd(s, m) != 1 {
			s++
		}
		if s >= m || seen[s] {
			continue
		}
		seen[s] = true
		for i := range p {
			p[i] = (i * s) % m
		}
		if !f(p) {
			return
		}
	}
}

func sizeSigClass(n int) string {
	switch {
	case n < 12:
		return "below-12-keys"
	case n <= 70:
		return "12-to-70-keys"
	}
	return "more-than-70-keys"
}

// checkSizeData: one (spec, class, n). Returns the canonical sequence (nil if none).
func checkSizeData(sp *spec, data []nv) (canon []nv, sorts int, fs []*fail) {
	ks, vs := keysOf(data)
	level, class := classify(sp.mode, ks, vs)
	suffix := "/" + class + "/size-family"
	var first, firstIn []nv
	ok := true
	forEachSizePerm(len(data), func(p []int) bool {
		in := permuted(data, p)
		s, f := sp.fresh()
		if f != nil {
			fs, ok = append(fs, f), false
			return false
		}
		out, f := sortOnce(s, in)
		sorts++
		if f != nil {
			f.sig += "/size-family"
			fs, ok = append(fs, f), false
			return false
		}
		if first == nil {
			first, firstIn = out, in
			return true
		}
		if !same(out, first) {
			fs = append(fs, failf("C13/"+level+"/order-depends-on-permutation"+suffix,
				"sort %q, %d keys: the same data handed over in two orders sorts to two different sequences\n  in %s -> %s\n  in %s -> %s", sp.name, len(data), brief(names(firstIn)), brief(names(first)), brief(names(in)), brief(names(out))))
			ok = false
			return false
		}
		return true
	})
	if !ok {
		return nil, sorts, fs
	}
	if first == nil {
		first = []nv{}
	}
	oks, ovs := keysOf(first)
	if msg := semanticViolation(sp.mode, sp.desc, oks, ovs); msg != "" {
		dir := "ascending"
		if sp.desc {
			dir = "descending"
		}
		fs = append(fs, failf("C13/"+level+"/wrong-order"+suffix, "sort %q (%s), %d keys: %s: %s", sp.name, dir, len(data), msg, brief(names(first))))
	}
	// S2: the sorted sequence agrees with the decision a fresh instance takes on each adjacent pair alone
	for i := 0; i+1 < len(first); i++ {
		x, y := first[i], first[i+1]
		xy, f := sp.less(x, y)
		if f != nil {
			fs = append(fs, f)
			break
		}
		yx, f := sp.less(y, x)
		if f != nil {
			fs = append(fs, f)
			break
		}
		if !xy || yx {
			fs = append(fs, failf("C13/"+level+"/sorted-sequence-contradicts-pairwise-decision"+suffix,
				"sort %q, %d keys: the sorted sequence has %q (total %d) directly before %q (total %d), but a fresh instance asked about this pair alone says less(%q,%q)=%v, less(%q,%q)=%v",
				sp.name, len(data), pool[x.k].s, x.v, pool[y.k].s, y.v, pool[x.k].s, pool[y.k].s, xy, pool[y.k].s, pool[x.k].s, yx))
			break
		}
	}
	return first, sorts, fs
}

func brief(ss []string) string {
	if len(ss) <= 24 {
		return fmt.Sprintf("%q", ss)
	}
	return fmt.Sprintf("%q ... %q (%d keys)", ss[:14], ss[len(ss)-6:], len(ss))
}

// sizeSpecs: the specs the size families run under: every mode with ”, :asc
// and :desc through helpers.BuildSorter, and every package sorter.
func sizeSpecs() (order []string, groups map[string][]*spec) {
	groups = map[string][]*spec{}
	for _, sp := range specs {
		if !(sp.reuse || strings.HasPrefix(sp.name, "pkg:")) {
			continue
		}
		if _, ok := groups[sp.group]; !ok {
			order = append(order, sp.group)
		}
		groups[sp.group] = append(groups[sp.group], sp)
	}
	return
}

func (c *sizeClass) runsUnder(mode string) bool {
	for _, m := range c.modes {
		if m == mode {
			return true
		}
	}
	return false
}
