package main

// Date views for C13: homogeneous sets of timestamps of ONE layout whose keys
// differ only in one aspect - the fractional second (ms, us, ns), the second,
// the minute, the numeric zone offset (same wall clock = different instants;
// different wall clocks = the same instant), or the year (before 1970, after
// 2038, beyond what 64-bit nanoseconds hold). The hand-written pool only has
// whole days, so a comparator that looks at a coarser or narrower quantity than
// the instant (whole seconds, the wall clock, 32-bit seconds, int64 nanoseconds)
// is invisible there.
//
// The keys are a table of calendar fields; the reference writes the text of a
// key from its fields and computes its instant with days-from-civil arithmetic
// (nothing of package time, nothing of rare). Clauses: S8 "`date` orders
// chronologically" (by instant; keys that denote the SAME instant may come in
// any order, but S2 "any two distinct keys are ordered the same way every time"
// still demands one fixed order of them), S1-S4, S9.

import (
	"fmt"
	"time"
)

type stamp struct {
	Y, M, D, h, m, s int
	ns               int // fraction of the second, nanoseconds
	off              int // zone offset in minutes east of UTC
}

// daysFromCivil: days since 1970-01-01 of a proleptic Gregorian date.
func daysFromCivil(y, m, d int) int64 {
	yy := int64(y)
	if m <= 2 {
		yy--
	}
	era := yy / 400
	if yy < 0 && yy%400 != 0 {
		era--
	}
	yoe := yy - era*400
	mp := int64((m + 9) % 12)
	doy := (153*mp+2)/5 + int64(d) - 1
	doe := yoe*365 + yoe/4 - yoe/100 + doy
	return era*146097 + doe - 719468
}

func (t stamp) instant() (sec, ns int64) {
	return daysFromCivil(t.Y, t.M, t.D)*86400 + int64(t.h)*3600 + int64(t.m)*60 + int64(t.s) - int64(t.off)*60, int64(t.ns)
}

var monthAbbr = [...]string{"Jan", "Feb", "Mar", "Apr", "May", "Jun", "Jul", "Aug", "Sep", "Oct", "Nov", "Dec"}

func (t stamp) offset(colon bool) string {
	o, sign := t.off, "+"
	if o < 0 {
		o, sign = -o, "-"
	}
	if colon {
		return fmt.Sprintf("%s%02d:%02d", sign, o/60, o%60)
	}
	return fmt.Sprintf("%s%02d%02d", sign, o/60, o%60)
}

// dateLayouts: how a stamp is written. Every one of them is a shape that
// dateparse.ParseFormat resolves to a Go layout which reads all keys of the view.
var dateLayouts = map[string]func(t stamp) string{
	"iso-ms": func(t stamp) string {
		return fmt.Sprintf("%04d-%02d-%02d %02d:%02d:%02d.%03d", t.Y, t.M, t.D, t.h, t.m, t.s, t.ns/1000000)
	},
	"iso-us": func(t stamp) string {
		return fmt.Sprintf("%04d-%02d-%02d %02d:%02d:%02d.%06d", t.Y, t.M, t.D, t.h, t.m, t.s, t.ns/1000)
	},
	"iso-ns": func(t stamp) string {
		return fmt.Sprintf("%04d-%02d-%02d %02d:%02d:%02d.%09d", t.Y, t.M, t.D, t.h, t.m, t.s, t.ns)
	},
	"us-ms": func(t stamp) string {
		return fmt.Sprintf("%02d/%02d/%04d %02d:%02d:%02d.%03d", t.M, t.D, t.Y, t.h, t.m, t.s, t.ns/1000000)
	},
	"rfc3339-ms-offset": func(t stamp) string {
		return fmt.Sprintf("%04d-%02d-%02dT%02d:%02d:%02d.%03d%s", t.Y, t.M, t.D, t.h, t.m, t.s, t.ns/1000000, t.offset(true))
	},
	"iso-seconds": func(t stamp) string {
		return fmt.Sprintf("%04d-%02d-%02d %02d:%02d:%02d", t.Y, t.M, t.D, t.h, t.m, t.s)
	},
	"us-seconds": func(t stamp) string {
		return fmt.Sprintf("%02d/%02d/%04d %02d:%02d:%02d", t.M, t.D, t.Y, t.h, t.m, t.s)
	},
	"iso-minutes": func(t stamp) string {
		return fmt.Sprintf("%04d-%02d-%02d %02d:%02d", t.Y, t.M, t.D, t.h, t.m)
	},
	"iso-offset": func(t stamp) string {
		return fmt.Sprintf("%04d-%02d-%02d %02d:%02d:%02d %s", t.Y, t.M, t.D, t.h, t.m, t.s, t.offset(false))
	},
	"rfc3339-offset": func(t stamp) string {
		return fmt.Sprintf("%04d-%02d-%02dT%02d:%02d:%02d%s", t.Y, t.M, t.D, t.h, t.m, t.s, t.offset(true))
	},
	"nginx-offset": func(t stamp) string {
		return fmt.Sprintf("%02d/%s/%04d:%02d:%02d:%02d %s", t.D, monthAbbr[t.M-1], t.Y, t.h, t.m, t.s, t.offset(false))
	},
}

// stampKey: the pool entry of a stamp written in a layout.
func stampKey(layout string, t stamp) poolKey {
	w := dateLayouts[layout]
	if w == nil {
		panic("harness: unknown date layout " + layout)
	}
	s := w(t)
	sec, ns := t.instant()
	// harness self-check (never a finding): the table's arithmetic against package time
	if g := time.Date(t.Y, time.Month(t.M), t.D, t.h, t.m, t.s, t.ns, time.FixedZone("", t.off*60)); g.Unix() != sec || int64(g.Nanosecond()) != ns {
		panic(fmt.Sprintf("harness self-check: %s is %d.%09d by the table, %d.%09d by package time", s, sec, ns, g.Unix(), g.Nanosecond()))
	}
	return poolKey{s: s, kind: kDate, layout: layout, hasInst: true, sec: sec, ns: ns}
}

// dateKey returns the pool index of a stamp written in a layout, adding it to
// the pool when needed.
func dateKey(layout string, t stamp) int {
	k := stampKey(layout, t)
	s, sec, ns := k.s, k.sec, k.ns
	if i := poolIndex(s); i >= 0 {
		if pool[i].kind != kDate || pool[i].layout != layout || pool[i].sec != sec || pool[i].ns != ns {
			panic("harness: pool disagrees about " + s)
		}
		pool[i].generated = false
		return i
	}
	pool = append(pool, k)
	return len(pool) - 1
}

const ms = 1000000

func dateViews() []view {
	var out []view
	mk := func(name, aspect, layout string, stamps ...stamp) {
		vw := view{name: "date/" + name, values: []int64{1, 2}, maxSetQ: 4, maxSetT: 5, dateOnly: true, fullSet: true, spelling: aspect}
		for _, t := range stamps {
			vw.keys = append(vw.keys, dateKey(layout, t))
		}
		out = append(out, vw)
	}
	d := func(h, m, s, ns int) stamp { return stamp{Y: 2022, M: 3, D: 4, h: h, m: m, s: s, ns: ns} }
	o := func(t stamp, off int) stamp { t.off = off; return t }

	// --- fractional seconds: several keys inside one second, the neighbouring seconds
	mk("sub-second-ms", "sub-second", "iso-ms",
		d(10, 0, 0, 0), d(10, 0, 0, 125*ms), d(10, 0, 0, 250*ms), d(10, 0, 0, 750*ms), d(10, 0, 0, 999*ms), d(10, 0, 1, 0), d(9, 59, 59, 999*ms))
	mk("sub-second-us", "sub-second", "iso-us",
		d(10, 0, 0, 0), d(10, 0, 0, 1000), d(10, 0, 0, 2000), d(10, 0, 0, 500*ms), d(10, 0, 0, 999999000), d(10, 0, 1, 0))
	mk("sub-second-ns", "sub-second", "iso-ns",
		d(10, 0, 0, 0), d(10, 0, 0, 1), d(10, 0, 0, 2), d(10, 0, 0, 123456789), d(10, 0, 0, 999999999), d(10, 0, 1, 0))
	// month/day/year: the byte order of the keys is not their chronological order
	mk("sub-second-ms-us-layout", "sub-second", "us-ms",
		d(10, 0, 0, 0), d(10, 0, 0, 1*ms), d(10, 0, 0, 500*ms), d(10, 0, 1, 0),
		stamp{Y: 2021, M: 12, D: 31, h: 23, m: 59, s: 59, ns: 999 * ms}, stamp{Y: 2021, M: 12, D: 31, h: 23, m: 59, s: 59, ns: 1 * ms})
	// fraction and offset together: four keys inside the second 09:00:00Z written in three zones
	mk("sub-second-ms-with-offset", "sub-second", "rfc3339-ms-offset",
		o(d(10, 0, 0, 250*ms), 60), o(d(10, 0, 0, 750*ms), 60), o(d(9, 0, 0, 500*ms), 0), o(d(1, 0, 0, 100*ms), -480), o(d(9, 0, 1, 0), 0), o(d(14, 29, 59, 900*ms), 330))

	// --- seconds and minutes
	mk("seconds", "seconds", "iso-seconds",
		d(10, 0, 0, 0), d(10, 0, 1, 0), d(10, 0, 2, 0), d(10, 0, 59, 0), d(10, 1, 0, 0), d(9, 59, 59, 0))
	mk("minutes", "minutes", "iso-minutes",
		d(10, 0, 0, 0), d(10, 1, 0, 0), d(10, 59, 0, 0), d(11, 0, 0, 0), d(9, 59, 0, 0), stamp{Y: 2022, M: 3, D: 3, h: 23, m: 59})

	// --- numeric zone offsets
	// one wall clock in six zones: six instants, in the opposite order of the offsets
	mk("offsets-same-wall-clock", "numeric-offset", "iso-offset",
		o(d(10, 0, 0, 0), 0), o(d(10, 0, 0, 0), 60), o(d(10, 0, 0, 0), -60), o(d(10, 0, 0, 0), 330), o(d(10, 0, 0, 0), -480), o(d(10, 0, 0, 0), 840))
	// wall clocks and dates that order differently from the instants
	mk("offsets-across-midnight", "numeric-offset", "rfc3339-offset",
		o(d(0, 30, 0, 0), 60),                            // 03-03 23:30Z
		o(stamp{Y: 2022, M: 3, D: 3, h: 23, m: 45}, 0),   // 03-03 23:45Z
		o(stamp{Y: 2022, M: 3, D: 3, h: 20}, -300),       // 03-04 01:00Z
		o(d(0, 59, 59, 0), 0),                            // 03-04 00:59:59Z
		o(d(10, 29, 0, 0), 570),                          // 03-04 00:59Z
		o(stamp{Y: 2022, M: 3, D: 5, h: 1, m: 0}, 14*60)) // 03-04 11:00Z
	mk("offsets-nginx", "numeric-offset", "nginx-offset",
		o(d(10, 0, 0, 0), 0), o(d(10, 0, 0, 0), 100), o(d(10, 0, 0, 0), -100), o(d(10, 0, 1, 0), 100), o(d(8, 20, 2, 0), 0))
	// four spellings of ONE instant (10:00:00Z) and two neighbours
	mk("offsets-same-instant", "numeric-offset", "iso-offset",
		o(d(10, 0, 0, 0), 0), o(d(11, 0, 0, 0), 60), o(d(2, 0, 0, 0), -480), o(d(15, 30, 0, 0), 330), o(d(10, 0, 1, 0), 0), o(d(10, 59, 59, 0), 60))

	// --- years: before 1970, the 32-bit seconds boundaries, beyond 64-bit nanoseconds (1677-09-21 .. 2262-04-11)
	y := func(Y, M, D, h, m, s int) stamp { return stamp{Y: Y, M: M, D: D, h: h, m: m, s: s} }
	mk("years", "years-outside-1970-2038", "iso-seconds",
		y(1600, 1, 1, 0, 0, 0), y(1901, 12, 13, 20, 45, 51), y(1969, 12, 31, 23, 59, 59), y(1970, 1, 1, 0, 0, 0), y(2038, 1, 19, 3, 14, 8), y(2262, 4, 12, 0, 0, 0), y(9999, 12, 31, 23, 59, 59))
	mk("years-us-layout", "years-outside-1970-2038", "us-seconds",
		y(1969, 12, 31, 23, 59, 59), y(1970, 1, 1, 0, 0, 0), y(2038, 1, 19, 3, 14, 7), y(2038, 1, 19, 3, 14, 8), y(1901, 12, 13, 20, 45, 52), y(2262, 4, 12, 0, 0, 0), y(1600, 2, 29, 0, 0, 0))
	return out
}

// chrono: the key's place in time as (seconds, nanoseconds); the whole-day
// keys of the hand-written pool and of the size families carry a day number.
func (k *poolKey) chrono() (int64, int64) {
	if k.hasInst {
		return k.sec, k.ns
	}
	return int64(k.day) * 86400, 0
}

func chronoLess(a, b *poolKey) bool {
	as, an := a.chrono()
	bs, bn := b.chrono()
	return as < bs || (as == bs && an < bn)
}

// chronological: non-decreasing (desc: non-increasing) by instant.
func chronological(out []*poolKey, desc bool) bool {
	for i := 0; i+1 < len(out); i++ {
		x, y := out[i], out[i+1]
		if desc {
			x, y = y, x
		}
		if chronoLess(y, x) {
			return false
		}
	}
	return true
}

// sameInstant: two of the keys denote one instant.
func sameInstant(keys []*poolKey) bool {
	for i := range keys {
		for j := i + 1; j < len(keys); j++ {
			if !chronoLess(keys[i], keys[j]) && !chronoLess(keys[j], keys[i]) {
				return true
			}
		}
	}
	return false
}
