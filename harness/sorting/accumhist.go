package main

// OPERATION HISTORIES of the accumulating group (rare reduce): the order of
// Groups() "depends only on the set of keys and their values" - the values
// being those of the sort expression that is in effect. cmd/reduce.go sets the
// sort expression once, but AccumulatingGroup.SetSort is a public operation
// that can be called at any time, can be called again, and can FAIL; a failed
// call "returns an error", i.e. reports that nothing was set. So on one
// long-lived aggregator, for every sequence of
//
//	S:<sample>         Sample
//	SetSort:<expr>     a valid expression ({v}: the sum column; {n}{0}: count then
//	                   group key), an invalid one (unterminated brace, constant
//	                   text before an unterminated brace, unknown function,
//	                   empty statement) or the empty expression
//	Groups             Groups(ByName) and Groups(Reverse(ByName)), each twice
//
// the order returned by Groups() (at every Groups operation and after the last
// operation) must be the one dictated by the LAST ACCEPTED SetSort (none: by
// group key) applied to the fold of the samples:
//
//	(R) reference: the groups sorted as text by the value the accepted
//	    expression has for them, computed by the harness from its own fold
//	    (sum and count per group); reversed for Reverse(ByName). Demanded only
//	    when those values are pairwise distinct: groups with EQUAL sort values
//	    (always so after SetSort("")) may come in any order, but each value
//	    sequence must still be sorted.
//	(D) differential: a fresh aggregator that received the same samples and only
//	    the ACCEPTED SetSort calls returns the same order (demanded under the
//	    same condition), and accepts every call the long-lived one accepted.
//	(T) repeatable: two consecutive Groups() calls give the same order (same
//	    condition).
//
// A rejected call must therefore leave the aggregator as it was.

import (
	"fmt"
	"os"
	"sort"
	"strconv"
	"strings"

	"rare/pkg/aggregation"
	"rare/pkg/aggregation/sorting"
	"rare/pkg/expressions"
	"rare/pkg/expressions/funclib"
)

const (
	accSortSum   = "{v}"
	accSortCount = "{n}{0}"
)

var accumOpAlphabet = []string{
	"S:a\x003", "S:b\x001", "S:c\x002", "S:b\x004",
	"SetSort:" + accSortSum, "SetSort:" + accSortCount,
	"SetSort:{v", "SetSort:-{n", "SetSort:{nosuchfn {v}}", "SetSort:{}",
	"SetSort:",
	"Groups",
}

func accumOpsDepth(quick bool) int {
	if quick {
		return 5
	}
	return 6
}

// two compilers per worker process: the long-lived aggregators share one (as a
// command has one for all its expressions), the fresh reference aggregators
// another that never sees a rejected expression
var accumHistKB, accumFreshKB *expressions.KeyBuilder

// demandTieOrder: development switch, off in the registered check (see FINDINGS.md "sort-expression ties").
var demandTieOrder = os.Getenv("VERIF_C13_TIES") != "0"

func newAccumFor(kb **expressions.KeyBuilder) *aggregation.AccumulatingGroup {
	if *kb == nil {
		*kb = funclib.NewKeyBuilder()
	}
	g := aggregation.NewAccumulatingGroup(*kb)
	if err := g.AddGroupExpr("g", "{1}"); err != nil {
		panic(err)
	}
	if err := g.AddDataExpr("n", "{sumi {.} 1}", "0"); err != nil {
		panic(err)
	}
	if err := g.AddDataExpr("v", "{sumi {.} {2}}", "0"); err != nil {
		panic(err)
	}
	return g
}

type accumFold struct {
	n, v map[string]int
}

// sortValue: the value the accepted sort expression has for a group; ok=false
// if the reference does not model the expression.
func (f *accumFold) sortValue(expr *string, g string) (string, bool) {
	switch {
	case expr == nil:
		return g, true // no sort expression: by group key
	case *expr == "":
		return "", true
	case *expr == accSortSum:
		return strconv.Itoa(f.v[g]), true
	case *expr == accSortCount:
		return strconv.Itoa(f.n[g]) + g, true
	}
	return "", false
}

func groupNames(gs []aggregation.GroupKey) []string {
	out := make([]string, len(gs))
	for i, g := range gs {
		out[i] = string(g)
	}
	return out
}

// runAccumOps executes one operation history. groupsCalls = Groups() calls made
// on the long-lived aggregator; final = its last order under ByName.
func runAccumOps(ops []string) (fs []*fail, groupsCalls int, final []string, accepted string) {
	where := "NewAccumulatingGroup"
	defer func() {
		if p := recover(); p != nil {
			fs = append(fs, failf("C13/panic/AccumulatingGroup."+where+"/"+panicClass(p), "panic in %s during the operation history %q: %v", where, ops, p))
		}
	}()
	impl := newAccumFor(&accumHistKB)
	fold := &accumFold{n: map[string]int{}, v: map[string]int{}}
	var lastAccepted *string // nil: no SetSort accepted so far
	var replayOps []string   // the samples and the accepted SetSort calls
	rejectedSince := false   // a SetSort was rejected after the last accepted one
	anyAccepted := false
	histClass := func() string {
		switch {
		case rejectedSince:
			return "after-rejected-SetSort"
		case anyAccepted:
			return "after-accepted-SetSort"
		}
		return "no-SetSort"
	}
	seen := map[string]bool{}
	add := func(f *fail) {
		if !seen[f.sig] {
			seen[f.sig] = true
			fs = append(fs, f)
		}
	}
	check := func(at int) {
		// reference order
		var groups []string
		for g := range fold.n {
			groups = append(groups, g)
		}
		sort.Strings(groups)
		vals := map[string]string{}
		modelled, distinct := true, true
		have := map[string]bool{}
		for _, g := range groups {
			v, ok := fold.sortValue(lastAccepted, g)
			modelled = modelled && ok
			if have[v] {
				distinct = false
			}
			have[v] = true
			vals[g] = v
		}
		want := append([]string{}, groups...)
		sort.SliceStable(want, func(i, j int) bool { return vals[want[i]] < vals[want[j]] })
		desc := fmt.Sprintf("operation history %q (checked after %d operations); accepted sort expression: %s", ops, at, showExpr(lastAccepted))
		// fresh aggregator: the samples and the accepted SetSort calls only
		where = "fresh-aggregator"
		fresh := newAccumFor(&accumFreshKB)
		for _, op := range replayOps {
			if strings.HasPrefix(op, "S:") {
				fresh.Sample(op[2:])
			} else if err := fresh.SetSort(op[len("SetSort:"):]); err != nil {
				add(failf("C13/accumulator/SetSort-verdict-depends-on-history", "SetSort(%q) was accepted by the long-lived aggregator and is rejected by a fresh one (%v); %s", op[len("SetSort:"):], err, desc))
				return
			}
		}
		for _, dir := range []struct {
			name string
			mk   func() sorting.NameSorter
			rev  bool
		}{
			{"ByName", func() sorting.NameSorter { return sorting.ByName }, false},
			{"Reverse(ByName)", func() sorting.NameSorter { return sorting.Reverse(sorting.NameSorter(sorting.ByName)) }, true},
		} {
			where = "Groups"
			got := groupNames(impl.Groups(dir.mk()))
			again := groupNames(impl.Groups(dir.mk()))
			groupsCalls += 2
			if !dir.rev {
				final = got
			}
			sortedGot := append([]string{}, got...)
			sort.Strings(sortedGot)
			if !equalStrings(sortedGot, groups) {
				add(failf("C13/accumulator/group-set-differs/"+histClass(), "Groups(%s)=%q, the samples fold to the groups %q; %s", dir.name, got, groups, desc))
				continue
			}
			if len(groups) < 2 {
				continue
			}
			exp := want
			if dir.rev {
				exp = make([]string, len(want))
				for i, g := range want {
					exp[len(want)-1-i] = g
				}
			}
			if modelled && distinct && !equalStrings(got, exp) { // (R)
				add(failf("C13/accumulator/order-not-dictated-by-accepted-sort-expression/"+histClass(), "Groups(%s)=%q; the accepted sort expression has the values %v, so the order must be %q; %s", dir.name, got, showVals(groups, vals), exp, desc))
				continue
			}
			if modelled && !distinct && !dir.rev { // (R) with ties: the value sequence is sorted
				for i := 1; i < len(got); i++ {
					if vals[got[i]] < vals[got[i-1]] {
						add(failf("C13/accumulator/order-not-dictated-by-accepted-sort-expression/"+histClass(), "Groups(%s)=%q; the accepted sort expression has the values %v, %q must not come after %q; %s", dir.name, got, showVals(groups, vals), got[i], got[i-1], desc))
						break
					}
				}
			}
			if !distinct && modelled {
				// equal sort values: any order of them. (VERIF_C13_TIES=1, not part of the
				// registered check: also demand that the order is repeatable and equals the
				// fresh aggregator's - see FINDINGS.md, "sort-expression ties")
				if demandTieOrder {
					ref := groupNames(fresh.Groups(dir.mk()))
					if !equalStrings(got, again) || !equalStrings(got, ref) {
						add(failf("C13/accumulator/equal-sort-values/order-follows-map-iteration", "Groups(%s) gives %q, then %q, a fresh aggregator with the same samples %q; the sort expression has the values %v; %s", dir.name, got, again, ref, showVals(groups, vals), desc))
					}
				}
				continue
			}
			if modelled && !equalStrings(got, again) { // (T)
				add(failf("C13/accumulator/groups-order-not-repeatable/"+histClass(), "two consecutive Groups(%s) calls give %q and %q; %s", dir.name, got, again, desc))
				continue
			}
			if modelled { // (D) (an expression the reference does not model: only when a fresh aggregator is repeatable itself)
				where = "fresh-aggregator"
				if ref := groupNames(fresh.Groups(dir.mk())); !equalStrings(got, ref) {
					add(failf("C13/accumulator/order-differs-from-fresh-aggregator/"+histClass(), "Groups(%s)=%q; a fresh aggregator that received the same samples and only the accepted SetSort calls gives %q; %s", dir.name, got, ref, desc))
				}
			} else {
				where = "fresh-aggregator"
				r1, r2 := groupNames(fresh.Groups(dir.mk())), groupNames(fresh.Groups(dir.mk()))
				if equalStrings(r1, r2) && equalStrings(got, again) && !equalStrings(got, r1) {
					add(failf("C13/accumulator/order-differs-from-fresh-aggregator/"+histClass(), "Groups(%s)=%q; a fresh aggregator that received the same samples and only the accepted SetSort calls gives %q; %s", dir.name, got, r1, desc))
				}
			}
		}
	}
	for i, op := range ops {
		switch {
		case strings.HasPrefix(op, "S:"):
			where = "Sample"
			impl.Sample(op[2:])
			p := strings.SplitN(op[2:], "\x00", 2)
			inc := 0
			if len(p) == 2 {
				inc, _ = strconv.Atoi(p[1])
			}
			fold.n[p[0]]++
			fold.v[p[0]] += inc
			replayOps = append(replayOps, op)
		case strings.HasPrefix(op, "SetSort:"):
			where = "SetSort"
			expr := op[len("SetSort:"):]
			if err := impl.SetSort(expr); err != nil {
				rejectedSince = true
			} else {
				lastAccepted, rejectedSince, anyAccepted = &expr, false, true
				replayOps = append(replayOps, op)
			}
		case op == "Groups":
			check(i + 1)
		default:
			panic("harness: unknown accumulator operation " + op)
		}
	}
	check(len(ops))
	accepted = showExpr(lastAccepted)
	return
}

func showExpr(e *string) string {
	if e == nil {
		return "none (order by group key)"
	}
	return fmt.Sprintf("%q", *e)
}

func showVals(groups []string, vals map[string]string) string {
	var sb strings.Builder
	for i, g := range groups {
		if i > 0 {
			sb.WriteString(" ")
		}
		fmt.Fprintf(&sb, "%s:%q", g, vals[g])
	}
	return sb.String()
}

// forEachOpSequence enumerates every sequence of exactly n operations.
func forEachOpSequence(alpha []string, n int, f func(ops []string) bool) {
	cur := make([]int, n)
	for {
		ops := make([]string, n)
		for i, c := range cur {
			ops[i] = alpha[c]
		}
		if !f(ops) {
			return
		}
		i := n - 1
		for ; i >= 0; i-- {
			cur[i]++
			if cur[i] < len(alpha) {
				break
			}
			cur[i] = 0
		}
		if i < 0 {
			return
		}
	}
}

func accumOpsRule(quick bool) string {
	return fmt.Sprintf(" Accumulating-group operation histories: ONE long-lived AccumulatingGroup (group {1}; columns n={sumi {.} 1}, v={sumi {.} {2}}) and EVERY sequence of 0..%d operations over %q (S: Sample; SetSort with two valid expressions, four invalid ones - unterminated brace, constant text before an unterminated brace, unknown function, empty statement - and the empty expression; Groups: Groups(ByName) and Groups(Reverse(ByName)), each twice), Groups also after the last operation: the order must be the one dictated by the last ACCEPTED SetSort (none: by group key) - the groups sorted as text by the value the accepted expression has on the harness's own fold of the samples, the same order as a fresh aggregator gives that received the same samples and only the accepted SetSort calls, and the same in two consecutive calls; a rejected SetSort must leave the aggregator as it was.%s", accumOpsDepth(quick), accumOpAlphabet, map[bool]string{true: " [VERIF_C13_TIES=1: groups with equal sort values must also come in a repeatable order]", false: ""}[demandTieOrder])
}
