// Harness sorting decides C13: output ordering is a deterministic function of
// the aggregated data. For a pool of keys (numbers in several spellings, text,
// weekday and month names, dates in two layouts, NaN; dateviews.go: timestamps
// of one layout differing in fraction, second, minute, offset or year) it enumerates every
// subset up to a size, every permutation handed to the sorter, every sort
// name x modifier accepted by helpers.BuildSorter plus the sorters the
// commands take directly from pkg/aggregation/sorting, sorter instances fresh
// and re-used, the comparator axioms over all pairs and triples, and the same
// data through the aggregators' sorted accessors. The calendar views (ref.go)
// add every weekday and month name as full name and abbreviation in three
// letter cases: small subsets in every permutation plus the complete 7-day and
// 12-month sets.
package main

import (
	"encoding/json"
	"fmt"
	"os"
	"strings"
	"time"

	"verif/runner"
)

type Case struct {
	Kind     string   `json:"kind"`           // data | directions | reuse | pair | triple | history | aggregators | size | long-lived | two-instances | accum-ops (Keys = the operations) | accum-refresh (Class = the program, Spec = the sort expression, Keys = the operations)
	View     string   `json:"view,omitempty"` // the view of the key pool the case belongs to (replay: "" = main)
	Spec     string   `json:"spec"`           // sort name (directions: the group)
	Keys     []string `json:"keys"`
	Values   []int64  `json:"values"`
	Earlier  []string `json:"earlier,omitempty"` // reuse: what the instance sorted before
	EarlierV []int64  `json:"earlier_values,omitempty"`
	Relation string   `json:"relation,omitempty"`
	// size / history families: the data is generated, not listed
	Class string `json:"class,omitempty"` // size: the key class; long-lived: the history list
	N     int    `json:"n,omitempty"`     // size: number of keys (key length); two-instances: how the second sorter is built
}

func mkCase(kind, spec string, data []nv) Case {
	c := Case{Kind: kind, Spec: spec}
	if curView != nil {
		c.View = curView.name
	}
	for _, x := range data {
		c.Keys = append(c.Keys, pool[x.k].s)
		c.Values = append(c.Values, x.v)
	}
	return c
}

func (c Case) data() []nv {
	var out []nv
	for i, k := range c.Keys {
		j := poolIndex(k)
		if j < 0 {
			panic("replay: key not in pool: " + k)
		}
		out = append(out, nv{j, c.Values[i]})
	}
	return out
}

func groupsOf() (order []string, m map[string][]*spec) {
	m = map[string][]*spec{}
	for _, sp := range specs {
		if _, ok := m[sp.group]; !ok {
			order = append(order, sp.group)
		}
		m[sp.group] = append(m[sp.group], sp)
	}
	return
}

// valueAssignments: totals for the keys. Name sorts see one alternating
// assignment. Value sorts see every assignment over the view's totals ({1,2}:
// all 2^n, four patterns for sets of 5; the huge-totals view: all 6^n).
func valueAssignments(mode string, n int, vw *view) [][]int64 {
	if mode != "value" {
		v := make([]int64, n)
		for i := range v {
			v[i] = int64(1 + i%2)
		}
		return [][]int64{v}
	}
	var out [][]int64
	if n <= 4 {
		cur := make([]int, n)
		for {
			v := make([]int64, n)
			for i, c := range cur {
				v[i] = vw.values[c]
			}
			out = append(out, v)
			i := n - 1
			for ; i >= 0; i-- {
				cur[i]++
				if cur[i] < len(vw.values) {
					break
				}
				cur[i] = 0
			}
			if i < 0 {
				return out
			}
		}
	}
	for p := 0; p < 4; p++ {
		v := make([]int64, n)
		for i := range v {
			switch p {
			case 0:
				v[i] = 1
			case 1:
				v[i] = int64(1 + i%2)
			case 2:
				v[i] = 1
				if i == 0 {
					v[i] = 2
				}
			default:
				v[i] = 2
				if i == n-1 {
					v[i] = 1
				}
			}
		}
		out = append(out, v)
	}
	return out
}

// reuseAssignment: all totals 1, or alternating 1,2,1,...
func reuseAssignment(vals []int64) bool {
	ones, alt := true, true
	for i, v := range vals {
		ones = ones && v == 1
		alt = alt && v == int64(1+i%2)
	}
	return ones || alt
}

func forEachSubset(n, k int, f func(idx []int) bool) {
	idx := make([]int, k)
	var rec func(pos, from int) bool
	rec = func(pos, from int) bool {
		if pos == k {
			return f(idx)
		}
		for i := from; i < n; i++ {
			idx[pos] = i
			if !rec(pos+1, i+1) {
				return false
			}
		}
		return true
	}
	rec(0, 0)
}

type bounds struct{ reuseSame, reuseOther, agg int }

func tierBounds(quick bool) bounds {
	if quick {
		return bounds{reuseSame: 3, reuseOther: 2, agg: 3}
	}
	return bounds{reuseSame: 4, reuseOther: 3, agg: 4}
}

func (vw *view) maxSet(quick bool) int {
	if quick {
		return vw.maxSetQ
	}
	return vw.maxSetT
}

func report(w *runner.W, c Case, fs ...*fail) {
	for _, f := range fs {
		if f != nil {
			w.Violation(f.sig, f.detail, c)
		}
	}
}

func worker(w *runner.W) {
	b := tierBounds(w.Quick())
	groupOrder, groups := groupsOf()
	var caseNo int64
	expired := false
	if os.Getenv("VERIF_C13_ONLY") == "accum-refresh" {
		// development aid (not the registered check): only the refresh histories of the accumulating group
		workerAccumRefresh(w, &caseNo, &expired)
		return
	}

	// ---- A. data sets: subsets x values x specs x permutations (+ re-use, aggregators)
	for vi := range views {
		vw := &views[vi]
		curView = vw
		sizes := []int{}
		for n := 0; n <= vw.maxSet(w.Quick()); n++ {
			sizes = append(sizes, n)
		}
		if vw.fullSet && len(vw.keys) > vw.maxSet(w.Quick()) {
			// the complete set of the view (all 7 weekdays: every permutation;
			// all 12 months: the bounded family of forEachBoundedPerm)
			sizes = append(sizes, len(vw.keys))
		}
		for _, n := range sizes {
			if expired {
				break
			}
			n := n
			forEachSubset(len(vw.keys), n, func(sub []int) bool {
				idx := make([]int, n)
				for i, j := range sub {
					idx[i] = vw.keys[j]
				}
				caseNo++
				if !w.Owns(caseNo) {
					return true
				}
				if w.Expired() {
					expired = true
					return false
				}
				for _, gname := range groupOrder {
					group := groups[gname]
					if vw.valueOnly && group[0].mode != "value" {
						continue
					}
					if vw.calendarOnly && group[0].mode != "contextual" && group[0].mode != "date" {
						continue
					}
					if vw.dateOnly && group[0].mode != "date" {
						continue
					}
					for _, vals := range valueAssignments(group[0].mode, n, vw) {
						data := make([]nv, n)
						for i, k := range idx {
							data[i] = nv{k, vals[i]}
						}
						canon := map[*spec][]nv{}
						for _, sp := range group {
							c := mkCase("data", sp.name, data)
							w.SetCase(func() any { return c })
							cn, sorts, fs := checkData(sp, data)
							w.Eval(n >= 2)
							w.Add("sorts", int64(sorts))
							report(w, c, fs...)
							canon[sp] = cn
							if cn != nil {
								w.Outcome(sp.mode, fmt.Sprint(sp.desc), fmt.Sprint(names(cn)))
								if w.WantSample() && n == 4 && sp.mode != "text" && caseNo%211 == 0 {
									w.Sample(map[string]any{"case": c, "sorted": names(cn)})
								}
							} else {
								ks, vs := keysOf(data)
								lv, cl := classify(sp.mode, ks, vs)
								w.Outcome(sp.mode, "no-canonical-order", lv, cl)
							}
							if cn == nil {
								continue
							}
							if n >= 1 && n <= b.agg {
								ca := mkCase("aggregators", sp.name, data)
								w.SetCase(func() any { return ca })
								runs, fs := checkAggregators(sp, data, cn)
								w.Add("aggregator_runs", int64(runs))
								report(w, ca, fs...)
							}
							if !sp.reuse || n < 2 || vw.valueOnly {
								continue
							}
							if sp.mode == "value" && !reuseAssignment(vals) {
								continue // value sorts take part in re-use with two of the assignments
							}
							// re-use on the same / grown data: the instance sorted the data, or
							// the data without one key, in any order before
							if n <= b.reuseSame {
								var earlierSets [][]nv
								earlierSets = append(earlierSets, data)
								for drop := 0; drop < n; drop++ {
									var e []nv
									for i, x := range data {
										if i != drop {
											e = append(e, x)
										}
									}
									earlierSets = append(earlierSets, e)
								}
								for ei, es := range earlierSets {
									rel := "the same data"
									if ei > 0 {
										rel = "the data before one more key arrived"
									}
									forEachPerm(len(es), func(p []int) bool {
										earlier := permuted(es, p)
										sorts, f := checkReuse(sp, earlier, data, cn, rel)
										w.Add("sorts", int64(sorts))
										w.Add("reuse_cases", 1)
										if f != nil {
											c := mkCase("reuse", sp.name, data)
											c.Relation = rel
											for _, x := range earlier {
												c.Earlier = append(c.Earlier, pool[x.k].s)
												c.EarlierV = append(c.EarlierV, x.v)
											}
											report(w, c, f)
										}
										return true
									})
								}
							}
							// re-use after unrelated data (spark trims columns, so a sorter may
							// have seen keys that are gone): any ordered pair of pool keys
							if n <= b.reuseOther {
								for _, x := range vw.keys {
									for _, y := range vw.keys {
										if x == y {
											continue
										}
										earlier := []nv{{x, 1}, {y, 2}}
										sorts, f := checkReuse(sp, earlier, data, cn, "other data")
										w.Add("sorts", int64(sorts))
										w.Add("reuse_cases", 1)
										if f != nil {
											c := mkCase("reuse", sp.name, data)
											c.Relation = "other data"
											c.Earlier = []string{pool[x].s, pool[y].s}
											c.EarlierV = []int64{1, 2}
											report(w, c, f)
										}
									}
								}
							}
						}
						cd := mkCase("directions", gname, data)
						report(w, cd, checkDirections(group, canon, data)...)
					}
				}
				w.Add("key_sets", 1)
				return true
			})
		}
	}

	// ---- B. comparator axioms over every view
	for vi := range views {
		vw := &views[vi]
		curView = vw
		for _, sp := range specs {
			vals := []int64{1}
			if sp.mode == "value" {
				vals = vw.values
			} else if vw.valueOnly {
				continue
			}
			if vw.calendarOnly && sp.mode != "contextual" && sp.mode != "date" {
				continue
			}
			if vw.dateOnly && sp.mode != "date" {
				continue
			}
			for _, a := range vw.keys {
				caseNo++
				if expired || !w.Owns(caseNo) {
					continue
				}
				if w.Expired() {
					expired = true
					break
				}
				for _, bk := range vw.keys {
					if bk == a {
						continue
					}
					for _, va := range vals {
						for _, vb := range vals {
							x, y := nv{a, va}, nv{bk, vb}
							if a < bk {
								c := mkCase("pair", sp.name, []nv{x, y})
								w.SetCase(func() any { return c })
								report(w, c, checkPair(sp, x, y))
								w.Eval(true)
								w.Add("pairs", 1)
							}
							for _, ck := range vw.keys {
								if ck == a || ck == bk {
									continue
								}
								for _, vc := range vals {
									z := nv{ck, vc}
									if f := checkTriple(sp, x, y, z); f != nil {
										report(w, mkCase("triple", sp.name, []nv{x, y, z}), f)
									}
									w.Add("triples", 1)
								}
							}
						}
					}
				}
				// history: (c,d) compared first by the same instance, then (a,b)
				for _, bk := range vw.keys {
					if bk == a {
						continue
					}
					for _, ck := range vw.keys {
						for _, dk := range vw.keys {
							if ck == dk {
								continue
							}
							cc, dd, x, y := nv{ck, 1}, nv{dk, vals[len(vals)-1]}, nv{a, 1}, nv{bk, 1}
							if f := checkHistory(sp, cc, dd, x, y); f != nil {
								report(w, mkCase("history", sp.name, []nv{cc, dd, x, y}), f)
							}
							w.Add("histories", 1)
						}
					}
				}
				w.Eval(true)
			}
		}
	}
	curView = nil

	// ---- C. size families: generated key sets of one class, n = 0..70 and around powers of two
	sizeOrder, sizeGroups := sizeSpecs()
	for ci := range sizeClasses {
		cl := &sizeClasses[ci]
		for _, gname := range sizeOrder {
			group := sizeGroups[gname]
			if !cl.runsUnder(group[0].mode) {
				continue
			}
			for _, n := range cl.sizes(w.Quick()) {
				caseNo++
				if expired || !w.Owns(caseNo) {
					continue
				}
				if w.Expired() {
					expired = true
					break
				}
				c := Case{Kind: "size", Spec: gname, Class: cl.name, N: n, Keys: []string{}, Values: []int64{}}
				w.SetCase(func() any { return c })
				firstKey := -1
				if d := cl.data(n); len(d) > 0 {
					firstKey = d[0].k
				}
				fs := runSizeUnit(gname, group, cl, n, func(sp *spec, cn []nv, sorts int) {
					w.Eval(n >= 2 || cl.keysFor != nil)
					w.Add("sorts", int64(sorts))
					w.Add("size_family_sorts", int64(sorts))
					w.Max("size_family_largest_set", int64(len(cn)))
					if cn != nil {
						// (the outcome is the class of the case and where the first generated element ended up)
						pos := -1
						for i, x := range cn {
							if x.k == firstKey {
								pos = i
							}
						}
						w.Outcome("size", sp.name, cl.name, sizeSigClass(len(cn)), fmt.Sprint(pos == 0, pos == len(cn)-1))
					}
				})
				report(w, c, fs...)
				w.Add("size_family_cases", 1)
			}
		}
	}

	// ---- D. long-lived instance: one instance, a list of data sets of different classes, forwards and backwards
	for _, sp := range specs {
		for _, lname := range historyListOrder[sp.mode] {
			caseNo++
			if expired || !w.Owns(caseNo) {
				continue
			}
			if w.Expired() {
				expired = true
				break
			}
			c := Case{Kind: "long-lived", Spec: sp.name, Class: lname, Keys: []string{}, Values: []int64{}}
			w.SetCase(func() any { return c })
			sorts, f := checkLongLived(sp, lname, historyLists(sp.mode)[lname])
			w.Eval(true)
			w.Add("sorts", int64(sorts))
			w.Add("long_lived_instance_sorts", int64(sorts/2))
			w.Outcome("long-lived", sp.name, lname, fmt.Sprint(f == nil))
			report(w, c, f)
		}
	}

	// ---- E. two instances built by two calls, used alternately
	for _, a := range twoInstanceNames {
		for _, b := range twoInstanceNames {
			for bi := 0; bi <= len(builders); bi++ {
				if bi == len(builders) && b != specByName(b).group {
					continue // a flag default is a plain sort name in the commands
				}
				caseNo++
				if expired || !w.Owns(caseNo) {
					continue
				}
				if w.Expired() {
					expired = true
					break
				}
				c := Case{Kind: "two-instances", Spec: a, Relation: b, N: bi, Keys: []string{}, Values: []int64{}}
				w.SetCase(func() any { return c })
				sorts, f := checkTwoInstances(a, b, bi)
				w.Eval(true)
				w.Add("sorts", int64(sorts))
				w.Add("two_instance_sorts", int64(sorts/2))
				w.Outcome("two-instances", a, b, fmt.Sprint(bi), fmt.Sprint(f == nil))
				report(w, c, f)
			}
		}
	}

	// ---- F. accumulating group: every operation history over samples, SetSort (valid, invalid, empty) and Groups
	for n := 0; n <= accumOpsDepth(w.Quick()) && !expired; n++ {
		forEachOpSequence(accumOpAlphabet, n, func(ops []string) bool {
			caseNo++
			if !w.Owns(caseNo) {
				return true
			}
			if w.Expired() {
				expired = true
				return false
			}
			c := Case{Kind: "accum-ops", Spec: "pkg:ByName", Keys: ops, Values: []int64{}}
			w.SetCase(func() any { return c })
			fs, calls, final, accepted := runAccumOps(ops)
			setSorts := 0
			for _, op := range ops {
				if strings.HasPrefix(op, "SetSort:") {
					setSorts++
				}
			}
			w.Eval(len(final) >= 2 && setSorts >= 1)
			w.Add("accumulator_histories", 1)
			w.Add("accumulator_groups_calls", int64(calls))
			w.Add("sorts", int64(calls))
			w.Outcome("accum-ops", accepted, fmt.Sprint(final))
			report(w, c, fs...)
			return true
		})
	}

	workerAccumRefresh(w, &caseNo, &expired)
}

// workerAccumRefresh: section G of the worker.
func workerAccumRefresh(w *runner.W, caseNo *int64, expired *bool) {
	// ---- G. accumulating group: accumulator programs x sort expressions x sample sequences x refresh patterns
	progs := accPrograms(w.Quick())
	for n := 0; n <= accRefreshMaxDepth(w.Quick()) && !*expired; n++ {
		for _, p := range progs {
			if n > p.depth(w.Quick()) {
				continue
			}
			for ei := range p.exprs {
				e := &p.exprs[ei]
				forEachSampleSeq(n, func(samples []accSample) bool {
					*caseNo++
					if !w.Owns(*caseNo) {
						return true
					}
					if w.Expired() {
						*expired = true
						return false
					}
					ref := p.reference(e, samples)
					forEachRefreshPattern(n, func(refresh []int) {
						w.SetCase(func() any {
							return Case{Kind: "accum-refresh", Class: p.String(), Spec: e.text, Keys: showSamples(p, samples, refresh), Values: []int64{}}
						})
						fs, calls, final := runAccumRefresh(p, e, samples, refresh, ref)
						refreshes := 0
						for _, r := range refresh {
							if r != 0 {
								refreshes++
							}
						}
						w.Eval(len(final) >= 2 && refreshes >= 1)
						w.Add("accumulator_refresh_histories", 1)
						w.Add("accumulator_groups_calls", int64(calls))
						w.Add("sorts", int64(calls))
						if refreshes == 0 {
							w.Outcome("accum-refresh", p.String(), e.text, fmt.Sprint(final))
						}
						if len(fs) > 0 {
							report(w, Case{Kind: "accum-refresh", Class: p.String(), Spec: e.text, Keys: showSamples(p, samples, refresh), Values: []int64{}}, fs...)
						}
					})
					return !*expired
				})
				if *expired {
					break
				}
			}
			if *expired {
				break
			}
		}
	}
}

// runSizeUnit: one (name group, class, n) of the size family: every size spec of
// the group on the class's key set of size n, then the direction relations.
func runSizeUnit(gname string, group []*spec, cl *sizeClass, n int, each func(sp *spec, canon []nv, sorts int)) (fs []*fail) {
	data := cl.data(n)
	canon := map[*spec][]nv{}
	for _, sp := range group {
		cn, sorts, f := checkSizeData(sp, data)
		fs = append(fs, f...)
		canon[sp] = cn
		each(sp, cn, sorts)
		// the same data through the aggregators' sorted accessors (items collected from Go maps), a few sizes
		if cn != nil && cl.keysFor == nil && aggregatorSizes[n] {
			_, afs := checkAggregators(sp, data, cn)
			for _, f := range afs {
				f.sig += "/size-family"
				if len(f.detail) > 1500 {
					f.detail = f.detail[:1500] + "..."
				}
				fs = append(fs, f)
			}
		}
	}
	for _, f := range checkDirections(group, canon, data) {
		f.sig += "/size-family"
		if len(f.detail) > 1500 {
			f.detail = f.detail[:1500] + "..."
		}
		fs = append(fs, f)
	}
	return
}

// sizeAndHistoryRule describes sections C-E of the worker for the evidence.
func sizeAndHistoryRule(quick bool) string {
	var cs []string
	for i := range sizeClasses {
		c := &sizeClasses[i]
		max := c.maxT
		if quick {
			max = c.maxQ
		}
		what := fmt.Sprintf("n <= %d keys", max)
		if c.keysFor != nil {
			what = fmt.Sprintf("13 keys of length about n <= %d", max)
		}
		cs = append(cs, fmt.Sprintf("%s (%s; under %v)", c.name, what, c.modes))
	}
	return fmt.Sprintf("Size families: generated key sets of one class, element i carrying i (its name, magnitude, calendar position, date or total), for n = 0..70 and 2^k-1, 2^k, 2^k+1 (k >= 7) up to the class's bound, under every mode of the class with '', :asc, :desc through helpers.BuildSorter and every package sorter of the mode, handed over as identity, reverse, rotations, adjacent transpositions and stride interleavings (up to 70 keys: all rotations and all adjacent transpositions, strides 2,3,5,7; above: 3 rotations, 3 transpositions, 2 strides), fresh instance per sort: one sequence, the mode's semantic clause on it, every adjacent pair of it confirmed by a fresh instance asked about that pair alone, direction relations inside the name group, and for sets of 11, 12, 13, 20, 50, 70, 127 and 129 keys the same data through MatchCounter.ItemsSortedBy, SubKeyCounter.ItemsSorted, TableAggregator.OrderedRows/OrderedColumns and AccumulatingGroup.Groups in two arrival orders; classes: %s. Long-lived instance: for each of the %d specs ONE instance sorts a list of data sets of %v keys in two arrival orders each, forwards and then backwards, every result compared with a fresh instance (text/numeric/value: a list mixing integers, number spellings, text, numbers-and-text, weekday names, month names, ISO dates, US dates and windows of the hand-written pool, value sorts also the same names under four patterns of totals; contextual: an all-weekday and an all-month list; date: an all-ISO-date, an all-US-date, an all-millisecond-timestamp and an all-offset-timestamp list). Two instances: for every ordered pair of sort names out of %q, the first built by helpers.BuildSorter and the second by BuildSorter, BuildSorterOrFail, the real --sort flag (helpers.DefaultSortFlag parsed by urfave/cli) or the default of helpers.DefaultSortFlagWithDefault, the two sort their own histories alternately (two instances of one contextual/date name: weekday list against month list, ISO list against US list) and every result is compared with a fresh instance.", strings.Join(cs, "; "), len(specs), historySizes, twoInstanceNames)
}

// aggregatorSizes: the set sizes at which the size family also goes through the aggregators' sorted accessors.
var aggregatorSizes = map[int]bool{11: true, 12: true, 13: true, 20: true, 50: true, 70: true, 127: true, 129: true}

func replayGenerated(w *runner.W, c Case) bool {
	curView = nil
	switch c.Kind {
	case "size":
		_, groups := sizeSpecs()
		cl := sizeClassByName(c.Class)
		if cl == nil || groups[c.Spec] == nil {
			panic("replay: unknown size class / group " + c.Class + " / " + c.Spec)
		}
		report(w, c, runSizeUnit(c.Spec, groups[c.Spec], cl, c.N, func(*spec, []nv, int) {})...)
	case "long-lived":
		sp := specByName(c.Spec)
		if sp == nil {
			panic("replay: unknown sort spec " + c.Spec)
		}
		_, f := checkLongLived(sp, c.Class, historyLists(sp.mode)[c.Class])
		report(w, c, f)
	case "two-instances":
		_, f := checkTwoInstances(c.Spec, c.Relation, c.N)
		report(w, c, f)
	case "accum-refresh":
		p := findAccProgram(c.Class)
		if p == nil {
			panic("replay: unknown accumulator program " + c.Class)
		}
		var e *accSortExpr
		for i := range p.exprs {
			if p.exprs[i].text == c.Spec {
				e = &p.exprs[i]
			}
		}
		if e == nil {
			panic("replay: unknown sort expression " + c.Spec + " of program " + c.Class)
		}
		samples, refresh := parseRefreshOps(p, c.Keys)
		seen := map[string]bool{}
		for i := 0; i < 4; i++ {
			fs, _, _ := runAccumRefresh(p, e, samples, refresh, p.reference(e, samples))
			for _, f := range fs {
				if !seen[f.sig] {
					seen[f.sig] = true
					report(w, c, f)
				}
			}
		}
	case "accum-ops":
		// (a rejected expression may leave an order that follows the map iteration: repeat)
		seen := map[string]bool{}
		for i := 0; i < 8; i++ {
			fs, _, _, _ := runAccumOps(c.Keys)
			for _, f := range fs {
				if !seen[f.sig] {
					seen[f.sig] = true
					report(w, c, f)
				}
			}
		}
	default:
		return false
	}
	return true
}

func replay(w *runner.W, raw json.RawMessage) {
	var c Case
	if err := json.Unmarshal(raw, &c); err != nil {
		panic(err)
	}
	if replayGenerated(w, c) {
		return
	}
	curView = &views[0]
	for i := range views {
		if views[i].name == c.View {
			curView = &views[i]
		}
	}
	data := c.data()
	if c.Kind == "directions" {
		_, groups := groupsOf()
		group := groups[c.Spec]
		canon := map[*spec][]nv{}
		for _, sp := range group {
			canon[sp], _, _ = checkData(sp, data)
		}
		report(w, c, checkDirections(group, canon, data)...)
		return
	}
	sp := specByName(c.Spec)
	if sp == nil {
		panic("replay: unknown sort spec " + c.Spec)
	}
	switch c.Kind {
	case "data":
		_, _, fs := checkData(sp, data)
		report(w, c, fs...)
	case "aggregators":
		cn, _, _ := checkData(sp, data)
		if cn != nil {
			for i := 0; i < 8; i++ { // map order is the runtime's: repeat
				_, fs := checkAggregators(sp, data, cn)
				report(w, c, fs...)
			}
		}
	case "reuse":
		cn, _, _ := checkData(sp, data)
		if cn != nil {
			var earlier []nv
			for i, k := range c.Earlier {
				earlier = append(earlier, nv{poolIndex(k), c.EarlierV[i]})
			}
			_, f := checkReuse(sp, earlier, data, cn, c.Relation)
			report(w, c, f)
		}
	case "pair":
		report(w, c, checkPair(sp, data[0], data[1]))
	case "triple":
		report(w, c, checkTriple(sp, data[0], data[1], data[2]))
	case "history":
		report(w, c, checkHistory(sp, data[0], data[1], data[2], data[3]))
	default:
		panic("replay: unknown kind " + c.Kind)
	}
}

func main() {
	runner.Main(&runner.Spec{
		Name:       "sorting",
		Properties: []string{"C13"},
		Level:      "exploration",
		Rule: func(prop, tier string) string {
			b := tierBounds(tier != "thorough")
			var ks []string
			for _, k := range pool {
				ks = append(ks, fmt.Sprintf("%q", k.s))
			}
			quick := tier != "thorough"
			var vs []string
			for i := range views {
				vw := &views[i]
				var names []string
				for _, k := range vw.keys {
					names = append(names, fmt.Sprintf("%q", pool[k].s))
				}
				only := ""
				if vw.valueOnly {
					only = ", value sorts only, no re-use"
				}
				if vw.calendarOnly {
					only = ", contextual and date sorts only (all their spellings, modifiers and package constructors)"
				}
				if vw.dateOnly {
					only = ", date sorts only (all their spellings, modifiers and ByDateWithContextual)"
				}
				if vw.fullSet && len(vw.keys) > vw.maxSet(quick) {
					only += fmt.Sprintf(", plus the complete set of %d keys", len(vw.keys))
				}
				vs = append(vs, fmt.Sprintf("view %s: keys %v, subsets of size 0..%d, value-sort totals %v%s", vw.name, names, vw.maxSet(quick), vw.values, only))
			}
			_ = ks
			generated := 0
			for i := range pool {
				if pool[i].generated {
					generated++
				}
			}
			return fmt.Sprintf("key pool of %d keys in %d views (%s); inside each view: every subset up to the view's size (value sorts: every assignment of the view's totals to the keys, 4 patterns over {1,2} for sets of 5; name sorts: one alternating 1,2 assignment) x every permutation handed to sorting.SortBy (data sets of up to %d keys: all n! permutations; the complete 12-month sets: every arrangement i -> (o+i*s) mod 12 of the calendar order for every offset o and every stride s coprime to 12, i.e. all rotations, all rotations of the reversal and the stride-5/7 interleavings, and each of them with every adjacent transposition: 576 permutations) x %d sorter specs: helpers.BuildSorter names {text,'',numeric,contextual,context,date,value} x {'',:asc,:desc,:rev,:reverse}, 3 mixed-case spellings, and the package sorters used by pkg/csv and cmd/reduce (NVValueSorter, NVNameSorter, NVSmartSorter, ByName, ByContextual, Reverse(ByContextual), ByDateWithContextual), each permutation with a fresh sorter instance: one output sequence per data set, semantic clause of the mode on it, direction relations inside each name group; re-use of one instance (specs without aliases; value sorts with the all-1 and the alternating totals): first every permutation of the same data or of the data minus one key (sets up to %d), or any ordered pair of keys of the view (sets up to %d), then every permutation of the data; the same data through MatchCounter.ItemsSortedBy, SubKeyCounter.ItemsSorted, TableAggregator.OrderedRows/OrderedColumns and AccumulatingGroup.Groups (with and without sort expression) in two arrival orders (sets up to %d, only where the canonical sequence exists); comparator axioms with a fresh instance per decision on all ordered pairs and triples of distinct keys of each view (value sorts: all totals of the view), and every decision repeated on an instance that made any one other comparison before (all 4-tuples of the view). %s evaluation = one (spec, data set) with all its permutations, one (spec, first key) axiom block, one (spec, size class, n), one long-lived history, one pair of alternately used instances, one accumulating-group operation history or one accumulating-group refresh history; non-trivial = at least 2 keys (an accumulating-group operation history: at least 2 groups and at least one SetSort; a refresh history: at least 2 groups and at least one Groups() call between two samples)", len(pool)-generated, len(views), strings.Join(vs, "; "), allPermsUpTo, len(specs), b.reuseSame, b.reuseOther, b.agg, sizeAndHistoryRule(quick)+accumOpsRule(quick)+accRefreshRule(quick))
		},
		Assumptions: func(string) []string {
			return []string{
				"sort.Sort is deterministic for a given input order and comparator (Go's pdqsort uses no randomness for slices this small)",
				"hash-map iteration order inside the aggregators is chosen by the Go runtime; the aggregator accessors are therefore only compared where every permutation sorts to one sequence, so the verdict cannot depend on it",
				"which weekday starts the week is not fixed by the statement: Sunday-first and Monday-first are both accepted; no order is demanded of `text`, of mixtures, or of what contextual/date do with keys outside their domain beyond determinism and the order axioms",
				"keys outside the pool (other date layouts, zone abbreviations, localized names) are not covered",
				"date views: homogeneous sets of timestamps of one layout (ISO with .mmm/.uuuuuu/.nnnnnnnnn, month/day/year with .mmm, RFC 3339 with .mmm and offset, ISO seconds, ISO minutes, ISO / RFC 3339 / nginx with numeric offset) whose keys differ only in the fractional second, the second, the minute, the offset (one wall clock in six zones; wall clocks ordered differently from their instants; four spellings of ONE instant) or the year (1600, 1901, 1969/1970, 2038, 2262, 9999); the reference computes each key's instant from its calendar fields (days-from-civil, checked against package time at start-up) and `date` must order by instant; distinct texts of one instant may come in either order, but in ONE order (input class date-same-instant); in a signature the differing aspect follows the input class (all-date-same-layout/sub-second)",
				"size families: one generated key set per (class, n) and a bounded family of permutations (not all n!); only homogeneous classes with a fresh instance per sort, so the recorded contextual/date findings (mixtures, re-use after foreign keys) are not involved; weekday/month sets beyond 7/12 keys contain several spellings of one day/month, whose mutual order is only required to be deterministic",
				"accumulating-group operation histories: groups for which the accepted sort expression has EQUAL values (always so after SetSort(\"\"), which compiles to the empty text) may come in any order and are not compared with the fresh aggregator or between two calls (AccumulatingGroup.Groups has no tie-break and collects the groups from a Go map); the value sequence must still be sorted; which expressions SetSort accepts is taken from its return value, not demanded",
				"accumulating-group refresh histories: the data columns are integers throughout (samples carry the values 0, 2, 10; min starts at 99), so the harness's fold is plain integer arithmetic; the sort value of a group is what the expression reads from that fold (a column's decimal text, a part of the group key, two of them joined with ':', or the decimal sum of two columns); the reference order is demanded as text under ByName and by magnitude under ByNameSmart only when every sort value is an integer (other values under ByNameSmart: only the comparison with the fresh aggregator and repeatability); groups with equal sort values may come in either order as far as the reference is concerned, but in the SAME order as on a fresh aggregator with the same samples (\"any two distinct keys are ordered the same way every time\"); the refreshes between samples use ByNameSmart and Reverse(ByNameSmart) only; SetSort is called once, before the first sample (later SetSort calls: the operation histories above)",
				"history families: text, numeric and value sorters must be stateless across data sets of any class; contextual and date instances are only given homogeneous histories (all weekday names, all month names, all ISO dates, all US dates, all millisecond timestamps, all offset timestamps), their behaviour after a key outside the first inferred set/layout being the recorded known finding; the expected result of every sort is what a fresh instance built by the same call gives",
				"the calendar views hold every weekday and every month as full name and as 3-letter abbreviation, each in lower case, Capitalised and UPPER case, one view per spelling form plus two views per set in which neighbouring names have different forms; a set of such names is a homogeneous set of weekday (month) names and `contextual` must order it by calendar position whatever the letter case; in a signature the spelling form follows the input class (all-weekday/full-name-capitalised). The longer abbreviations the sorter also knows (tues, thur, thurs, sept) are not demanded",
			}
		},
		Worker:         worker,
		Replay:         replay,
		HangSeconds:    30,
		QuickBudget:    3 * time.Minute,
		ThoroughBudget: 20 * time.Minute,
	})
}
