package main

// SIZE family of C11: every helper is also called with arguments whose SIZE
// is swept (length of a string argument, number of fields/lines/path
// components inside it, number of arguments of a variadic helper, number of
// digits/decimals of a number), because part 1 only enumerates tiny inputs
// exhaustively: a defect that exists only beyond some size (a fixed scratch
// buffer, a fast path for long inputs, a narrow counter) is invisible there.
// A shape is a fixed simple input parametrised by n whose content carries the
// position (element i holds i), so that loss, duplication and reordering show;
// it is run for n = 0..70 and 2^k-1, 2^k, 2^k+1 up to the cap of the tier, in
// a handful of configurations (all constants / all groups / documented
// literals as constants, optimiser on and off). The oracle is the same
// documentation-only reference model (ref.Check) as in part 1.

import (
	"fmt"
	"strconv"
	"strings"

	"verif/harness/exprfuncs/ref"
	"verif/runner"
)

type sizeShape struct {
	name       string
	fns        []string
	gen        func(n int) [][]string // the argument tuples of size n (the index is the variant)
	capQ, capT int                    // largest n per tier (0: sizeCapQuick / sizeCapThorough)
	what       string                 // for the Rule string
}

const (
	sizeCapQuick    = 4097
	sizeCapThorough = 65537
)

// sweepSizes: 0..70 and 2^k-1, 2^k, 2^k+1 for k >= 7, up to maxN.
func sweepSizes(maxN int) []int {
	var out []int
	for n := 0; n <= 70 && n <= maxN; n++ {
		out = append(out, n)
	}
	for k := 7; 1<<k-1 <= maxN; k++ {
		for _, n := range []int{1<<k - 1, 1 << k, 1<<k + 1} {
			if n <= maxN {
				out = append(out, n)
			}
		}
	}
	return out
}

// strN: a string of n ASCII letters and digits in which every region names
// its position: "0a1B2c3D...9j10K11l..." cut to n bytes (mixed case, so that
// upper/lower change it).
func strN(n int) string {
	var sb strings.Builder
	sb.Grow(n + 8)
	for i := 0; sb.Len() < n; i++ {
		sb.WriteString(strconv.Itoa(i))
		c := byte('a' + i%26)
		if i%2 == 1 {
			c = byte('A' + i%26)
		}
		sb.WriteByte(c)
	}
	return sb.String()[:n]
}

// specialsN: n characters, every 7th one of the characters CSV/tab/template
// quoting cares about (quote, comma, LF, space, e-acute, CR), the others as in strN.
func specialsN(n int) string {
	sp := []string{"\"", ",", "\n", " ", "é", "\r"}
	base := strN(n)
	var sb strings.Builder
	for i := 0; i < n; i++ {
		if i%7 == 3 {
			sb.WriteString(sp[(i/7)%len(sp)])
		} else {
			sb.WriteByte(base[i])
		}
	}
	return sb.String()
}

// digitsN: the n-digit number 1234567890123...
func digitsN(n int) string {
	b := make([]byte, n)
	for i := range b {
		b[i] = "1234567890"[i%10]
	}
	return string(b)
}

func changeLast(s string) string {
	if s == "" {
		return s
	}
	c := s[len(s)-1]
	r := byte('#')
	if c >= '0' && c <= '9' {
		r = '0' + (c-'0'+3)%10
	}
	return s[:len(s)-1] + string(r)
}

func fieldsN(n int, sep func(i int) string) string {
	var sb strings.Builder
	for i := 0; i < n; i++ {
		if i > 0 {
			sb.WriteString(sep(i))
		}
		sb.WriteString("f" + strconv.Itoa(i))
	}
	return sb.String()
}

func rep(s string, n int) []string {
	out := make([]string, n)
	for i := range out {
		out[i] = s
	}
	return out
}

func one(args ...string) [][]string { return [][]string{args} }

func sizeShapes() []sizeShape {
	space := func(int) string { return " " }
	return []sizeShape{
		{
			name: "string-of-length-n", what: "one argument: n letters/digits naming their position",
			fns: []string{"len", "upper", "lower", "not", "coalesce", "csv", "tab", "and", "or", "isint", "isnum", "hi", "hf", "expbucket",
				"basename", "dirname", "extname", "floor", "round", "bytesize", "downscale", "percent", "sqrt"},
			gen: func(n int) [][]string { return one(strN(n)) },
		},
		{
			name: "string-with-quoting-characters-of-length-n", what: "one and two arguments of n characters, every 7th a quote, comma, LF, space, e-acute or CR; and n plain bytes of which only the last (or only the first) is a quote, comma, LF or space",
			fns: []string{"csv", "tab", "len", "upper", "lower", "coalesce", "eq", "neq", "if", "unless"},
			gen: func(n int) [][]string {
				s := specialsN(n)
				out := [][]string{{s}, {s, s}, {s, strN(n)}}
				if n >= 1 {
					p := strN(n)
					for _, q := range []string{"\"", ",", "\n", " "} {
						out = append(out, []string{p[:n-1] + q}, []string{q + p[1:]}, []string{"a", p[:n-1] + q})
					}
				}
				return out
			},
		},
		{
			name: "substr-of-string-of-length-n", what: "{substr S pos len} with S of n bytes and (pos,len) in {(0,n) (0,n+1) (n-1,1) (n,1) (1,n-2) (n/2,n/2) (n/2,n) (0,0) (n+1,1)}",
			fns: []string{"substr"},
			gen: func(n int) [][]string {
				s := strN(n)
				var out [][]string
				for _, pl := range [][2]int{{0, n}, {0, n + 1}, {n - 1, 1}, {n, 1}, {1, n - 2}, {n / 2, n / 2}, {n / 2, n}, {0, 0}, {n + 1, 1}} {
					if pl[0] < 0 || pl[1] < 0 {
						continue
					}
					out = append(out, []string{s, itoa(pl[0]), itoa(pl[1])})
				}
				return out
			},
		},
		{
			name: "select-of-n-fields", what: "{select S i} with S = n fields f0..f(n-1) separated by one space (i in {0, n/2, n-1, n}), by space/tab/newline in turn (i = n-1), and S = one field of n bytes (i in {0,1})",
			fns: []string{"select"},
			gen: func(n int) [][]string {
				s := fieldsN(n, space)
				mixed := fieldsN(n, func(i int) string { return []string{" ", "\t", "\n"}[i%3] })
				return [][]string{{s, "0"}, {s, itoa(n / 2)}, {s, itoa(max(n-1, 0))}, {s, itoa(n)}, {mixed, itoa(max(n-1, 0))}, {strN(n), "0"}, {strN(n), "1"}}
			},
		},
		{
			name: "contains-in-string-of-length-n", what: "{like|prefix|suffix S T} with S of n bytes and T = S without its last byte, without its first byte, its second half, S, S+x, S with the last byte changed, and the empty string",
			fns: []string{"like", "prefix", "suffix"},
			gen: func(n int) [][]string {
				s := strN(n)
				if n == 0 {
					return [][]string{{s, s}, {s, "x"}}
				}
				return [][]string{{s, s[:n-1]}, {s, s[1:]}, {s, s[n/2:]}, {s, s}, {s, s + "x"}, {s, changeLast(s)}, {s, ""}}
			},
		},
		{
			name: "equality-of-strings-of-length-n", what: "{eq|neq S T} with S of n bytes and T = S, S with the last byte changed, S+a",
			fns: []string{"eq", "neq"},
			gen: func(n int) [][]string {
				s := strN(n)
				return [][]string{{s, s}, {s, changeLast(s) + ""}, {s, s + "a"}}
			},
		},
		{
			name: "branch-value-of-length-n", what: "{if|unless c V [W]} with the chosen value of n bytes",
			fns: []string{"if", "unless"},
			gen: func(n int) [][]string {
				s := strN(n)
				return [][]string{{"1", s}, {"", s}, {"", "x", s}, {"1", s, "x"}, {s, "y"}}
			},
		},
		{
			name: "format-of-size-n", what: "{format %s S} and {format S} with S of n bytes, n verbs %s with n arguments, width n (%ns| and %-ns|), precision n (%.ns of 2n bytes)",
			fns: []string{"format"},
			gen: func(n int) [][]string {
				out := [][]string{{"%s", strN(n)}, {strN(n)}, {"%" + itoa(n) + "s|", "x"}, {"%-" + itoa(n) + "s|", "x"}, {"%." + itoa(n) + "s", strN(2 * n)}}
				if n >= 1 {
					verbs := strings.Join(rep("%s", n), "-")
					args := []string{verbs}
					for i := 0; i < n; i++ {
						args = append(args, "v"+itoa(i))
					}
					out = append(out, args)
				}
				return out
			},
		},
		{
			name: "n-arguments", what: "n arguments v0..v(n-1) (csv: every 5th needs quoting; coalesce: n-1 empty ones first; and/or: all truthy, all empty, the odd one first/last)",
			fns: []string{"tab", "csv", "coalesce", "and", "or"},
			gen: func(n int) [][]string {
				if n == 0 {
					return nil
				}
				vals := make([]string, n)
				quoted := make([]string, n)
				for i := range vals {
					vals[i] = "v" + itoa(i)
					quoted[i] = vals[i]
					if i%5 == 2 {
						quoted[i] = []string{"a,", "\"" + itoa(i), itoa(i) + "\n", "", " "}[(i/5)%5]
					}
				}
				emptyThenLast := append(rep("", n-1), "last")
				allTrue := rep("1", n)
				lastEmpty := append(rep("1", n-1), "")
				firstEmpty := append([]string{""}, rep("1", n-1)...)
				lastTrue := append(rep("", n-1), "1")
				return [][]string{vals, quoted, emptyThenLast, rep("", n), allTrue, lastEmpty, firstEmpty, lastTrue}
			},
		},
		{
			name: "switch-of-n-pairs", what: "{switch c0 v0 .. c(n-1) v(n-1) [else]} with the only truthy condition first, in the middle, last, or none (with and without else)",
			fns: []string{"switch"},
			gen: func(n int) [][]string {
				if n == 0 {
					return nil
				}
				mk := func(truthy int, els bool) []string {
					var a []string
					for i := 0; i < n; i++ {
						c := ""
						if i == truthy {
							c = "1"
						}
						a = append(a, c, "v"+itoa(i))
					}
					if els {
						a = append(a, "else")
					}
					return a
				}
				return [][]string{mk(0, false), mk(n/2, true), mk(n-1, false), mk(n-1, true), mk(-1, false), mk(-1, true)}
			},
		},
		{
			name: "integer-fold-of-n-arguments", what: "n >= 2 integer arguments: 1..n; a rotation of 0..n-1; 2^62 followed by ones with a -1 in the middle and a 2 at the end; 1000003 followed by 1000s and a final 7",
			fns: []string{"sumi", "subi", "multi", "divi", "modi", "maxi", "mini"},
			gen: func(n int) [][]string {
				if n < 2 {
					return nil
				}
				seq := make([]string, n)
				rot := make([]string, n)
				for i := range seq {
					seq[i] = itoa(i + 1)
					rot[i] = itoa((i + n/2) % n)
				}
				div := append([]string{"4611686018427387904"}, rep("1", n-1)...)
				div[n/2] = "-1"
				div[n-1] = "2"
				if n == 2 {
					div[1] = "-2"
				}
				mod := append([]string{"1000003"}, rep("1000", n-1)...)
				mod[n-1] = "7"
				return [][]string{seq, rot, div, mod}
			},
		},
		{
			name: "float-fold-of-n-arguments", what: "n >= 2 float arguments: n times 0.5; 3 followed by ones with a 0.5 in the middle and a 4 at the end",
			fns: []string{"sumf", "subf", "multf", "divf"},
			gen: func(n int) [][]string {
				if n < 2 {
					return nil
				}
				m := append([]string{"3"}, rep("1", n-1)...)
				m[n/2] = "0.5"
				m[n-1] = "4"
				return [][]string{rep("0.5", n), m}
			},
		},
		{
			name: "number-of-n-digits", what: "the n-digit integer 1234567890123.. and its negative, alone; with a second n-digit integer differing in the last digit; as the value of bucket 1000, clamp and precision helpers; and n-1 digits followed by the letter x (not a number)",
			fns: []string{"hi", "hf", "floor", "ceil", "round", "isint", "isnum", "expbucket", "bytesize", "bytesizesi", "downscale", "percent", "log10", "log2", "ln", "sqrt",
				"sumi", "subi", "multi", "divi", "modi", "maxi", "mini", "lt", "gt", "lte", "gte", "eq", "neq", "sumf", "subf", "bucket", "bucketrange", "clamp", "len"},
			capQ: 130, capT: 1025,
			gen: func(n int) [][]string {
				if n == 0 {
					return nil
				}
				d := digitsN(n)
				e := changeLast(d)
				return [][]string{{d}, {"-" + d}, {d, e}, {"-" + d, e}, {e, d}, {d, "1000"}, {"-" + d, "1000"}, {d, "2"},
					{d, "-" + d, d}, {d, "0", digitsN(n-1) + "0"}, {"-" + d, "-" + d, "0"},
					{d[:n-1] + "x"}, {d[:n-1] + "x", "7"}, {"7", d[:n-1] + "x"}}
			},
		},
		{
			name: "number-of-n-decimals", what: "1.<n digits>, -0.<n-1 zeros>1, 0.<n nines>, 12345.<n digits>, alone, with precision {0,2,n} and as both operands of the float folds and comparisons",
			fns:  []string{"floor", "ceil", "round", "hf", "isnum", "isint", "percent", "log10", "sqrt", "sumf", "subf", "multf", "divf", "lt", "gt", "lte", "gte", "bytesize", "hi"},
			capQ: 130, capT: 1025,
			gen: func(n int) [][]string {
				if n == 0 {
					return nil
				}
				a := "1." + digitsN(n)
				b := "-0." + strings.Repeat("0", n-1) + "1"
				c := "0." + strings.Repeat("9", n)
				d := "12345." + digitsN(n)
				return [][]string{{a}, {b}, {c}, {d}, {a, "0"}, {a, "2"}, {a, itoa(n)}, {c, "2"}, {d, itoa(n)}, {a, d}, {b, c}, {d, a}}
			},
		},
		{
			name: "lookup-table-of-n-lines", what: "{lookup|haskey key table [prefix]}: a table of n lines k<i> v<i> (keys k0, k(n/2), k(n-1) and the absent k(n)); n blank lines, and n comment lines, before the line k v; a first line whose value / whose key has n bytes followed by a second line that is looked up",
			fns: []string{"lookup", "haskey"},
			gen: func(n int) [][]string {
				var sb strings.Builder
				for i := 0; i < n; i++ {
					fmt.Fprintf(&sb, "k%d v%d\n", i, i)
				}
				t := sb.String()
				sb.Reset()
				for i := 0; i < n; i++ {
					fmt.Fprintf(&sb, "#k%d x%d\n", i, i)
				}
				comments := sb.String() + "k v"
				blanks := strings.Repeat("\n", n) + "k v"
				longVal := "first " + strN(n) + "x\nlast vlast\n"
				longKey := strN(n) + "q w\nlast vlast"
				return [][]string{{"k0", t}, {"k" + itoa(n/2), t}, {"k" + itoa(max(n-1, 0)), t}, {"k" + itoa(n), t},
					{"k", blanks}, {"k", comments, "#"}, {"k" + itoa(n/2), comments, "#"}, {"#k" + itoa(n/2), comments},
					{"last", longVal}, {"first", longVal}, {"last", longKey}, {strN(n) + "q", longKey}}
			},
		},
		{
			name: "path-of-n-components", what: "d0/d1/../d(n-1)/f.ext relative and absolute; a last component, an extension and a directory of n bytes; a file name with n dots",
			fns: []string{"basename", "dirname", "extname"},
			gen: func(n int) [][]string {
				var sb strings.Builder
				for i := 0; i < n; i++ {
					sb.WriteString("d" + itoa(i) + "/")
				}
				p := sb.String() + "f.ext"
				return [][]string{{p}, {"/" + p}, {"a/" + strN(n) + ".txt"}, {"a/b." + strN(n)}, {"x" + strN(n) + "/b.c"}, {"a/n" + strings.Repeat(".x", n)}}
			},
		},
	}
}

// sizeStyles: the configurations of a SIZE case.
var sizeStyles = []string{styleConst, styleGroups, styleNatural}

func runSizeCase(b *builders, sh *sizeShape, variant, n int, fn, style string, opt bool) (res result, c Case, ok bool) {
	tuples := sh.gen(n)
	if variant >= len(tuples) {
		return res, c, false
	}
	args := tuples[variant]
	if !admissible(fn, len(args)) {
		return res, c, false
	}
	switch fn {
	case "round", "percent", "bytesize", "bytesizesi", "downscale":
		// the second argument is a number of decimals to print: rare prints as
		// many as it is asked for, so a swept n-digit number there is an order
		// for gigabytes of zeros, not a case of this property
		if len(args) > 1 && len(args[1]) > 4 {
			return res, c, false
		}
	}
	dyn, ok := dynOf(style, fn, len(args))
	if !ok {
		return res, c, false
	}
	c = Case{Kind: "size", Fn: fn, Opt: opt, Shape: sh.name, Variant: variant, N: n, Style: style}
	dynv := make([]bool, len(args))
	for i, a := range args {
		dynv[i] = dyn(i)
		if !dynv[i] {
			b.checkEncoding(a)
		}
	}
	tmpl, groups := buildTemplateDyn(fn, args, dyn)
	o := b.execute(tmpl, groups, opt)
	res = result{obs: o, tmpl: tmpl, groups: groups}
	shown := func() string {
		return fmt.Sprintf("shape %s variant %d n=%d style %s optimize=%v\ntemplate %s\ngroups %s", sh.name, variant, n, style, opt,
			clip(fmt.Sprintf("%q", tmpl), 300), clip(fmt.Sprintf("%q", groups), 300))
	}
	if o.panicMsg != "" {
		res.sig = "C11/panic/" + fn + "/" + panicClass(o.panicMsg) + "/size-family"
		res.detail = fmt.Sprintf("panic during %s: %s\n%s", o.stage, o.panicMsg, shown())
		return res, c, true
	}
	v := ref.Check(ref.Call{Fn: fn, Args: args, Dyn: dynv}, o.out)
	res.verdict = v
	if !v.OK {
		res.sig = "C11/" + fn + "/" + v.Class + "/size-family"
		res.detail = fmt.Sprintf("%s\nreturned %s\nthe documentation requires %s", shown(), clip(fmt.Sprintf("%q", o.out), 400), clip(v.Want, 600))
		if o.cerr != "" {
			res.detail += "\ncompile error: " + clip(o.cerr, 300)
		}
	}
	return res, c, true
}

func sizeCap(sh *sizeShape, quick bool) int {
	if quick {
		if sh.capQ > 0 {
			return sh.capQ
		}
		return sizeCapQuick
	}
	if sh.capT > 0 {
		return sh.capT
	}
	return sizeCapThorough
}

// runSizeFamily: sharding unit = (shape, n, helper).
func runSizeFamily(w *runner.W, b *builders, only string, caseNo *int64) bool {
	shapes := sizeShapes()
	for si := range shapes {
		sh := &shapes[si]
		for _, n := range sweepSizes(sizeCap(sh, w.Quick())) {
			var tuples [][]string
			for _, fn := range sh.fns {
				if only != "" && fn != only {
					continue
				}
				*caseNo++
				if !w.Owns(*caseNo) {
					continue
				}
				if w.Expired() {
					return false
				}
				if tuples == nil {
					tuples = sh.gen(n)
				}
				for variant := range tuples {
					for _, style := range sizeStyles {
						for _, opt := range []bool{true, false} {
							c0 := Case{Kind: "size", Fn: fn, Opt: opt, Shape: sh.name, Variant: variant, N: n, Style: style}
							w.SetCase(func() any { return c0 })
							r, c, ok := runSizeCase(b, sh, variant, n, fn, style, opt)
							if !ok {
								continue
							}
							w.Add("size_family_cases", 1)
							w.Max("size_family_largest_n", int64(n))
							if r.sig != "" {
								w.Eval(false)
								w.Violation(r.sig, r.detail, c)
								continue
							}
							isErr := ref.IsMarker(r.obs.out)
							w.Eval(r.verdict.Demand && !isErr && r.obs.cerr == "")
							if len(r.obs.out) <= 64 {
								w.Outcome(fn, r.obs.out)
							} else {
								w.Outcome(fn, sh.name, strconv.Itoa(len(r.obs.out)))
							}
						}
					}
				}
			}
		}
	}
	return true
}

func replaySize(w *runner.W, b *builders, c Case) {
	shapes := sizeShapes()
	for si := range shapes {
		if shapes[si].name == c.Shape {
			r, c2, ok := runSizeCase(b, &shapes[si], c.Variant, c.N, c.Fn, c.Style, c.Opt)
			if ok && r.sig != "" {
				w.Violation(r.sig, r.detail, c2)
			}
			return
		}
	}
	panic("unknown shape " + c.Shape)
}
