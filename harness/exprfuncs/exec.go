package main

import (
	"fmt"
	"strconv"
	"strings"

	"rare/pkg/expressions"
	"rare/pkg/expressions/funclib"
	"rare/pkg/humanize"

	"verif/harness/exprfuncs/ref"
)

// Case is one replayable execution: `{Fn args...}` where argument i is a
// template constant unless bit i of Mask is set (then it is `{k}`, the k-th
// match group of the context), compiled with or without the optimiser.
//
// Kind "size": a case of the SIZE sweeps; the arguments are regenerated from
// (Shape, Variant, N) and supplied in the given Style (see size.go).
// Kind "history": Template is compiled once and evaluated on every entry of
// History in order; the result of the last evaluation must be the result a
// fresh compilation gives for that entry; Kind "history-kept": the string the
// first evaluation returned must still read the same after the others (see
// history.go).
// Kind "delivery": a table delivered to {load} through a named pipe in pieces;
// Kind "load-history": a sequence of compilations of {load} of failing and
// readable files in one process (see delivery.go).
type Case struct {
	Kind     string     `json:"kind,omitempty"` // "" (one tuple), "size", "history", "history-kept"
	Fn       string     `json:"fn"`
	Args     []string   `json:"args,omitempty"`
	Mask     int        `json:"group_mask"`
	Opt      bool       `json:"optimize"`
	Template string     `json:"template,omitempty"` // informational (Kind history: the compiled template)
	Groups   []string   `json:"groups,omitempty"`   // informational
	Shape    string     `json:"shape,omitempty"`
	Variant  int        `json:"variant,omitempty"`
	N        int        `json:"n,omitempty"`
	Style    string     `json:"style,omitempty"`
	History  [][]string `json:"history,omitempty"`
	Deliv    *delivCase `json:"delivery,omitempty"` // Kind "delivery" / "load-history" (see delivery.go)
}

// encConst writes s as one template constant. The text of an argument is
// unescaped three times on its way to a literal stage (statement level of
// Compile, the argument splitter, Compile of the argument), so the encoding
// applies the three escapings in reverse order.
func encConst(s string) string {
	simple := s != ""
	for i := 0; i < len(s); i++ {
		c := s[i]
		if !(c >= '0' && c <= '9' || c >= 'a' && c <= 'z' || c >= 'A' && c <= 'Z' || c == '.' || c == '-' || c == '+' || c == '/' || c == '%' || c == ',' || c >= 0x80) {
			simple = false
		}
	}
	if simple {
		return s // as a user would write it: {sumi 1 2}
	}
	esc := func(t string, set string) string {
		var b strings.Builder
		for _, r := range t {
			if strings.ContainsRune(set, r) {
				b.WriteByte('\\')
			}
			b.WriteRune(r)
		}
		return b.String()
	}
	l3 := esc(s, `\{}`)
	l2 := `"` + esc(l3, `\"`) + `"`
	return esc(l2, `\{}`)
}

type builders struct {
	opt, noopt *expressions.KeyBuilder
	encOK      map[string]bool
}

func idFunc(args []expressions.KeyBuilderStage) (expressions.KeyBuilderStage, error) {
	if len(args) != 1 {
		return nil, fmt.Errorf("verif id: %d args", len(args))
	}
	return args[0], nil
}

func newBuilders() *builders {
	// process globals the helpers read
	humanize.Enabled = true
	humanize.Decimals = 4
	b := &builders{opt: funclib.NewKeyBuilderEx(true), noopt: funclib.NewKeyBuilderEx(false), encOK: map[string]bool{}}
	// identity helper, only in these private builders: used to self-test that
	// a constant reaches a helper as the intended string
	b.opt.Func("verifid", idFunc)
	b.noopt.Func("verifid", idFunc)
	return b
}

// checkEncoding is a harness self-test, not an oracle: a failure is a harness
// error (panic outside an oracle).
func (b *builders) checkEncoding(s string) {
	if b.encOK[s] {
		return
	}
	for _, kb := range []*expressions.KeyBuilder{b.opt, b.noopt} {
		tmpl := "{verifid " + encConst(s) + "}"
		ckb, err := kb.Compile(tmpl)
		if err != nil || ckb == nil {
			panic(fmt.Sprintf("harness self-test: constant %q does not compile as %q: %v", s, tmpl, err))
		}
		if got := ckb.BuildKey(&expressions.KeyBuilderContextArray{}); got != s {
			panic(fmt.Sprintf("harness self-test: constant %q written as %q reaches the helper as %q", s, tmpl, got))
		}
	}
	b.encOK[s] = true
}

func buildTemplate(fn string, args []string, mask int) (string, []string) {
	return buildTemplateDyn(fn, args, func(i int) bool { return i < 62 && mask&(1<<i) != 0 })
}

// buildTemplateDyn: argument i is `{k}` (the k-th group) when dyn(i), else a
// template constant.
func buildTemplateDyn(fn string, args []string, dyn func(i int) bool) (string, []string) {
	var sb strings.Builder
	sb.WriteByte('{')
	sb.WriteString(fn)
	var groups []string
	for i, a := range args {
		sb.WriteByte(' ')
		if dyn(i) {
			sb.WriteByte('{')
			sb.WriteString(strconv.Itoa(len(groups)))
			sb.WriteByte('}')
			groups = append(groups, a)
		} else {
			sb.WriteString(encConst(a))
		}
	}
	sb.WriteByte('}')
	return sb.String(), groups
}

type observation struct {
	out      string
	cerr     string // compile error text ("" if none)
	panicMsg string // recovered panic ("" if none)
	stage    string // "compile" or "evaluate" when it panicked
}

// execute compiles the template with the real funclib KeyBuilder and evaluates
// it on a context holding the groups.
func (b *builders) execute(tmpl string, groups []string, opt bool) (o observation) {
	kb := b.noopt
	if opt {
		kb = b.opt
	}
	o.stage = "compile"
	defer func() {
		if r := recover(); r != nil {
			o.panicMsg = fmt.Sprint(r)
		}
	}()
	ckb, err := kb.Compile(tmpl)
	if err != nil {
		o.cerr = err.Error()
	}
	if ckb == nil {
		o.out = ref.CompileErrorMarker
		return o
	}
	o.stage = "evaluate"
	o.out = ckb.BuildKey(&expressions.KeyBuilderContextArray{Elements: groups})
	if o.cerr != "" && !ref.IsMarker(o.out) {
		// rare refuses to run an expression that does not compile: an error
		// report, whatever the half-built stage would print
		o.out = ref.CompileErrorMarker
	}
	return o
}

// panicClass turns a panic message into a signature component.
func panicClass(msg string) string {
	msg = strings.TrimPrefix(msg, "runtime error: ")
	if i := strings.IndexAny(msg, "[:"); i > 0 {
		msg = msg[:i]
	}
	var b strings.Builder
	dash := false
	for _, r := range strings.ToLower(strings.TrimSpace(msg)) {
		if r >= 'a' && r <= 'z' {
			b.WriteRune(r)
			dash = false
		} else if !dash && b.Len() > 0 {
			b.WriteByte('-')
			dash = true
		}
	}
	s := strings.TrimSuffix(b.String(), "-")
	if s == "" {
		s = "panic"
	}
	if len(s) > 60 {
		s = s[:60]
	}
	return s
}

type result struct {
	sig, detail string
	obs         observation
	verdict     ref.Verdict
	tmpl        string
	groups      []string
}

// runCase executes one case and applies the oracle.
func (b *builders) runCase(c Case) result {
	for i, a := range c.Args {
		if c.Mask&(1<<i) == 0 {
			b.checkEncoding(a)
		}
	}
	tmpl, groups := buildTemplate(c.Fn, c.Args, c.Mask)
	o := b.execute(tmpl, groups, c.Opt)
	r := result{obs: o, tmpl: tmpl, groups: groups}
	if o.panicMsg != "" {
		r.sig = "C11/panic/" + c.Fn + "/" + panicClass(o.panicMsg)
		r.detail = fmt.Sprintf("panic during %s: %s\ntemplate %q groups %q optimize=%v", o.stage, o.panicMsg, tmpl, groups, c.Opt)
		return r
	}
	dyn := make([]bool, len(c.Args))
	for i := range c.Args {
		dyn[i] = c.Mask&(1<<i) != 0
	}
	v := ref.Check(ref.Call{Fn: c.Fn, Args: c.Args, Dyn: dyn}, o.out)
	r.verdict = v
	if !v.OK {
		r.sig = "C11/" + c.Fn + "/" + v.Class
		r.detail = fmt.Sprintf("template %q groups %q optimize=%v\nreturned %q\nthe documentation requires %s", tmpl, groups, c.Opt, o.out, v.Want)
		if o.cerr != "" {
			r.detail += "\ncompile error: " + o.cerr
		}
	}
	return r
}
