package ref

import (
	"fmt"
	"math"
	"math/big"
	"strconv"
	"strings"
	"unicode"
	"unicode/utf8"
)

// Call is one helper invocation `{Fn Args...}`; Dyn[i] says the i-th argument
// came from a match group instead of a template constant.
type Call struct {
	Fn   string
	Args []string
	Dyn  []bool
}

// Verdict is the oracle's answer for one observed output.
type Verdict struct {
	OK     bool
	Class  string // "<input class>/<failure kind>", no spaces; only meaningful when !OK
	Want   string // the accept-set in words
	Demand bool   // the documentation pins the answer for this input (case is non-trivial for the oracle)
}

// constOnly lists argument positions that DOC writes in quotes ("They are
// denoted below in quotes ... will be evaluated during compile-time") or that
// the helper only accepts as a literal (precision arguments). When such an
// argument is supplied from a match group the documented `<CONST>`/error
// marker is accepted in addition to the correct value.
var constOnly = map[string][]int{
	"bucket": {1}, "bucketrange": {1}, "clamp": {1, 2},
	"round": {1}, "percent": {1}, "bytesize": {1}, "bytesizesi": {1}, "downscale": {1},
	"lookup": {1, 2}, "haskey": {1, 2},
}

// ConstPositions: the argument positions of fn that must be literals.
func ConstPositions(fn string) []int { return constOnly[fn] }

// Arity is the documented arity range of every helper of the property
// (max -1: variadic). Taken from the "Syntax:" lines of DOC.
var Arity = map[string][2]int{
	"sumi": {2, -1}, "subi": {2, -1}, "multi": {2, -1}, "divi": {2, -1}, "modi": {2, -1},
	"maxi": {2, -1}, "mini": {2, -1},
	"sumf": {2, -1}, "subf": {2, -1}, "multf": {2, -1}, "divf": {2, -1},
	"floor": {1, 1}, "ceil": {1, 1}, "round": {1, 2},
	"log10": {1, 1}, "log2": {1, 1}, "ln": {1, 1}, "pow": {2, 2}, "sqrt": {1, 1},
	"eq": {2, 2}, "neq": {2, 2}, "lt": {2, 2}, "gt": {2, 2}, "lte": {2, 2}, "gte": {2, 2},
	"not": {1, 1}, "and": {1, -1}, "or": {1, -1},
	"if": {2, 3}, "unless": {2, 2}, "switch": {2, -1}, "coalesce": {1, -1},
	"isint": {1, 1}, "isnum": {1, 1},
	"len": {1, 1}, "like": {2, 2}, "prefix": {2, 2}, "suffix": {2, 2},
	"substr": {3, 3}, "select": {2, 2}, "upper": {1, 1}, "lower": {1, 1},
	"format": {1, -1}, "tab": {1, -1},
	"bucket": {2, 2}, "bucketrange": {2, 2}, "expbucket": {1, 1}, "clamp": {3, 3},
	"lookup": {2, 3}, "haskey": {2, 3},
	"basename": {1, 1}, "dirname": {1, 1}, "extname": {1, 1},
	"csv": {1, -1},
	"hi":  {1, 1}, "hf": {1, 1}, "percent": {1, 4},
	"bytesize": {1, 2}, "bytesizesi": {1, 2}, "downscale": {1, 2},
}

func anyOK(why string) Verdict { return Verdict{OK: true, Want: "anything (" + why + ")"} }

func needMarker(out, why string) Verdict {
	return Verdict{OK: IsMarker(out), Class: "non-numeric-input/no-error-marker", Demand: true,
		Want: "a documented error marker (" + why + "; STMT: non-numeric input yields the documented error marker, never a wrong number)"}
}

// value builds the verdict for an input whose value the documentation pins.
func value(out string, ok bool, class, want string, acceptMarker bool) Verdict {
	if IsMarker(out) {
		if acceptMarker {
			return Verdict{OK: true, Want: want + " or an error marker", Demand: true}
		}
		return Verdict{OK: false, Class: class + "/unexpected-error-marker", Want: want, Demand: true}
	}
	if acceptMarker {
		want += " or an error marker"
	}
	return Verdict{OK: ok, Class: class + "/wrong-value", Want: want, Demand: true}
}

type intArgs struct {
	v       []int64
	non     bool
	lenient bool
}

func parseInts(args []string) intArgs {
	var r intArgs
	for _, a := range args {
		v, c := ClassInt(a)
		switch c {
		case NonNum:
			r.non = true
		case Lenient:
			r.lenient = true
		}
		r.v = append(r.v, v)
	}
	return r
}

type floatArgs struct {
	v       []float64
	non     bool
	lenient bool
}

func parseFloats(args []string) floatArgs {
	var r floatArgs
	for _, a := range args {
		v, c := ClassFloat(a)
		switch c {
		case NonNum:
			r.non = true
		case Lenient:
			r.lenient = true
		}
		r.v = append(r.v, v)
	}
	return r
}

func intOutEquals(out string, want *big.Int) bool {
	if !isCanonInt(out) {
		return false
	}
	g, ok := new(big.Int).SetString(out, 10)
	return ok && g.Cmp(want) == 0
}

var (
	bigMinInt64 = big.NewInt(math.MinInt64)
	bigMaxInt64 = big.NewInt(math.MaxInt64)
)

// Check is the oracle: does out conform to the documentation for this call?
func Check(c Call, out string) Verdict {
	ar, known := Arity[c.Fn]
	if !known {
		return anyOK("helper outside the property")
	}
	n := len(c.Args)
	acceptMarker := false
	for _, i := range constOnly[c.Fn] {
		if i < n && c.Dyn[i] {
			acceptMarker = true
		}
	}
	if n < ar[0] {
		switch c.Fn {
		case "sumi", "subi", "multi", "divi", "modi", "sumf", "subf", "multf", "divf":
			// DOC: "Requires at least 2 arguments." + table: `<ARGN>` "Function to
			// not support a variation with the given argument count".
			return Verdict{OK: IsMarker(out), Class: "too-few-arguments/no-error-marker", Demand: true, Want: "an error marker (DOC: Requires at least 2 arguments)"}
		}
		return anyOK("arity below the documented syntax")
	}
	if ar[1] >= 0 && n > ar[1] {
		return anyOK("arity above the documented syntax")
	}

	switch c.Fn {
	case "sumi", "subi", "multi", "divi", "modi", "maxi", "mini":
		return chkIntFold(c, out)
	case "sumf", "subf", "multf", "divf", "pow":
		return chkFloatFold(c, out)
	case "floor", "ceil":
		return chkFloorCeil(c, out)
	case "round":
		return chkRound(c, out, acceptMarker)
	case "log10", "log2", "ln", "sqrt":
		return chkUnaryFloat(c, out)
	case "eq", "neq":
		// DOC: "eq: If a == b, will return "1", otherwise """ (neq: a != b).
		want := ""
		if (c.Args[0] == c.Args[1]) == (c.Fn == "eq") {
			want = "1"
		}
		return Verdict{OK: out == want, Class: "strings/wrong-value", Want: strconv.Quote(want), Demand: true}
	case "lt", "gt", "lte", "gte":
		return chkCompare(c, out)
	case "not":
		a := c.Args[0]
		if a != "" && blank(a) {
			// DOC says both "not: If a == "", will return "1", otherwise """ and
			// "False is an empty value (or only whitespace)".
			return anyOK("whitespace-only argument: the two sentences about `not` disagree")
		}
		want := ""
		if a == "" {
			want = "1"
		}
		return Verdict{OK: out == want, Class: "plain/wrong-value", Want: strconv.Quote(want), Demand: true}
	case "and", "or":
		return chkAndOr(c, out)
	case "if":
		// DOC: "If val is truthy, then return ifTrue else optionally return ifFalse".
		want := ""
		if Truthy(c.Args[0]) {
			want = c.Args[1]
		} else if n == 3 {
			want = c.Args[2]
		}
		return Verdict{OK: out == want, Class: condClass(c.Args[0]) + "/wrong-value", Want: strconv.Quote(want), Demand: true}
	case "unless":
		// DOC: `{unless val ifFalse}`.
		want := ""
		if !Truthy(c.Args[0]) {
			want = c.Args[1]
		}
		return Verdict{OK: out == want, Class: condClass(c.Args[0]) + "/wrong-value", Want: strconv.Quote(want), Demand: true}
	case "switch":
		// DOC: "In pairs, if a given value is truthy, return the value immediately
		// after. If there is an odd number of arguments, the last value is used as
		// the "else" result. Otherwise, empty string is returned."
		want := ""
		found := false
		for i := 0; i+1 < n; i += 2 {
			if Truthy(c.Args[i]) {
				want, found = c.Args[i+1], true
				break
			}
		}
		if !found && n%2 == 1 {
			want = c.Args[n-1]
		}
		return Verdict{OK: out == want, Class: fmt.Sprintf("arity-%d/wrong-value", n), Want: strconv.Quote(want), Demand: true}
	case "coalesce":
		// DOC: "Evaluates arguments in-order, choosing the first non-empty result."
		want := ""
		for _, a := range c.Args {
			if a != "" {
				want = a
				break
			}
		}
		return Verdict{OK: out == want, Class: "plain/wrong-value", Want: strconv.Quote(want), Demand: true}
	case "isint", "isnum":
		return chkIsNum(c, out)
	case "len":
		// DOC: "Returns the length of the provided string. eg. the string of hello
		// returns 5." Bytes or characters is not said: both accepted.
		a := c.Args[0]
		b, r := strconv.Itoa(len(a)), strconv.Itoa(utf8.RuneCountInString(a))
		return Verdict{OK: out == b || out == r, Class: asciiClass(a) + "/wrong-value", Want: b + " or " + r, Demand: true}
	case "upper", "lower":
		return chkCase(c, out)
	case "like", "prefix", "suffix":
		return chkLike(c, out)
	case "substr":
		return chkSubstr(c, out)
	case "select":
		return chkSelect(c, out)
	case "format":
		// DOC: "Formats a string based on fmt.Sprintf".
		anys := make([]any, n-1)
		for i, a := range c.Args[1:] {
			anys[i] = a
		}
		want := fmt.Sprintf(c.Args[0], anys...)
		return Verdict{OK: out == want, Class: fmt.Sprintf("arity-%d/wrong-value", n), Want: strconv.Quote(want), Demand: true}
	case "tab":
		// DOC: "Concatenates the values of the arguments separated by a table character."
		want := strings.Join(c.Args, "\t")
		return Verdict{OK: out == want, Class: fmt.Sprintf("arity-%d/wrong-value", min(n, 3)), Want: strconv.Quote(want), Demand: true}
	case "csv":
		return chkCsv(c, out)
	case "bucket", "bucketrange":
		return chkBucket(c, out, acceptMarker)
	case "clamp":
		return chkClamp(c, out, acceptMarker)
	case "expbucket":
		return chkExpBucket(c, out)
	case "lookup", "haskey":
		return chkLookup(c, out, acceptMarker)
	case "basename", "dirname", "extname":
		return chkPath(c, out)
	case "hi":
		return chkHi(c, out)
	case "hf":
		return chkHf(c, out)
	case "percent":
		return chkPercent(c, out, acceptMarker)
	case "bytesize", "bytesizesi", "downscale":
		return chkUnits(c, out, acceptMarker)
	}
	return anyOK("no clause")
}

func condClass(s string) string {
	switch {
	case s == "":
		return "empty-condition"
	case blank(s):
		return "whitespace-condition"
	}
	return "truthy-condition"
}

func asciiClass(s string) string {
	for i := 0; i < len(s); i++ {
		if s[i] >= 0x80 {
			return "non-ascii"
		}
	}
	return "ascii"
}

// ---- arithmetic ----------------------------------------------------------

// DOC: "Evaluates integers using operator from left to right. Requires at
// least 2 arguments." / "Picks the larger or smallest integer". DESIGN §4 C11:
// left folds with Go integer semantics (wrap-around accepted, not claimed).
func chkIntFold(c Call, out string) Verdict {
	ia := parseInts(c.Args)
	if ia.non {
		return needMarker(out, "an argument is not an integer")
	}
	acc := new(big.Int).SetInt64(ia.v[0])
	wrapped := ia.v[0]
	overflow := false
	for _, v := range ia.v[1:] {
		b := big.NewInt(v)
		switch c.Fn {
		case "sumi":
			acc.Add(acc, b)
			wrapped += v
		case "subi":
			acc.Sub(acc, b)
			wrapped -= v
		case "multi":
			acc.Mul(acc, b)
			wrapped *= v
		case "divi", "modi":
			if v == 0 {
				return anyOK("division by zero is not defined by the documentation; a panic is reported separately")
			}
			if c.Fn == "divi" {
				acc.Quo(acc, b) // truncated division, as every integer language
				if wrapped == math.MinInt64 && v == -1 {
					// wraps
				} else {
					wrapped /= v
				}
			} else {
				acc.Rem(acc, b)
				if v == -1 {
					wrapped = 0
				} else {
					wrapped %= v
				}
			}
		case "maxi":
			if b.Cmp(acc) > 0 {
				acc.Set(b)
				wrapped = v
			}
		case "mini":
			if b.Cmp(acc) < 0 {
				acc.Set(b)
				wrapped = v
			}
		}
		if acc.Cmp(bigMinInt64) < 0 || acc.Cmp(bigMaxInt64) > 0 {
			overflow = true
			acc.SetInt64(wrapped)
		}
	}
	if overflow {
		// not claimed: the documentation does not say what happens beyond int64
		ok := IsMarker(out) || intOutEquals(out, big.NewInt(wrapped))
		return Verdict{OK: ok, Class: "int64-overflow/wrong-value", Want: "wrapped " + strconv.FormatInt(wrapped, 10) + " or an error marker"}
	}
	return value(out, intOutEquals(out, acc), "in-range", acc.String(), ia.lenient)
}

// DOC: "Evaluates floating points using operator from left to right." /
// "Returns the ... power ... of a floating-point number." IEEE-754 + - * / are
// correctly rounded, so the fold is exact; one ulp per operation is tolerated
// for an implementation that evaluates differently; pow gets 2 ulps.
func chkFloatFold(c Call, out string) Verdict {
	fa := parseFloats(c.Args)
	if fa.non {
		return needMarker(out, "an argument is not a number")
	}
	acc := fa.v[0]
	for _, v := range fa.v[1:] {
		switch c.Fn {
		case "sumf":
			acc += v
		case "subf":
			acc -= v
		case "multf":
			acc *= v
		case "divf":
			acc /= v
		case "pow":
			acc = math.Pow(acc, v)
		}
	}
	ulps := uint64(len(fa.v) - 1)
	if c.Fn == "pow" {
		ulps = 2
	}
	cls := "finite"
	if math.IsNaN(acc) || math.IsInf(acc, 0) {
		cls = "nan-or-inf"
	}
	return value(out, floatOutOK(out, acc, ulps), cls, strconv.FormatFloat(acc, 'g', -1, 64), fa.lenient || cls != "finite")
}

// DOC: "Returns the floor, ceil ... of a floating-point number. Eg: {floor
// 123.765} will result in 123".
func chkFloorCeil(c Call, out string) Verdict {
	v, cl := ClassFloat(c.Args[0])
	if cl == NonNum {
		return needMarker(out, "the argument is not a number")
	}
	if math.IsNaN(v) || math.IsInf(v, 0) {
		return anyOK("NaN/Inf input")
	}
	var f float64
	if c.Fn == "floor" {
		f = math.Floor(v)
	} else {
		f = math.Ceil(v)
	}
	want, _ := new(big.Float).SetFloat64(f).Int(nil)
	cls := "within-int64"
	if want.Cmp(bigMinInt64) < 0 || want.Cmp(bigMaxInt64) > 0 {
		cls = "beyond-int64"
	}
	return value(out, intOutEquals(out, want), cls, want.String(), cl == Lenient || cls == "beyond-int64")
}

// DOC: `{round val [precision=0]}` "Returns the ... rounded format of a
// floating-point number." The tie rule is not documented: on an exact tie
// both neighbours are accepted.
func chkRound(c Call, out string, acceptMarker bool) Verdict {
	v, cl := ClassFloat(c.Args[0])
	p := int64(0)
	pcl := Canon
	if len(c.Args) == 2 {
		p, pcl = ClassInt(c.Args[1])
	}
	if cl == NonNum || pcl == NonNum {
		return needMarker(out, "value or precision is not a number")
	}
	if p < 0 || p > 30 {
		return anyOK("negative or huge precision is not documented")
	}
	if math.IsNaN(v) || math.IsInf(v, 0) {
		return anyOK("NaN/Inf input")
	}
	q := ratOfFloat(v)
	scaled := new(big.Rat).Mul(q, pow10Rat(int(p)))
	lo := new(big.Int).Div(scaled.Num(), scaled.Denom()) // floor (Div is Euclidean, denom > 0)
	hi := new(big.Int).Add(lo, big.NewInt(1))
	dLo := new(big.Rat).Sub(scaled, new(big.Rat).SetInt(lo))
	cmp := dLo.Cmp(big.NewRat(1, 2))
	if scaled.IsInt() {
		cmp = -1
	}
	var cands []*big.Int
	cls := "non-tie"
	switch {
	case cmp < 0:
		cands = []*big.Int{lo}
	case cmp > 0:
		cands = []*big.Int{hi}
	default:
		cands = []*big.Int{lo, hi}
		cls = "exact-tie"
	}
	o, isDec := ratOfDecimal(out)
	ok := false
	var wants []string
	for _, k := range cands {
		w := new(big.Rat).Quo(new(big.Rat).SetInt(k), pow10Rat(int(p)))
		wants = append(wants, w.FloatString(int(p)))
		if isDec && o.Cmp(w) == 0 {
			ok = true
		}
	}
	return value(out, ok, cls, strings.Join(wants, " or "), acceptMarker || cl == Lenient || pcl == Lenient)
}

// DOC: "Returns the log (10, 2, or natural) ... or sqrt of a floating-point
// number." Compared with the correctly-rounded-ish libm value +-2 ulp.
func chkUnaryFloat(c Call, out string) Verdict {
	v, cl := ClassFloat(c.Args[0])
	if cl == NonNum {
		return needMarker(out, "the argument is not a number")
	}
	var w float64
	switch c.Fn {
	case "log10":
		w = math.Log10(v)
	case "log2":
		w = math.Log2(v)
	case "ln":
		w = math.Log(v)
	case "sqrt":
		w = math.Sqrt(v)
	}
	cls := "finite"
	if math.IsNaN(w) || math.IsInf(w, 0) {
		cls = "nan-or-inf"
	}
	return value(out, floatOutOK(out, w, 2), cls, strconv.FormatFloat(w, 'g', -1, 64), cl == Lenient || cls != "finite")
}

// ---- comparison / logic ---------------------------------------------------

// DOC: `{lt a b}` ... "Uses truthy-logic to compare two integers."
func chkCompare(c Call, out string) Verdict {
	ia := parseInts(c.Args)
	test := func(cmp int) bool {
		switch c.Fn {
		case "lt":
			return cmp < 0
		case "gt":
			return cmp > 0
		case "lte":
			return cmp <= 0
		}
		return cmp >= 0
	}
	if !ia.non && !ia.lenient {
		cmp := 0
		if ia.v[0] < ia.v[1] {
			cmp = -1
		} else if ia.v[0] > ia.v[1] {
			cmp = 1
		}
		want := test(cmp)
		cls := "integers"
		const two53 = int64(1) << 53
		if ia.v[0] > two53 || ia.v[0] < -two53 || ia.v[1] > two53 || ia.v[1] < -two53 {
			cls = "integers-beyond-2^53"
		}
		return value(out, Truthy(out) == want, cls, truthWord(want), false)
	}
	fa := parseFloats(c.Args)
	if fa.non {
		return needMarker(out, "an argument is not a number")
	}
	// decimal fractions etc.: the documentation speaks of integers only
	if math.IsNaN(fa.v[0]) || math.IsNaN(fa.v[1]) {
		return anyOK("NaN")
	}
	cmp := 0
	if fa.v[0] < fa.v[1] {
		cmp = -1
	} else if fa.v[0] > fa.v[1] {
		cmp = 1
	}
	want := test(cmp)
	return value(out, Truthy(out) == want, "non-integers", truthWord(want), true)
}

func truthWord(b bool) string {
	if b {
		return "a truthy value"
	}
	return "a falsy (blank) value"
}

// DOC: "and: All arguments need to be truthy; or: At least one argument needs
// to be truthy" with "False is an empty value (or only whitespace)".
func chkAndOr(c Call, out string) Verdict {
	all, some, ws := true, false, false
	for _, a := range c.Args {
		if Truthy(a) {
			some = true
		} else {
			all = false
			if a != "" {
				ws = true
			}
		}
	}
	want := all
	if c.Fn == "or" {
		want = some
	}
	cls := "plain"
	if ws {
		cls = "whitespace-only-argument"
	}
	return value(out, Truthy(out) == want, cls, truthWord(want), false)
}

// DOC: "Returns truthy if the val is an integer (isint), or a floating point (isnum)".
func chkIsNum(c Call, out string) Verdict {
	var cl NumClass
	if c.Fn == "isint" {
		_, cl = ClassInt(c.Args[0])
		if cl == NonNum {
			// "1e3", "3.0": whether such text "is an integer" is not documented
			if f, fc := ClassFloat(c.Args[0]); fc != NonNum && f == math.Trunc(f) {
				cl = Lenient
			}
		}
	} else {
		_, cl = ClassFloat(c.Args[0])
	}
	switch cl {
	case Canon:
		return value(out, Truthy(out), "numeric-text", truthWord(true), false)
	case NonNum:
		return value(out, !Truthy(out), "non-numeric-text", truthWord(false), false)
	}
	return anyOK("text that only some parsers accept as a number")
}

// ---- strings ----------------------------------------------------------------

// DOC: "Converts a string to all-upper or all-lower case". ASCII-only and
// Unicode-aware conversions are both accepted.
func chkCase(c Call, out string) Verdict {
	a := c.Args[0]
	var ascii, uni strings.Builder
	for _, r := range a {
		ar, ur := r, r
		if c.Fn == "upper" {
			if r >= 'a' && r <= 'z' {
				ar = r - 32
			}
			ur = unicode.ToUpper(r)
		} else {
			if r >= 'A' && r <= 'Z' {
				ar = r + 32
			}
			ur = unicode.ToLower(r)
		}
		ascii.WriteRune(ar)
		uni.WriteRune(ur)
	}
	return Verdict{OK: out == ascii.String() || out == uni.String(), Class: asciiClass(a) + "/wrong-value",
		Want: strconv.Quote(ascii.String()) + " or " + strconv.Quote(uni.String()), Demand: true}
}

// DOC: "Truthy check if a value contains a sub-value, starts with, or ends with".
func chkLike(c Call, out string) Verdict {
	val, sub := c.Args[0], c.Args[1]
	if blank(val) {
		return anyOK("a blank value cannot be reported as truthy by returning it; not documented")
	}
	var want bool
	switch c.Fn {
	case "like":
		want = strings.Contains(val, sub)
	case "prefix":
		want = strings.HasPrefix(val, sub)
	default:
		want = strings.HasSuffix(val, sub)
	}
	return value(out, Truthy(out) == want, asciiClass(val+sub), truthWord(want), false)
}

// DOC: `{substr {0} pos length}` "Takes the substring of the first argument
// starting at pos for length". Byte or character positions is not said: both
// accepted. Negative pos/length are not documented. A range reaching beyond
// the end yields what is there.
func chkSubstr(c Call, out string) Verdict {
	s := c.Args[0]
	ia := parseInts(c.Args[1:])
	if ia.non {
		if s == "" && out == "" {
			return Verdict{OK: true, Want: `"" or an error marker`}
		}
		return needMarker(out, "pos or length is not an integer")
	}
	pos, length := ia.v[0], ia.v[1]
	if pos < 0 || length < 0 {
		return anyOK("negative pos/length is not documented")
	}
	cut := func(n int64, slice func(a, b int64) string) string {
		a := min(pos, n)
		b := a + min(length, n-a)
		return slice(a, b)
	}
	byByte := cut(int64(len(s)), func(a, b int64) string { return s[a:b] })
	rs := []rune(s)
	byRune := cut(int64(len(rs)), func(a, b int64) string { return string(rs[a:b]) })
	cls := asciiClass(s)
	if pos > int64(len(s)) || length > int64(len(s)) {
		cls += "-beyond-end"
	}
	return value(out, out == byByte || out == byRune, cls, strconv.Quote(byByte)+" or "+strconv.Quote(byRune), ia.lenient)
}

func isWS(r rune) bool { return r == ' ' || r == '\t' || r == '\n' }

// DOC: "Assuming that {0} is a whitespace-separated value, split the values
// and select the item at index 1. Eg. {select "ab cd ef" 1} will result in cd".
// Whether runs of whitespace collapse and whether leading whitespace makes an
// empty first item is not documented: all three readings are accepted.
// Quote characters get special treatment by rare that the documentation does
// not describe: not claimed.
func chkSelect(c Call, out string) Verdict {
	s := c.Args[0]
	idx, cl := ClassInt(c.Args[1])
	if cl == NonNum {
		return needMarker(out, "the index is not an integer")
	}
	if strings.ContainsRune(s, '"') {
		return anyOK("quotes inside the value are not documented")
	}
	if idx < 0 {
		return anyOK("negative index is not documented")
	}
	fields := strings.FieldsFunc(s, isWS)
	var split []string
	start := 0
	for i := 0; i < len(s); i++ {
		if isWS(rune(s[i])) { // the separators are ASCII
			split = append(split, s[start:i])
			start = i + 1
		}
	}
	split = append(split, s[start:])
	hybrid := fields
	if r, _ := utf8.DecodeRuneInString(s); s != "" && isWS(r) {
		hybrid = append([]string{""}, fields...)
	}
	at := func(l []string) string {
		if idx < int64(len(l)) {
			return l[idx]
		}
		return ""
	}
	cands := []string{at(fields), at(split), at(hybrid)}
	ok := false
	for _, w := range cands {
		if out == w {
			ok = true
		}
	}
	outOfRange := idx >= int64(len(fields)) && idx >= int64(len(split))
	cls := "index-in-range"
	if outOfRange {
		cls = "index-out-of-range"
	}
	return value(out, ok, cls, fmt.Sprintf("one of %q", cands), cl == Lenient || outOfRange)
}

// parseCSVRow is an RFC 4180 reader for exactly one record.
func parseCSVRow(s string) ([]string, bool) {
	var fields []string
	i := 0
	for {
		var f strings.Builder
		if i < len(s) && s[i] == '"' {
			i++
			for {
				if i >= len(s) {
					return nil, false // unterminated quote
				}
				if s[i] == '"' {
					if i+1 < len(s) && s[i+1] == '"' {
						f.WriteByte('"')
						i += 2
						continue
					}
					i++
					break
				}
				f.WriteByte(s[i])
				i++
			}
		} else {
			for i < len(s) && s[i] != ',' && s[i] != '\r' && s[i] != '\n' {
				if s[i] == '"' {
					return nil, false // bare quote in a non-escaped field
				}
				f.WriteByte(s[i])
				i++
			}
		}
		fields = append(fields, f.String())
		if i >= len(s) {
			return fields, true
		}
		switch s[i] {
		case ',':
			i++
		case '\r', '\n':
			// end of record: nothing but the line break may follow
			rest := s[i:]
			return fields, rest == "\n" || rest == "\r\n"
		default:
			return nil, false // garbage after a closing quote
		}
	}
}

// DOC: "Generate a CSV row given a set of values"; STMT: "`{csv ..}` parses
// back to its arguments".
func chkCsv(c Call, out string) Verdict {
	got, ok := parseCSVRow(out)
	if ok {
		ok = len(got) == len(c.Args)
		for i := 0; ok && i < len(got); i++ {
			ok = got[i] == c.Args[i]
		}
	}
	cls := "plain-fields"
	for _, a := range c.Args {
		if strings.ContainsAny(a, "\",\r\n") {
			cls = "fields-needing-quotes"
		}
	}
	return Verdict{OK: ok, Class: cls + "/does-not-parse-back", Want: fmt.Sprintf("a CSV record that parses (RFC 4180) to %q", c.Args), Demand: true}
}

// ---- bucketing ---------------------------------------------------------------

// STMT: "bucket(v,s) is the multiple b of s with b <= v < b+s". DOC: "eg.
// {bucketrange 70 50} will return `50 - 99`".
func chkBucket(c Call, out string, acceptMarker bool) Verdict {
	ia := parseInts(c.Args)
	if ia.non {
		return needMarker(out, "value or bucket size is not an integer")
	}
	v, s := ia.v[0], ia.v[1]
	if s <= 0 {
		return anyOK("bucket size <= 0 is not documented")
	}
	bv, bs := big.NewInt(v), big.NewInt(s)
	q := new(big.Int).Div(bv, bs) // Euclidean division: floor for a positive divisor
	b := new(big.Int).Mul(q, bs)
	e := new(big.Int).Add(b, new(big.Int).Sub(bs, big.NewInt(1)))
	if b.Cmp(bigMinInt64) < 0 || e.Cmp(bigMaxInt64) > 0 {
		return anyOK("the bucket does not fit int64")
	}
	cls := "non-negative"
	if v < 0 {
		cls = "negative-non-multiple"
		if v%s == 0 {
			cls = "negative-exact-multiple"
		}
	}
	acc := acceptMarker || ia.lenient
	if c.Fn == "bucket" {
		return value(out, intOutEquals(out, b), cls, b.String()+" (b <= v < b+s, s | b)", acc)
	}
	want := b.String() + " - " + e.String()
	return value(out, out == want, cls, strconv.Quote(want), acc)
}

// DOC: "Clamps a given input intVal between min and max. If falls outside
// bucket, returns the word "min" or "max" as appropriate." STMT: "clamp
// returns v iff min <= v <= max".
func chkClamp(c Call, out string, acceptMarker bool) Verdict {
	ia := parseInts(c.Args)
	if ia.non {
		return needMarker(out, "value, min or max is not an integer")
	}
	v, lo, hi := ia.v[0], ia.v[1], ia.v[2]
	acc := acceptMarker || ia.lenient
	if lo > hi {
		return value(out, out == "min" || out == "max", "min-above-max", `"min" or "max"`, acc)
	}
	switch {
	case v < lo:
		return value(out, out == "min", "below-min", `"min"`, acc)
	case v > hi:
		return value(out, out == "max", "above-max", `"max"`, acc)
	}
	cls := "inside"
	if v == lo || v == hi {
		cls = "on-a-bound"
	}
	// the value may be echoed as it was written ("+5", "007")
	return value(out, out == c.Args[0] || intOutEquals(out, big.NewInt(v)), cls, strconv.FormatInt(v, 10), acc)
}

// DOC: "Create exponentially (base-10) increase buckets." For v >= 1 the
// bucket of v is the power of ten 10^k with 10^k <= v < 10^(k+1).
func chkExpBucket(c Call, out string) Verdict {
	v, cl := ClassInt(c.Args[0])
	if cl == NonNum {
		return needMarker(out, "the argument is not an integer")
	}
	if v <= 0 {
		return anyOK("values <= 0 have no base-10 exponential bucket; not documented")
	}
	p := int64(1)
	for p <= v/10 {
		p *= 10
	}
	cls := "positive"
	if p == v {
		cls = "exact-power-of-ten"
	}
	return value(out, intOutEquals(out, big.NewInt(p)), cls, strconv.FormatInt(p, 10), cl == Lenient)
}

// ---- lookup --------------------------------------------------------------------

// DOC: "Given a set of kv-pairs ..., lookup a key. For lookup return a value
// and for haskey return truthy or falsey. If a commentPrefix is provided,
// lines in lookup text are ignored if they start with the prefix. ... Keys and
// values are separated by any whitespace. ... blank lines are ignored; too
// many values are also ignored".
func chkLookup(c Call, out string, acceptMarker bool) Verdict {
	key, table := c.Args[0], c.Args[1]
	prefix := ""
	if len(c.Args) == 3 {
		prefix = c.Args[2]
	}
	if acceptMarker {
		// table or prefix from a match group: documented as literals
		return anyOK("table/commentPrefix must be literals")
	}
	vals := map[string][]string{}
	single := map[string]bool{}
	for _, line := range strings.Split(table, "\n") {
		line = strings.TrimSuffix(line, "\r")
		if prefix != "" && strings.HasPrefix(line, prefix) {
			continue
		}
		f := strings.Fields(line)
		switch len(f) {
		case 1:
			single[f[0]] = true
		case 2:
			vals[f[0]] = append(vals[f[0]], f[1])
		}
	}
	if single[key] {
		return anyOK("a line with a key and no value is not documented")
	}
	cands, has := vals[key]
	if c.Fn == "haskey" {
		return value(out, Truthy(out) == has, presentClass(has), truthWord(has), false)
	}
	if !has {
		return value(out, out == "", "absent-key", `""`, false)
	}
	ok := false
	for _, w := range cands {
		if out == w {
			ok = true
		}
	}
	return value(out, ok, "present-key", fmt.Sprintf("one of %q", cands), false)
}

func presentClass(has bool) string {
	if has {
		return "present-key"
	}
	return "absent-key"
}

// ---- paths -----------------------------------------------------------------------

// DOC: "Selects the base, directory, or extension of a path. basename a/b/c =
// c; dirname a/b/c = a/b; extname a/b/c.jpg = .jpg". Only paths made of
// non-empty components other than "." and ".." without a trailing slash are
// claimed.
func chkPath(c Call, out string) Verdict {
	p := c.Args[0]
	if p == "" || strings.Contains(p, "//") || (len(p) > 1 && strings.HasSuffix(p, "/")) || p == "/" {
		return anyOK("empty path, trailing or doubled slashes are not documented")
	}
	comps := strings.Split(strings.TrimPrefix(p, "/"), "/")
	for _, k := range comps {
		if k == "." || k == ".." || k == "" {
			return anyOK("dot components are not documented")
		}
	}
	i := strings.LastIndexByte(p, '/')
	base := p[i+1:]
	var cands []string
	switch c.Fn {
	case "basename":
		cands = []string{base}
	case "dirname":
		switch {
		case i < 0:
			cands = []string{".", ""}
		case i == 0:
			cands = []string{"/"}
		default:
			cands = []string{p[:i]}
		}
	case "extname":
		d := strings.LastIndexByte(base, '.')
		switch {
		case d < 0:
			cands = []string{""}
		case d == 0:
			cands = []string{"", base} // hidden file: ".bashrc"
		case d == len(base)-1:
			cands = []string{".", ""}
		default:
			cands = []string{base[d:]}
		}
	}
	ok := false
	for _, w := range cands {
		if out == w {
			ok = true
		}
	}
	cls := "relative"
	if i < 0 {
		cls = "single-component"
	} else if p[0] == '/' {
		cls = "absolute"
	}
	return Verdict{OK: ok, Class: cls + "/wrong-value", Want: fmt.Sprintf("one of %q", cands), Demand: true}
}

// ---- number formatting --------------------------------------------------------------

// groupedOK: digits in groups of three from the right, separated by commas.
func groupedOK(intPart string) bool {
	if intPart == "" {
		return false
	}
	groups := strings.Split(intPart, ",")
	for i, g := range groups {
		if g == "" || (i == 0 && len(g) > 3) || (i > 0 && len(g) != 3) {
			return false
		}
		for j := 0; j < len(g); j++ {
			if g[j] < '0' || g[j] > '9' {
				return false
			}
		}
	}
	return true
}

// STMT: "`hi` only inserts thousands separators". DOC: "Formats a number
// based with appropriate placement of commas".
func chkHi(c Call, out string) Verdict {
	v, cl := ClassInt(c.Args[0])
	if cl == NonNum {
		return needMarker(out, "the argument is not an integer")
	}
	body := strings.TrimPrefix(out, "-")
	ok := groupedOK(body) && intOutEquals(strings.ReplaceAll(out, ",", ""), big.NewInt(v))
	if v == 0 && out == "0" {
		ok = true
	}
	cls := "non-negative"
	if v == math.MinInt64 {
		cls = "min-int64"
	} else if v < 0 {
		cls = "negative"
	}
	return value(out, ok, cls, "the decimal digits of "+strconv.FormatInt(v, 10)+" with a comma every three digits from the right", cl == Lenient)
}

// DOC: "hf: Float. Formats a number based with appropriate placement of
// commas and decimals". The number of decimals shown is not documented: the
// output, commas removed, must be the value rounded (ties either way) to the
// decimals it shows, and commas sit every three digits of the integer part.
func chkHf(c Call, out string) Verdict {
	v, cl := ClassFloat(c.Args[0])
	if cl == NonNum {
		return needMarker(out, "the argument is not a number")
	}
	if math.IsNaN(v) || math.IsInf(v, 0) {
		return anyOK("NaN/Inf input")
	}
	body := strings.TrimPrefix(out, "-")
	ip, fp, hasDot := strings.Cut(body, ".")
	ok := groupedOK(ip) && !strings.Contains(fp, ",") && !(hasDot && fp == "")
	shown := 0
	if ok {
		plain := strings.ReplaceAll(out, ",", "")
		o, isDec := ratOfDecimal(plain)
		shown = decimalsOf(plain)
		ok = isDec && withinHalfUnit(o, ratOfFloat(v), shown, nil)
	}
	// input class: does rounding to the shown decimals carry into a new
	// thousands group (999.99996 -> 1,000.0000)?
	cls := "abs-below-1000"
	av := math.Abs(v)
	if av >= 1000 {
		cls = "abs-at-least-1000"
	} else if av >= 999.5 {
		cls = "rounding-may-carry-to-1000"
	}
	return value(out, ok, cls, "the value rounded to the decimals shown, commas every three digits of the integer part only", cl == Lenient)
}

var relTol48 = new(big.Rat).SetFrac(big.NewInt(1), new(big.Int).Lsh(big.NewInt(1), 48))

// DOC: `{percent val ["precision=1"] [[min=0] max=1]}` "Formats a number as a
// percentage. By default, assumes the range is 0-1, therefore 0.1234 becomes
// 12.3%." Examples: `{percent 0.1234 2}` = 12.34%, `{percent 25 0 100}` = 25%,
// `{percent 100 4 50 150}` = 50.0000%. The quotient is compared with the exact
// rational value, tolerating 2^-48 relative error before rounding.
func chkPercent(c Call, out string, acceptMarker bool) Verdict {
	n := len(c.Args)
	v, cl := ClassFloat(c.Args[0])
	d, dcl := int64(1), Canon
	if n >= 2 {
		d, dcl = ClassInt(c.Args[1])
	}
	lo, locl := 0.0, Canon
	hi, hicl := 1.0, Canon
	switch n {
	case 3:
		hi, hicl = ClassFloat(c.Args[2])
	case 4:
		lo, locl = ClassFloat(c.Args[2])
		hi, hicl = ClassFloat(c.Args[3])
	}
	if cl == NonNum || dcl == NonNum || locl == NonNum || hicl == NonNum {
		return needMarker(out, "an argument is not a number")
	}
	if d < 0 || d > 30 {
		return anyOK("negative or huge precision is not documented")
	}
	for _, f := range []float64{v, lo, hi} {
		if math.IsNaN(f) || math.IsInf(f, 0) {
			return anyOK("NaN/Inf input")
		}
	}
	if lo == hi {
		return anyOK("empty range min == max")
	}
	q := new(big.Rat).Sub(ratOfFloat(v), ratOfFloat(lo))
	q.Mul(q, big.NewRat(100, 1))
	q.Quo(q, new(big.Rat).Sub(ratOfFloat(hi), ratOfFloat(lo)))
	if f, _ := q.Float64(); math.Abs(f) > 1e290 {
		return anyOK("quotient near the float64 range")
	}
	num, hasPct := strings.CutSuffix(out, "%")
	o, isDec := ratOfDecimal(num)
	ok := hasPct && isDec && decimalsOf(num) == int(d) && withinHalfUnit(o, q, int(d), relTol48)
	cls := fmt.Sprintf("arity-%d", n)
	return value(out, ok, cls, q.FloatString(int(d)+3)+" rounded to "+strconv.Itoa(int(d))+" decimals followed by %",
		acceptMarker || cl == Lenient || dcl == Lenient || locl == Lenient || hicl == Lenient)
}

// DOC bytesize: "Create a human-readable byte-size format (eg 1024 = 1KB), or
// in SI units (1000 = 1KB). An optional precision allows adding decimals."
// DOC downscale: "Formats numbers by thousands (k), Millions (M), Billions
// (B), or Trillions (T). eg. {downscale 10000} will result in 10k".
// The output must be <number>[ ]<unit>; the unit's rank r must be the one with
// 1 <= |n/step^r| < step (rank 0 below step; the last documented rank absorbs
// the rest), and the number must be n/step^r (exact rational, 2^-48 relative
// tolerance) rounded to the precision.
func chkUnits(c Call, out string, acceptMarker bool) Verdict {
	var n *big.Int
	var cl NumClass
	cls := ""
	if c.Fn == "downscale" {
		var v int64
		v, cl = ClassInt(c.Args[0])
		n = big.NewInt(v)
	} else {
		var v uint64
		v, cl = ClassUint(c.Args[0])
		n = new(big.Int).SetUint64(v)
		if cl == NonNum {
			if iv, icl := ClassInt(c.Args[0]); icl != NonNum && iv < 0 {
				// a negative byte count: marker or a negative size, not claimed
				n, cl = big.NewInt(iv), Lenient
			}
		}
		if v > math.MaxInt64 {
			cls = "above-2^63"
		}
	}
	p, pcl := int64(0), Canon
	if len(c.Args) == 2 {
		p, pcl = ClassInt(c.Args[1])
	}
	if cl == NonNum || pcl == NonNum {
		return needMarker(out, "value or precision is not an integer")
	}
	if p < 0 || p > 30 {
		return anyOK("negative or huge precision is not documented")
	}
	step, top := int64(1000), 4
	if c.Fn == "bytesize" {
		step = 1024
	}
	if c.Fn != "downscale" {
		top = 8
	}
	// split the output
	i := 0
	if i < len(out) && out[i] == '-' {
		i++
	}
	for i < len(out) && (out[i] >= '0' && out[i] <= '9' || out[i] == '.') {
		i++
	}
	num, unit := out[:i], strings.TrimPrefix(out[i:], " ")
	rank := -1
	if c.Fn == "downscale" {
		switch unit {
		case "":
			rank = 0
		case "k":
			rank = 1
		case "M":
			rank = 2
		case "B":
			rank = 3
		case "T":
			rank = 4
		}
	} else {
		u := strings.ToUpper(unit)
		switch {
		case u == "B" || u == "":
			rank = 0
		case len(u) == 2 && u[1] == 'B':
			rank = strings.IndexByte("BKMGTPEZY", u[0])
			if rank == 0 {
				rank = -1
			}
		}
	}
	o, isDec := ratOfDecimal(num)
	ok := isDec && rank >= 0 && rank <= top
	abs := new(big.Int).Abs(n)
	if cls == "" {
		cls = "scaled"
		if abs.Cmp(big.NewInt(step)) < 0 {
			cls = "below-one-step"
		}
	}
	want := "the value scaled to the unit with 1 <= |x| < " + strconv.FormatInt(step, 10)
	if ok {
		div := new(big.Int).Exp(big.NewInt(step), big.NewInt(int64(rank)), nil)
		q := new(big.Rat).SetFrac(n, div)
		aq := absRat(q)
		one := new(big.Rat).Sub(big.NewRat(1, 1), relTol48)
		lowOK := rank == 0 || aq.Cmp(one) >= 0
		highOK := aq.Cmp(new(big.Rat).SetInt64(step)) < 0 || (c.Fn == "downscale" && rank == top)
		dec := decimalsOf(num)
		decOK := dec == int(p) || (rank == 0 && dec == 0)
		ok = lowOK && highOK && decOK && withinHalfUnit(o, q, dec, relTol48)
		want = fmt.Sprintf("%s; at the unit shown the exact value is %s", want, q.FloatString(int(p)+3))
	}
	return value(out, ok, cls, want, acceptMarker || cl == Lenient || pcl == Lenient)
}
