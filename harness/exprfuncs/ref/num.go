// Package ref is the reference model of property C11 (scalar helper functions
// follow their documented semantics). It imports nothing from rare. Every
// clause cites the sentence of docs/usage/expressions.md (quoted as DOC) or of
// the property statement (quoted as STMT) it encodes. Where the documentation
// is silent or ambiguous the verdict accepts every conforming answer.
package ref

import (
	"math"
	"math/big"
	"strconv"
	"strings"
)

// Markers is the table "## Errors" of DOC: "The following error strings may be
// returned while compiling or evaluating your expression".
var Markers = []string{"<BAD-TYPE>", "<PARSE-ERROR>", "<ARGN>", "<CONST>", "<ENUM>", "<NAME>", "<EMPTY>", "<FILE>", "<VALUE>"}

// CompileErrorMarker is what the harness substitutes for the output when
// compilation itself reported an error and the stage did not return one of the
// documented strings (rare refuses to run such an expression, which is an
// error report and not a number).
const CompileErrorMarker = "<COMPILE-ERROR>"

// IsMarker reports whether out is a documented error string.
func IsMarker(out string) bool {
	if out == CompileErrorMarker {
		return true
	}
	for _, m := range Markers {
		if out == m {
			return true
		}
	}
	return false
}

// NumClass says how sure the documentation is that a text is a number.
type NumClass int

const (
	// Canon: plain decimal text; every reading of the documentation takes it as
	// that number, so the helper must compute with it.
	Canon NumClass = iota
	// Lenient: Go's parser accepts it (sign '+', leading zeros, exponent, "Inf",
	// surrounding forms) but the documentation does not say such text is a
	// number: the error marker and the computed value are both accepted.
	Lenient
	// NonNum: not a number of the wanted kind. STMT: "Non-numeric input yields
	// the documented error marker, never a wrong number."
	NonNum
)

func isCanonInt(s string) bool {
	if len(s) > 0 && s[0] == '-' {
		s = s[1:]
	}
	if len(s) == 0 {
		return false
	}
	if s[0] == '0' && len(s) > 1 {
		return false
	}
	for i := 0; i < len(s); i++ {
		if s[i] < '0' || s[i] > '9' {
			return false
		}
	}
	return true
}

// ClassInt classifies s as an int64.
func ClassInt(s string) (int64, NumClass) {
	v, err := strconv.ParseInt(s, 10, 64)
	if err != nil {
		return 0, NonNum
	}
	if isCanonInt(s) {
		return v, Canon
	}
	return v, Lenient
}

// ClassUint classifies s as a uint64 (byte sizes).
func ClassUint(s string) (uint64, NumClass) {
	v, err := strconv.ParseUint(s, 10, 64)
	if err != nil {
		return 0, NonNum
	}
	if isCanonInt(s) && s[0] != '-' {
		return v, Canon
	}
	return v, Lenient
}

func isCanonFloat(s string) bool {
	if len(s) > 0 && s[0] == '-' {
		s = s[1:]
	}
	ip, fp, hasDot := strings.Cut(s, ".")
	if len(ip) == 0 || (hasDot && len(fp) == 0) {
		return false
	}
	for i := 0; i < len(ip); i++ {
		if ip[i] < '0' || ip[i] > '9' {
			return false
		}
	}
	for i := 0; i < len(fp); i++ {
		if fp[i] < '0' || fp[i] > '9' {
			return false
		}
	}
	return true
}

// ClassFloat classifies s as a float64.
func ClassFloat(s string) (float64, NumClass) {
	v, err := strconv.ParseFloat(s, 64)
	if err != nil {
		if ne, ok := err.(*strconv.NumError); ok && ne.Err == strconv.ErrRange {
			return v, Lenient // numeric text beyond float64: marker or +-Inf arithmetic
		}
		return 0, NonNum
	}
	if isCanonFloat(s) {
		return v, Canon
	}
	return v, Lenient
}

// ratOfDecimal parses a plain decimal ("-12.50", "7") exactly. Anything else
// (exponent, NaN, markers, commas, spaces) is not a plain decimal.
func ratOfDecimal(s string) (*big.Rat, bool) {
	if !isCanonFloatLoose(s) {
		return nil, false
	}
	r, ok := new(big.Rat).SetString(s)
	return r, ok
}

// like isCanonFloat but allows leading zeros are already allowed there; kept
// separate so the output grammar can differ from the input grammar.
func isCanonFloatLoose(s string) bool { return isCanonFloat(s) }

// decimalsOf returns the number of digits after the point of a plain decimal.
func decimalsOf(s string) int {
	_, fp, ok := strings.Cut(s, ".")
	if !ok {
		return 0
	}
	return len(fp)
}

func ratOfFloat(v float64) *big.Rat { return new(big.Rat).SetFloat64(v) }

func pow10Rat(p int) *big.Rat {
	return new(big.Rat).SetInt(new(big.Int).Exp(big.NewInt(10), big.NewInt(int64(p)), nil))
}

func absRat(r *big.Rat) *big.Rat { return new(big.Rat).Abs(r) }

// withinHalfUnit: |o - q| <= 0.5*10^-d + |q|*relTol.
func withinHalfUnit(o, q *big.Rat, d int, relTol *big.Rat) bool {
	diff := absRat(new(big.Rat).Sub(o, q))
	tol := new(big.Rat).Quo(big.NewRat(1, 2), pow10Rat(d))
	if relTol != nil {
		tol.Add(tol, new(big.Rat).Mul(absRat(q), relTol))
	}
	return diff.Cmp(tol) <= 0
}

// ulpDistance returns the distance of two finite floats in units in the last
// place (0 for equal values, including -0 == 0).
func ulpDistance(a, b float64) uint64 {
	if a == b {
		return 0
	}
	ord := func(f float64) int64 {
		u := math.Float64bits(f)
		if u>>63 != 0 {
			return -int64(u &^ (1 << 63))
		}
		return int64(u)
	}
	x, y := ord(a), ord(b)
	if x > y {
		x, y = y, x
	}
	return uint64(y - x)
}

// floatOutOK: the output is a float text whose value lies within ulps of want.
// For a NaN or infinite want the documentation defines no number: "NaN",
// "+Inf"/"-Inf"/"Inf" or an error marker are accepted.
func floatOutOK(out string, want float64, ulps uint64) bool {
	if math.IsNaN(want) || math.IsInf(want, 0) {
		if IsMarker(out) {
			return true
		}
		g, err := strconv.ParseFloat(out, 64)
		if err != nil {
			return false
		}
		if math.IsNaN(want) {
			return math.IsNaN(g)
		}
		return math.IsInf(g, 0) // sign of an infinity is not documented ("Inf")
	}
	g, err := strconv.ParseFloat(out, 64)
	if err != nil || math.IsNaN(g) || math.IsInf(g, 0) {
		return false
	}
	return ulpDistance(g, want) <= ulps
}

// Truthy is DOC: "Truthiness is the presence of a value. False is an empty
// value (or only whitespace)".
func Truthy(s string) bool { return strings.TrimSpace(s) != "" }

func blank(s string) bool { return !Truthy(s) }
