package main

// HISTORY family of C11: the result of a helper is a function of its
// arguments only (STMT: "return, for all argument values, what their
// documentation defines"), so a compiled expression that has already been
// evaluated on other matches must answer like one that was compiled just now.
//
// For every helper x arity x argument style the template is compiled ONCE and
// the one compiled expression is evaluated over the helper's whole list of
// argument tuples (the tuples of part 1, in enumeration order): forward, in
// reverse order, alternately on neighbouring tuples (A,B,A,B) and alternately
// on the tuples i and n-1-i. Every result is compared with what a fresh
// compilation of the same template returns for that tuple alone.
//
// Styles: "groups"  `{fn {0} {1} ..}` every argument from a match group;
//         "natural" arguments the documentation writes as literals (bucket
//                   size, precision, clamp bounds, lookup table: they cannot
//                   come from a group) are constants, the others groups;
//         "first"   `{fn {0} c1 c2 ..}` the first argument from a group, the
//                   others constants.
// With constants in the template there is one compiled expression per
// distinct constant part; it is evaluated over all tuples that share it.

import (
	"fmt"
	"sort"
	"strings"

	"rare/pkg/expressions"

	"verif/harness/exprfuncs/ref"
	"verif/runner"
)

const (
	styleGroups  = "groups"
	styleNatural = "natural"
	styleFirst   = "first"
	styleConst   = "const" // SIZE family only
)

var historyStyles = []string{styleGroups, styleNatural, styleFirst}

// dynOf: which argument positions come from groups in a style; ok=false when
// the style does not exist for this helper/arity or equals an earlier style.
func dynOf(style, fn string, arity int) (func(i int) bool, bool) {
	lit := map[int]bool{}
	for _, i := range ref.ConstPositions(fn) {
		if i < arity {
			lit[i] = true
		}
	}
	switch style {
	case styleGroups:
		return func(int) bool { return true }, true
	case styleConst:
		return func(int) bool { return false }, true
	case styleNatural:
		if len(lit) == 0 {
			return nil, false // same as "groups"
		}
		return func(i int) bool { return !lit[i] }, true
	case styleFirst:
		if arity < 2 {
			return nil, false // same as "groups"
		}
		if len(lit) == arity-1 && !lit[0] {
			return nil, false // same as "natural"
		}
		return func(i int) bool { return i == 0 }, true
	}
	panic("unknown style " + style)
}

// live is one long-lived compiled expression.
type live struct {
	ckb  *expressions.CompiledKeyBuilder
	cerr string
}

func (b *builders) compileLive(tmpl string, opt bool) (l *live, panicMsg string) {
	kb := b.noopt
	if opt {
		kb = b.opt
	}
	defer func() {
		if r := recover(); r != nil {
			l, panicMsg = nil, fmt.Sprint(r)
		}
	}()
	ckb, err := kb.Compile(tmpl)
	l = &live{ckb: ckb}
	if err != nil {
		l.cerr = err.Error()
	}
	return l, ""
}

// eval returns what execute returns for a fresh compilation: the output (a
// compile error turned into the compile-error marker) or the panic.
func (l *live) eval(groups []string) (res string) {
	defer func() {
		if r := recover(); r != nil {
			res = "panic: " + fmt.Sprint(r)
		}
	}()
	if l.ckb == nil {
		return ref.CompileErrorMarker
	}
	out := l.ckb.BuildKey(&expressions.KeyBuilderContextArray{Elements: groups})
	if l.cerr != "" && !ref.IsMarker(out) {
		out = ref.CompileErrorMarker
	}
	return out
}

func (b *builders) freshResult(tmpl string, groups []string, opt bool) string {
	o := b.execute(tmpl, groups, opt)
	if o.panicMsg != "" {
		return "panic: " + o.panicMsg
	}
	return o.out
}

// schedLen/sched: the order in which one compiled expression visits the n
// tuples: 0..n-1, n-1..0, then (i,i+1,i,i+1) for every i, then
// (i,n-1-i,i,n-1-i) for i < n/2.
func schedLen(n int) int {
	if n < 2 {
		return 2 * n
	}
	return 2*n + 4*(n-1) + 4*(n/2)
}

func sched(n, p int) int {
	if p < n {
		return p
	}
	if p < 2*n {
		return 2*n - 1 - p
	}
	q := p - 2*n
	if q < 4*(n-1) {
		j := q / 4
		if q%2 == 0 {
			return j
		}
		return j + 1
	}
	q -= 4 * (n - 1)
	j := q / 4
	if q%2 == 0 {
		return j
	}
	return n - 1 - j
}

type histUnit struct {
	fn, style string
	opt       bool
	tmpl      string
	groups    [][]string // the group vector of every tuple sharing the template
}

// run evaluates one unit; it returns false when the budget expired.
func (u *histUnit) run(w *runner.W, b *builders) bool {
	n := len(u.groups)
	w.Add("history_compiled_expressions", 1)
	w.Max("history_longest_tuple_list", int64(n))
	cur := Case{Kind: "history", Fn: u.fn, Opt: u.opt, Template: u.tmpl, Style: u.style}
	w.SetCase(func() any { return cur })
	l, pmsg := b.compileLive(u.tmpl, u.opt)
	if pmsg != "" || l.ckb == nil || l.cerr != "" {
		// refused at compile time (e.g. a bucket size from a group): the fresh
		// runs of part 1 judge that; there is nothing long-lived to evaluate
		w.Add("history_templates_refused_at_compile_time", 1)
		return true
	}
	fresh := make([]string, n)
	for i, g := range u.groups {
		fresh[i] = b.freshResult(u.tmpl, g, u.opt)
		if i%4096 == 4095 {
			w.Tick()
		}
	}
	total := schedLen(n)
	fwd := make([]string, n) // what the forward pass returned, looked at again after everything else
	for p := 0; p < total; p++ {
		i := sched(n, p)
		got := l.eval(u.groups[i])
		if p < n {
			fwd[i] = got
		}
		w.Eval(!ref.IsMarker(fresh[i]) && !strings.HasPrefix(fresh[i], "panic: "))
		w.Add("history_evaluations", 1)
		if got != fresh[i] {
			u.report(w, b, p, got, fresh[i])
			return true // one report per compiled expression; what follows is tainted
		}
		if p%8192 == 8191 && w.Expired() {
			return false
		}
	}
	// a returned string must stay what it was (it is the key of an earlier
	// match): a stage that hands out a view of a buffer it reuses would
	// change it under the caller
	for i, g := range fwd {
		if g != fresh[i] {
			var hist [][]string
			for p := i; p < min(total, i+64); p++ {
				hist = append(hist, u.groups[sched(n, p)])
			}
			c := Case{Kind: "history-kept", Fn: u.fn, Opt: u.opt, Template: u.tmpl, Style: u.style, History: hist}
			w.Violation("C11/"+u.fn+"/returned-value-changed-by-later-evaluations",
				fmt.Sprintf("template %q (style %s) optimize=%v compiled once\nthe evaluation on %s returned %s at the time; after the later evaluations the same returned string reads %s",
					u.tmpl, u.style, u.opt, clip(fmt.Sprintf("%q", u.groups[i]), 200), clip(fmt.Sprintf("%q", fresh[i]), 300), clip(fmt.Sprintf("%q", g), 300)), c)
			break
		}
	}
	return true
}

// report finds the shortest suffix of the executed history (1, 2, 4, ...
// earlier evaluations) that reproduces the difference on a newly compiled
// expression and records it as the replayable case.
func (u *histUnit) report(w *runner.W, b *builders, p int, got, fresh string) {
	n := len(u.groups)
	last := u.groups[sched(n, p)]
	var hist [][]string
	reproduced := false
	for L := 1; ; L *= 2 {
		start := max(0, p-L)
		l, _ := b.compileLive(u.tmpl, u.opt)
		var res string
		if l != nil {
			for q := start; q <= p; q++ {
				res = l.eval(u.groups[sched(n, q)])
			}
		}
		if l != nil && res != fresh {
			reproduced = true
			got = res
			for q := start; q <= p; q++ {
				hist = append(hist, u.groups[sched(n, q)])
			}
			break
		}
		if start == 0 {
			break
		}
	}
	if !reproduced {
		for q := max(0, p-16); q <= p; q++ {
			hist = append(hist, u.groups[sched(n, q)])
		}
	}
	var sb strings.Builder
	fmt.Fprintf(&sb, "template %q (style %s) optimize=%v compiled once\n", u.tmpl, u.style, u.opt)
	if reproduced {
		fmt.Fprintf(&sb, "evaluated in this order on the group vectors")
	} else {
		fmt.Fprintf(&sb, "after %d earlier evaluations (not reproduced from a suffix of them; the last ones were)", p)
	}
	show := hist
	if len(show) > 9 {
		fmt.Fprintf(&sb, " (%d, the last 9 shown)", len(hist))
		show = show[len(show)-9:]
	}
	for _, g := range show {
		fmt.Fprintf(&sb, " %s", clip(fmt.Sprintf("%q", g), 120))
	}
	fmt.Fprintf(&sb, "\nthe last evaluation returned %s\na fresh compilation of the same template returns %s for %s", clip(fmt.Sprintf("%q", got), 300), clip(fmt.Sprintf("%q", fresh), 300), clip(fmt.Sprintf("%q", last), 200))
	c := Case{Kind: "history", Fn: u.fn, Opt: u.opt, Template: u.tmpl, Style: u.style, History: hist}
	w.Violation("C11/"+u.fn+"/value-depends-on-earlier-evaluations", sb.String(), c)
}

func clip(s string, n int) string {
	if len(s) > n {
		return s[:n] + "…"
	}
	return s
}

func replayHistory(w *runner.W, b *builders, c Case) {
	if len(c.History) == 0 {
		return
	}
	l, pmsg := b.compileLive(c.Template, c.Opt)
	if pmsg != "" || l == nil {
		return
	}
	if c.Kind == "history-kept" {
		first := l.eval(c.History[0])
		was := strings.Clone(first)
		for _, g := range c.History[1:] {
			l.eval(g)
		}
		if first != was {
			w.Violation("C11/"+c.Fn+"/returned-value-changed-by-later-evaluations",
				fmt.Sprintf("template %q optimize=%v compiled once\nthe evaluation on %q returned %q at the time; after %d later evaluations the same returned string reads %q", c.Template, c.Opt, c.History[0], was, len(c.History)-1, first), c)
		}
		return
	}
	var got string
	for _, g := range c.History {
		got = l.eval(g)
	}
	last := c.History[len(c.History)-1]
	fresh := b.freshResult(c.Template, last, c.Opt)
	if got != fresh {
		w.Violation("C11/"+c.Fn+"/value-depends-on-earlier-evaluations",
			fmt.Sprintf("template %q optimize=%v compiled once and evaluated on %d group vectors in order\nthe last evaluation returned %s\na fresh compilation returns %s for %s",
				c.Template, c.Opt, len(c.History), clip(fmt.Sprintf("%q", got), 300), clip(fmt.Sprintf("%q", fresh), 300), clip(fmt.Sprintf("%q", last), 200)), c)
	}
}

// runHistoryFamily: sharding unit = (helper, style, optimiser); a shard only
// enumerates the tuples of the helpers it owns a unit of.
func runHistoryFamily(w *runner.W, b *builders, e *enumeration, only string, caseNo *int64) bool {
	var fns []string
	famsOf := map[string][]int{}
	for i, f := range e.fams {
		for _, fn := range f.fns {
			if _, ok := famsOf[fn]; !ok {
				fns = append(fns, fn)
			}
			famsOf[fn] = append(famsOf[fn], i)
		}
	}
	type key struct {
		style string
		opt   bool
	}
	for _, fn := range fns {
		if only != "" && fn != only {
			continue
		}
		var mine []key
		for _, st := range historyStyles {
			for _, opt := range []bool{true, false} {
				*caseNo++
				if w.Owns(*caseNo) {
					mine = append(mine, key{st, opt})
				}
			}
		}
		if len(mine) == 0 {
			continue
		}
		byArity := map[int][][]string{}
		for _, i := range famsOf[fn] {
			e.tuples(i, fn, func(args []string) bool {
				byArity[len(args)] = append(byArity[len(args)], args)
				return true
			})
		}
		var arities []int
		for a := range byArity {
			arities = append(arities, a)
		}
		sort.Ints(arities)
		for _, k := range mine {
			for _, ar := range arities {
				dyn, ok := dynOf(k.style, fn, ar)
				if !ok {
					continue
				}
				// one unit per distinct constant part, in order of first appearance
				var units []*histUnit
				idx := map[string]*histUnit{}
				var ck strings.Builder
				for _, args := range byArity[ar] {
					ck.Reset()
					for i, a := range args {
						if !dyn(i) {
							ck.WriteString(a)
							ck.WriteByte(0)
						}
					}
					u := idx[ck.String()]
					if u == nil {
						for i, a := range args {
							if !dyn(i) {
								b.checkEncoding(a)
							}
						}
						tmpl, _ := buildTemplateDyn(fn, args, dyn)
						u = &histUnit{fn: fn, style: k.style, opt: k.opt, tmpl: tmpl}
						idx[ck.String()] = u
						units = append(units, u)
					}
					var g []string
					for i, a := range args {
						if dyn(i) {
							g = append(g, a)
						}
					}
					u.groups = append(u.groups, g)
				}
				w.Add("history_helper_x_arity_x_style_x_optimiser", 1)
				for _, u := range units {
					if !u.run(w, b) {
						return false
					}
				}
			}
		}
	}
	return true
}
