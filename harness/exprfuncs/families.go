package main

import (
	"math/big"
	"strconv"
	"strings"
)

// family is a union of product spaces: gen calls P once per product of
// argument pools, and every helper of fns gets every tuple of every product
// whose arity is documented for it.
type family struct {
	name string
	fns  []string
	gen  func(quick bool, P func(pools ...[]string))
	desc func(quick bool) string
}

// bounds of the two tiers; thorough is a strict superset of quick (same
// enumeration, larger ranges and lengths).
type bounds struct {
	foldInt     int // int-fold arity 2: integers [-n,n]
	unaryFloat  int // unary-float: integers [-n,n]
	unaryFrac   int // unary-float: k/4, k/10, k/10+0.05 for |k| <= n
	roundFrac   int
	unaryInt    int
	unitsInt    int
	bucketInt   int
	clampInt    int
	compareInt  int
	eqLen       int
	unaryStrLen int
	containsLen int
	substrLen   int
	selectLen   int
	selectLen2  int
	joinLen1    int
	joinLen2    int
	pathLen     int
	percentFrac int
}

func boundsFor(quick bool) bounds {
	if quick {
		return bounds{foldInt: 40, unaryFloat: 1100, unaryFrac: 100, roundFrac: 30, unaryInt: 5000, unitsInt: 130, bucketInt: 600,
			clampInt: 20, compareInt: 40, eqLen: 1, unaryStrLen: 4, containsLen: 3, substrLen: 3, selectLen: 5, selectLen2: 3,
			joinLen1: 4, joinLen2: 2, pathLen: 6, percentFrac: 20}
	}
	return bounds{foldInt: 400, unaryFloat: 10000, unaryFrac: 1000, roundFrac: 200, unaryInt: 100000, unitsInt: 3000, bucketInt: 6000,
		clampInt: 60, compareInt: 300, eqLen: 2, unaryStrLen: 5, containsLen: 4, substrLen: 4, selectLen: 6, selectLen2: 4,
		joinLen1: 5, joinLen2: 3, pathLen: 7, percentFrac: 100}
}

func itoa(i int) string { return strconv.Itoa(i) }

// intRange lists the integers lo..hi, small magnitudes first (0, 1, -1, 2,
// -2, ...) so that the first witness of a defect is a small one.
func intRange(lo, hi int) []string {
	var out []string
	m := max(hi, -lo)
	for a := 0; a <= m; a++ {
		if a >= lo && a <= hi {
			out = append(out, strconv.Itoa(a))
		}
		if a != 0 && -a >= lo && -a <= hi {
			out = append(out, strconv.Itoa(-a))
		}
	}
	return out
}

func cat(ls ...[]string) []string {
	var out []string
	seen := map[string]bool{}
	for _, l := range ls {
		for _, s := range l {
			if !seen[s] {
				seen[s] = true
				out = append(out, s)
			}
		}
	}
	return out
}

// stringsOver: every string over alpha of length 0..maxLen, shortest first.
func stringsOver(alpha []string, maxLen int) []string {
	out := []string{""}
	prev := []string{""}
	for l := 1; l <= maxLen; l++ {
		var cur []string
		for _, p := range prev {
			for _, a := range alpha {
				cur = append(cur, p+a)
			}
		}
		out = append(out, cur...)
		prev = cur
	}
	return out
}

// product emits the cartesian product of the pools.
func product(emit func(args ...string), pools ...[]string) {
	idx := make([]int, len(pools))
	args := make([]string, len(pools))
	for _, p := range pools {
		if len(p) == 0 {
			return
		}
	}
	for {
		for i, p := range pools {
			args[i] = p[idx[i]]
		}
		emit(append([]string(nil), args...)...)
		k := len(pools) - 1
		for ; k >= 0; k-- {
			idx[k]++
			if idx[k] < len(pools[k]) {
				break
			}
			idx[k] = 0
		}
		if k < 0 {
			return
		}
	}
}

func pow(b int64, k int) int64 {
	r := int64(1)
	for i := 0; i < k; i++ {
		r *= b
	}
	return r
}

// intSpecials: one value per branch or shortcut visible in the helpers:
// digit-count boundaries (comma placement, expbucket, unit ranks), powers of
// two around the 1024 ranks, the float64 integer limit 2^53 and the int64
// limits.
func intSpecials() []string {
	var out []string
	add := func(v int64) {
		out = append(out, strconv.FormatInt(v, 10))
		if v != -v {
			out = append(out, strconv.FormatInt(-v, 10))
		}
	}
	for k := 2; k <= 18; k++ {
		p := pow(10, k)
		add(p - 1)
		add(p)
		add(p + 1)
	}
	for _, k := range []int{10, 20, 30, 31, 32, 40, 50, 53, 60, 62} {
		p := pow(2, k)
		add(p - 1)
		add(p)
		add(p + 1)
	}
	add(1<<63 - 1)
	add(1<<63 - 2)
	out = append(out, "-9223372036854775808", "999500", "999499", "1023999", "1048575999", "12345", "123456", "1234567", "-1234567")
	return out
}

// powerBoundaries: every power of two and of ten with its two neighbours, both
// signs, up to 2^64+1 / 10^20+1 (so also the first values beyond int64 and
// beyond uint64).
func powerBoundaries() []string {
	var out []string
	add := func(v *big.Int) {
		for _, d := range []int64{-1, 0, 1} {
			x := new(big.Int).Add(v, big.NewInt(d))
			out = append(out, x.String())
			if x.Sign() != 0 {
				out = append(out, new(big.Int).Neg(x).String())
			}
		}
	}
	for k := 1; k <= 64; k++ {
		add(new(big.Int).Lsh(big.NewInt(1), uint(k)))
	}
	for k := 1; k <= 20; k++ {
		add(new(big.Int).Exp(big.NewInt(10), big.NewInt(int64(k)), nil))
	}
	return cat(out)
}

// a few of them for the product spaces of arity >= 2
var intSpecialsFew = []string{
	"2147483647", "2147483648", "-2147483648", "-2147483649", "4294967296",
	"9007199254740992", "9007199254740993", "-9007199254740992", "-9007199254740993",
	"9223372036854775807", "9223372036854775806", "-9223372036854775808", "-9223372036854775807",
	"1000000000", "1000000000000000000",
}

// texts that are not canonical integers: empty, blank, letters, fractions,
// exponents, surrounding space, explicit '+', leading zeros, hex, beyond
// int64, separators.
var intBad = []string{"", " ", "x", "1x", "3.5", "1e3", " 1", "1 ", "+5", "007", "-0", "0x10",
	"9223372036854775808", "-9223372036854775809", "1,000", "--1", "1-", "é"}

var uintBeyond = []string{"9223372036854775808", "9223372036854775809", "10000000000000000000", "18446744073709551615", "18446744073709551616", "12000000000000000000"}

// floatGrid: the 40-odd point grid of DESIGN §4 C11: zero and -0, .5 ties,
// binary-inexact decimals, values around the 1000 comma boundary incl.
// 999.99996, 1e15, values beyond 2^53 and beyond int64.
var floatGrid = []string{
	"0", "-0", "0.0", "0.5", "-0.5", "1.5", "-1.5", "2.5", "-2.5", "3.5", "0.1", "0.2", "0.3", "0.7",
	"1", "-1", "2", "3", "10", "100", "0.25", "0.125", "0.375", "1.005", "2.675", "1.45", "0.045",
	"123.765", "-123.765", "999.99996", "-999.99996", "999.99994", "999.5", "999.4", "-999.5", "1000", "1000.5",
	"1234.5678", "1234567.89121111", "-1234567.89121111", "1000000", "999999.99995", "99999.99999",
	"1000000000000000", "-1000000000000000", "1000000000000000.5", "9007199254740993",
	"0.00004", "0.00005", "0.00015", "-0.00005", "0.0000001", "16", "1024", "0.001", "8", "9", "-8",
	"9223372036854775807", "-9223372036854775808", "10000000000000000000", "-10000000000000000000",
	"1" + strings.Repeat("0", 300),
}

// texts a float parser may or may not take (Lenient) and texts that are not
// numbers (NonNum)
var floatOdd = []string{"1e3", "1E3", "1e-3", ".5", "5.", "+1.5", "Inf", "-Inf", "NaN", "1e999", "-1e999", "0x1p4", " 1.5", "1.5 ", "1_0",
	"", " ", "x", "1x", "1.2.3", "--1", "1,5", "é", "1e"}

var floatFew = []string{"0", "-0", "0.5", "-1.5", "2.5", "0.1", "0.2", "3", "-2", "10", "1000000000000000", "x", "", "1e3"}

// the string alphabet of DESIGN §4 C11
var strAlpha = []string{"a", "B", " ", ",", "\"", "\n", "é"}
var csvAlpha = []string{"a", ",", "\"", "\n", "\r", " ", "é"}

// truthiness pool: empty, whitespace-only (space, newline, mixed), truthy,
// "0" (truthy: presence of a value), text with inner/outer space
var logicPool = []string{"", " ", "\n", " \t ", "a", "0", "B c", " a "}
var logicFew = []string{"", " ", "a", "B", "\n"}

func pick(quick bool, q, t []string) []string {
	if quick {
		return q
	}
	return t
}

func pickInt(quick bool, q, t int) int {
	if quick {
		return q
	}
	return t
}

func families() []family {
	specials := intSpecials()
	return []family{
		{
			name: "int-fold", fns: []string{"sumi", "subi", "multi", "divi", "modi", "maxi", "mini"},
			gen: func(quick bool, P func(pools ...[]string)) {
				P([]string{"5", "x", ""}) // below the documented minimum
				r := boundsFor(quick).foldInt
				a2 := cat(intRange(-r, r), intSpecialsFew, intBad)
				P(a2, a2)
				a3 := foldArity3(quick)
				P(a3, a3, a3)
				a4 := []string{"-3", "0", "1", "2", "7", "-9223372036854775808", "x"}
				P(a4, a4, a4, a4)
			},
			desc: func(quick bool) string {
				r := boundsFor(quick).foldInt
				return "arity 1 (must be refused), arity 2 over ([-" + strconv.Itoa(r) + "," + strconv.Itoa(r) + "] + 15 boundary integers (2^31, 2^32, 2^53+-1, int64 limits, 10^9, 10^18) + 18 non-integer texts)^2, arity 3 over a pool of " + strconv.Itoa(len(foldArity3(quick))) + ", arity 4 over a pool of 7"
			},
		},
		{
			name: "float-fold", fns: []string{"sumf", "subf", "multf", "divf", "pow"},
			gen: func(quick bool, P func(pools ...[]string)) {
				P([]string{"5", "x", ""})
				a2 := cat(floatGrid, floatOdd)
				P(a2, a2)
				P(floatFew, floatFew, floatFew)
				if !quick {
					a4 := []string{"0", "0.1", "-1.5", "3", "x", "1e3"}
					P(a4, a4, a4, a4)
				}
			},
			desc: func(quick bool) string {
				return "arity 1 (must be refused), arity 2 over (64-point float grid + 24 odd/non-numeric texts)^2, arity 3 over a pool of 14" + pickStr(quick, "", ", arity 4 over a pool of 6") + " (pow: documented arity 2 only is judged)"
			},
		},
		{
			name: "unary-float", fns: []string{"floor", "ceil", "round", "log10", "log2", "ln", "sqrt", "hf", "isnum", "percent"},
			gen: func(quick bool, P func(pools ...[]string)) {
				r := boundsFor(quick).unaryFloat
				P(cat(floatGrid, floatOdd, intRange(-r, r), specials, intBad, halves(boundsFor(quick).unaryFrac)))
			},
			desc: func(quick bool) string {
				r := boundsFor(quick).unaryFloat
				return "arity 1 over the float grid + odd texts + integers [-" + strconv.Itoa(r) + "," + strconv.Itoa(r) + "] + ~190 boundary integers (10^k+-1, 2^k+-1, int64 limits) + k/4 and k/10 fractions up to " + strconv.Itoa(boundsFor(quick).unaryFrac)
			},
		},
		{
			name: "round-precision", fns: []string{"round"},
			gen: func(quick bool, P func(pools ...[]string)) {
				P(cat(floatGrid, floatOdd, halves(boundsFor(quick).roundFrac)), []string{"0", "1", "2", "3", "4", "10", "x", "", "-1", "1.5", "+2"})
			},
			desc: func(quick bool) string {
				return "arity 2: (float grid + odd texts + fractions) x precision {0,1,2,3,4,10,x,\"\",-1,1.5,+2}"
			},
		},
		{
			name: "unary-int", fns: []string{"hi", "expbucket", "isint", "downscale", "bytesize", "bytesizesi"},
			gen: func(quick bool, P func(pools ...[]string)) {
				r := boundsFor(quick).unaryInt
				P(cat(intRange(-r, r), specials, intBad, uintBeyond, unitEdges()))
			},
			desc: func(quick bool) string {
				r := boundsFor(quick).unaryInt
				return "arity 1 over integers [-" + strconv.Itoa(r) + "," + strconv.Itoa(r) + "] + ~190 boundary integers + unit boundaries (1000^k, 1024^k, their neighbours and rounding edges) + uint64 values >= 2^63 + 18 non-integer texts"
			},
		},
		{
			name: "power-boundaries", fns: []string{"hi", "hf", "bytesize", "bytesizesi", "downscale", "percent", "expbucket", "isint", "isnum", "floor", "ceil", "round", "log2", "log10", "sqrt"},
			gen: func(quick bool, P func(pools ...[]string)) {
				P(powerBoundaries())
				P(powerBoundaries(), []string{"0", "1", "2"})
			},
			desc: func(quick bool) string {
				return "arity 1 and arity 2 (second argument {0,1,2}) over +-(2^k-1, 2^k, 2^k+1) for every k = 1..64 and +-(10^k-1, 10^k, 10^k+1) for every k = 1..20 (beyond int64/uint64 included)"
			},
		},
		{
			name: "units-precision", fns: []string{"downscale", "bytesize", "bytesizesi"},
			gen: func(quick bool, P func(pools ...[]string)) {
				r := boundsFor(quick).unitsInt
				P(cat(intRange(-r, r), specials, unitEdges(), uintBeyond, []string{"x", "", "3.5"}), []string{"0", "1", "2", "3", "x", "", "-1", "+1"})
			},
			desc: func(quick bool) string {
				return "arity 2: (integers up to " + strconv.Itoa(boundsFor(quick).unitsInt) + " + boundary integers + unit boundaries) x precision {0,1,2,3,x,\"\",-1,+1}"
			},
		},
		{
			name: "bucket", fns: []string{"bucket", "bucketrange"},
			gen: func(quick bool, P func(pools ...[]string)) {
				r := boundsFor(quick).bucketInt
				P(cat(intRange(-r, r), specials, intBad),
					[]string{"1", "2", "3", "7", "10", "50", "100", "1000", "9223372036854775807", "0", "-1", "-50", "x", "", "2.5", "+5"})
			},
			desc: func(quick bool) string {
				return "arity 2: (integers [-" + strconv.Itoa(boundsFor(quick).bucketInt) + ",+] + boundary integers + non-integer texts) x bucket size {1,2,3,7,10,50,100,1000,MaxInt64,0,-1,-50,x,\"\",2.5,+5}"
			},
		},
		{
			name: "clamp", fns: []string{"clamp"},
			gen: func(quick bool, P func(pools ...[]string)) {
				r := boundsFor(quick).clampInt
				b := []string{"-10", "-1", "0", "1", "5", "10", "-9223372036854775808", "9223372036854775807", "x", ""}
				P(cat(intRange(-r, r), []string{"9223372036854775807", "-9223372036854775808", "x", "", "3.5", "+5", "007"}), b, b)
			},
			desc: func(quick bool) string {
				return "arity 3: value ([-" + strconv.Itoa(boundsFor(quick).clampInt) + ",+] + int64 limits + 5 non-integer texts) x min, max from {-10,-1,0,1,5,10,MinInt64,MaxInt64,x,\"\"}"
			},
		},
		{
			name: "compare", fns: []string{"lt", "gt", "lte", "gte"},
			gen: func(quick bool, P func(pools ...[]string)) {
				r := boundsFor(quick).compareInt
				a := cat(intRange(-r, r), intSpecialsFew, []string{"0.5", "-0.5", "1.5", "1e3", "x", "", " ", "1x", "+5", "007", " 1"})
				P(a, a)
			},
			desc: func(quick bool) string {
				return "arity 2 over ([-" + strconv.Itoa(boundsFor(quick).compareInt) + ",+] + 15 boundary integers incl. 2^53+1, MaxInt64-1 + 11 fractional/non-numeric texts)^2"
			},
		},
		{
			name: "equality", fns: []string{"eq", "neq"},
			gen: func(quick bool, P func(pools ...[]string)) {
				a := cat(stringsOver(strAlpha, boundsFor(quick).eqLen), []string{"1", "1.0", "01", " 1", "A", "b"})
				P(a, a)
			},
			desc: func(quick bool) string {
				return "arity 2 over (all strings of length <= " + strconv.Itoa(boundsFor(quick).eqLen) + " over {a,B,space,comma,quote,newline,e-acute} + {1,1.0,01,\" 1\",A,b})^2"
			},
		},
		{
			name: "logic", fns: []string{"not", "and", "or", "coalesce", "if", "unless", "switch", "tab", "csv"},
			gen: func(quick bool, P func(pools ...[]string)) {
				P(logicPool)
				P(logicPool, logicPool)
				P(logicPool, logicPool, logicPool)
				P(logicFew, logicFew, logicFew, logicFew)
				if !quick {
					P(logicFew, logicFew, logicFew, logicFew, logicFew)
				} else {
					f := []string{"", " ", "a"}
					P(f, f, f, f, []string{"", "B"})
				}
			},
			desc: func(quick bool) string {
				return "arities 1-3 over the truthiness pool {\"\", space, newline, space-tab-space, a, 0, \"B c\", \" a \"}, arity 4 over {\"\", space, a, B, newline}, arity 5 over " + pickStr(quick, "{\"\",space,a}^4 x {\"\",B}", "the same 5-pool") + " (each helper judged at its documented arities only)"
			},
		},
		{
			name: "unary-string", fns: []string{"len", "upper", "lower", "isint", "isnum", "hi", "hf", "csv", "tab", "not", "coalesce", "expbucket"},
			gen: func(quick bool, P func(pools ...[]string)) {
				P(cat(stringsOver(strAlpha, boundsFor(quick).unaryStrLen), []string{"hello", "Hello World", "ÀÉÎõü", "straße", "aBc1,2"}))
			},
			desc: func(quick bool) string {
				return "arity 1 over all strings of length <= " + strconv.Itoa(boundsFor(quick).unaryStrLen) + " over {a,B,space,comma,quote,newline,e-acute} + 5 words"
			},
		},
		{
			name: "contains", fns: []string{"like", "prefix", "suffix"},
			gen: func(quick bool, P func(pools ...[]string)) {
				P(stringsOver(strAlpha, boundsFor(quick).containsLen), stringsOver(strAlpha, 2))
			},
			desc: func(quick bool) string {
				return "arity 2: all strings of length <= " + strconv.Itoa(boundsFor(quick).containsLen) + " x all strings of length <= 2 over the same alphabet"
			},
		},
		{
			name: "substr", fns: []string{"substr"},
			gen: func(quick bool, P func(pools ...[]string)) {
				s := cat(stringsOver([]string{"a", "B", "é"}, boundsFor(quick).substrLen), []string{"hello world", " a ", "\"", ","})
				pos := cat(intRange(-6, 7), []string{"9223372036854775807", "-9223372036854775808", "x", "", "1.5", "+1"})
				ln := cat(intRange(-1, 7), []string{"9223372036854775807", "9223372036854775806", "-9223372036854775808", "x", "", "1.5", "+1"})
				P(s, pos, ln)
			},
			desc: func(quick bool) string {
				return "arity 3: (all strings of length <= " + strconv.Itoa(boundsFor(quick).substrLen) + " over {a,B,e-acute} + 4 others) x pos {-6..7, MaxInt64, MinInt64, x, \"\", 1.5, +1} x length {-1..7, MaxInt64, MaxInt64-1, MinInt64, x, \"\", 1.5, +1}"
			},
		},
		{
			name: "select", fns: []string{"select"},
			gen: func(quick bool, P func(pools ...[]string)) {
				s := cat(stringsOver([]string{"a", "b", " ", "\t", "\n"}, boundsFor(quick).selectLen),
					stringsOver([]string{"a", " ", "\"", "é", ","}, boundsFor(quick).selectLen2), []string{"ab cd ef", "ab  cd\tef\ngh"})
				P(s, []string{"-1", "0", "1", "2", "3", "4", "x", "", "1.5", "+1", "9223372036854775807"})
			},
			desc: func(quick bool) string {
				return "arity 2: (all strings of length <= " + strconv.Itoa(boundsFor(quick).selectLen) + " over {a,b,space,tab,newline} + all of length <= " + strconv.Itoa(boundsFor(quick).selectLen2) + " over {a,space,quote,e-acute,comma}) x index {-1..4, x, \"\", 1.5, +1, MaxInt64}"
			},
		},
		{
			name: "format", fns: []string{"format"},
			gen: func(quick bool, P func(pools ...[]string)) {
				f := []string{"%s", "%s-%s", "%5s|", "%-3s|", "%q", "%d", "%%", "a", "", "%v %v", "%[2]s %[1]s", "%x", "%", "%!", "%s %s %s", "%05.1f", "é%s", "%c", "%T", "%3"}
				v := []string{"", "a", "5", "é b", "\"", "%s"}
				P(f)
				P(f, v)
				P(f, v, v)
				if !quick {
					P(f, v, v, v)
				}
			},
			desc: func(quick bool) string {
				return "arity 1-" + pickStr(quick, "3", "4") + ": 20 format strings (verbs s,q,d,v,x,c,T,f, widths, flags, indexes, malformed) x values {\"\",a,5,\"e-acute b\",quote,%s}"
			},
		},
		{
			name: "join", fns: []string{"csv", "tab", "coalesce", "and", "or"},
			gen: func(quick bool, P func(pools ...[]string)) {
				P(stringsOver(csvAlpha, boundsFor(quick).joinLen1))
				a2 := stringsOver(csvAlpha, boundsFor(quick).joinLen2)
				P(a2, stringsOver(csvAlpha, 2))
				a3 := stringsOver(csvAlpha, 1)
				P(a3, a3, a3)
				if !quick {
					P(a3, a3, a3, a3)
					a5 := []string{"", "a", ",", "\"", "\r\n"}
					P(a5, a5, a5, a5, a5)
				}
			},
			desc: func(quick bool) string {
				return "over {a,comma,quote,LF,CR,space,e-acute}: arity 1 all strings <= " + strconv.Itoa(boundsFor(quick).joinLen1) + ", arity 2 (<= " + strconv.Itoa(boundsFor(quick).joinLen2) + ") x (<= 2), arity 3 (<= 1)^3" + pickStr(quick, "", ", arity 4 (<= 1)^4, arity 5 {\"\",a,comma,quote,CRLF}^5")
			},
		},
		{
			name: "lookup", fns: []string{"lookup", "haskey"},
			gen: func(quick bool, P func(pools ...[]string)) {
				tables := []string{
					"", "k v", "k v\nk2 v2", "k\tv\n\nk2  v2\n", "#k v\nk v2", "# c\nk v\n#k2 v2\nk3 v3", "k v extra\nk2 v2", "k\nk2 v2", "  k   v  \n//k2 v2", "k v\r\nk2 v2\r\n", "é v\nk é", "k v\nk w",
				}
				keys := []string{"k", "k2", "k3", "", "#k", "#k2", "//k2", "#", "v", "é", "K", " k", "k v"}
				P(keys, tables)
				P(keys, tables, []string{"", "#", "//", "k", "# "})
			},
			desc: func(quick bool) string {
				return "arity 2-3: 13 keys x 12 tables (blank lines, tabs, CRLF, comment lines, 1- and 3-field lines, duplicate key, non-ASCII) x comment prefix {absent, \"\", #, //, k, \"# \"}"
			},
		},
		{
			name: "path", fns: []string{"basename", "dirname", "extname"},
			gen: func(quick bool, P func(pools ...[]string)) {
				P(cat(stringsOver([]string{"a", "b", "/", "."}, boundsFor(quick).pathLen), []string{"a/b/c", "a/b/c.jpg", "/usr/lib/x.tar.gz", "é/ü.txt", "a b/c d.e f", "/a"}))
			},
			desc: func(quick bool) string {
				return "arity 1 over all strings of length <= " + strconv.Itoa(boundsFor(quick).pathLen) + " over {a,b,/,.} + 6 paths"
			},
		},
		{
			name: "percent", fns: []string{"percent"},
			gen: func(quick bool, P func(pools ...[]string)) {
				vals := cat(floatFew, []string{"0.1234", "0.12345", "25", "100", "50", "-0.5", "0.99995", "0.9995", "0.125", "0.0005", "1", "33", "2.675"}, halves(boundsFor(quick).percentFrac))
				dec := []string{"0", "1", "2", "4", "x", "", "-1", "+1"}
				P(vals, dec)
				P(vals, []string{"0", "1", "4", "x"}, []string{"1", "100", "0.5", "3", "0", "-2", "x", "", "1e2"})
				mm := []string{"0", "1", "100", "-1", "50", "150", "0.5", "x"}
				P(pick(quick, []string{"0", "0.5", "25", "100", "-1.5", "x", "0.1234"}, vals), []string{"0", "1", "4"}, mm, mm)
			},
			desc: func(quick bool) string {
				return "arity 2: values (14 grid points + 13 documented/rounding-edge values + k/4, k/10, k/10+0.05 for |k| <= " + strconv.Itoa(boundsFor(quick).percentFrac) + ") x precision {0,1,2,4,x,\"\",-1,+1}; arity 3: values x {0,1,4,x} x max {1,100,0.5,3,0,-2,x,\"\",1e2}; arity 4: " + pickStr(quick, "7 values", "values") + " x {0,1,4} x min,max from {0,1,100,-1,50,150,0.5,x} (arity 1 in the unary-float family)"
			},
		},
	}
}

func foldArity3(quick bool) []string {
	return cat(pick(quick, []string{"-1", "0", "1", "2", "3"}, intRange(-4, 4)),
		[]string{"-130", "-7", "10", "50", "9223372036854775807", "-9223372036854775808", "x", "", "+5", "3.5"})
}

func pickStr(quick bool, q, t string) string {
	if quick {
		return q
	}
	return t
}

// halves: k/4 and k/10 for |k| <= n: ties (.5, .25/.75) and binary-inexact
// tenths around every small integer.
func halves(n int) []string {
	var out []string
	for k := -n; k <= n; k++ {
		out = append(out, strconv.FormatFloat(float64(k)/4, 'f', -1, 64))
		out = append(out, strconv.FormatFloat(float64(k)/10, 'f', -1, 64))
		out = append(out, strconv.FormatFloat(float64(k)/10+0.05, 'f', 2, 64))
	}
	return out
}

// unitEdges: around every unit boundary of bytesize (1024^k), bytesizesi and
// downscale (1000^k): the boundary, its neighbours, 1.5 units, and the values
// whose scaled form rounds up to the next boundary (999.5 k, 1023.5 K).
func unitEdges() []string {
	var out []string
	add := func(v int64) {
		out = append(out, strconv.FormatInt(v, 10), strconv.FormatInt(-v, 10))
	}
	for _, step := range []int64{1000, 1024} {
		for k := 1; k <= 6; k++ {
			u := pow(step, k)
			cands := []int64{u - 1, u, u + 1, u + u/2, 2 * u, 7 * u}
			if u <= (1<<63-1)/(13*step) {
				cands = append(cands, u*step-u/2, u*step-u/2-1, u*(step-1)+u/2, 10*u, 12*u+345*(u/1000))
			}
			for _, v := range cands {
				add(v)
			}
		}
	}
	out = append(out, "1500", "1000000", "5120000", "52123123", "3000000000000000", "5476083302", "7000000000000000")
	return out
}
