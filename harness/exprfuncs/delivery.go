package main

// DELIVERY family of C11 (lookup helpers: load, lookup, haskey).
//
// DOC (docs/usage/expressions.md, "File Loading and Lookup Tables"): "{load
// "filename"}: Loads a given filename as text"; "{lookup key "kv-pairs"
// ["commentPrefix"]}: Given a set of kv-pairs (eg. from a loaded file), lookup a
// key. For lookup return a value and for haskey return truthy or falsey."
// Neither says that the file is a complete regular file: `{load /dev/stdin}`,
// `{load /dev/fd/63}` (process substitution) and a mkfifo are files whose bytes
// arrive through a pipe: stat size 0 and the data in as many reads as the writer
// makes writes. The family delivers the SAME table text
//
//	file         a complete regular file
//	pipe, 1      a named pipe, one write
//	pipe, 2/3    the pipe written in 2 or 3 pieces, every later piece only after
//	             the reader took the one before out of the pipe (FIONREAD == 0):
//	             each boundary is a short read on the reader's side
//	pipe, bytes  byte by byte (small tables)
//
// and demands for {load p}, {lookup key {load p} [prefix]}, {haskey key {load p}
// [prefix]} (key from a match group and as a constant, optimiser on and off)
// the value of the reference model for that text (ref.Check, the same model as
// every other lookup case) and the value the regular file gives.
//
// LOAD-HISTORY family: DOC error table: "<FILE>: Unable to read file". A {load}
// of a file that does not exist / is a directory / is unreadable yields that
// marker (a compile error naming it) EVERY time: the 1st, 2nd and 3rd
// compilation in one process and twice within one template; a readable file
// yields its text every time, also next to a failing one.

import (
	"fmt"
	"os"
	"strconv"
	"strings"
	"time"

	"rare/pkg/expressions"

	"verif/harness/exprfuncs/ref"
	"verif/runner"
)

// delivCase identifies one unit of the family: a table and how it is delivered.
type delivCase struct {
	Table string `json:"table"`           // generator name
	N     int    `json:"n,omitempty"`     // its size parameter
	Cuts  []int  `json:"cuts,omitempty"`  // piece boundaries (byte offsets)
	Every int    `json:"every,omitempty"` // > 0: a boundary after every `every` bytes
	// load-history family
	Seq int `json:"load_history_sequence,omitempty"`
}

func (d delivCase) cuts(n int) []int {
	if d.Every > 0 {
		var out []int
		for c := d.Every; c < n; c += d.Every {
			out = append(out, c)
		}
		return out
	}
	return d.Cuts
}

func (d delivCase) class(n int) string {
	switch c := d.cuts(n); {
	case d.Every > 0:
		return "pipe-bytewise"
	case len(c) == 0:
		return "pipe-one-write"
	default:
		return "pipe-pieces"
	}
}

// ---- tables -----------------------------------------------------------------------

type delivTable struct {
	text   string
	keys   []string // looked up (present ones of every region of the table, and an absent one)
	prefix string   // "" = also no comment-prefix forms
}

const (
	smallComments = "# c1\nalpha 1\nbeta 22\n#x y\ngamma 333\n"
	smallMixed    = "k v\n\nk2\tv2 extra\nk3 v3"
)

// linesTable: n lines k<i> v<i> (the shape of the SIZE family).
func linesTable(n int) delivTable {
	var sb strings.Builder
	for i := 0; i < n; i++ {
		fmt.Fprintf(&sb, "k%d v%d\n", i, i)
	}
	return delivTable{text: sb.String(), keys: []string{"k0", "k" + itoa(n/2), "k" + itoa(max(n-1, 0)), "k" + itoa(n)}}
}

// bytesTable: a table of exactly n bytes: lines k<i> v<i>, one line `pad xx..`
// that makes the size exact, and the line `last vlast` at the very end.
func bytesTable(n int) delivTable {
	const tail = "last vlast\n"
	var sb strings.Builder
	mid := ""
	for i := 0; ; i++ {
		line := fmt.Sprintf("k%d v%d\n", i, i)
		if sb.Len()+len(line)+len(tail)+6 > n {
			break
		}
		sb.WriteString(line)
		if sb.Len() <= n/2 {
			mid = "k" + itoa(i)
		}
	}
	r := n - sb.Len() - len(tail)
	if r < 6 {
		panic("bytesTable: size too small: " + itoa(n))
	}
	sb.WriteString("pad " + strings.Repeat("x", r-5) + "\n")
	sb.WriteString(tail)
	if sb.Len() != n {
		panic("bytesTable: built " + itoa(sb.Len()) + " bytes instead of " + itoa(n))
	}
	keys := []string{"k0", "last", "pad", "absent"}
	if mid != "" {
		keys = append(keys, mid)
	}
	return delivTable{text: sb.String(), keys: keys}
}

func tableOf(name string, n int) delivTable {
	switch name {
	case "small-comments":
		return delivTable{text: smallComments, keys: []string{"alpha", "beta", "gamma", "#x", "delta", "1"}, prefix: "#"}
	case "small-mixed":
		return delivTable{text: smallMixed, keys: []string{"k", "k2", "k3", "v", ""}}
	case "lines":
		return linesTable(n)
	case "bytes":
		return bytesTable(n)
	}
	panic("delivery: table " + name)
}

// tableRegions: what every byte of a table is part of.
func tableRegions(text string) []string {
	reg := make([]string, len(text))
	pos := 0
	for _, line := range strings.SplitAfter(text, "\n") {
		comment := strings.HasPrefix(line, "#")
		field := 0
		inField := false
		for i := 0; i < len(line); i++ {
			c := line[i]
			var r string
			switch {
			case c == '\n':
				r = "newline"
			case comment:
				r = "comment"
			case c == ' ' || c == '\t':
				r = "blank"
				inField = false
			default:
				if !inField {
					field++
					inField = true
				}
				r = map[int]string{1: "key", 2: "value"}[field]
				if r == "" {
					r = "extra"
				}
			}
			reg[pos+i] = r
		}
		pos += len(line)
	}
	return reg
}

func tableCutKinds(text string) []int {
	reg := tableRegions(text)
	seen := map[string]bool{}
	var out []int
	for p := 1; p < len(text); p++ {
		k := reg[p-1] + ">" + reg[p]
		if !seen[k] {
			seen[k] = true
			out = append(out, p)
		}
	}
	return out
}

// boundary sizes: buffer sizes a chunked reader is built from.
func delivBoundaries(quick bool) []int {
	out := []int{4095, 4096, 4097, 32767, 32768, 32769, 65535, 65536, 65537}
	if !quick {
		out = append(out, 511, 512, 513, 1023, 1024, 1025, 8191, 8192, 8193, 16383, 16384, 16385, 131071, 131072, 131073, 1<<20 - 1, 1 << 20, 1<<20 + 1)
	}
	return out
}

func delivLinesCap(quick bool) int { return pickInt(quick, 4097, 65537) }

// delivUnits enumerates (table, delivery).
func delivUnits(quick bool, emit func(d delivCase)) {
	for _, name := range []string{"small-comments", "small-mixed"} {
		n := len(tableOf(name, 0).text)
		emit(delivCase{Table: name})
		emit(delivCase{Table: name, Every: 1})
		for p := 1; p < n; p++ {
			emit(delivCase{Table: name, Cuts: []int{p}})
		}
		var positions []int
		if quick {
			positions = tableCutKinds(tableOf(name, 0).text)
		} else {
			for p := 1; p < n; p++ {
				positions = append(positions, p)
			}
		}
		for i, p := range positions {
			for _, q := range positions[i+1:] {
				emit(delivCase{Table: name, Cuts: []int{p, q}})
			}
		}
	}
	for _, n := range sweepSizes(delivLinesCap(quick)) {
		text := linesTable(n).text
		emit(delivCase{Table: "lines", N: n})
		if n == 0 {
			continue
		}
		if n <= 8 {
			emit(delivCase{Table: "lines", N: n, Every: 1})
		}
		// the middle line k<m> v<m>: inside its key, inside its value, right before and right after its newline
		m := strings.Index(text, "k"+itoa(n/2)+" ")
		eol := m + strings.IndexByte(text[m:], '\n')
		for _, p := range []int{m + 1, eol - 1, eol, eol + 1} {
			emit(delivCase{Table: "lines", N: n, Cuts: []int{p}})
		}
		if n >= 3 {
			emit(delivCase{Table: "lines", N: n, Cuts: []int{len(text)/3 + 1, eol + 1}})
		}
	}
	for _, b := range delivBoundaries(quick) {
		// a first piece of exactly b bytes, then the rest (a few bytes / more than b again)
		for _, n := range []int{b + 64, 2*b + 7} {
			emit(delivCase{Table: "bytes", N: n})
			emit(delivCase{Table: "bytes", N: n, Cuts: []int{b}})
			emit(delivCase{Table: "bytes", N: n, Cuts: []int{b, b + 32}})
		}
		// a table of exactly b bytes in one write and cut one byte before its end
		emit(delivCase{Table: "bytes", N: b})
		emit(delivCase{Table: "bytes", N: b, Cuts: []int{b - 1}})
	}
}

func deliveryRule(quick bool) string {
	return fmt.Sprintf("DELIVERY family (signatures end in /delivery-family/<pipe-one-write|pipe-pieces|pipe-bytewise>): the table text of {load p}, {lookup key {load p}}, {haskey key {load p}} (and with comment prefix # for the table with comment lines; key from a match group, and the first key also as a constant; optimiser on and off) delivered as a complete regular file and as a named pipe (syscall.Mkfifo in a scratch directory; the writer writes piece i+1 only after FIONREAD on the pipe is 0, so every boundary is a short read; nothing is timed): "+
		"the small tables %q and %q in one write, in 2 pieces cut at every byte position, in 3 pieces cut at every pair of %s, and byte by byte; "+
		"tables of n lines k<i> v<i>, n = 0..70 and 2^k-1, 2^k, 2^k+1 up to %d, in one write, in 2 pieces cut inside the key / inside the value / right before / right after the newline of the middle line, in 3 pieces, byte by byte for n <= 8; "+
		"tables of exactly N bytes (numbered lines, the looked-up line `last vlast` at the very end) for N = B+64 and 2B+7 in one write, in 2 pieces [B | rest] and 3 pieces [B | 32 | rest], and N = B in one write and cut one byte before the end, B in %v; "+
		"every result (of the regular file and of the pipe) must be what the reference model gives for the text ({load p} = the text) and the pipe must give what the regular file gives; every regular file has a name not used before in the process. "+
		"LOAD-HISTORY family: {load} of a missing file, of a directory (and of a file without read permission when not running as root) compiled 1-3 times in one process by the optimising and the plain builder, alone, twice within one template ({load f}/{load f}, {lookup k {load f}}{haskey k {load f}}) and next to a readable file in either order: every compilation must report the documented <FILE> error (a compile error or the marker) and never panic; a readable file compiled 1-3 times and twice within one template gives its text every time; a file created, rewritten or removed BETWEEN two compilations: the later compilation gives the old or the new answer (the documentation calls the content static and does not say when it is read), nothing else",
		smallComments, smallMixed, pickStr(quick, "one position per kind of boundary (what the bytes before and after it are part of: key, value, blank, newline, comment)", "byte positions"), delivLinesCap(quick), delivBoundaries(quick))
}

// ---- execution --------------------------------------------------------------------

type delivEnv struct {
	w   *runner.W
	b   *builders
	dir string
}

func newDelivEnv(w *runner.W, b *builders) (*delivEnv, func()) {
	dir, err := os.MkdirTemp("", "exprfuncs-")
	if err != nil {
		panic(err)
	}
	return &delivEnv{w: w, b: b, dir: dir}, func() { os.RemoveAll(dir) }
}

type compiled struct {
	ckb      *expressions.CompiledKeyBuilder
	cerr     string
	panicMsg string
	hung     bool
}

// compileUnder compiles tmpl; a compilation that has not returned after 60 s is a hang.
func (b *builders) compileUnder(tmpl string, opt bool) (c compiled) {
	kb := b.noopt
	if opt {
		kb = b.opt
	}
	c.panicMsg, c.hung = withDeadline(60*time.Second, func() {
		ckb, err := kb.Compile(tmpl)
		if err != nil {
			c.cerr = err.Error()
		}
		c.ckb = ckb
	})
	if c.hung {
		return compiled{hung: true}
	}
	return c
}

func evalOn(ckb *expressions.CompiledKeyBuilder, groups []string) (out, panicMsg string) {
	defer func() {
		if r := recover(); r != nil {
			panicMsg = fmt.Sprint(r)
		}
	}()
	return ckb.BuildKey(&expressions.KeyBuilderContextArray{Elements: groups}), ""
}

type delivForm struct {
	fn     string // load | lookup | haskey
	prefix bool
	konst  bool // the key is a template constant (only the first key)
}

func delivForms(t delivTable) []delivForm {
	out := []delivForm{{fn: "load"}, {fn: "lookup"}, {fn: "haskey"}, {fn: "lookup", konst: true}}
	if t.prefix != "" {
		out = append(out, delivForm{fn: "lookup", prefix: true}, delivForm{fn: "haskey", prefix: true})
	}
	return out
}

func (f delivForm) template(path, key, prefix string) string {
	if f.fn == "load" {
		return "{load " + encConst(path) + "}"
	}
	k := "{0}"
	if f.konst {
		k = encConst(key)
	}
	s := "{" + f.fn + " " + k + " {load " + encConst(path) + "}"
	if f.prefix {
		s += " " + encConst(prefix)
	}
	return s + "}"
}

// results of one (form, optimiser) on one delivery: one output per key
type delivResult struct {
	c    compiled
	outs []string
	note string
}

func (e *delivEnv) runForm(t delivTable, f delivForm, opt bool, path string, pieces [][]byte) delivResult {
	keys := t.keys
	if f.fn == "load" || f.konst {
		keys = keys[:1]
	}
	tmpl := f.template(path, keys[0], t.prefix)
	var fd *feeder
	if pieces != nil {
		fd = startFeeder(path, pieces)
	}
	r := delivResult{c: e.b.compileUnder(tmpl, opt)}
	if fd != nil {
		fd.finish()
		r.note = fmt.Sprintf("the writing end: a reader opened the pipe: %v; %d of %d bytes were accepted by the pipe; error of the writer: %v", fd.opened, fd.written, len(t.text), fd.werr)
	}
	if r.c.hung || r.c.panicMsg != "" || r.c.ckb == nil {
		return r
	}
	for _, k := range keys {
		out, pm := evalOn(r.c.ckb, []string{k})
		if pm != "" {
			r.c.panicMsg = "during evaluation: " + pm
			return r
		}
		if r.c.cerr != "" && !ref.IsMarker(out) {
			out = ref.CompileErrorMarker
		}
		r.outs = append(r.outs, out)
	}
	return r
}

// runDelivUnit runs one (table, delivery): every form x optimiser through the
// regular file and through the pipe. report receives the violations.
func (e *delivEnv) runDelivUnit(d delivCase, report func(sig, detail string)) {
	w := e.w
	t := tableOf(d.Table, d.N)
	class := d.class(len(t.text))
	cuts := d.cuts(len(t.text))
	pieces := cutPieces([]byte(t.text), cuts)
	// a name never used before in this process (whether a later compilation sees a
	// rewritten file is not documented: see the LOAD-HISTORY family)
	fifoSeq++
	regular := fmt.Sprintf("%s/table%d.txt", e.dir, fifoSeq)
	if err := os.WriteFile(regular, []byte(t.text), 0o644); err != nil {
		panic(err)
	}
	defer os.Remove(regular)
	for _, f := range delivForms(t) {
		for _, opt := range []bool{true, false} {
			file := e.runForm(t, f, opt, regular, nil)
			path := newFifo(e.dir)
			pipe := e.runForm(t, f, opt, path, pieces)
			tmpl := f.template("<file>", t.keys[0], t.prefix)
			w.Add("delivery_family_compilations", 2)
			keys := t.keys
			if f.fn == "load" || f.konst {
				keys = keys[:1]
			}
			for _, side := range []struct {
				r     delivResult
				how   string
				shown string
			}{
				{file, "regular-file", fmt.Sprintf("delivered as a complete regular file of %d bytes", len(t.text))},
				{pipe, class, fmt.Sprintf("delivered through a named pipe written in %d piece(s) of %s bytes, each after the reader consumed the one before", len(pieces), pieceLens(pieces))},
			} {
				r := side.r
				tail := "/delivery-family/" + side.how
				shown := fmt.Sprintf("table %s n=%d (%d bytes: %s)\n%s\ntemplate %s optimize=%v", d.Table, d.N, len(t.text), clip(fmt.Sprintf("%q", t.text), 200), side.shown, clip(tmpl, 200), opt)
				if r.c.hung {
					w.Eval(false)
					report("C11/"+f.fn+"/hang"+tail, shown+"\nthe compilation had not returned after 60 s\n"+r.note)
					continue
				}
				if r.c.panicMsg != "" {
					w.Eval(false)
					report("C11/panic/"+f.fn+"/"+panicClass(strings.TrimPrefix(r.c.panicMsg, "panic: "))+tail, shown+"\n"+r.c.panicMsg+"\n"+r.note)
					continue
				}
				for ki, key := range keys {
					if ki >= len(r.outs) {
						break
					}
					out := r.outs[ki]
					var v ref.Verdict
					if f.fn == "load" {
						// DOC: "Loads a given filename as text."
						v = ref.Verdict{OK: out == t.text, Class: "content-differs-from-the-file", Want: clip(fmt.Sprintf("%q", t.text), 300), Demand: true}
					} else {
						args := []string{key, t.text}
						dyn := []bool{!f.konst, false}
						if f.prefix {
							args, dyn = append(args, t.prefix), append(dyn, false)
						}
						v = ref.Check(ref.Call{Fn: f.fn, Args: args, Dyn: dyn}, out)
					}
					sig, why := "", ""
					switch {
					case !v.OK:
						sig, why = "C11/"+f.fn+"/"+v.Class+tail, "the documentation requires "+clip(v.Want, 400)
					case side.how != "regular-file" && ki < len(file.outs) && file.outs[ki] != out && file.c.panicMsg == "" && !file.c.hung:
						sig, why = "C11/"+f.fn+"/differs-from-the-regular-file"+tail, "the same bytes in a complete regular file give "+clip(fmt.Sprintf("%q", file.outs[ki]), 400)
					}
					if sig != "" {
						w.Eval(false)
						detail := fmt.Sprintf("%s\nkey %q\nreturned %s\n%s\n%s", shown, key, clip(fmt.Sprintf("%q", out), 400), why, r.note)
						if r.c.cerr != "" {
							detail += "\ncompile error: " + clip(r.c.cerr, 300)
						}
						report(sig, detail)
						continue
					}
					w.Eval(v.Demand && !ref.IsMarker(out) && r.c.cerr == "")
					if len(out) <= 64 {
						w.Outcome("delivery", f.fn, out)
					} else {
						w.Outcome("delivery", f.fn, d.Table, strconv.Itoa(len(out)))
					}
				}
			}
		}
	}
	w.Add("delivery_family_units", 1)
	w.Add("delivery_family_"+class, 1)
	w.Max("delivery_family_largest_table_bytes", int64(len(t.text)))
}

func pieceLens(pieces [][]byte) string {
	var s []string
	for _, p := range pieces {
		s = append(s, strconv.Itoa(len(p)))
	}
	if len(s) > 8 {
		s = append(s[:8], "...")
	}
	return strings.Join(s, "+")
}

func runDeliveryFamily(w *runner.W, b *builders, only string, caseNo *int64) bool {
	if only != "" && only != "load" && only != "lookup" && only != "haskey" {
		return true
	}
	e, cleanup := newDelivEnv(w, b)
	defer cleanup()
	ok := true
	delivUnits(w.Quick(), func(d delivCase) {
		*caseNo++
		if !ok || !w.Owns(*caseNo) {
			return
		}
		if w.Expired() {
			ok = false
			return
		}
		c := Case{Kind: "delivery", Fn: "load", Deliv: &d}
		w.SetCase(func() any { return c })
		e.runDelivUnit(d, func(sig, detail string) { w.Violation(sig, detail, c) })
	})
	if !ok {
		return false
	}
	for seq := range loadHistories() {
		*caseNo++
		if !w.Owns(*caseNo) {
			continue
		}
		c := Case{Kind: "load-history", Fn: "load", Deliv: &delivCase{Seq: seq}}
		w.SetCase(func() any { return c })
		e.runLoadHistory(seq, func(sig, detail string) { w.Violation(sig, detail, c) })
	}
	return true
}

func replayDelivery(w *runner.W, b *builders, c Case) {
	if c.Deliv == nil {
		panic("delivery case without parameters")
	}
	e, cleanup := newDelivEnv(w, b)
	defer cleanup()
	report := func(sig, detail string) { w.Violation(sig, detail, c) }
	if c.Kind == "load-history" {
		e.runLoadHistory(c.Deliv.Seq, report)
		return
	}
	e.runDelivUnit(*c.Deliv, report)
}

// ---- LOAD-HISTORY -------------------------------------------------------------------

type loadStep struct {
	// before the compilation: what happens to the files (name -> content; "\x00remove" removes; "\x00dir" makes a directory; "\x00unreadable" a file without permissions)
	set map[string]string
	// the template: F = failing file, G = readable file are replaced by paths
	tmpl string
	// accepted outputs ("<FILE>" = the documented error: a compile error or the marker)
	accept []string
}

type loadHistory struct {
	name  string
	steps []loadStep
}

const (
	lhRemove     = "\x00remove"
	lhDir        = "\x00dir"
	lhUnreadable = "\x00unreadable"
	lhErr        = "<FILE>"
)

func loadHistories() []loadHistory {
	var out []loadHistory
	good := "k v\nk2 v2\n"
	rep := func(n int, s loadStep) []loadStep {
		var r []loadStep
		for i := 0; i < n; i++ {
			c := s
			if i > 0 {
				c.set = nil
			}
			r = append(r, c)
		}
		return r
	}
	failing := []struct{ name, how string }{{"missing", lhRemove}, {"directory", lhDir}, {"unreadable", lhUnreadable}}
	for _, f := range failing {
		for n := 1; n <= 3; n++ {
			out = append(out, loadHistory{f.name + "/alone-x" + itoa(n), rep(n, loadStep{set: map[string]string{"F": f.how}, tmpl: "{load F}", accept: []string{lhErr}})})
		}
		out = append(out,
			loadHistory{f.name + "/twice-in-one-template", rep(2, loadStep{set: map[string]string{"F": f.how}, tmpl: "{load F}/{load F}", accept: []string{lhErr}})},
			loadHistory{f.name + "/lookup-and-haskey-in-one-template", rep(2, loadStep{set: map[string]string{"F": f.how}, tmpl: "{lookup {0} {load F}}{haskey {0} {load F}}", accept: []string{lhErr}})},
			loadHistory{f.name + "/after-a-readable-file", []loadStep{
				{set: map[string]string{"F": f.how, "G": good}, tmpl: "{load G}", accept: []string{good}},
				{tmpl: "{load F}", accept: []string{lhErr}},
				{tmpl: "{load G}", accept: []string{good}},
				{tmpl: "{load F}", accept: []string{lhErr}},
				{tmpl: "{load G}|{load F}", accept: []string{lhErr}},
				{tmpl: "{load F}|{load G}", accept: []string{lhErr}},
				{tmpl: "{lookup {0} {load G}}", accept: []string{"v"}},
			}},
		)
	}
	for n := 1; n <= 3; n++ {
		out = append(out, loadHistory{"readable/alone-x" + itoa(n), rep(n, loadStep{set: map[string]string{"G": good}, tmpl: "{load G}", accept: []string{good}})})
	}
	out = append(out,
		loadHistory{"readable/twice-in-one-template", rep(2, loadStep{set: map[string]string{"G": good}, tmpl: "{load G}/{load G}", accept: []string{good + "/" + good}})},
		loadHistory{"readable/lookup-and-haskey-in-one-template", rep(3, loadStep{set: map[string]string{"G": good}, tmpl: "{lookup {0} {load G}}{haskey {0} {load G}}", accept: []string{"v1"}})},
		// the file changes BETWEEN compilations: old or new answer, nothing else
		loadHistory{"changed/rewritten", []loadStep{
			{set: map[string]string{"G": "k old\n"}, tmpl: "{lookup {0} {load G}}", accept: []string{"old"}},
			{set: map[string]string{"G": "k new\n"}, tmpl: "{lookup {0} {load G}}", accept: []string{"old", "new"}},
			{tmpl: "{load G}", accept: []string{"k old\n", "k new\n"}},
		}},
		loadHistory{"changed/created-after-a-failed-load", []loadStep{
			{set: map[string]string{"G": lhRemove}, tmpl: "{load G}", accept: []string{lhErr}},
			{set: map[string]string{"G": good}, tmpl: "{load G}", accept: []string{lhErr, good}},
			{tmpl: "{lookup {0} {load G}}", accept: []string{lhErr, "v"}},
		}},
		loadHistory{"changed/removed-after-a-load", []loadStep{
			{set: map[string]string{"G": good}, tmpl: "{load G}", accept: []string{good}},
			{set: map[string]string{"G": lhRemove}, tmpl: "{load G}", accept: []string{lhErr, good}},
			{tmpl: "{lookup {0} {load G}}", accept: []string{lhErr, "v"}},
		}},
	)
	return out
}

var lhSeq int

func (e *delivEnv) runLoadHistory(seq int, report func(sig, detail string)) {
	w := e.w
	hs := loadHistories()
	if seq < 0 || seq >= len(hs) {
		panic("load-history: no sequence " + itoa(seq))
	}
	h := hs[seq]
	class := h.name[:strings.IndexByte(h.name, '/')]
	for _, opt := range []bool{true, false} {
		// names never used before in this process: a history starts from scratch
		lhSeq++
		paths := map[string]string{"F": fmt.Sprintf("%s/f%d", e.dir, lhSeq), "G": fmt.Sprintf("%s/g%d.txt", e.dir, lhSeq)}
		var log []string
		skip := false
		for si, st := range h.steps {
			for _, k := range []string{"F", "G"} {
				v, ok := st.set[k]
				if !ok {
					continue
				}
				p := paths[k]
				os.Chmod(p, 0o755)
				os.RemoveAll(p)
				switch v {
				case lhRemove:
				case lhDir:
					if err := os.Mkdir(p, 0o755); err != nil {
						panic(err)
					}
				case lhUnreadable:
					if os.Geteuid() == 0 {
						skip = true // root reads everything
						break
					}
					if err := os.WriteFile(p, []byte("k v\n"), 0o000); err != nil {
						panic(err)
					}
				default:
					if err := os.WriteFile(p, []byte(v), 0o644); err != nil {
						panic(err)
					}
				}
			}
			if skip {
				w.Add("load_history_unreadable_file_not_possible_as_root", 1)
				break
			}
			tmpl := strings.NewReplacer("F", encConst(paths["F"]), "G", encConst(paths["G"])).Replace(st.tmpl)
			c := e.b.compileUnder(tmpl, opt)
			out, got := "", ""
			switch {
			case c.hung:
				got = "did not return within 60 s"
			case c.panicMsg != "":
				got = c.panicMsg
			case c.ckb == nil:
				got, out = "compile error: "+c.cerr, lhErr
			default:
				var pm string
				out, pm = evalOn(c.ckb, []string{"k"})
				if pm != "" {
					c.panicMsg = "panic during evaluation: " + pm
					got = c.panicMsg
				} else {
					got = fmt.Sprintf("%q", out)
					if c.cerr != "" {
						got += " with the compile error " + clip(strings.ReplaceAll(c.cerr, e.dir, "<dir>"), 200)
						if strings.Contains(c.cerr, "read file") || strings.Contains(out, lhErr) {
							out = lhErr // the documented report of an unreadable file
						}
					} else if strings.Contains(out, lhErr) {
						out = lhErr
					}
				}
			}
			log = append(log, fmt.Sprintf("  compilation %d: %s -> %s", si+1, st.tmpl, got))
			w.Add("load_history_compilations", 1)
			tail := "/load-history/" + class
			switch {
			case c.hung:
				w.Eval(false)
				report("C11/load/hang"+tail, fmt.Sprintf("history %s (optimize=%v; F = a %s path, G = a readable file)\n%s", h.name, opt, class, strings.Join(log, "\n")))
			case c.panicMsg != "":
				w.Eval(false)
				report("C11/load/panic/"+panicClass(strings.TrimPrefix(strings.TrimPrefix(c.panicMsg, "panic during evaluation: "), "panic: "))+tail,
					fmt.Sprintf("history %s (optimize=%v; F = a %s path, G = a readable file)\n%s", h.name, opt, class, strings.Join(log, "\n")))
			default:
				okOut := false
				for _, a := range st.accept {
					if out == a {
						okOut = true
					}
				}
				w.Eval(okOut && out != lhErr)
				w.Outcome("load-history", class, out)
				if !okOut {
					what := "wrong-content"
					if len(st.accept) == 1 && st.accept[0] == lhErr {
						what = "unreadable-file-not-reported"
					} else if out == lhErr {
						what = "readable-file-reported-unreadable"
					}
					report("C11/load/"+what+tail, fmt.Sprintf("history %s (optimize=%v; F = a %s path, G = a readable file)\n%s\naccepted for the last compilation: %q (%s = the documented report: a compile error or the marker)", h.name, opt, class, strings.Join(log, "\n"), st.accept, lhErr))
				}
			}
			if c.hung || c.panicMsg != "" {
				break
			}
		}
		for _, p := range paths {
			os.Chmod(p, 0o755)
			os.RemoveAll(p)
		}
	}
	w.Add("load_history_sequences", 1)
}
