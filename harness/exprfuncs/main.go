// Harness exprfuncs decides C11: the scalar helper functions of the template
// language return what docs/usage/expressions.md defines. Every helper of the
// families named in the property is called at every documented arity with
// every argument tuple from small boundary pools; each argument is supplied
// both as a template constant and from a match group (all 2^arity
// combinations), the template is compiled by the real funclib KeyBuilder with
// and without the optimiser, evaluated, and the output is judged by the
// reference model in ./ref (which imports nothing from rare).
package main

import (
	"encoding/json"
	"sort"
	"strings"
	"time"

	"verif/harness/exprfuncs/ref"
	"verif/runner"
)

// admissible: the documented arities, plus "too few" for the helpers whose
// documentation says "Requires at least 2 arguments".
func admissible(fn string, n int) bool {
	ar, ok := ref.Arity[fn]
	if !ok || n < 1 {
		return false
	}
	if n < ar[0] {
		switch fn {
		case "sumi", "subi", "multi", "divi", "modi", "sumf", "subf", "multf", "divf":
			return true
		}
		return false
	}
	return ar[1] < 0 || n <= ar[1]
}

func worker(w *runner.W) {
	b := newBuilders()
	quick := w.Quick()
	only := w.Param("fn", "") // -p fn=bucket restricts the run (debugging only; marks the run capped)
	if only != "" {
		w.Cap("restricted to helper " + only)
	}
	fams := families()
	// pass 1: the product spaces of every family (pools as sets), so that a
	// tuple a helper already received from an earlier product is not executed
	// (and counted) twice
	type space []map[string]bool
	spaces := make([][]space, len(fams))
	for i, f := range fams {
		f.gen(quick, func(pools ...[]string) {
			sp := make(space, len(pools))
			for k, p := range pools {
				sp[k] = make(map[string]bool, len(p))
				for _, s := range p {
					sp[k][s] = true
				}
			}
			spaces[i] = append(spaces[i], sp)
		})
	}
	var caseNo int64
	stop := false
	owned := 0
	for i, f := range fams {
		for _, fn := range f.fns {
			if only != "" && fn != only {
				continue
			}
			var earlier []space
			for j := 0; j < i; j++ {
				for _, g := range fams[j].fns {
					if g == fn {
						earlier = append(earlier, spaces[j]...)
					}
				}
			}
			prodNo := 0
			f.gen(quick, func(pools ...[]string) {
				cover := append(append([]space(nil), earlier...), spaces[i][:prodNo]...)
				prodNo++
				if stop || !admissible(fn, len(pools)) {
					return
				}
				n := 0
				for _, sp := range cover {
					if len(sp) == len(pools) {
						cover[n] = sp
						n++
					}
				}
				cover = cover[:n]
				product(func(args ...string) {
					if stop {
						return
					}
					for _, sp := range cover {
						in := true
						for k, a := range args {
							if !sp[k][a] {
								in = false
								break
							}
						}
						if in {
							return // already executed for this helper
						}
					}
					caseNo++
					if !w.Owns(caseNo) {
						return
					}
					owned++
					if owned%512 == 0 && w.Expired() {
						stop = true
						return
					}
					runTuple(w, b, f.name, i, len(fams), fn, args)
				}, pools...)
			})
			if stop {
				return
			}
		}
	}
}

var sampled int // samples taken by this worker (spreads the samples over the families)

func runTuple(w *runner.W, b *builders, fam string, famIdx, nFams int, fn string, args []string) {
	w.Add("tuples", 1)
	w.Add("tuples_"+fam, 1)
	n := len(args)
	for mask := 0; mask < 1<<n; mask++ {
		for _, opt := range []bool{true, false} {
			c := Case{Fn: fn, Args: args, Mask: mask, Opt: opt}
			w.SetCase(func() any { return c })
			r := b.runCase(c)
			c.Template, c.Groups = r.tmpl, r.groups
			if r.sig != "" {
				w.Eval(false)
				w.Violation(r.sig, r.detail, c)
				w.Outcome(fn, "violation", r.sig)
				continue
			}
			isErr := ref.IsMarker(r.obs.out)
			// non-trivial: the helper was reached, returned a value (not an error
			// marker) and the documentation pins the answer for this input
			nontrivial := r.verdict.Demand && !isErr && r.obs.cerr == ""
			w.Eval(nontrivial)
			w.Outcome(fn, r.obs.out)
			switch {
			case isErr:
				w.Add("error_marker_outputs", 1)
			case !r.verdict.Demand:
				w.Add("outputs_not_pinned_by_the_documentation", 1)
			}
			if mask == 0 {
				w.Add("runs_all_constants", 1)
			} else if mask == 1<<n-1 {
				w.Add("runs_all_groups", 1)
			} else {
				w.Add("runs_mixed", 1)
			}
			if nontrivial && w.WantSample() && mask != 0 && (n == 1 || mask != 1<<n-1) && opt && famIdx == (w.Shard*4+sampled*7)%nFams {
				sampled++
				w.Sample(map[string]any{"template": r.tmpl, "groups": r.groups, "optimize": opt, "output": r.obs.out, "accepted": r.verdict.Want})
			}
		}
	}
}

func replay(w *runner.W, raw json.RawMessage) {
	var c Case
	if err := json.Unmarshal(raw, &c); err != nil {
		panic(err)
	}
	b := newBuilders()
	r := b.runCase(c)
	c.Template, c.Groups = r.tmpl, r.groups
	if r.sig != "" {
		w.Violation(r.sig, r.detail, c)
	}
}

func rule(prop, tier string) string {
	quick := tier != "thorough"
	var sb strings.Builder
	sb.WriteString("every helper x documented arity x argument tuple of the families below x every subset of arguments supplied from match groups ({k} of a KeyBuilderContextArray) instead of template constants (2^arity) x optimiser {on, off}; each template `{helper args}` is compiled by funclib.NewKeyBuilderEx and evaluated once; the output is judged by the documentation-only reference model. Families: ")
	for i, f := range families() {
		if i > 0 {
			sb.WriteString("; ")
		}
		fns := append([]string(nil), f.fns...)
		sort.Strings(fns)
		sb.WriteString(f.name + " [" + strings.Join(fns, ",") + "]: " + f.desc(quick))
	}
	sb.WriteString(". A tuple a helper already received from an earlier family is skipped, so every evaluation is a distinct (helper, arguments, group subset, optimiser) case. non-trivial = compiled without error, the helper returned a value that is not an error marker, and the documentation pins the answer for that input (accept-anything inputs such as bucket size <= 0, negative substr positions, NaN, dot paths are executed for panics only and counted as trivial)")
	return sb.String()
}

func main() {
	runner.Main(&runner.Spec{
		Name:       "exprfuncs",
		Properties: []string{"C11"},
		Level:      "exploration",
		Rule:       rule,
		Assumptions: func(string) []string {
			return []string{
				"values outside the enumerated pools (all of int64/float64, arbitrary strings) are not claimed",
				"humanize.Enabled=true, humanize.Decimals=4 (the start-up defaults); locale-dependent behaviour is not claimed",
				"match groups are supplied through expressions.KeyBuilderContextArray; a constant is written quoted/escaped so that it reaches the helper verbatim (self-tested per constant with an identity helper)",
				"int64 wrap-around of sumi/subi/multi, NaN/Inf results, dynamic values for arguments documented as literals, and inputs the documentation does not describe are accepted, not judged",
			}
		},
		Worker:         worker,
		Replay:         replay,
		HangSeconds:    30,
		QuickBudget:    3 * time.Minute,
		ThoroughBudget: 20 * time.Minute,
	})
}
