// Harness exprfuncs decides C11: the scalar helper functions of the template
// language return what docs/usage/expressions.md defines. Every helper of the
// families named in the property is called at every documented arity with
// every argument tuple from small boundary pools; each argument is supplied
// both as a template constant and from a match group (all 2^arity
// combinations), the template is compiled by the real funclib KeyBuilder with
// and without the optimiser, evaluated, and the output is judged by the
// reference model in ./ref (which imports nothing from rare).
package main

import (
	"encoding/json"
	"sort"
	"strconv"
	"strings"
	"time"

	"verif/harness/exprfuncs/ref"
	"verif/runner"
)

// admissible: the documented arities, plus "too few" for the helpers whose
// documentation says "Requires at least 2 arguments".
func admissible(fn string, n int) bool {
	ar, ok := ref.Arity[fn]
	if !ok || n < 1 {
		return false
	}
	if n < ar[0] {
		switch fn {
		case "sumi", "subi", "multi", "divi", "modi", "sumf", "subf", "multf", "divf":
			return true
		}
		return false
	}
	return ar[1] < 0 || n <= ar[1]
}

// enumeration of the tuple families: the product spaces of every family (pools
// as sets), so that a tuple a helper already received from an earlier product
// is not executed (and counted) twice
type space []map[string]bool

type enumeration struct {
	quick  bool
	fams   []family
	spaces [][]space
}

func newEnumeration(quick bool) *enumeration {
	e := &enumeration{quick: quick, fams: families()}
	e.spaces = make([][]space, len(e.fams))
	for i, f := range e.fams {
		f.gen(quick, func(pools ...[]string) {
			sp := make(space, len(pools))
			for k, p := range pools {
				sp[k] = make(map[string]bool, len(p))
				for _, s := range p {
					sp[k][s] = true
				}
			}
			e.spaces[i] = append(e.spaces[i], sp)
		})
	}
	return e
}

// tuples calls emit for every argument tuple helper fn receives from family i
// that it did not already receive from an earlier family or an earlier product
// of the same family; emit returns false to stop.
func (e *enumeration) tuples(i int, fn string, emit func(args []string) bool) {
	f := e.fams[i]
	var earlier []space
	for j := 0; j < i; j++ {
		for _, g := range e.fams[j].fns {
			if g == fn {
				earlier = append(earlier, e.spaces[j]...)
			}
		}
	}
	prodNo := 0
	stop := false
	f.gen(e.quick, func(pools ...[]string) {
		cover := append(append([]space(nil), earlier...), e.spaces[i][:prodNo]...)
		prodNo++
		if stop || !admissible(fn, len(pools)) {
			return
		}
		n := 0
		for _, sp := range cover {
			if len(sp) == len(pools) {
				cover[n] = sp
				n++
			}
		}
		cover = cover[:n]
		product(func(args ...string) {
			if stop {
				return
			}
			for _, sp := range cover {
				in := true
				for k, a := range args {
					if !sp[k][a] {
						in = false
						break
					}
				}
				if in {
					return // already executed for this helper
				}
			}
			if !emit(args) {
				stop = true
			}
		}, pools...)
	})
}

func worker(w *runner.W) {
	b := newBuilders()
	quick := w.Quick()
	only := w.Param("fn", "") // -p fn=bucket restricts the run (debugging only; marks the run capped)
	if only != "" {
		w.Cap("restricted to helper " + only)
	}
	e := newEnumeration(quick)
	var caseNo int64
	stop := false
	owned := 0
	// part 1: every tuple compiled fresh, every subset of arguments from groups
	for i, f := range e.fams {
		for _, fn := range f.fns {
			if only != "" && fn != only {
				continue
			}
			e.tuples(i, fn, func(args []string) bool {
				caseNo++
				if !w.Owns(caseNo) {
					return true
				}
				owned++
				if owned%512 == 0 && w.Expired() {
					stop = true
					return false
				}
				runTuple(w, b, f.name, i, len(e.fams), fn, args)
				return true
			})
			if stop {
				return
			}
		}
	}
	// part 2: SIZE sweeps
	if !runSizeFamily(w, b, only, &caseNo) {
		return
	}
	// part 3: HISTORY: one compiled expression over the whole tuple list
	if !runHistoryFamily(w, b, e, only, &caseNo) {
		return
	}
	// part 4: DELIVERY of a lookup table through a pipe; LOAD-HISTORY
	runDeliveryFamily(w, b, only, &caseNo)
}

var sampled int // samples taken by this worker (spreads the samples over the families)

func runTuple(w *runner.W, b *builders, fam string, famIdx, nFams int, fn string, args []string) {
	w.Add("tuples", 1)
	w.Add("tuples_"+fam, 1)
	n := len(args)
	for mask := 0; mask < 1<<n; mask++ {
		for _, opt := range []bool{true, false} {
			c := Case{Fn: fn, Args: args, Mask: mask, Opt: opt}
			w.SetCase(func() any { return c })
			r := b.runCase(c)
			c.Template, c.Groups = r.tmpl, r.groups
			if r.sig != "" {
				w.Eval(false)
				w.Violation(r.sig, r.detail, c)
				w.Outcome(fn, "violation", r.sig)
				continue
			}
			isErr := ref.IsMarker(r.obs.out)
			// non-trivial: the helper was reached, returned a value (not an error
			// marker) and the documentation pins the answer for this input
			nontrivial := r.verdict.Demand && !isErr && r.obs.cerr == ""
			w.Eval(nontrivial)
			w.Outcome(fn, r.obs.out)
			switch {
			case isErr:
				w.Add("error_marker_outputs", 1)
			case !r.verdict.Demand:
				w.Add("outputs_not_pinned_by_the_documentation", 1)
			}
			if mask == 0 {
				w.Add("runs_all_constants", 1)
			} else if mask == 1<<n-1 {
				w.Add("runs_all_groups", 1)
			} else {
				w.Add("runs_mixed", 1)
			}
			if nontrivial && w.WantSample() && mask != 0 && (n == 1 || mask != 1<<n-1) && opt && famIdx == (w.Shard*4+sampled*7)%nFams {
				sampled++
				w.Sample(map[string]any{"template": r.tmpl, "groups": r.groups, "optimize": opt, "output": r.obs.out, "accepted": r.verdict.Want})
			}
		}
	}
}

func replay(w *runner.W, raw json.RawMessage) {
	var c Case
	if err := json.Unmarshal(raw, &c); err != nil {
		panic(err)
	}
	b := newBuilders()
	switch c.Kind {
	case "size":
		replaySize(w, b, c)
		return
	case "history", "history-kept":
		replayHistory(w, b, c)
		return
	case "delivery", "load-history":
		replayDelivery(w, b, c)
		return
	}
	r := b.runCase(c)
	c.Template, c.Groups = r.tmpl, r.groups
	if r.sig != "" {
		w.Violation(r.sig, r.detail, c)
	}
}

func rule(prop, tier string) string {
	quick := tier != "thorough"
	var sb strings.Builder
	sb.WriteString("every helper x documented arity x argument tuple of the families below x every subset of arguments supplied from match groups ({k} of a KeyBuilderContextArray) instead of template constants (2^arity) x optimiser {on, off}; each template `{helper args}` is compiled by funclib.NewKeyBuilderEx and evaluated once; the output is judged by the documentation-only reference model. Families: ")
	for i, f := range families() {
		if i > 0 {
			sb.WriteString("; ")
		}
		fns := append([]string(nil), f.fns...)
		sort.Strings(fns)
		sb.WriteString(f.name + " [" + strings.Join(fns, ",") + "]: " + f.desc(quick))
	}
	sb.WriteString(". A tuple a helper already received from an earlier family is skipped, so every evaluation of this part is a distinct (helper, arguments, group subset, optimiser) case. ")
	sb.WriteString("SIZE family (signatures end in /size-family): fixed shapes parametrised by n, run for n = 0..70 and 2^k-1, 2^k, 2^k+1 (k >= 7) up to " + strconv.Itoa(pickInt(quick, sizeCapQuick, sizeCapThorough)) + " (number shapes: up to " + strconv.Itoa(pickInt(quick, 130, 1025)) + " digits), each with all arguments as constants, all from groups, and with the documented literals as constants and the rest from groups, optimiser on and off, judged by the same reference model: ")
	for i, sh := range sizeShapes() {
		if i > 0 {
			sb.WriteString("; ")
		}
		fns := append([]string(nil), sh.fns...)
		sort.Strings(fns)
		sb.WriteString(sh.name + " [" + strings.Join(fns, ",") + "]: " + sh.what)
	}
	sb.WriteString(" (a number-of-decimals argument longer than 4 digits is not executed). ")
	sb.WriteString("HISTORY family: for every helper x arity of the tuple families x argument style {every argument from a group; documented literals as constants and the rest from groups; first argument from a group and the rest constants} x optimiser {on, off}, the template is compiled ONCE per distinct constant part and that one compiled expression is evaluated over the helper's whole tuple list forward, in reverse order, alternately on neighbouring tuples (A,B,A,B) and alternately on tuples i and n-1-i; every result must equal what a fresh compilation of the same template returns for that tuple alone (signature C11/<helper>/value-depends-on-earlier-evaluations), and the strings returned by the forward pass must still read the same after all later evaluations (C11/<helper>/returned-value-changed-by-later-evaluations). non-trivial = compiled without error, the helper returned a value that is not an error marker, and the documentation pins the answer for that input (accept-anything inputs such as bucket size <= 0, negative substr positions, NaN, dot paths are executed for panics only and counted as trivial); a HISTORY evaluation is non-trivial when the fresh result it must equal is not an error marker. ")
	sb.WriteString(deliveryRule(quick))
	sb.WriteString("; a DELIVERY evaluation is non-trivial when the pipe delivery compiled without error and the pinned value is not an error marker; a LOAD-HISTORY compilation is non-trivial when it returned the text of a readable file")
	return sb.String()
}

func main() {
	runner.Main(&runner.Spec{
		Name:       "exprfuncs",
		Properties: []string{"C11"},
		Level:      "exploration",
		Rule:       rule,
		Assumptions: func(string) []string {
			return []string{
				"values outside the enumerated pools (all of int64/float64, arbitrary strings) are not claimed",
				"humanize.Enabled=true, humanize.Decimals=4 (the start-up defaults); locale-dependent behaviour is not claimed",
				"match groups are supplied through expressions.KeyBuilderContextArray; a constant is written quoted/escaped so that it reaches the helper verbatim (self-tested per constant with an identity helper)",
				"int64 wrap-around of sumi/subi/multi, NaN/Inf results, dynamic values for arguments documented as literals, and inputs the documentation does not describe are accepted, not judged",
				"history independence is checked on one goroutine and against a fresh compilation by the same long-lived KeyBuilder (funclib registry); a compiled expression is probed once on an empty match by the optimiser before its first evaluation, in the fresh compilation as well",
				"DELIVERY family: the documentation of {load} speaks of a filename and of its text, not of how the bytes arrive, so a named pipe holding the same bytes is expected to load identically; only fifos made by syscall.Mkfifo in a private scratch directory are used (no read errors, no file that grows while it is read); pieces are separated by observing FIONREAD == 0 on the pipe, never by sleeping; every {load} template names the pipe once (one compilation = one open = one delivery); a compilation that has not returned after 60 s is reported as a hang and its writer released by opening the pipe O_RDONLY|O_NONBLOCK and draining it",
				"LOAD-HISTORY family: every history uses file names never used before in the process; whether a later compilation sees a file created / rewritten / removed after an earlier compilation of the same name is not documented (`static content`): both answers are accepted; the file-without-read-permission histories are not executed when the harness runs as root",
				"SIZE sweeps stop at the cap of the tier; between the swept sizes (71..126, 130..254, ...) only the tuple families' values are covered",
			}
		},
		Worker:         worker,
		Replay:         replay,
		HangSeconds:    30,
		QuickBudget:    3 * time.Minute,
		ThoroughBudget: 20 * time.Minute,
	})
}
