package main

// Binding family of the C19 harness: the TEXT a variable is bound to.
//
// In a `{! ...}` template the variables [n] / [name] / name are bound to match
// text (anchor: "binding of [n]/names to match data with error counting",
// pkg/expressions/stdlib/funcsMath.go kfMath). The tree family binds only a few
// float64 values printed back to text; this family enumerates binding texts:
// digit strings around 2^31 .. 2^128, 10^15 .. 10^25, 1..25 (and 30..400)
// digits, each with signs, leading zeros, fractions, exponents and blanks, and
// a list of non-numeric texts.
//
// Oracle (statement sentences):
//  B1 "evaluates, for all variable bindings, to the value of its parse": a
//     variable bound to a plain decimal text (-?digits[.digits], no redundant
//     leading zero) has the float64 nearest to that decimal value, computed
//     here with math/big (tolerance 1 ulp: the statement does not fix the
//     rounding). Checked on the formula that is just the variable; every other
//     formula must then have the value the independent evaluator gives for
//     that variable value.
//  B2 "Replacing any numeric constant by a variable bound to the same value
//     (or the reverse) never changes the result": the formula with the decimal
//     text written in place as a constant gives exactly the output of the
//     formula with a variable bound to that text.
//  B3 texts whose numeric reading the statement does not settle (leading +,
//     redundant leading zeros, leading/trailing dot, exponent, blanks around,
//     0x/0b/0o prefix, digit separators, inf/nan, values beyond float64): the
//     documented error marker <BAD-TYPE> (docs/usage/expressions.md) or the
//     number under the natural reading are both accepted - never another
//     number. Non-numeric text must give the error marker ("error counting"),
//     never a number.
//  B4 "no formula or binding crashes evaluation".

import (
	"fmt"
	"math"
	"math/big"
	"strconv"
	"strings"
)

const errorMarker = "<BAD-TYPE>" // docs/usage/expressions.md, Errors: Type

type textKind int

const (
	txStrict   textKind = iota // must be read as the decimal number it is
	txOptional                 // error marker or the natural value
	txNonNum                   // must give the error marker
)

type textRef struct {
	kind    textKind
	val     float64 // nearest float64 (strict, optional)
	constOK bool    // can be written in place as a formula constant
	class   string  // for signatures
}

// refText classifies a binding text and computes its value. Imports nothing
// from rare and does not use strconv.ParseFloat.
func refText(t string) textRef {
	r := textRef{kind: txNonNum, class: textClass(t)}
	s := t
	optional := false
	trimmed := strings.Trim(s, " \t\n\r")
	if trimmed != s {
		optional = true
		s = trimmed
	}
	neg := false
	if strings.HasPrefix(s, "-") {
		neg = true
		s = s[1:]
	} else if strings.HasPrefix(s, "+") {
		optional = true
		s = s[1:]
	}
	if s == "" {
		return r
	}
	sign := func(v float64) float64 {
		if neg {
			return -v
		}
		return v
	}
	switch strings.ToLower(s) {
	case "inf", "infinity":
		return textRef{kind: txOptional, val: sign(math.Inf(1)), class: r.class}
	case "nan":
		return textRef{kind: txOptional, val: math.NaN(), class: r.class}
	}
	// prefixed integers
	if len(s) > 2 && s[0] == '0' {
		base := 0
		switch s[1] {
		case 'x', 'X':
			base = 16
		case 'b', 'B':
			base = 2
		case 'o', 'O':
			base = 8
		}
		if base == 16 && strings.ContainsAny(s[2:], "pP") {
			// hexadecimal floating point (C99 / Go syntax): 0x hex[.hex] p [+-]dec
			if f, ok := refHexFloat(s[2:]); ok {
				return textRef{kind: txOptional, val: sign(f), class: r.class}
			}
			return r
		}
		if base != 0 {
			if v, ok := new(big.Int).SetString(s[2:], base); ok && v.Sign() >= 0 && !strings.ContainsAny(s[2:], "+-_") {
				f, _ := new(big.Rat).SetInt(v).Float64()
				return textRef{kind: txOptional, val: sign(f), class: r.class}
			}
			return r
		}
	}
	// digit separators
	if strings.Contains(s, "_") {
		// every separator stands between two digits
		for i := 0; i < len(s); i++ {
			if s[i] == '_' && (i == 0 || i == len(s)-1 || !allDigits(s[i-1:i]) || !allDigits(s[i+1:i+2])) {
				return r
			}
		}
		optional = true
		s = strings.ReplaceAll(s, "_", "")
	}
	// mantissa [e exponent]
	mant, exp := s, int64(0)
	if i := strings.IndexAny(s, "eE"); i >= 0 {
		optional = true
		mant = s[:i]
		es := s[i+1:]
		eneg := false
		if strings.HasPrefix(es, "-") {
			eneg, es = true, es[1:]
		} else if strings.HasPrefix(es, "+") {
			es = es[1:]
		}
		if !allDigits(es) || len(es) > 4 {
			return r // (exponents of more than 4 digits are not in the pool)
		}
		e, _ := strconv.Atoi(es)
		exp = int64(e)
		if eneg {
			exp = -exp
		}
	}
	ip, fp := mant, ""
	hasDot := false
	if i := strings.IndexByte(mant, '.'); i >= 0 {
		hasDot = true
		ip, fp = mant[:i], mant[i+1:]
	}
	if (ip != "" && !allDigits(ip)) || (fp != "" && !allDigits(fp)) || (ip == "" && fp == "") {
		return r
	}
	if ip == "" || (hasDot && fp == "") {
		optional = true // .5  5.
	}
	if len(ip) > 1 && ip[0] == '0' {
		optional = true // 007
	}
	m, _ := new(big.Int).SetString(ip+fp, 10)
	exp -= int64(len(fp))
	q := new(big.Rat).SetInt(m)
	p10 := new(big.Int).Exp(big.NewInt(10), big.NewInt(abs64(exp)), nil)
	if exp >= 0 {
		q.Mul(q, new(big.Rat).SetInt(p10))
	} else {
		q.Quo(q, new(big.Rat).SetInt(p10))
	}
	f, _ := q.Float64() // nearest float64; an infinity when too large
	if math.IsInf(f, 0) {
		optional = true // beyond float64: error marker or infinity
	}
	r.val = sign(f)
	if optional {
		r.kind = txOptional
		return r
	}
	r.kind = txStrict
	r.constOK = true
	return r
}

// refHexFloat: the value of hex[.hex]p[+-]dec (what follows the 0x prefix of a
// hexadecimal floating-point text): mantissa * 2^exponent.
func refHexFloat(s string) (float64, bool) {
	i := strings.IndexAny(s, "pP")
	mant, es := s[:i], s[i+1:]
	eneg := false
	if strings.HasPrefix(es, "-") {
		eneg, es = true, es[1:]
	} else if strings.HasPrefix(es, "+") {
		es = es[1:]
	}
	if !allDigits(es) || len(es) > 4 {
		return 0, false
	}
	e, _ := strconv.Atoi(es)
	ip, fp := mant, ""
	if j := strings.IndexByte(mant, '.'); j >= 0 {
		ip, fp = mant[:j], mant[j+1:]
	}
	if ip+fp == "" || strings.ContainsAny(ip+fp, "+-_. ") {
		return 0, false
	}
	m, ok := new(big.Int).SetString(ip+fp, 16)
	if !ok {
		return 0, false
	}
	exp := int64(e)
	if eneg {
		exp = -exp
	}
	exp -= 4 * int64(len(fp))
	q := new(big.Rat).SetInt(m)
	p2 := new(big.Rat).SetInt(new(big.Int).Lsh(big.NewInt(1), uint(abs64(exp))))
	if exp >= 0 {
		q.Mul(q, p2)
	} else {
		q.Quo(q, p2)
	}
	f, _ := q.Float64()
	return f, true
}

// twoReadings: an integer text with a redundant leading zero has two natural
// readings (decimal 17 and C-style octal 15 for "017"); the statement settles
// neither, so the constant and the bound text are not demanded to agree.
func twoReadings(t string) bool {
	s := strings.TrimLeft(strings.Trim(t, " \t\n\r"), "+-")
	return len(s) > 1 && s[0] == '0' && allDigits(s)
}

func abs64(x int64) int64 {
	if x < 0 {
		return -x
	}
	return x
}

// textClass names the shape of a binding text (for signatures).
func textClass(t string) string {
	s := t
	pre := ""
	if strings.Trim(s, " \t\n\r") != s {
		return "blank-padded"
	}
	if strings.HasPrefix(s, "-") {
		pre, s = "minus-", s[1:]
	} else if strings.HasPrefix(s, "+") {
		pre, s = "plus-", s[1:]
	}
	switch {
	case allDigits(s):
		if len(s) > 1 && s[0] == '0' {
			return pre + "integer-leading-zero"
		}
		switch n := len(s); {
		case n <= 15:
			return pre + "integer-1-15-digits"
		case n <= 19:
			return pre + "integer-16-19-digits"
		case n == 20:
			return pre + "integer-20-digits"
		default:
			return pre + "integer-21-plus-digits"
		}
	case s == "":
		return pre + "empty"
	case s[0] >= '0' && s[0] <= '9' || s[0] == '.':
		switch {
		case len(s) > 1 && s[0] == '0' && strings.ContainsAny(s[1:2], "xXbBoO"):
			return pre + "prefixed"
		case strings.ContainsAny(s, "eE"):
			return pre + "exponent"
		case strings.Count(s, ".") == 1 && allDigits(strings.Replace(s, ".", "", 1)):
			return pre + "fraction"
		}
		return pre + "digits-and-other"
	}
	return pre + "word"
}

// ulpClose: equal, or neighbouring float64 values.
func ulpClose(a, b float64) bool {
	if sameNumber(a, b) {
		return true
	}
	if math.IsNaN(a) || math.IsNaN(b) || (a < 0) != (b < 0) {
		return false
	}
	x, y := math.Float64bits(math.Abs(a)), math.Float64bits(math.Abs(b))
	return x-y == 1 || y-x == 1
}

// ------------------------------------------------------------------ pool

func bindMagnitudes(quick bool) []string {
	seen := map[string]bool{}
	var out []string
	add := func(s string) {
		if !seen[s] {
			seen[s] = true
			out = append(out, s)
		}
	}
	addInt := func(v *big.Int) {
		if v.Sign() >= 0 {
			add(v.String())
		}
	}
	for _, s := range []string{"0", "1", "2", "5", "9", "10", "42", "99", "100", "255", "1000", "65535"} {
		add(s)
	}
	pows := []uint{31, 32, 53, 63, 64, 65}
	if !quick {
		pows = []uint{31, 32, 52, 53, 54, 62, 63, 64, 65, 66, 70, 80, 100, 127, 128}
	}
	for _, p := range pows {
		b := new(big.Int).Lsh(big.NewInt(1), p)
		for d := int64(-2); d <= 2; d++ {
			addInt(new(big.Int).Add(b, big.NewInt(d)))
		}
	}
	two64 := new(big.Int).Lsh(big.NewInt(1), 64)
	for _, d := range []int64{9, 10, 1000, 12345, 1 << 32} {
		addInt(new(big.Int).Add(two64, big.NewInt(d)))
	}
	addInt(new(big.Int).Mul(two64, big.NewInt(3)))
	addInt(new(big.Int).Mul(two64, big.NewInt(5)))
	ten := big.NewInt(10)
	for k := int64(15); k <= 25; k++ {
		b := new(big.Int).Exp(ten, big.NewInt(k), nil)
		for d := int64(-1); d <= 1; d++ {
			addInt(new(big.Int).Add(b, big.NewInt(d)))
		}
	}
	e18 := new(big.Int).Exp(ten, big.NewInt(18), nil)
	for _, m := range []int64{18, 19, 20, 50, 90, 99} { // 20-digit values on both sides of 2^64
		addInt(new(big.Int).Mul(e18, big.NewInt(m)))
	}
	for _, k := range []int64{30, 38, 100, 308, 309, 400} {
		addInt(new(big.Int).Exp(ten, big.NewInt(k), nil))
	}
	const run = "1234567890123456789012345678901234567890"
	for d := 16; d <= 25; d++ {
		add(strings.Repeat("9", d))
		add(strings.Repeat("1", d))
		add(strings.Repeat("8", d))
		add(run[:d])
	}
	return out
}

// forms of one magnitude
func bindForms(m string) []string {
	return []string{m, "-" + m, "+" + m, "0" + m, "00" + m, m + ".0", m + ".5", "-" + m + ".25", m + ".", " " + m, m + " ", m + "e0", m + "E+0", "-" + m + "e-1"}
}

var bindSpecials = []string{
	// non-numeric
	"", " ", "abc", "-", "+", ".", "e", "e5", "1e", "1e+", "5x", "x5", "1 2", "--5", "+-5", "5-", "5+", "1.2.3", "1,000", "5\x00", "0x", "0b2", "1e1.5", "５", "٣", "½", "-nan",
	// reading not settled
	"1_000", "0x10", "0X1F", "0b11", "0o17", "017", "inf", "Inf", "+Inf", "-inf", "infinity", "nan", "NaN", "5\n", "\t5", "1e5 ",
	"1e5", "1E5", "1e+5", "1e-5", "1.5e3", "1e19", "1e20", "1E20", "-1e20", "1.8446744073709551616e19", "18446744073709551616e0",
	"1e400", "-1e400", "1e-400", "4.9e-324", "2.4703282292062327e-324", "2.4703282292062328e-324", "1.7976931348623157e308", "1.7976931348623159e308",
	"2.2250738585072011e-308", "2.2250738585072014e-308",
	// the special float spellings in every letter case, signed; values beyond float64; hexadecimal floats;
	// digit separators; octal-looking texts; prefixed integers around 2^63; near misses of inf/nan
	"INF", "iNf", "Infinity", "INFINITY", "-Inf", "-INF", "-infinity", "+infinity", "NAN", "nAn", "+nan",
	"1e999", "-1e999", "1e309", "1e308", "1E999",
	"0x1p4", "0x1P4", "0X1p4", "0x1p-2", "0x1p+2", "0x.8p1", "0x1.8p1", "0xAp1", "0xap0", "-0x1p4", "0x1p", "0x10p", "0xp1", "0x1.8",
	"1_0", "1__0", "_1", "1_", "0x1_0", "0b1_1", "1_000.5", "0O17", "08", "09", "00", "007", "0017",
	"0x7fffffffffffffff", "0x8000000000000000", "0xffffffffffffffff", "0xff", "0b0",
	"infx", "in", "na", "nanx", "infinit", "infinityy", "e1", "p1", "x1", "info", "nano",
	// decimals with many digits, halfway cases of the rounding to float64
	"0.1", "0.5", "2.5", "-2.5", "0.30000000000000004", "0.1234567890123456789012345", "3.14159265358979323846264338327950288",
	"9007199254740992.5", "9007199254740993", "9007199254740993.0000000000000000001", "9007199254740992.9999999999999999999",
	"9007199254740993.5", "0.000000000000000000000000000001", "123456789.123456789123456789", "-0", "-0.0", "0.0", "0.50", "00.5", ".5", "5.",
	"18446744073709551615.5", "18446744073709551616.0", "99999999999999999999.9", "-18446744073709551616", "-99999999999999999999",
}

// one-variable formulas (%[1]s: the variable, or the constant written in place)
var bindContexts1 = []string{
	"%[1]s", "%[1]s + 0", "0 + %[1]s", "%[1]s * 1", "%[1]s - 1", "%[1]s / 2", "%[1]s + 0.5", "-%[1]s", "abs(%[1]s)",
	"%[1]s > 1000", "%[1]s >= 18446744073709551615", "%[1]s == %[1]s", "2(%[1]s)", "%[1]s ^ 2", "(%[1]s - 18446744073709551616) / 2",
	// the text as an open bound, a divisor, next to an operator without blanks
	"5 < %[1]s", "5 < %[1]s && 5 > -%[1]s", "1 / %[1]s", "2*%[1]s", "%[1]s<5",
}

// two-variable formulas (%[1]s is [0], %[2]s is x)
var bindContexts2 = []string{"%[1]s - %[2]s", "%[1]s == %[2]s", "%[1]s < %[2]s", "%[1]s + %[2]s"}

// the spellings of the variable in one-variable formulas; slot 0 is match 0, slot 1 is key x
var bindSpellings = []struct {
	text string
	slot int
}{{"[0]", 0}, {"x", 1}, {"[x]", 1}}

// bindPairPool: the texts paired with each other in two-variable formulas.
func bindPairPool(quick bool) []string {
	var out []string
	for _, m := range bindMagnitudes(quick) {
		if quick && len(m) < 16 && m != "0" && m != "1" {
			continue
		}
		if len(m) > 40 {
			continue
		}
		out = append(out, m)
		if !quick {
			out = append(out, "-"+m, m+".5")
		}
	}
	if quick {
		out = append(out, "-18446744073709551616", "18446744073709551615.5", "2.5", "1e20")
	}
	return out
}

// ------------------------------------------------------------------ checks

type bindRun struct {
	out      string
	isMarker bool
	val      float64
	ok       bool // no panic and parsable output
}

func (c *checker) bindViolation(sig, detail string, cs Case) {
	c.w.Violation(sig, detail, cs)
}

// runBind evaluates `{! formula}` with [0] and x bound to the texts.
func (c *checker) runBind(formula string, texts []string, optimize bool, cs Case) (r bindRun, compiledOK bool) {
	tpl := "{! " + formula + "}"
	ct := compileTemplate(tpl, optimize)
	if ct.panicked != "" {
		c.bindViolation(panicSig("compile", formula, ct.panicked), fmt.Sprintf("KeyBuilder.Compile(%q) panicked: %s", tpl, ct.panicked), cs)
		return r, false
	}
	if ct.err != nil {
		return r, false
	}
	ctx := bindContext(texts)
	out, pk := evalTemplate(ct.kb, ctx)
	if pk != "" {
		// B4
		c.bindViolation(panicSig("eval", formula, pk), fmt.Sprintf("BuildKey of %q with [0]=%q x=%q panicked: %s", tpl, texts[0], texts[1], pk), cs)
		return r, true
	}
	r.out = out
	if out == errorMarker {
		r.isMarker, r.ok = true, true
		return r, true
	}
	v, err := strconv.ParseFloat(out, 64)
	if err != nil {
		c.bindViolation("C19/binding/output-neither-number-nor-error-marker", fmt.Sprintf("template %q with [0]=%q x=%q gives %q", tpl, texts[0], texts[1], out), cs)
		return r, true
	}
	r.val, r.ok = v, true
	return r, true
}

// bindContext is the match data: match 0 and key x.
func bindContext(texts []string) *bindCtx {
	return &bindCtx{m0: texts[0], x: texts[1]}
}

type bindCtx struct{ m0, x string }

func (e *bindCtx) GetMatch(i int) string {
	if i == 0 {
		return e.m0
	}
	return ""
}

func (e *bindCtx) GetKey(k string) string {
	if k == "x" {
		return e.x
	}
	return ""
}

func constForm(t string) string {
	if strings.HasPrefix(t, "-") {
		return "(" + t + ")"
	}
	return t
}

// checkBind checks one formula format with the given texts. vals: the value
// each bound variable was observed to have on the identity formula (nil when
// this IS the identity formula). spell: the spelling of slot %[1]s (one-variable
// formats) - two-variable formats use [0] and x.
func (c *checker) checkBind(format string, spell int, texts []string) (nontrivial bool) {
	two := strings.Contains(format, "%[2]s")
	cs := Case{Kind: "bind", Formula: format, Texts: texts, Bind: spell}
	var formula string
	var used []int // slots used
	if two {
		formula = fmt.Sprintf(format, "[0]", "x")
		used = []int{0, 1}
	} else {
		sp := bindSpellings[spell]
		formula = fmt.Sprintf(format, sp.text)
		used = []int{sp.slot}
	}
	refs := [2]textRef{refText(texts[0]), refText(texts[1])}
	kind := txStrict
	class := refs[used[0]].class
	for _, u := range used {
		if refs[u].kind > kind {
			kind = refs[u].kind
			class = refs[u].class
		}
	}
	identity := format == "%[1]s"

	var first bindRun
	for oi, opt := range []bool{true, false} {
		cs.Optimize = opt
		r, compiledOK := c.runBind(formula, texts, opt, cs)
		if !compiledOK {
			// S1: the formulas of this family are well formed
			c.bindViolation("C19/binding/well-formed-formula-rejected", fmt.Sprintf("template {! %s} does not compile although the formula is well formed", formula), cs)
			return false
		}
		if !r.ok {
			return false
		}
		if oi == 0 {
			first = r
		} else if r.isMarker != first.isMarker || (!r.isMarker && !sameNumber(r.val, first.val)) {
			c.bindViolation("C19/binding/optimisation-changes-result", fmt.Sprintf("template {! %s} with [0]=%q x=%q gives %q with and %q without key-builder optimisation", formula, texts[0], texts[1], first.out, r.out), cs)
			return true
		}
	}
	r := first
	switch kind {
	case txNonNum:
		// B3: non-numeric text gives the error marker
		if !r.isMarker {
			c.bindViolation("C19/binding/non-numeric-text-yields-number/"+class, fmt.Sprintf("template {! %s} with [0]=%q x=%q gives %q; the bound text is not a number, the error marker %s is expected", formula, texts[0], texts[1], r.out, errorMarker), cs)
		}
		return true
	case txStrict:
		if r.isMarker {
			// B1
			c.bindViolation("C19/binding/numeric-text-rejected/"+class, fmt.Sprintf("template {! %s} with [0]=%q x=%q gives the error marker %q although the bound text is a plain decimal number", formula, texts[0], texts[1], r.out), cs)
			return true
		}
	case txOptional:
		if r.isMarker {
			return true // accepted
		}
	}
	// a number came out: it must be the number the statement dictates
	if identity {
		want := refs[used[0]].val
		if !ulpClose(r.val, want) {
			c.bindViolation("C19/binding/wrong-value/"+class, fmt.Sprintf("template {! %s} with the variable bound to the text %q gives %q; the float64 nearest to that decimal value is %s", formula, texts[used[0]], r.out, strconv.FormatFloat(want, 'f', -1, 64)), cs)
		}
	} else {
		c.bindFormulaValue(formula, texts, used, refs, r, class, cs)
	}
	// B2: the constant written in place. For a plain decimal the constant form
	// is demanded; for a text whose numeric reading the statement does not
	// settle but which THIS tree just read as a number when bound (inf, NaN,
	// 1e5, 0x1p4, 1_000, .5 ...) the same text as a formula token may be
	// rejected at compile time, but when the formula compiles it must have the
	// value of the variable form: by the tree's own account the text is a
	// number, "Variables are either non-numeric values or keys surrounded by
	// brackets" (docs/usage/math.md), so the token is a numeric constant, and a
	// constant equals a variable bound to the same value. No key of that name is
	// bound, so a token that is looked up as a variable gives the error marker.
	allConst, lenient := true, false
	for _, u := range used {
		switch {
		case refs[u].constOK:
		case refs[u].kind == txOptional && !twoReadings(texts[u]):
			lenient = true
		default:
			allConst = false
		}
	}
	if !allConst {
		return true
	}
	var cformula string
	if two {
		// a text that already differs from its constant on the formula that is the
		// variable alone is reported there (every text of a pair is also enumerated alone)
		for _, u := range used {
			idf := "[0]"
			if u == 1 {
				idf = "x"
			}
			iv, ok1 := c.runBind(idf, texts, true, cs)
			ic, ok2 := c.runBind(constForm(texts[u]), []string{"", ""}, true, cs)
			if !ok1 || !ok2 || !iv.ok || !ic.ok || iv.isMarker != ic.isMarker || !sameNumber(iv.val, ic.val) {
				return true
			}
		}
		class = "two-variables"
		cformula = fmt.Sprintf(format, constForm(texts[0]), constForm(texts[1]))
	} else {
		cformula = fmt.Sprintf(format, constForm(texts[used[0]]))
	}
	for _, opt := range []bool{true, false} {
		cs.Optimize = opt
		cr, compiledOK := c.runBind(cformula, []string{"", ""}, opt, cs)
		if !compiledOK {
			if lenient {
				c.w.Add("binding_unsettled_spelling_rejected_as_constant", 1)
				return true
			}
			c.bindViolation("C19/binding/constant-form-rejected/"+class, fmt.Sprintf("template {! %s} does not compile although {! %s} with the variable bound to the same text evaluates to %q", cformula, formula, r.out), cs)
			return true
		}
		if !cr.ok {
			return true
		}
		if cr.isMarker || !sameNumber(cr.val, r.val) {
			sig := "C19/binding/constant-vs-variable/" + class
			if lenient {
				sig = "C19/binding/constant-vs-variable/unsettled-spelling/" + class
			}
			c.bindViolation(sig, fmt.Sprintf("template {! %s} gives %q but {! %s} with [0]=%q x=%q gives %q", cformula, cr.out, formula, texts[0], texts[1], r.out), cs)
			return true
		}
	}
	c.w.Add("binding_constant_vs_variable", 1)
	if lenient {
		c.w.Add("binding_constant_vs_variable_unsettled_spelling", 1)
	}
	return true
}

// bindFormulaValue: the value of the formula's parse with each variable at the
// value observed on the formula that is the variable alone.
func (c *checker) bindFormulaValue(formula string, texts []string, used []int, refs [2]textRef, r bindRun, class string, cs Case) {
	var vals [2]float64
	for _, u := range used {
		idf := "[0]"
		if u == 1 {
			idf = "x"
		}
		ir, ok := c.runBind(idf, texts, true, cs)
		if ok && ir.ok && ir.isMarker {
			// B3: the text is not read as a number by the variable alone, so no formula may compute with it
			c.bindViolation("C19/binding/error-marker-lost/"+class, fmt.Sprintf("template {! %s} with [0]=%q x=%q gives %q, but {! %s} gives the error marker", formula, texts[0], texts[1], r.out, idf), cs)
			return
		}
		if !ok || !ir.ok || !ulpClose(ir.val, refs[u].val) {
			return // reported on the identity formula
		}
		vals[u] = ir.val
	}
	toks := refTokenize(formula)
	if cls, why := classify(toks); cls != clsWell {
		panic(fmt.Sprintf("harness: binding formula %q is not well formed for the reference: %s", formula, why))
	}
	want, anyUndef := refValues(refTrees(toks), func(name string) (float64, bool) {
		switch varKey(name) {
		case "0":
			return vals[0], true
		case "x":
			return vals[1], true
		}
		return 0, false
	})
	if anyUndef {
		return
	}
	for _, x := range want {
		if sameNumber(x, r.val) {
			return
		}
	}
	c.bindViolation("C19/binding/formula-value/"+class, fmt.Sprintf("template {! %s} with [0]=%q x=%q gives %q; the variables alone evaluate to %v, so the parse gives %s", formula, texts[0], texts[1], r.out, vals, fmtVals(want)), cs)
}

// bindFamily enumerates the family. Sharding unit: one text (one-variable
// formulas), one ordered pair of texts (two-variable formulas).
func (c *checker) bindFamily(caseNo *int64, quick bool) {
	w := c.w
	var texts []string
	seen := map[string]bool{}
	for _, m := range bindMagnitudes(quick) {
		for _, f := range bindForms(m) {
			if !seen[f] {
				seen[f] = true
				texts = append(texts, f)
			}
		}
	}
	for _, s := range bindSpecials {
		if !seen[s] {
			seen[s] = true
			texts = append(texts, s)
		}
	}
	w.Max("binding_texts", int64(len(texts)))
	for _, t := range texts {
		*caseNo++
		if !w.Owns(*caseNo) {
			continue
		}
		if w.Expired() {
			return
		}
		ref := refText(t)
		for _, format := range bindContexts1 {
			for sp := range bindSpellings {
				tx := []string{"1", "1"}
				tx[bindSpellings[sp].slot] = t
				format, sp := format, sp
				w.SetCase(func() any { return Case{Kind: "bind", Formula: format, Texts: tx, Bind: sp} })
				nt := c.checkBind(format, sp, tx)
				w.Eval(nt)
				w.Outcome("bind", format, ref.class, strconv.Itoa(int(ref.kind)))
				w.Add("binding_cases", 1)
			}
		}
		if w.WantSample() && ref.kind == txStrict && len(t) >= 20 {
			w.Sample(map[string]any{"binding_text": t, "class": ref.class, "reference_value": strconv.FormatFloat(ref.val, 'g', -1, 64)})
		}
	}
	pool := bindPairPool(quick)
	w.Max("binding_pair_pool", int64(len(pool)))
	for _, a := range pool {
		for _, b := range pool {
			*caseNo++
			if !w.Owns(*caseNo) {
				continue
			}
			if w.Expired() {
				return
			}
			for _, format := range bindContexts2 {
				tx := []string{a, b}
				format := format
				w.SetCase(func() any { return Case{Kind: "bind", Formula: format, Texts: tx, Bind: 0} })
				nt := c.checkBind(format, 0, tx)
				w.Eval(nt)
				w.Add("binding_cases", 1)
			}
		}
	}
}

func bindRule(quick bool) string {
	mags := bindMagnitudes(quick)
	pows := "31,32,53,63,64,65"
	if !quick {
		pows = "31,32,52,53,54,62,63,64,65,66,70,80,100,127,128"
	}
	var q []string
	for _, s := range bindSpecials {
		q = append(q, strconv.Quote(s))
	}
	return fmt.Sprintf("binding family (`{! f}` through the stdlib key builder with and without optimisation, BuildKey on match data): %d magnitudes {0 1 2 5 9 10 42 99 100 255 1000 65535; 2^p-2..2^p+2 for p in {%s}; 2^64+{9,10,1000,12345,2^32}; 3*2^64; 5*2^64; 10^k-1,10^k,10^k+1 for k=15..25; {18,19,20,50,90,99}*10^18; 10^k for k in {30,38,100,308,309,400}; 16..25 digits of 9.., 1.., 8.., 1234567890..} each in the forms m -m +m 0m 00m m.0 m.5 -m.25 m. ' m' 'm ' me0 mE+0 -me-1, and the texts {%s}; each text bound to [0], to bare x and to [x] in each of the formulas {%s}; every ordered pair of a pool of %d texts bound to [0] and x in {%s}; oracle: error marker / nearest float64 on the variable alone, the value of the independent parse on the other formulas, and the identical output when the text is written in place as a constant (negative values parenthesised): demanded for plain decimals; for a text of unsettled reading that the tree read as a number when bound (inf/nan spellings, exponents, hexadecimal floats, digit separators, .5 ...; not integers with a redundant leading zero, which have a decimal and an octal reading) the constant form may be rejected at compile time but when it compiles it must give that same number (no key of that name is bound: a token looked up as a variable gives the error marker) - signature C19/binding/constant-vs-variable/unsettled-spelling/<class>",
		len(mags), pows, strings.Join(q, " "), strings.Join(bindContexts1, " ; "), len(bindPairPool(quick)), strings.Join(bindContexts2, " ; "))
}
