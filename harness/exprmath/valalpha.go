package main

// Value-alphabet family of the C19 harness ("constvar").
//
// Statement: "Replacing any numeric constant by a variable bound to the same
// value (or the reverse) never changes the result, so compile-time
// simplification is invisible."
//
// The tree family (main.go) applies that sentence to many tree SHAPES with a
// handful of values (constants 2 3 0.5 0x10 0b11, bindings 0 1 -1 2.5 -3 1e18).
// This family is the other axis: a few fixed shapes, every operator and every
// function, and a pool of VALUES chosen the way the size-sweep lesson says
// (small integers 0..12, 2^k-1 2^k 2^k+1, their negatives, decimals that are
// not exact in binary, halves and quarters, 2^31 2^53 2^63 1e18 1e19 1e100
// 1e308, the smallest subnormal and 1e-308). For every operator and every
// ordered pair (a, b) of the pool the forms
//
//	a op b     x op b     a op y     x op y        (x bound to a, y bound to b)
//
// must give the SAME result - the same float64 bit pattern (any NaN equals any
// NaN) when evaluated through stdmath, the same printed text when evaluated
// through a `{! ..}` template. A value is written by ONE decimal text; the
// constant is that text in the formula (a negative one in parentheses), the
// binding is that text as match data / key (template) or the float64 nearest
// to it (stdmath), so constant and variable denote the same float64.
//
// The oracle is differential and straight from the sentence: it needs no
// reference evaluator and no precedence table, so it also covers the operators
// whose level or meaning on odd operands the statement leaves open (shift and
// bit operators on non-integers, % by zero, NaN as a truth value, prefix
// operator before ^): whatever the value is, it must not depend on which
// operand was a constant.
//
// Patterns (@1 @2 @3 are the value places):
//
//	binary    @1 op @2                       17 operators, pool x pool
//	unary     f(@1)  -@1  !@1                16 functions + 2 prefix operators, pool
//	nested    (@1 op @2) op2 @3   @3 op2 (@1 op @2)   @1 op @2 op2 @3
//	                                         17 x 17 operators, reduced pool ^3
//	mixed     f(@1) op @2   @1 op f(@2)   f(@1 op @2)   (f a function or prefix operator)
//	                                         18 x 17, medium pool ^2
//
// Forms of one pattern with k places: every subset of the places written as
// constants (2^k forms; the all-variable form is the reference), the variables
// written x y z, [0] [1] [2] and [x] [y] [z]; each place alone as a constant in
// the other spellings a constant has ((4), 0x4, 0b100, 4.0, and the foldable
// (4 + 0), (1 * 4) - "compile-time simplification is invisible"); with single
// spaces and without spaces; through `{! f}` with [0] [1] [2] bound to the
// texts as match groups (with and without key-builder optimisation) and with
// x y z as keys.

import (
	"fmt"
	"hash/fnv"
	"math"
	"math/bits"
	"regexp"
	"strconv"
	"strings"

	"rare/pkg/expressions"
	"rare/pkg/expressions/stdmath"
)

// ------------------------------------------------------------------ the pool

type cvValue struct {
	text string
	f    float64
}

// cvPlainDecimal: -?digits[.digits] without a redundant leading zero.
func cvPlainDecimal(t string) bool {
	s := strings.TrimPrefix(t, "-")
	ip, fp, hasDot := strings.Cut(s, ".")
	if !allDigits(ip) || hasDot && !allDigits(fp) {
		return false
	}
	return len(ip) == 1 || ip[0] != '0'
}

func cvMake(texts []string) []cvValue {
	seen := map[string]bool{}
	var out []cvValue
	for _, t := range texts {
		if seen[t] {
			continue
		}
		seen[t] = true
		if !cvPlainDecimal(t) {
			panic("harness: pool text is not a plain decimal: " + t)
		}
		f, err := strconv.ParseFloat(t, 64)
		if err != nil || math.IsInf(f, 0) {
			panic("harness: pool text has no float64 value: " + t)
		}
		// the text is the exact shortest rendering of its float64, so that a
		// constant and a binding written with it denote the same float64 under any
		// correctly rounding reader. The one exception is kept on purpose.
		if strconv.FormatFloat(f, 'f', -1, 64) != t && t != "9007199254740993" {
			panic("harness: pool text is not the rendering of its float64: " + t)
		}
		out = append(out, cvValue{t, f})
	}
	return out
}

func ff(v float64) string { return strconv.FormatFloat(v, 'f', -1, 64) }

// cvPool: the value alphabet.
func cvPool(quick bool) []cvValue {
	var t []string
	// 0..12, 2^k-1 2^k 2^k+1, 10^k (the thresholds of binary and of decimal text)
	ints := []int64{0, 1, 2, 3, 4, 5, 6, 7, 8, 9, 10, 11, 12, 16, 31, 32, 33, 63, 64, 65, 100, 1000, 1023, 1024, 1000000}
	if !quick {
		ints = append(ints, 13, 15, 17, 20, 99, 101, 127, 128, 129, 255, 256, 257, 999, 1001, 1025, 4095, 4096, 4097, 10000, 65535, 65536, 65537)
	}
	for _, i := range ints {
		t = append(t, strconv.FormatInt(i, 10))
	}
	for _, i := range ints {
		if i != 0 {
			t = append(t, strconv.FormatInt(-i, 10))
		}
	}
	// decimals without an exact binary form
	t = append(t, "0.1", "0.2", "0.3", "0.7", "1.1", "2.675", "3.57", "-3.57", "7.3", "9.99", "123.456", "0.001", "0.0000001", "-0.1", "-1.1", "-7.3")
	// halves and quarters (exact)
	t = append(t, "0.5", "0.25", "0.75", "1.5", "2.5", "-0.5", "-2.5", "-0.25")
	// large magnitudes
	t = append(t, ff(math.Ldexp(1, 31)), ff(math.Ldexp(1, 31)-1), ff(math.Ldexp(1, 32)), ff(math.Ldexp(1, 53)), "9007199254740993",
		ff(math.Ldexp(1, 62)), ff(math.Ldexp(1, 63)), ff(1e18), ff(1e19), ff(1e100), ff(1e308),
		"-"+ff(math.Ldexp(1, 31)), "-"+ff(math.Ldexp(1, 63)), "-"+ff(1e18))
	// tiny magnitudes
	t = append(t, ff(5e-324), ff(1e-308))
	if !quick {
		t = append(t, "0.6", "0.9", "1.3", "4.35", "19.99", "-9.99", "0.125", "3.75", "-1.5", "0.000001",
			ff(math.Ldexp(1, 52)), ff(math.Ldexp(1, 53)-1), ff(math.Ldexp(1, 64)), ff(7.3e53), "-"+ff(1e100), "-"+ff(1e308), ff(1.7976931348623157e308), "-"+ff(5e-324), ff(2.2250738585072014e-308))
	}
	return cvMake(t)
}

// cvReduced: the pool of the three-place patterns (zero, one, two, the small
// whole exponents, minus one, inexact decimals, a half, a huge value).
func cvReduced(quick bool) []cvValue {
	if quick {
		return cvMake([]string{"0", "1", "2", "3", "4", "-1", "0.1", "-3.57"})
	}
	return cvMake([]string{"0", "1", "2", "3", "4", "5", "-1", "-2", "0.1", "-3.57", "7.3", "0.5", "64", ff(1e18)})
}

// cvCore: the values on whose ordered pairs the quick tier runs ALL forms of
// the binary patterns (the thorough tier: the whole quick pool).
func cvCore() []cvValue {
	return cvMake([]string{"0", "1", "2", "3", "4", "5", "8", "10", "33", "64", "1024", "-1", "-2", "-4",
		"0.1", "0.3", "1.1", "-3.57", "7.3", "123.456", "0.5", "2.5", "-0.25",
		ff(math.Ldexp(1, 31)), "9007199254740993", ff(math.Ldexp(1, 63)), ff(1e18), ff(1e308), ff(5e-324)})
}

// cvMedium: the pool of the function-with-operator patterns.
func cvMedium(quick bool) []cvValue {
	if quick {
		return cvMake([]string{"0", "1", "2", "3", "4", "5", "-1", "-2", "0.1", "-3.57", "7.3", "0.5"})
	}
	return cvMake([]string{"0", "1", "2", "3", "4", "5", "8", "10", "-1", "-2", "-4", "0.1", "0.3", "-3.57", "7.3", "123.456", "0.5", "2.5", "64", "1023", ff(1e18), ff(1e308), ff(5e-324)})
}

// cvFuncs: docs/usage/math.md "Unary" (the one-argument functions; the formula
// language has no function of two arguments).
var cvFuncs = []string{"abs", "sqrt", "sin", "asin", "cos", "acos", "tan", "atan", "floor", "ceil", "round", "exp", "exp2", "log", "log10", "log2"}
var cvPrefix = []string{"-", "!"}

func cvUnaryName(f string) string {
	switch f {
	case "-":
		return "prefix-minus"
	case "!":
		return "prefix-not"
	}
	return "function-" + f
}

// ------------------------------------------------------------------ rendering

const (
	spPlain = iota
	spParen
	spHex
	spBin
	spDot0
	spSum0
	spProd1
	nSpell
)

var spellName = [...]string{"plain", "parenthesised", "0x", "0b", "trailing .0", "(c + 0)", "(1 * c)"}

// cvConst writes the value text as a constant in the given spelling.
func cvConst(text string, sp int) (string, bool) {
	neg := strings.HasPrefix(text, "-")
	plain := text
	if neg {
		// the only way to write a negative constant; in parentheses so that the
		// unsettled reading of a prefix operator next to ^ plays no role
		plain = "(" + text + ")"
	}
	isInt := !strings.Contains(text, ".")
	switch sp {
	case spPlain:
		return plain, true
	case spParen:
		return "(" + plain + ")", true
	case spHex, spBin:
		if neg || !isInt || len(text) > 16 {
			return "", false
		}
		u, err := strconv.ParseUint(text, 10, 64)
		if err != nil || u >= 1<<53 {
			return "", false
		}
		if sp == spHex {
			return "0x" + strconv.FormatUint(u, 16), true
		}
		return "0b" + strconv.FormatUint(u, 2), true
	case spDot0:
		if !isInt || len(text) > 19 {
			return "", false
		}
		if neg {
			return "(" + text + ".0)", true
		}
		return text + ".0", true
	case spSum0:
		return "(" + plain + " + 0)", true
	case spProd1:
		return "(1 * " + plain + ")", true
	}
	return "", false
}

const (
	vsBare = iota
	vsIndex
	vsBoxed
)

var cvVarNames = [3][3]string{{"x", "y", "z"}, {"[0]", "[1]", "[2]"}, {"[x]", "[y]", "[z]"}}
var styleName = [...]string{"x y z", "[0] [1] [2]", "[x] [y] [z]"}

// cvRender writes a pattern: place i is a constant when bit i of mask is set
// (spelling sp), else a variable in the given style.
func cvRender(pattern string, texts []string, mask, style, sp int, compact bool) (string, bool) {
	s := pattern
	for i := range texts {
		var r string
		if mask&(1<<i) != 0 {
			var ok bool
			if r, ok = cvConst(texts[i], sp); !ok {
				return "", false
			}
		} else {
			r = cvVarNames[style][i]
		}
		s = strings.ReplaceAll(s, "@"+strconv.Itoa(i+1), r)
	}
	if compact {
		s = strings.ReplaceAll(s, " ", "")
	}
	return s, true
}

// ------------------------------------------------------------------ running

type cvCtx struct {
	vals    []float64
	unknown int
}

func (c *cvCtx) GetMatch(i int) float64 {
	if i >= 0 && i < len(c.vals) {
		return c.vals[i]
	}
	c.unknown++
	return 0
}

func (c *cvCtx) GetKey(k string) float64 {
	if len(k) == 1 && k[0] >= 'x' && int(k[0]-'x') < len(c.vals) {
		return c.vals[k[0]-'x']
	}
	c.unknown++
	return 0
}

// cvSame: the same float64 - bit for bit, any NaN equal to any NaN.
func cvSame(a, b float64) bool {
	if a != a || b != b {
		return a != a && b != b
	}
	return math.Float64bits(a) == math.Float64bits(b)
}

// cvDiffClass names HOW two results differ.
func cvDiffClass(a, b float64) string {
	switch {
	case a != a || b != b:
		return "nan-versus-number"
	case a == b:
		return "sign-of-zero"
	case math.IsInf(a, 0) || math.IsInf(b, 0):
		return "infinity-versus-finite"
	}
	if d := math.Abs(a - b); d <= 1e-9*math.Max(math.Abs(a), math.Abs(b)) {
		return "last-bits"
	}
	return "value"
}

// cvOpts: which forms of a pattern are run.
type cvOpts struct {
	styles    bool // variables also as [0].. and [x]..
	spellings bool // each place alone as a constant in the other spellings
	compact   bool // the basic forms also without spaces
	templates bool // through `{! f}`
	noOpt     bool // templates also without key-builder optimisation
}

func (o cvOpts) String() string {
	var sb strings.Builder
	for i, b := range []bool{o.styles, o.spellings, o.compact, o.templates, o.noOpt} {
		if b {
			sb.WriteByte("yscto"[i])
		}
	}
	return sb.String()
}

func cvParseOpts(s string) cvOpts {
	h := func(c string) bool { return strings.Contains(s, c) }
	return cvOpts{h("y"), h("s"), h("c"), h("t"), h("o")}
}

// cvFeature: what a pattern exercises (for the signature): kind is binary |
// unary | nested, adj[i] the operator group / function next to place i.
type cvFeature struct {
	kind string
	adj  []string
}

func (ft cvFeature) sig(mask int, class string) string {
	if mask == 0 {
		return "C19/constvar/variable-spelling/" + class
	}
	switch ft.kind {
	case "binary":
		which := [...]string{"", "left-constant", "right-constant", "both-constant"}[mask&3]
		return "C19/constvar/binary-" + ft.adj[0] + "/" + which + "/" + class
	case "unary":
		return "C19/constvar/" + ft.adj[0] + "/" + class
	}
	// nested: one constant: the operator next to it; the inner pair @1 @2 of a
	// three-place pattern: the operator that consumes the folded operand
	switch {
	case bits.OnesCount(uint(mask)) == 1:
		return "C19/constvar/nested/" + ft.adj[bits.TrailingZeros(uint(mask))] + "/" + class
	case mask == 3 && len(ft.adj) == 3:
		return "C19/constvar/nested/" + ft.adj[2] + "-of-folded-operand/" + class
	}
	return "C19/constvar/nested/several-constants/" + class
}

var cvZeroRun = regexp.MustCompile("0{24,}")

// cvShort abbreviates the long runs of zeros of the huge and tiny pool texts (details only).
func cvShort(s string) string {
	return cvZeroRun.ReplaceAllStringFunc(s, func(z string) string { return "0..(" + strconv.Itoa(len(z)) + " zeros)..0" })
}

func (c *checker) cvViolation(sig, detail string, cs Case) { c.violation(sig, cvShort(detail), cs) }

func cvMaskText(mask, k int) string {
	if mask == 0 {
		return "no place constant"
	}
	var p []string
	for i := 0; i < k; i++ {
		if mask&(1<<i) != 0 {
			p = append(p, "@"+strconv.Itoa(i+1))
		}
	}
	return strings.Join(p, ",") + " constant"
}

// masksByCount: the subsets of k places ordered by size (so that the first
// differing form has the fewest constants and names the place at fault).
func masksByCount(k int) []int {
	var out []int
	for n := 0; n <= k; n++ {
		for m := 0; m < 1<<k; m++ {
			if bits.OnesCount(uint(m)) == n {
				out = append(out, m)
			}
		}
	}
	return out
}

// checkConstVar runs every form of one pattern with one value per place and
// reports the first form (fewest constants first) whose result differs from
// the all-variable form. Returns the number of forms compared.
func (c *checker) checkConstVar(pattern string, texts []string, ft cvFeature, o cvOpts) (compared int, refBits uint64) {
	k := len(texts)
	cs := Case{Kind: "constvar", Formula: pattern, Texts: texts, Root: ft.kind, Deco: strings.Join(ft.adj, ","), Dir: o.String(), Bind: -1}
	vals := make([]float64, k)
	for i, t := range texts {
		vals[i], _ = strconv.ParseFloat(t, 64)
	}
	bindText := func() string {
		var p []string
		for i, t := range texts {
			p = append(p, fmt.Sprintf("%s=%s=%s", cvVarNames[vsBare][i], cvVarNames[vsIndex][i], t))
		}
		return strings.Join(p, " ")
	}

	// run: compile and evaluate one form directly through stdmath
	run := func(text string) (v float64, ok bool) {
		cp := compileDirect(text)
		if cp.panicked != "" {
			// "no formula or binding crashes evaluation"
			c.cvViolation(panicSig("compile", text, cp.panicked), fmt.Sprintf("stdmath.Compile(%q) panicked: %s", text, cp.panicked), cs)
			return 0, false
		}
		if cp.err != nil {
			// every form is a well-formed formula over documented literals, variables, operators, functions and groups
			c.cvViolation("C19/constvar/"+ft.kind+"/compile-error", fmt.Sprintf("stdmath.Compile(%q) = error %v (pattern %q)", text, cp.err, pattern), cs)
			return 0, false
		}
		ctx := &cvCtx{vals: vals}
		var pk string
		func() {
			defer func() {
				if r := recover(); r != nil {
					pk = fmt.Sprint(r)
				}
			}()
			v = cp.expr.Eval(ctx)
		}()
		if pk != "" {
			c.cvViolation(panicSig("eval", text, pk), fmt.Sprintf("Eval of %q with %s panicked: %s", text, bindText(), pk), cs)
			return 0, false
		}
		if ctx.unknown > 0 {
			panic("harness: constvar formula looked up a variable the harness did not bind: " + text)
		}
		return v, true
	}

	for _, compact := range []bool{false, true} {
		if compact && !o.compact {
			break
		}
		refText, _ := cvRender(pattern, texts, 0, vsBare, spPlain, compact)
		ref, ok := run(refText)
		if !ok {
			return compared, 0
		}
		if !compact {
			refBits = math.Float64bits(ref)
			if ref != ref {
				refBits = 0x7ff8000000000001
			}
		}
		reported := false
		try := func(mask, style, sp int) {
			if reported {
				return
			}
			text, ok := cvRender(pattern, texts, mask, style, sp, compact)
			if !ok || text == refText {
				return
			}
			v, ok := run(text)
			if !ok {
				reported = true
				return
			}
			compared++
			if !cvSame(v, ref) {
				// "Replacing any numeric constant by a variable bound to the same value (or the reverse) never changes the result"
				reported = true
				how := cvMaskText(mask, k)
				if sp != spPlain {
					how += ", spelled " + spellName[sp]
				}
				c.cvViolation(ft.sig(mask, cvDiffClass(v, ref)),
					fmt.Sprintf("%q evaluates to %v (bits %#x) but %q (%s) evaluates to %v (bits %#x) with %s", refText, ref, math.Float64bits(ref), text, how, v, math.Float64bits(v), bindText()), cs)
			}
		}
		for _, m := range masksByCount(k) {
			try(m, vsBare, spPlain)
		}
		if compact {
			continue
		}
		if o.styles {
			for _, st := range []int{vsIndex, vsBoxed} {
				for _, m := range masksByCount(k) {
					if m != 1<<k-1 {
						try(m, st, spPlain)
					}
				}
			}
		}
		if o.spellings {
			for sp := spPlain + 1; sp < nSpell; sp++ {
				for i := 0; i < k; i++ {
					try(1<<i, vsBare, sp)
				}
			}
		}
	}

	if !o.templates {
		return
	}
	// through `{! f}`: the printed output of every form is the same text
	ctx := &expressions.KeyBuilderContextArray{Elements: texts, Keys: map[string]string{}}
	for i, t := range texts {
		ctx.Keys[cvVarNames[vsBare][i]] = t
	}
	runT := func(text string, optimize bool) (out string, ok bool) {
		tpl := "{! " + text + "}"
		ct := compileTemplate(tpl, optimize)
		if ct.panicked != "" {
			c.cvViolation(panicSig("compile", text, ct.panicked), fmt.Sprintf("KeyBuilder.Compile(%q) panicked: %s", tpl, ct.panicked), cs)
			return "", false
		}
		if ct.err != nil {
			c.cvViolation("C19/constvar/"+ft.kind+"/template-compile-error", fmt.Sprintf("template %q gives compile error %v", tpl, ct.err), cs)
			return "", false
		}
		out, pk := evalTemplate(ct.kb, ctx)
		if pk != "" {
			c.cvViolation(panicSig("eval", text, pk), fmt.Sprintf("BuildKey of %q with %s panicked: %s", tpl, bindText(), pk), cs)
			return "", false
		}
		return out, true
	}
	refText, _ := cvRender(pattern, texts, 0, vsIndex, spPlain, false)
	refOut, ok := runT(refText, true)
	if !ok {
		return
	}
	c.w.Add("constvar_template_forms", 1)
	// the template prints the number stdmath gives
	if v, err := strconv.ParseFloat(refOut, 64); err != nil || !cvSame(v, math.Float64frombits(refBits)) {
		c.cvViolation("C19/constvar/template/"+ft.kind+"/output-is-not-the-stdmath-value", fmt.Sprintf("template {! %s} with %s prints %q; stdmath evaluates the formula to %v", refText, bindText(), refOut, math.Float64frombits(refBits)), cs)
		return
	}
	reported := false
	tryT := func(mask, style int, optimize bool) {
		if reported {
			return
		}
		text, _ := cvRender(pattern, texts, mask, style, spPlain, false)
		if text == refText && optimize {
			return
		}
		out, ok := runT(text, optimize)
		if !ok {
			reported = true
			return
		}
		compared++
		c.w.Add("constvar_template_forms", 1)
		if out != refOut {
			reported = true
			class := "non-numeric-output"
			if v, err := strconv.ParseFloat(out, 64); err == nil {
				class = cvDiffClass(v, math.Float64frombits(refBits))
			}
			sig := ft.sig(mask, class)
			c.cvViolation(strings.Replace(sig, "C19/constvar/", "C19/constvar/template/", 1),
				fmt.Sprintf("template {! %s} prints %q but {! %s} (%s) prints %q with %s", refText, refOut, text, cvMaskText(mask, k), out, bindText()), cs)
		}
	}
	for _, m := range masksByCount(k) {
		tryT(m, vsIndex, true)
	}
	tryT(0, vsBare, true)
	if o.noOpt {
		for _, m := range masksByCount(k) {
			tryT(m, vsIndex, false)
		}
	}
	return
}

// ------------------------------------------------------------------ sweep

// cvSweep runs the basic forms of one pattern (every subset of the places as
// constants, variables written x y z, through stdmath) over a whole product of
// values with as few compilations as possible: a form whose constants are
// fixed is compiled ONCE and evaluated under every binding of its remaining
// variables (so a compiled formula also lives through many evaluations). The
// reference is the all-variable form. It stops at the first difference (forms
// with fewer constants first) and returns a case that checkConstVar replays.
func (c *checker) cvSweep(pattern string, pools [][]cvValue, ft cvFeature, compact bool) {
	w := c.w
	k := len(pools)
	o := cvOpts{compact: compact}
	texts := make([]string, k)
	vals := make([]float64, k)
	cur := func() Case {
		return Case{Kind: "constvar", Formula: pattern, Texts: append([]string{}, texts...), Root: ft.kind, Deco: strings.Join(ft.adj, ","), Dir: o.String(), Bind: -1}
	}
	for i := range texts {
		texts[i] = pools[i][0].text
	}
	w.SetCase(func() any { return cur() })
	total := 1
	for _, p := range pools {
		total *= len(p)
	}
	compile := func(mask int) (ex stdmath.Expr, text string, ok bool) {
		text, _ = cvRender(pattern, texts, mask, vsBare, spPlain, compact)
		cp := compileDirect(text)
		if cp.panicked != "" {
			c.cvViolation(panicSig("compile", text, cp.panicked), fmt.Sprintf("stdmath.Compile(%q) panicked: %s", text, cp.panicked), cur())
			return nil, text, false
		}
		if cp.err != nil {
			c.cvViolation("C19/constvar/"+ft.kind+"/compile-error", fmt.Sprintf("stdmath.Compile(%q) = error %v (pattern %q)", text, cp.err, pattern), cur())
			return nil, text, false
		}
		return cp.expr, text, true
	}
	// eval with the current vals; a panic is reported
	eval := func(ex stdmath.Expr, text string) (v float64, ok bool) {
		ctx := &cvCtx{vals: vals}
		var pk string
		func() {
			defer func() {
				if r := recover(); r != nil {
					pk = fmt.Sprint(r)
				}
			}()
			v = ex.Eval(ctx)
		}()
		if pk != "" {
			c.cvViolation(panicSig("eval", text, pk), fmt.Sprintf("Eval of %q with %v bound to %v panicked: %s", text, cvVarNames[vsBare][:k], texts, pk), cur())
			return 0, false
		}
		if ctx.unknown > 0 {
			panic("harness: constvar formula looked up a variable the harness did not bind: " + text)
		}
		return v, true
	}
	// iterate the product of the pools of the given places (others untouched)
	at := make([]int, k) // index of the current value of each place in its pool
	var product func(places []int, body func() bool) bool
	product = func(places []int, body func() bool) bool {
		if len(places) == 0 {
			return body()
		}
		p := places[0]
		for j, v := range pools[p] {
			at[p], texts[p], vals[p] = j, v.text, v.f
			if !product(places[1:], body) {
				return false
			}
		}
		return true
	}
	all := make([]int, k)
	for i := range all {
		all[i] = i
	}
	index := func() int { // position of the current assignment in the full product
		n := 0
		for i := 0; i < k; i++ {
			n = n*len(pools[i]) + at[i]
		}
		return n
	}
	refEx, refText, ok := compile(0)
	if !ok {
		return
	}
	ref := make([]float64, 0, total)
	if !product(all, func() bool {
		v, ok := eval(refEx, refText)
		ref = append(ref, v)
		return ok
	}) {
		return
	}
	h := fnv.New64a()
	h.Write([]byte(pattern))
	for _, v := range ref {
		u := math.Float64bits(v)
		if v != v {
			u = 0x7ff8000000000001
		}
		var b [8]byte
		for i := range b {
			b[i] = byte(u >> (8 * i))
		}
		h.Write(b[:])
	}
	w.OutcomeHash(h.Sum64())
	var compared int64
	for _, m := range masksByCount(k)[1:] {
		var cp, vp []int
		for i := 0; i < k; i++ {
			if m&(1<<i) != 0 {
				cp = append(cp, i)
			} else {
				vp = append(vp, i)
			}
		}
		if !product(cp, func() bool {
			ex, text, ok := compile(m)
			if !ok {
				return false
			}
			return product(vp, func() bool {
				v, ok := eval(ex, text)
				if !ok {
					return false
				}
				compared++
				if r := ref[index()]; !cvSame(v, r) {
					// "Replacing any numeric constant by a variable bound to the same value (or the reverse) never changes the result"
					c.cvViolation(ft.sig(m, cvDiffClass(v, r)),
						fmt.Sprintf("%q evaluates to %v (bits %#x) but %q (%s) evaluates to %v (bits %#x) with %v bound to %v", refText, r, math.Float64bits(r), text, cvMaskText(m, k), v, math.Float64bits(v), cvVarNames[vsBare][:k], texts), cur())
					return false
				}
				return true
			})
		}) {
			break
		}
	}
	for i := 0; i < total; i++ {
		w.Eval(compared > 0)
	}
	w.Add("constvar_units", int64(total))
	w.Add("constvar_forms_compared", compared)
	w.Add("constvar_sweep_patterns", 1)
}

// ------------------------------------------------------------------ enumeration

type cvPlan struct {
	pool, core, medium, mediumFull, reduced, reducedFull []cvValue
}

func cvPlanFor(quick bool) cvPlan {
	if quick {
		return cvPlan{pool: cvPool(true), core: cvCore(), medium: cvMedium(true), reduced: cvReduced(true)}
	}
	return cvPlan{pool: cvPool(false), core: cvPool(true), medium: cvMedium(false), mediumFull: cvMedium(true), reduced: cvReduced(false), reducedFull: cvReduced(true)}
}

// constvar enumerates the family. Sharding units: one pattern (sweeps), one
// pattern with one value per place (all forms).
func (c *checker) constvar(caseNo *int64, quick bool) {
	w := c.w
	unit := func(pattern string, texts []string, ft cvFeature, o cvOpts) {
		w.SetCase(func() any {
			return Case{Kind: "constvar", Formula: pattern, Texts: texts, Root: ft.kind, Deco: strings.Join(ft.adj, ","), Dir: o.String(), Bind: -1}
		})
		compared, refBits := c.checkConstVar(pattern, texts, ft, o)
		w.Eval(compared > 0)
		h := fnv.New64a()
		h.Write([]byte(ft.kind + strings.Join(ft.adj, ",")))
		var b [8]byte
		for i := range b {
			b[i] = byte(refBits >> (8 * i))
		}
		h.Write(b[:])
		w.OutcomeHash(h.Sum64())
		w.Add("constvar_units", 1)
		w.Add("constvar_forms_compared", int64(compared))
		if compared > 0 && w.WantSample() && len(texts) == 2 && strings.Contains(texts[0], ".") && ft.kind == "binary" {
			f, _ := cvRender(pattern, texts, 2, vsBare, spPlain, false)
			w.Sample(map[string]any{"constvar_pattern": pattern, "values": texts, "one_form": f, "reference_value": math.Float64frombits(refBits)})
		}
	}
	pl := cvPlanFor(quick)
	w.Max("constvar_pool_size", int64(len(pl.pool)))
	w.Max("constvar_core_pool_size", int64(len(pl.core)))
	w.Max("constvar_medium_pool_size", int64(len(pl.medium)))
	w.Max("constvar_reduced_pool_size", int64(len(pl.reduced)))
	full := cvOpts{styles: true, spellings: true, compact: true, templates: true, noOpt: true}
	coreForms := full
	if quick {
		coreForms.compact, coreForms.noOpt = false, false // without spaces: the sweep; without optimisation: the unary patterns
	}
	sub := w.Param("cv", "all") // development aid: one sub-family
	on := func(name string) bool { return sub == "all" || sub == name }
	mine := func() bool { *caseNo++; return w.Owns(*caseNo) }
	unaries := append(append([]string{}, cvFuncs...), cvPrefix...)

	// binary: every operator, every ordered pair of the pool (basic forms, with
	// and without spaces); every ordered pair of the core pool in all forms
	for _, op := range binOps {
		if !on("binary") {
			break
		}
		g := groupName[opGroup[op]]
		ft := cvFeature{"binary", []string{g, g}}
		for _, compact := range []bool{false, true} {
			if mine() {
				c.cvSweep("@1 "+op+" @2", [][]cvValue{pl.pool, pl.pool}, ft, compact)
			}
		}
		for _, a := range pl.core {
			for _, b := range pl.core {
				if !mine() {
					continue
				}
				if w.Expired() {
					return
				}
				unit("@1 "+op+" @2", []string{a.text, b.text}, ft, coreForms)
			}
		}
	}
	// unary: every function and prefix operator, every value, all forms
	for _, f := range unaries {
		if !on("unary") {
			break
		}
		ft := cvFeature{"unary", []string{cvUnaryName(f)}}
		patterns := []string{f + "(@1)"}
		if f == "-" || f == "!" {
			patterns = []string{f + "@1", f + "(@1)"}
		}
		for _, p := range patterns {
			for _, a := range pl.pool {
				if mine() {
					unit(p, []string{a.text}, ft, full)
				}
			}
		}
	}
	// mixed: a function or prefix operator on one side of / around an operator
	for _, f := range unaries {
		if !on("mixed") {
			break
		}
		for _, op := range binOps {
			g := groupName[opGroup[op]]
			open, shut := "(", ")"
			if f == "-" || f == "!" {
				open, shut = "", ""
			}
			// the place inside the function: the signature names the operator the
			// function result is an operand of (not the function: 18 x 8 names)
			fn := g + "-with-function-operand"
			patterns := []string{f + open + "@1" + shut + " " + op + " @2", "@1 " + op + " " + f + open + "@2" + shut, f + "(@1 " + op + " @2)"}
			feats := []cvFeature{{"nested", []string{fn, g}}, {"nested", []string{g, fn}}, {"nested", []string{g, g}}}
			for pi, p := range patterns {
				ft := feats[pi]
				if w.Expired() {
					return
				}
				if mine() {
					c.cvSweep(p, [][]cvValue{pl.medium, pl.medium}, ft, false)
				}
				for _, a := range pl.mediumFull {
					for _, b := range pl.mediumFull {
						if mine() {
							unit(p, []string{a.text, b.text}, ft, cvOpts{styles: true, spellings: true, templates: true})
						}
					}
				}
			}
		}
	}
	// nested: two operators, three places
	for _, op := range binOps {
		if !on("nested") {
			break
		}
		for _, op2 := range binOps {
			g, g2 := groupName[opGroup[op]], groupName[opGroup[op2]]
			ft := cvFeature{"nested", []string{g, g, g2}}
			patterns := []string{"(@1 " + op + " @2) " + op2 + " @3", "@3 " + op2 + " (@1 " + op + " @2)", "@1 " + op + " @2 " + op2 + " @3"}
			for _, p := range patterns {
				if w.Expired() {
					return
				}
				if mine() {
					c.cvSweep(p, [][]cvValue{pl.reduced, pl.reduced, pl.reduced}, ft, false)
				}
				for _, a := range pl.reducedFull {
					for _, b := range pl.reducedFull {
						for _, cc := range pl.reducedFull {
							if mine() {
								unit(p, []string{a.text, b.text, cc.text}, ft, cvOpts{templates: true})
							}
						}
					}
				}
			}
		}
	}
}

func cvPoolText(p []cvValue) string {
	var t []string
	for _, v := range p {
		s := v.text
		if len(s) > 24 {
			s = strconv.FormatFloat(v.f, 'g', -1, 64) + " (written out in full: " + strconv.Itoa(len(s)) + " characters)"
		}
		t = append(t, s)
	}
	return strings.Join(t, " ")
}

func cvRule(quick bool) string {
	pl := cvPlanFor(quick)
	allForms := "all forms = the basic forms and: variables also written [0] [1] [2] and [x] [y] [z]; each place alone as a constant spelled (c), 0x.., 0b.., c.0, (c + 0), (1 * c) where the value allows; through `{! f}` with the texts as match groups [0] [1] [2] (with and without key-builder optimisation) and as keys x y z, where every form must print the identical text, which must be the stdmath value"
	tier := fmt.Sprintf("binary patterns: basic forms with and without spaces on every ordered pair of the pool, all forms on every ordered pair of the core pool {%s}; unary patterns: all forms on the pool; mixed patterns: basic forms on every ordered pair of the medium pool {%s}; three-place patterns: basic forms on every triple of the reduced pool {%s}",
		cvPoolText(pl.core), cvPoolText(pl.medium), cvPoolText(pl.reduced))
	if !quick {
		tier += fmt.Sprintf("; mixed patterns also in all forms (templates with optimisation only) on every ordered pair of {%s}; three-place patterns also through templates on every triple of {%s}", cvPoolText(pl.mediumFull), cvPoolText(pl.reducedFull))
	}
	return fmt.Sprintf("value-alphabet family for the constant-versus-variable sentence (differential oracle, no reference evaluator): pool of %d values, each ONE plain decimal text that is the exact shortest rendering of its float64 {%s}; patterns: `@1 op @2` for each of the 17 binary operators; `f(@1)` for each of the 16 functions {%s}, `-@1` `-(@1)` `!@1` `!(@1)`; mixed `f(@1) op @2`, `@1 op f(@2)`, `f(@1 op @2)` for every function or prefix operator f and every operator; three-place `(@1 op @2) op2 @3`, `@3 op2 (@1 op @2)`, `@1 op @2 op2 @3` for every ordered pair of operators. Basic forms of a pattern: every subset of its places written as constants (the text, a negative one in parentheses), the others as variables x y z bound to the texts, evaluated through stdmath; every form must give the bit-identical float64 (any NaN equals any NaN; -0 and 0 differ) of the all-variable form; in a sweep a form is compiled once and evaluated under every binding of its variables. %s. %s. non-trivial = at least one form was compared with the all-variable form",
		len(pl.pool), cvPoolText(pl.pool), strings.Join(cvFuncs, " "), allForms, tier)
}
