package main

// Lexical family of the C19 harness: numeric literals at lexical boundaries.
//
// S2 names "0x/0b literals" (docs/usage/math.md: Base 10 `123.456`, Binary
// `0b1101`, Hex `0x1BC`). A literal is a run of characters that the tokenizer
// has to end at the right place: a hex literal may end in any of a-f/A-F
// (including the exponent marker e/E and the binary-prefix letter b), a
// variable may be called e, a decimal may carry a dot. This family puts every
// literal of a pool directly next to every binary operator, on both sides,
// with and without blanks, at the top level, inside parentheses, inside a
// function group, inside an implied-multiplication group and in chains of two
// operators. The oracle is the one of the tree family (checkFormula): the
// value of the independent parse, where the value of each literal is computed
// by the reference's own digit parser (ref.go refDigits / classifyWord).

import (
	"fmt"
	"strconv"
	"strings"
)

type lexItem struct {
	text string
	cls  string // dec | hex | bin | optional | var | compound
}

func lexItems(cls string, texts ...string) []lexItem {
	out := make([]lexItem, len(texts))
	for i, t := range texts {
		out[i] = lexItem{t, cls}
	}
	return out
}

// lexPool: the literals under test.
var lexPool = concatLex(
	// every hex digit letter in both cases as the last character; e/E also after
	// another digit; b/B (binary prefix letter) and e inside
	lexItems("hex", "0xa", "0xb", "0xc", "0xd", "0xe", "0xf", "0xA", "0xB", "0xC", "0xD", "0xE", "0xF",
		"0x1e", "0x1E", "0xfe", "0xFE", "0xee", "0xe0", "0xb1", "0x0", "0x10", "0x1BC", "0x7fffffff"),
	lexItems("bin", "0b0", "0b1", "0b11", "0b1101"),
	lexItems("dec", "0", "2", "7", "10", "100", "0.5", "1.5", "0.0", "123.456"),
	// spellings that need not be accepted (see tok.optional); if accepted the value is the usual one
	lexItems("optional", "0XE", "0Xfe", "0B11", "5.", ".5", "1e3", "1E3", "2e0", "1.5e2"),
	lexItems("var", "x", "[0]", "[y]", "[x]", "e", "E", "b"),
	lexItems("compound", "-2", "-x", "(x)", "abs(x)", "-0xe", "!x", "(0x1e)"),
	// spellings of unsettled reading (the reference does not parse them: such a
	// formula is only demanded not to crash) that strconv-style parsers read as
	// numbers: words that also look like variable names, hexadecimal floats,
	// digit separators. Judged by substitution only (lexSubst): when the tree
	// reads the text as a number when a variable is bound to it and compiles it
	// as a formula token, the token must behave as that number.
	lexItems("special", "inf", "Inf", "INF", "infinity", "nan", "NaN", "0x1p4", "0x1P1", "1_000"),
)

// lexPartners: the operand on the other side of the operator (quick tier; the
// thorough tier pairs the whole pool with itself).
var lexPartners = concatLex(
	lexItems("dec", "2", "0.5"),
	lexItems("hex", "0xe", "0x1E"),
	lexItems("bin", "0b1"),
	lexItems("optional", ".5", "1e3"),
	lexItems("var", "x", "[0]", "e"),
	lexItems("compound", "-2", "(x)", "abs(x)"),
	lexItems("special", "inf", "NaN"),
)

var lexChainQuick = []string{"0xe", "0x1E", "0b1", "1.5", "x", "e", "2"}
var lexChainThorough = []string{"0xe", "0x1E", "0b1", "1.5", "x", "e", "2", "0xfe", "0xb", ".5", "1e3", "[0]"}

func concatLex(ls ...[]lexItem) []lexItem {
	var out []lexItem
	for _, l := range ls {
		out = append(out, l...)
	}
	return out
}

func lexTexts(ls []lexItem) string {
	var out []string
	for _, l := range ls {
		out = append(out, l.text)
	}
	return strings.Join(out, " ")
}

// the four ways of putting blanks around the operator
var lexStyles = [4][2]string{{" ", " "}, {"", ""}, {" ", ""}, {"", " "}}

// lexWrappers: where the pair stands. %s is the pair.
var lexWrappers = []string{"%s", "2*(%s)", "abs(%s)", "2(%s)", "(%s)-1", "((%s))"}

func lexLabel(a lexItem, op string, b lexItem) string {
	return "lexical/" + a.cls + "-" + groupName[opGroup[op]] + "-" + b.cls
}

// lexical enumerates the family. The sharding unit is one (left, right) pair.
func (c *checker) lexical(caseNo *int64, quick bool) {
	w := c.w
	type pair struct{ a, b lexItem }
	var pairs []pair
	if quick {
		for _, a := range lexPool {
			for _, b := range lexPartners {
				pairs = append(pairs, pair{a, b}, pair{b, a})
			}
		}
	} else {
		for _, a := range lexPool {
			for _, b := range lexPool {
				pairs = append(pairs, pair{a, b})
			}
		}
	}
	for _, p := range pairs {
		*caseNo++
		if !w.Owns(*caseNo) {
			continue
		}
		if w.Expired() {
			return
		}
		for _, op := range binOps {
			label := lexLabel(p.a, op, p.b)
			root := groupName[opGroup[op]]
			for wi, wrap := range lexWrappers {
				for si, st := range lexStyles {
					if wi > 0 && si > 1 {
						continue // wrapped pairs: spaced and compact only
					}
					inner := p.a.text + st[0] + op + st[1] + p.b.text
					text := fmt.Sprintf(wrap, inner)
					res := c.lexFormula(text, label, root)
					if wi == 0 && si <= 1 && res.expr != nil {
						for _, q := range []bool{false, true} {
							c.checkTemplate(text, &res, q, true)
							w.Add("template_cases", 1)
						}
						c.lexSubst(p.a, op, p.b, st, text, &res)
					}
				}
			}
		}
	}
	// chains of two operators: a literal between two operators
	chain := lexChainQuick
	if !quick {
		chain = lexChainThorough
	}
	for _, a := range chain {
		for _, b := range chain {
			for _, d := range chain {
				*caseNo++
				if !w.Owns(*caseNo) {
					continue
				}
				if w.Expired() {
					return
				}
				for _, op1 := range binOps {
					for _, op2 := range binOps {
						c.lexFormula(a+" "+op1+" "+b+" "+op2+" "+d, "lexical-chain", "chain")
						c.lexFormula(a+op1+b+op2+d, "lexical-chain", "chain")
					}
				}
			}
		}
	}
}

func (c *checker) lexFormula(text, label, root string) formulaResult {
	w := c.w
	w.SetCase(func() any { return Case{Kind: "formula", Formula: text, Deco: label, Root: root, Bind: -1} })
	res := c.checkFormula(text, label, root, -1)
	w.Eval(res.compared > 0)
	w.OutcomeHash(res.hash)
	w.Add("formulas", 1)
	w.Add("lexical_formulas", 1)
	return res
}

// lexSubst: "Replacing any numeric constant by a variable bound to the same
// value ... never changes the result": each literal of the pair, alone and
// both, replaced by a bound variable. The value of the literal is the one the
// reference's own digit parser gives.
func (c *checker) lexSubst(a lexItem, op string, b lexItem, st [2]string, orig string, res *formulaResult) {
	w := c.w
	lit := func(it lexItem) (float64, bool) {
		if it.cls == "special" {
			return boundValue(it.text)
		}
		toks := refTokenize(it.text)
		if len(toks) == 1 && toks[0].k == tNum {
			return toks[0].num, true
		}
		return 0, false
	}
	va, oka := lit(a)
	vb, okb := lit(b)
	// a formula with a spelling of unsettled reading may look a name up that the
	// harness did not bind (that is what is being judged): evaluated leniently
	special := a.cls == "special" || b.cls == "special"
	try := func(ra, rb bool) {
		extra := map[string]float64{}
		at, bt := a.text, b.text
		if ra {
			at, extra["c0"] = "[c0]", va
		}
		if rb {
			bt, extra["c1"] = "[c1]", vb
		}
		other := at + st[0] + op + st[1] + bt
		if special {
			w.SetCase(func() any {
				cs := substCase(orig, other, extra, -1)
				cs.Dir, cs.Lenient = dirUnsettled, true
				return cs
			})
			c.checkSubstEx(orig, res, other, extra, -1, dirUnsettled, false)
			w.Add("substitution_cases", 1)
			w.Add("substitution_cases_unsettled_spelling", 1)
			return
		}
		w.SetCase(func() any { return Case{Kind: "subst", Formula: orig, Other: other, Extra: extra, Bind: -1} })
		c.checkSubst(orig, res, other, extra, -1, "constant-to-variable")
		w.Add("substitution_cases", 1)
	}
	if oka {
		try(true, false)
	}
	if okb {
		try(false, true)
	}
	if oka && okb {
		try(true, true)
	}
}

const dirUnsettled = "constant-to-variable/unsettled-spelling"

var boundValueMemo = map[string]struct {
	v  float64
	ok bool
}{}

// boundValue: the number the tree under test reads the text as when a variable
// is bound to it (`{! [0]}` on that text); ok=false when it gives the error
// marker. The reference has no opinion on these spellings.
func boundValue(text string) (float64, bool) {
	if m, ok := boundValueMemo[text]; ok {
		return m.v, m.ok
	}
	var v float64
	ok := false
	if ct := compileTemplate("{! [0]}", true); ct.err == nil && ct.panicked == "" {
		if out, pk := evalTemplate(ct.kb, bindContext([]string{text, ""})); pk == "" && out != errorMarker {
			if f, err := strconv.ParseFloat(out, 64); err == nil {
				v, ok = f, true
			}
		}
	}
	boundValueMemo[text] = struct {
		v  float64
		ok bool
	}{v, ok}
	return v, ok
}

func lexRule(quick bool) string {
	chain := lexChainThorough
	pairs := "every ordered pair of the pool"
	if quick {
		chain = lexChainQuick
		pairs = "every literal of the pool on either side of every partner in {" + lexTexts(lexPartners) + "}"
	}
	return fmt.Sprintf("lexical family: operands {%s} (variables e E b bound to 7 -4 13): %s around each of the 17 binary operators with the four placements of blanks (a op b, aopb, a opb, aop b), and spaced/compact inside each of {%s}; at the top level (spaced/compact) also through `{! f}` and `{! \"f\"}` templates and with each literal alone and both replaced by a variable bound to the value the reference's own digit parser gives (the operands inf Inf INF infinity nan NaN 0x1p4 0x1P1 1_000, whose reading the statement does not settle and the reference does not parse: bound to the value the tree itself reads that text as when a variable is bound to it; compared only when that is a number and the formula with the token compiles; signature C19/subst/constant-to-variable/unsettled-spelling/value-differs); chains a op1 b op2 c, spaced and compact, over all 17x17 operator pairs and all operands in {%s}",
		lexTexts(lexPool), pairs, strings.Join(lexWrappers, " "), strings.Join(chain, " "))
}
