package main

// Implied-multiplication family of the C19 harness.
//
// S2 lists "implied multiplication" among the features of a formula
// (docs/usage/math.md: `{! 2(1+1) } => 4`): an operand directly followed by a
// parenthesised group is the product of the two. S1 gives ONE level for
// multiplication ("^ before * / % before + -", "equal levels left to right").
// So a formula written with implied multiplication is the same formula as the
// one with an explicit `*` written at that place - whatever the levels of the
// operators around it are. That is the oracle of this family, and it needs no
// precedence table (so it also holds next to << >> & |, whose level the
// statement does not give):
//
//	value(F with `a(b)`) == value(F with `a*(b)`)   for every binding, NaN-aware
//
// The tree family (main.go) prints a tree with minimal parentheses, so its
// implied multiplication always has a parenthesised or atomic left factor with
// nothing tighter next to it. This family is text-first: one parenthesis level
//
//	T0 o1 T1 o2 T2 ... ok Tk      oi in the 17 binary operators or JUXTAPOSITION
//
// with at least one juxtaposition; the term after a juxtaposition is a group,
// the term before one is a "left factor" (literal, variable, [n], [name],
// group, nested group, group that itself contains an implied multiplication,
// function call, prefixed operand), every other term comes from a small pool.
// Each level is also put inside wrappers (group, function argument, operand of
// another operator, factor of a further implied multiplication).
//
// In a template the juxtaposition is written `@`; rendering removes it (implied
// form) or replaces it by `*` (explicit form).
//
// The implied form additionally goes through checkFormula (independent parse,
// where the statement gives the levels).

import (
	"fmt"
	"strings"
)

type impPools struct {
	factor, group, plain []string
}

var impFactorFull = []string{
	"2", "0.5", "0x10", "0b11", // literals
	"x", "[0]", "[y]", // variables
	"(3)", "(x)", "(x + 2)", "((y))", "(2@(x))", "(x / 2)", "(-y)", // groups, nested, with an implied multiplication inside
	"sqrt(4)", "abs(x)", "abs(x - 3)", "floor(2.5)", "sqrt([0])", "abs(-y)", "round(x)", "ceil(0.5)", // function calls
	"-x", "-2", "!x", "-(y)", "!(x)", "-abs(x)", "![0]", "-0.5", // prefixed operands
}
var impFactorMedium = []string{"2", "0.5", "x", "[0]", "(3)", "(x + 2)", "(2@(x))", "sqrt(4)", "abs(x)", "-x", "!x", "-(y)"}
var impFactorSmall = []string{"2", "x", "(x + 2)", "abs(x)", "-x", "!x"}

var impGroupFull = []string{"(3)", "(y)", "([0] + 1)", "(2 - x)", "((y))", "(-y)", "(x@(2))", "(0.5)", "(abs(y))", "(y * 2)", "(x / 4)", "(!y)"}
var impGroupMedium = []string{"(3)", "(y)", "([0] + 1)", "((y))", "(-y)", "(x / 4)"}
var impGroupSmall = []string{"(y)", "(2 - x)"}

var impPlainFull = []string{"3", "x", "[0]", "(y - 1)", "-y"}
var impPlainMedium = []string{"3", "x", "-y"}
var impPlainSmall = []string{"3", "x"}

// impWrappers: where the level stands. %s is the level; `@` a further implied multiplication.
var impWrappers = []string{"%s", "(%s)", "abs(%s)", "1 + (%s)", "(%s) ^ 2", "2@(%s)", "(%s)@(3)", "-(%s)", "[0] / ((%s))"}

var impStyles = []string{"spaced", "compact", "gap"}

// impPlan: one line per number of operators k.
type impPlan struct {
	k        int
	pools    impPools
	styles   int // the first n of impStyles
	wrappers int // the first n of impWrappers
	template bool
}

func impPlans(quick bool) []impPlan {
	full := impPools{impFactorFull, impGroupFull, impPlainFull}
	medium := impPools{impFactorMedium, impGroupMedium, impPlainMedium}
	if quick {
		return []impPlan{
			{k: 1, pools: full, styles: 3, wrappers: len(impWrappers), template: true},
			{k: 2, pools: full, styles: 2, wrappers: 1},
			{k: 2, pools: medium, styles: 2, wrappers: -len(impWrappers)}, // negative: the wrappers except the first
			{k: 3, pools: impPools{impFactorMedium, impGroupMedium, impPlainSmall}, styles: 1, wrappers: 1},
		}
	}
	return []impPlan{
		{k: 1, pools: full, styles: 3, wrappers: len(impWrappers), template: true},
		{k: 2, pools: full, styles: 3, wrappers: len(impWrappers)},
		{k: 3, pools: impPools{impFactorFull, append(append([]string{}, impGroupMedium...), "(x@(2))", "(2 - x)"), impPlainMedium}, styles: 1, wrappers: 1},
		{k: 4, pools: impPools{impFactorSmall, impGroupSmall, impPlainSmall}, styles: 1, wrappers: 1},
	}
}

const juxt = "@"

// implied enumerates the family. The sharding unit is one template.
func (c *checker) implied(caseNo *int64, quick bool) {
	w := c.w
	syms := append(append([]string{}, binOps...), juxt)
	for _, pl := range impPlans(quick) {
		opIdx := make([]int, pl.k)
		for {
			nj := 0
			for _, o := range opIdx {
				if syms[o] == juxt {
					nj++
				}
			}
			if nj > 0 {
				// the pool of each term slot
				slots := make([][]string, pl.k+1)
				for i := range slots {
					after := i > 0 && syms[opIdx[i-1]] == juxt
					before := i < pl.k && syms[opIdx[i]] == juxt
					switch {
					case after:
						slots[i] = pl.pools.group
					case before:
						slots[i] = pl.pools.factor
					default:
						slots[i] = pl.pools.plain
					}
				}
				tIdx := make([]int, pl.k+1)
				for {
					*caseNo++
					if w.Owns(*caseNo) {
						if w.Expired() {
							return
						}
						var sb strings.Builder
						for i := range slots {
							if i > 0 {
								if o := syms[opIdx[i-1]]; o == juxt {
									sb.WriteString(juxt)
								} else {
									sb.WriteString(" " + o + " ")
								}
							}
							sb.WriteString(slots[i][tIdx[i]])
						}
						level := sb.String()
						for wi, wrap := range impWrappers {
							if pl.wrappers > 0 && wi >= pl.wrappers || pl.wrappers < 0 && (wi == 0 || wi >= -pl.wrappers) {
								continue
							}
							tpl := fmt.Sprintf(wrap, level)
							for _, st := range impStyles[:pl.styles] {
								c.impliedCase(tpl, st, pl.template && wi == 0 && st != "gap")
							}
						}
					}
					if !incMixed(tIdx, slots) {
						break
					}
				}
			}
			if !inc(opIdx, len(syms)) {
				break
			}
		}
		w.Max("max_operators_in_implied_level", int64(pl.k))
	}
}

func incMixed(idx []int, slots [][]string) bool {
	for i := len(idx) - 1; i >= 0; i-- {
		idx[i]++
		if idx[i] < len(slots[i]) {
			return true
		}
		idx[i] = 0
	}
	return false
}

// impRender writes a template in a style. explicit: the implied positions to
// write as `*` (nil: none; a position is the running number of the `@`).
func impRender(tpl, style string, explicit func(p int) bool) string {
	if style == "compact" {
		tpl = strings.ReplaceAll(tpl, " ", "")
	}
	var sb strings.Builder
	p := 0
	for i := 0; i < len(tpl); i++ {
		if tpl[i] != '@' {
			sb.WriteByte(tpl[i])
			continue
		}
		switch {
		case explicit != nil && explicit(p):
			if style == "compact" {
				sb.WriteString("*")
			} else {
				sb.WriteString(" * ")
			}
		case style == "gap":
			sb.WriteString(" ")
		}
		p++
	}
	return sb.String()
}

// impCtx names the class of one implied position: what the left factor is and
// which operator stands next to the product at the same parenthesis level.
type impCtx struct {
	factor string // operand | function-call | prefix-operator
	ctx    string
}

func (x impCtx) sig() string { return x.factor + "-factor/" + x.ctx }

func impContexts(tpl string) []impCtx {
	toks := refTokenize(tpl) // `@` is a tWeird token
	match := make([]int, len(toks))
	var stack []int
	for i, t := range toks {
		switch t.k {
		case tLP:
			stack = append(stack, i)
		case tRP:
			o := stack[len(stack)-1]
			stack = stack[:len(stack)-1]
			match[i], match[o] = o, i
		}
	}
	isJ := func(i int) bool { return i >= 0 && i < len(toks) && toks[i].k == tWeird && toks[i].s == juxt }
	var out []impCtx
	for i := range toks {
		if !isJ(i) {
			continue
		}
		if i == 0 || i+1 >= len(toks) || toks[i+1].k != tLP {
			panic("harness: implied position without a group after it in " + tpl)
		}
		right := ""
		if j := match[i+1] + 1; j < len(toks) {
			if toks[j].k == tOp {
				right = groupName[opGroup[toks[j].s]]
			} else if isJ(j) {
				right = "implied"
			}
		}
		start, factor := i-1, "operand"
		switch toks[i-1].k {
		case tNum, tVar:
		case tRP:
			start = match[i-1]
			if start > 0 && toks[start-1].k == tFunc {
				start--
				factor = "function-call"
			}
		default:
			panic("harness: implied position without a left factor in " + tpl)
		}
		if start > 0 && toks[start-1].k == tOp && (toks[start-1].s == "-" || toks[start-1].s == "!") &&
			(start == 1 || toks[start-2].k == tOp || toks[start-2].k == tLP) {
			start--
			factor = "prefix-operator"
		}
		left := ""
		if start > 0 {
			if toks[start-1].k == tOp {
				left = groupName[opGroup[toks[start-1].s]]
			} else if isJ(start - 1) {
				left = "implied"
			}
		}
		x := impCtx{factor: factor}
		switch {
		case factor != "operand" && left == "" && right == "":
			x.ctx = "alone"
		case factor != "operand":
			x.ctx = "beside-operator"
		case left != "" && right != "":
			x.ctx = "between-operators" // the one-sided contexts name the neighbour
		case left != "":
			x.ctx = "after-" + left
		case right != "":
			x.ctx = "before-" + right
		default:
			x.ctx = "alone"
		}
		out = append(out, x)
	}
	return out
}

// impliedCase: one template in one style.
func (c *checker) impliedCase(tpl, style string, templates bool) {
	w := c.w
	w.SetCase(func() any { return Case{Kind: "implied", Formula: tpl, Dir: style, Bind: -1} })
	compared := c.checkImplied(tpl, style, -1, templates)
	w.Eval(compared > 0)
	w.Add("formulas", 1)
	w.Add("implied_formulas", 1)
}

// checkImplied runs the differential oracle (and checkFormula on the implied
// form). Returns the number of (explicit form, binding) comparisons made.
func (c *checker) checkImplied(tpl, style string, bind int, templates bool) (compared int) {
	w := c.w
	text := impRender(tpl, style, nil)
	ctxs := impContexts(tpl)
	if cls, why := classify(refTokenize(text)); cls != clsWell {
		panic(fmt.Sprintf("harness self-check: generated formula %q is not well formed for the reference: %s", text, why))
	}
	res := c.checkFormula(text, "implied-family", "implied", bind)
	w.OutcomeHash(res.hash)
	if res.expr == nil {
		return 0 // reported by checkFormula (well-formed formula rejected, or a crash)
	}
	if templates {
		for _, q := range []bool{false, true} {
			c.checkTemplate(text, &res, q, true)
			w.Add("template_cases", 1)
		}
	}
	cs := Case{Kind: "implied", Formula: tpl, Dir: style, Bind: -1}
	n := len(ctxs)
	reported := false
	for p := 0; p <= n; p++ {
		// p < n: position p alone written with `*`; p == n: all of them
		if p == n && (n == 1 || reported) {
			break
		}
		p := p
		other := impRender(tpl, style, func(q int) bool { return p == n || q == p })
		sigTail := "several-positions"
		if p < n {
			sigTail = ctxs[p].sig()
		}
		w.Add("implied_explicit_forms", 1)
		cp := compileDirect(other)
		if cp.panicked != "" {
			c.violation(panicSig("compile", other, cp.panicked), fmt.Sprintf("stdmath.Compile(%q) panicked: %s", other, cp.panicked), Case{Kind: "formula", Formula: other, Bind: -1})
			continue
		}
		if cp.err != nil {
			// S1/S2: the formula with the multiplication written out is well formed
			c.violation("C19/implied/explicit-form-rejected/"+sigTail, fmt.Sprintf("%q compiles but %q (the same formula with the implied multiplication written as *) gives error %v", text, other, cp.err), cs)
			reported = true
			continue
		}
		for b := 0; b < nBindings; b++ {
			if bind >= 0 && b != bind || !res.evalOK[b] {
				continue
			}
			en := bindingVector(b)
			v, pk := evalDirect(cp.expr, en, true)
			if pk != "" {
				c.violation(panicSig("eval", other, pk), fmt.Sprintf("Eval of %q with %s panicked: %s", other, en, pk), Case{Kind: "formula", Formula: other, Bind: b})
				continue
			}
			compared++
			if !sameNumber(v, res.actual[b]) {
				// S2 "implied multiplication" + S1 "* / %" one level, "equal levels left to right"
				cs.Bind = b
				c.violation("C19/implied/value-differs-from-explicit-multiplication/"+sigTail,
					fmt.Sprintf("%q evaluates to %v but %q (the same formula with the implied multiplication written as *) evaluates to %v with %s", text, res.actual[b], other, v, en), cs)
				reported = true
				break
			}
		}
	}
	if compared > 0 && n >= 2 && w.WantSample() {
		w.Sample(map[string]any{"implied_form": text, "explicit_form": impRender(tpl, style, func(int) bool { return true }), "value_at_binding_1": res.actual[1]})
	}
	return compared
}

func impPoolText(p []string) string {
	return strings.ReplaceAll(strings.Join(p, "  "), juxt, "")
}

func impRule(quick bool) string {
	var sb strings.Builder
	sb.WriteString("implied-multiplication family (differential oracle, no precedence table): every parenthesis level T0 o1 T1 .. ok Tk with each oi one of the 17 binary operators or a juxtaposition (operand directly followed by a group), at least one juxtaposition; the term after a juxtaposition from the group pool, the term before one from the left-factor pool (literals, x [0] [y], groups, nested groups, a group holding an implied multiplication, function calls, prefixed operands), other terms from the plain pool; the formula must evaluate, under each of the 6 binding vectors, to the same number as the formula with that juxtaposition (each one alone, then all) written as an explicit *, and the explicit form must compile; the implied form also goes through the independent parse. Styles: spaced (a / b(c)), compact (a/b(c)), gap (a / b (c)). Wrappers: " + strings.ReplaceAll(strings.Join(impWrappers, "  "), juxt, "") + ". ")
	for _, pl := range impPlans(quick) {
		wr := fmt.Sprintf("the first %d wrappers", pl.wrappers)
		if pl.wrappers < 0 {
			wr = fmt.Sprintf("wrappers 2..%d", -pl.wrappers)
		} else if pl.wrappers == 1 {
			wr = "top level only"
		} else if pl.wrappers == len(impWrappers) {
			wr = "all wrappers"
		}
		fmt.Fprintf(&sb, "k=%d: left factors {%s}, groups {%s}, plain {%s}, styles %s, %s", pl.k, impPoolText(pl.pools.factor), impPoolText(pl.pools.group), impPoolText(pl.pools.plain), strings.Join(impStyles[:pl.styles], "/"), wr)
		if pl.template {
			sb.WriteString(", also through `{! f}` and `{! \"f\"}` templates")
		}
		sb.WriteString("; ")
	}
	sb.WriteString("non-trivial = both forms compiled and were compared on at least one binding")
	return sb.String()
}
