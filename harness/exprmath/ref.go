package main

// Reference model for C19. Nothing in this file imports rare.
//
// It contains (1) a tokenizer for formula text, (2) a classifier deciding
// whether a token string is WELL formed, MALFORMED, or of a form the property
// statement does not settle (UNSPEC), (3) a recursive-descent / precedence
// folding parser that builds the parse the statement dictates, and (4) an
// evaluator over that parse with a three-valued result (number, or
// "undefined by the statement").
//
// Statement (properties.jsonl C19), the sentences encoded here:
//  S1 "evaluates, for all variable bindings, to the value of its parse under
//      common order of operations (^ before * / % before + - before
//      comparisons before && ||, equal levels left to right, parentheses
//      first)"
//  S2 "over + - * / ^, shift, bit, comparison and boolean operators, unary
//      operators and functions, parentheses, implied multiplication and 0x/0b
//      literals"
//  S3 "Malformed formulas are rejected at compile time and no formula or
//      binding crashes evaluation."
//
// What the statement does NOT give, and how the reference stays silent:
//  * the level of << >> & | relative to other operators: a parenthesis level
//    that mixes one of them with an operator of another group has no
//    reference value (Ambig); << and >> together, & alone, | alone are folded
//    left to right (S1 "equal levels left to right").
//  * whether a prefix - or ! binds tighter than ^ (-x^2): both parses accepted.
//  * (withdrawn in round 6: "whether implied multiplication binds like * or
//    tighter (6/2(3))". S2 lists implied multiplication as a feature of the
//    formula and S1 gives multiplication one level, so a/b(c) is a/b*(c); the
//    implied family (implied.go) demands exactly that equality, and the
//    reference no longer offers the tighter parse. parseFlags.juxtTight is
//    kept for the record but is in no enumerated flag set.)
//  * the value of the integer operators % << >> & | on non-integers, values
//    outside int64, a zero or negative modulus, negative dividends, shift
//    counts outside 0..63 or overflowing shifts; the truth value of NaN:
//    the result is Undef and only "no crash" (S3) is demanded.
//  * stacked prefix operators (--2, !-x), unary plus, two operands without an
//    operator (2 3, (2)3), a function name without a group: UNSPEC, only "no
//    crash" is demanded.

import (
	"math"
	"strconv"
	"strings"
)

type tokKind int

const (
	tNum tokKind = iota
	tVar
	tFunc
	tOp // binary or prefix operator symbol
	tLP
	tRP
	tWeird
)

type tok struct {
	k   tokKind
	s   string
	num float64
	// optional: a numeric literal in a spelling that neither the statement nor
	// docs/usage/math.md ("Base 10 123.456, Binary 0b1101, Hex 0x1BC") gives:
	// upper-case 0X/0B prefix, a leading or trailing dot (.5, 5.), an unsigned
	// exponent (1e3). A formula with such a literal may be rejected; if it
	// compiles, the literal has its usual value.
	optional bool
}

var refFuncs = map[string]func(float64) float64{
	"abs": math.Abs, "sqrt": math.Sqrt, "floor": math.Floor, "ceil": math.Ceil, "round": math.Round,
}

var twoCharOps = []string{"<<", ">>", "<=", ">=", "==", "&&", "||"}

const oneCharOps = "+-*/^%&|<>!"

func isWordByte(c byte) bool {
	return c >= '0' && c <= '9' || c >= 'a' && c <= 'z' || c >= 'A' && c <= 'Z' || c == '.' || c == '_'
}

// refTokenize splits formula text. Spaces separate tokens (the enumerations
// always put a space or an operator between two operands).
func refTokenize(s string) []tok {
	var out []tok
	for i := 0; i < len(s); {
		c := s[i]
		switch {
		case c == ' ':
			i++
		case c == '(':
			out = append(out, tok{k: tLP, s: "("})
			i++
		case c == ')':
			out = append(out, tok{k: tRP, s: ")"})
			i++
		case c == '[':
			j := strings.IndexByte(s[i:], ']')
			if j < 0 {
				out = append(out, tok{k: tWeird, s: s[i:]})
				i = len(s)
			} else {
				out = append(out, tok{k: tVar, s: s[i : i+j+1]})
				i += j + 1
			}
		case isWordByte(c):
			j := i
			for j < len(s) && isWordByte(s[j]) {
				j++
			}
			out = append(out, classifyWord(s[i:j]))
			i = j
		default:
			matched := false
			if i+2 <= len(s) {
				for _, op := range twoCharOps {
					if s[i:i+2] == op {
						out = append(out, tok{k: tOp, s: op})
						i += 2
						matched = true
						break
					}
				}
			}
			if matched {
				break
			}
			if strings.IndexByte(oneCharOps, c) >= 0 {
				out = append(out, tok{k: tOp, s: string(c)})
			} else {
				out = append(out, tok{k: tWeird, s: string(c)})
			}
			i++
		}
	}
	return out
}

func classifyWord(w string) tok {
	c := w[0]
	if c >= '0' && c <= '9' || c == '.' {
		// S2: decimal, 0x and 0b literals. Anything else starting with a digit
		// (017, 1_0, 2x) is outside the statement.
		if len(w) > 2 && w[0] == '0' && (w[1] == 'x' || w[1] == 'X') {
			if v, ok := refDigits(w[2:], 16); ok {
				return tok{k: tNum, s: w, num: v, optional: w[1] == 'X'}
			}
			return tok{k: tWeird, s: w}
		}
		if len(w) > 2 && w[0] == '0' && (w[1] == 'b' || w[1] == 'B') {
			if v, ok := refDigits(w[2:], 2); ok {
				return tok{k: tNum, s: w, num: v, optional: w[1] == 'B'}
			}
			return tok{k: tWeird, s: w}
		}
		// digits [. digits] with an optional unsigned exponent e/E digits
		mant, exp := w, ""
		if i := strings.IndexAny(w, "eE"); i >= 0 {
			mant, exp = w[:i], w[i+1:]
			if exp == "" || !allDigits(exp) {
				return tok{k: tWeird, s: w}
			}
		}
		plain := true
		dots := 0
		for i := 0; i < len(mant); i++ {
			if mant[i] == '.' {
				dots++
			} else if mant[i] < '0' || mant[i] > '9' {
				plain = false
			}
		}
		if !plain || dots > 1 || mant == "." || mant == "" || (len(mant) > 1 && mant[0] == '0' && mant[1] != '.') {
			return tok{k: tWeird, s: w}
		}
		v, err := strconv.ParseFloat(w, 64)
		if err != nil {
			return tok{k: tWeird, s: w}
		}
		opt := exp != "" || mant[0] == '.' || mant[len(mant)-1] == '.'
		return tok{k: tNum, s: w, num: v, optional: opt}
	}
	if _, ok := refFuncs[w]; ok {
		return tok{k: tFunc, s: w}
	}
	switch strings.ToLower(w) {
	case "inf", "infinity", "nan": // read as numbers by many float parsers: not a variable name we want to rely on
		return tok{k: tWeird, s: w}
	}
	for i := 0; i < len(w); i++ {
		if w[i] == '.' || w[i] == '_' {
			return tok{k: tWeird, s: w}
		}
	}
	return tok{k: tVar, s: w}
}

// refDigits is the value of a digit string in base 2 or 16 (S2 "0x/0b
// literals"), for values below 2^62 (exact in int64 and, up to 2^53, in float64).
func refDigits(d string, base uint64) (float64, bool) {
	if d == "" {
		return 0, false
	}
	var v uint64
	for i := 0; i < len(d); i++ {
		c := d[i]
		var x uint64
		switch {
		case c >= '0' && c <= '9':
			x = uint64(c - '0')
		case c >= 'a' && c <= 'f':
			x = uint64(c-'a') + 10
		case c >= 'A' && c <= 'F':
			x = uint64(c-'A') + 10
		default:
			return 0, false
		}
		if x >= base {
			return 0, false
		}
		v = v*base + x
		if v >= 1<<62 {
			return 0, false
		}
	}
	return float64(v), true
}

func allDigits(s string) bool {
	for i := 0; i < len(s); i++ {
		if s[i] < '0' || s[i] > '9' {
			return false
		}
	}
	return s != ""
}

func hasOptional(toks []tok) bool {
	for _, t := range toks {
		if t.optional {
			return true
		}
	}
	return false
}

// ---------------------------------------------------------------- parse tree

type nodeKind int

const (
	nNum nodeKind = iota
	nVar
	nBin
	nUn    // prefix - or !
	nFunc  // name(group)
	nGroup // parentheses (kept so that printing round-trips)
)

type node struct {
	k       nodeKind
	num     float64
	name    string // variable text, operator, function
	l, r    *node  // r is the operand of nUn/nFunc/nGroup
	implied bool   // nBin "*" written by juxtaposition
}

// operator groups. Known levels come from S1; the three unknown groups have no
// level relative to anything else.
const (
	gBool = 1 + iota
	gCmp
	gAdd
	gMul
	gPow
	gShift
	gBand
	gBor
)

var opGroup = map[string]int{
	"^": gPow, "*": gMul, "/": gMul, "%": gMul, "+": gAdd, "-": gAdd,
	"==": gCmp, "<=": gCmp, ">=": gCmp, "<": gCmp, ">": gCmp,
	"&&": gBool, "||": gBool,
	"<<": gShift, ">>": gShift, "&": gBand, "|": gBor,
}

func knownLevel(g int) bool { return g >= gBool && g <= gPow }

var groupName = map[int]string{gBool: "bool", gCmp: "cmp", gAdd: "add", gMul: "mul", gPow: "pow", gShift: "shift", gBand: "band", gBor: "bor"}

type class int

const (
	clsWell class = iota
	clsUnspec
	clsMalformed
)

func (c class) String() string { return [...]string{"well-formed", "unspecified", "malformed"}[c] }

// parseFlags select one of the parses the statement leaves open.
type parseFlags struct {
	unaryLoose bool // -x^y is -(x^y)
	juxtTight  bool // a/b(c) is a/(b*c)
}

type parser struct {
	toks    []tok
	pos     int
	lenient bool
	flags   parseFlags
	ambig   bool // the value of the parse is not determined by the statement
	reason  string
}

type parseError struct{ why string }

func (p *parser) fail(why string) { panic(parseError{why}) }

func (p *parser) peek() *tok {
	if p.pos < len(p.toks) {
		return &p.toks[p.pos]
	}
	return nil
}

type term struct {
	n     *node
	unary string // prefix operator still to be applied ("" none)
}

// parseLevel parses one parenthesis level: term (op term | group)* and folds
// it by precedence.
func (p *parser) parseLevel() *node {
	var terms []term
	var ops []string
	var impl []bool
	terms = append(terms, p.parseTerm())
	for {
		t := p.peek()
		if t == nil || t.k == tRP {
			break
		}
		if t.k == tLP { // S2 implied multiplication: operand directly followed by a group
			ops = append(ops, "*")
			impl = append(impl, true)
			terms = append(terms, term{n: p.parseGroup()})
			continue
		}
		if t.k == tOp && t.s != "!" {
			p.pos++
			ops = append(ops, t.s)
			impl = append(impl, false)
			terms = append(terms, p.parseTerm())
			continue
		}
		if p.lenient && (t.k == tNum || t.k == tVar || t.k == tFunc || t.k == tWeird || (t.k == tOp && t.s == "!")) {
			// two operands without an operator: not settled by the statement
			ops = append(ops, "*")
			impl = append(impl, true)
			terms = append(terms, p.parseTerm())
			continue
		}
		p.fail("operator expected at token " + strconv.Itoa(p.pos) + " `" + t.s + "`")
	}
	return p.fold(terms, ops, impl)
}

func (p *parser) parseGroup() *node {
	t := p.peek()
	if t == nil || t.k != tLP {
		p.fail("( expected")
	}
	p.pos++
	if n := p.peek(); n == nil {
		p.fail("unclosed parenthesis")
	} else if n.k == tRP {
		p.fail("empty parentheses")
	}
	inner := p.parseLevel()
	if n := p.peek(); n == nil || n.k != tRP {
		p.fail("unclosed parenthesis")
	}
	p.pos++
	return &node{k: nGroup, r: inner}
}

func (p *parser) parseTerm() term {
	t := p.peek()
	if t == nil {
		p.fail("operand expected at end")
	}
	un := ""
	if t.k == tOp && (t.s == "-" || t.s == "!") {
		un = t.s
		p.pos++
		t = p.peek()
		if t == nil {
			p.fail("operand expected after prefix operator")
		}
	}
	if p.lenient {
		// unary plus and stacked prefix operators: not settled by the statement
		if un == "" && t.k == tOp && t.s == "+" {
			p.pos++
			inner := p.parseTerm()
			return term{n: applyUnary(inner)}
		}
		if un != "" && t.k == tOp && (t.s == "-" || t.s == "!" || t.s == "+") {
			inner := p.parseTerm()
			return term{n: applyUnary(inner), unary: un}
		}
	}
	switch t.k {
	case tNum:
		p.pos++
		return term{n: &node{k: nNum, num: t.num, name: t.s}, unary: un}
	case tVar:
		p.pos++
		return term{n: &node{k: nVar, name: t.s}, unary: un}
	case tWeird:
		if p.lenient {
			p.pos++
			return term{n: &node{k: nVar, name: t.s}, unary: un}
		}
		p.fail("unrecognised token `" + t.s + "`")
	case tFunc:
		p.pos++
		if n := p.peek(); n != nil && n.k == tLP {
			g := p.parseGroup()
			return term{n: &node{k: nFunc, name: t.s, r: g.r}, unary: un}
		}
		if p.lenient { // function name used like a variable
			return term{n: &node{k: nVar, name: t.s}, unary: un}
		}
		p.fail("function name without group")
	case tLP:
		return term{n: p.parseGroup(), unary: un}
	}
	p.fail("operand expected at token " + strconv.Itoa(p.pos) + " `" + t.s + "`")
	return term{}
}

func applyUnary(t term) *node {
	if t.unary == "" {
		return t.n
	}
	return &node{k: nUn, name: t.unary, r: t.n}
}

func (p *parser) setAmbig(why string) {
	if !p.ambig {
		p.ambig = true
		p.reason = why
	}
}

// fold builds the tree of one parenthesis level.
func (p *parser) fold(terms []term, ops []string, impl []bool) *node {
	// unknown-level groups (statement silent): only homogeneous levels have a value
	groups := map[int]bool{}
	for _, o := range ops {
		groups[opGroup[o]] = true
	}
	mixedUnknown := false
	for g := range groups {
		if !knownLevel(g) && len(groups) > 1 {
			mixedUnknown = true
		}
	}
	if mixedUnknown {
		p.setAmbig("shift/bit operator next to an operator of another group without parentheses")
	}

	// prefix operators: tight (applied to the operand) unless the alternative
	// parse is requested and the operand is the base of a ^ chain.
	nodes := make([]*node, len(terms))
	pendingLoose := make([]string, len(terms))
	for i, t := range terms {
		if t.unary != "" && p.flags.unaryLoose && i < len(ops) && ops[i] == "^" && !(i > 0 && ops[i-1] == "^") {
			nodes[i] = t.n
			pendingLoose[i] = t.unary
			continue
		}
		if t.unary != "" && p.flags.unaryLoose && i > 0 && ops[i-1] == "^" && i < len(ops) && ops[i] == "^" {
			// 2^-x^3: no agreed reading when prefix operators bind loosely
			p.setAmbig("prefix operator inside a ^ chain")
		}
		if t.unary == "!" && p.flags.juxtTight && i < len(ops) && impl[i] {
			p.setAmbig("! before an implied multiplication")
		}
		nodes[i] = applyUnary(t)
	}

	reduce := func(match func(i int) bool, looseUnary bool) {
		for i := 0; i < len(ops); {
			if !match(i) {
				i++
				continue
			}
			// a maximal left-to-right run starting at i (S1: equal levels left to right)
			start := i
			acc := nodes[i]
			for i < len(ops) && match(i) {
				acc = &node{k: nBin, name: ops[i], l: acc, r: nodes[i+1], implied: impl[i]}
				i++
			}
			if looseUnary && pendingLoose[start] != "" {
				acc = &node{k: nUn, name: pendingLoose[start], r: acc}
				pendingLoose[start] = ""
			}
			// splice
			nn := append(append([]*node{}, nodes[:start]...), acc)
			nn = append(nn, nodes[i+1:]...)
			pl := append(append([]string{}, pendingLoose[:start]...), "")
			pl = append(pl, pendingLoose[i+1:]...)
			no := append(append([]string{}, ops[:start]...), ops[i:]...)
			ni := append(append([]bool{}, impl[:start]...), impl[i:]...)
			nodes, pendingLoose, ops, impl = nn, pl, no, ni
			i = start
		}
	}
	if p.flags.juxtTight {
		reduce(func(i int) bool { return impl[i] }, false)
	}
	if mixedUnknown {
		// any shape; the value is not used
		reduce(func(i int) bool { return true }, true)
		return nodes[0]
	}
	for _, g := range []int{gPow, gMul, gAdd, gCmp, gBool, gShift, gBand, gBor} {
		g := g
		reduce(func(i int) bool { return opGroup[ops[i]] == g }, g == gPow)
	}
	if len(nodes) != 1 {
		panic("reference parser: fold did not reduce to one node")
	}
	return nodes[0]
}

// refParse parses the whole token string in the given mode.
func refParse(toks []tok, lenient bool, flags parseFlags) (n *node, ambig bool, why string, ok bool) {
	p := &parser{toks: toks, lenient: lenient, flags: flags}
	defer func() {
		if r := recover(); r != nil {
			if pe, isPE := r.(parseError); isPE {
				n, ok, why = nil, false, pe.why
				return
			}
			panic(r)
		}
	}()
	if len(toks) == 0 {
		p.fail("empty formula")
	}
	n = p.parseLevel()
	if p.pos != len(toks) {
		p.fail("over-closed parenthesis")
	}
	return n, p.ambig, p.reason, true
}

// classify decides S3's "malformed": WELL if the strict grammar accepts,
// UNSPEC if only the lenient grammar accepts, MALFORMED otherwise.
func classify(toks []tok) (class, string) {
	if _, _, _, ok := refParse(toks, false, parseFlags{}); ok {
		return clsWell, ""
	}
	_, _, why, ok := refParse(toks, true, parseFlags{})
	if ok {
		return clsUnspec, ""
	}
	return clsMalformed, why
}

// ---------------------------------------------------------------- evaluation

type val struct {
	f     float64
	undef bool // the statement does not determine a value (only S3 applies)
}

var undefVal = val{undef: true}

type binding func(name string) (float64, bool)

func isInt64(f float64) bool {
	return f == math.Trunc(f) && math.Abs(f) < 9.2e18
}

func b2f(b bool) float64 {
	if b {
		return 1
	}
	return 0
}

func refEval(n *node, b binding) val {
	switch n.k {
	case nNum:
		return val{f: n.num}
	case nVar:
		v, ok := b(n.name)
		if !ok {
			return undefVal
		}
		return val{f: v}
	case nGroup:
		return refEval(n.r, b)
	case nUn:
		x := refEval(n.r, b)
		if x.undef {
			return x
		}
		if n.name == "-" {
			return val{f: -x.f}
		}
		if math.IsNaN(x.f) {
			return undefVal
		}
		return val{f: b2f(x.f == 0)}
	case nFunc:
		x := refEval(n.r, b)
		if x.undef {
			return x
		}
		return val{f: refFuncs[n.name](x.f)}
	case nBin:
		l, r := refEval(n.l, b), refEval(n.r, b)
		if l.undef || r.undef {
			return undefVal
		}
		return refBin(n.name, l.f, r.f)
	}
	panic("reference evaluator: unknown node")
}

func refBin(op string, a, b float64) val {
	switch op {
	case "+":
		return val{f: a + b}
	case "-":
		return val{f: a - b}
	case "*":
		return val{f: a * b}
	case "/":
		return val{f: a / b}
	case "^":
		return val{f: math.Pow(a, b)}
	case "<":
		return val{f: b2f(a < b)}
	case "<=":
		return val{f: b2f(a <= b)}
	case ">":
		return val{f: b2f(a > b)}
	case ">=":
		return val{f: b2f(a >= b)}
	case "==":
		return val{f: b2f(a == b)}
	case "&&", "||":
		if math.IsNaN(a) || math.IsNaN(b) {
			return undefVal
		}
		if op == "&&" {
			return val{f: b2f(a != 0 && b != 0)}
		}
		return val{f: b2f(a != 0 || b != 0)}
	}
	// integer operators: a value only on integers inside int64
	if !isInt64(a) || !isInt64(b) {
		return undefVal
	}
	x, y := int64(a), int64(b)
	switch op {
	case "%":
		if x < 0 || y <= 0 {
			return undefVal
		}
		return val{f: float64(x % y)}
	case "&":
		return val{f: float64(x & y)}
	case "|":
		return val{f: float64(x | y)}
	case "<<":
		if y < 0 || y > 62 {
			return undefVal
		}
		s := x << uint(y)
		if s>>uint(y) != x {
			return undefVal
		}
		return val{f: float64(s)}
	case ">>":
		if y < 0 || y > 62 {
			return undefVal
		}
		return val{f: float64(x >> uint(y))}
	}
	panic("reference evaluator: unknown operator " + op)
}

// sameNumber is the NaN-aware comparison: NaN equals NaN, -0 equals 0.
func sameNumber(a, b float64) bool {
	if math.IsNaN(a) || math.IsNaN(b) {
		return math.IsNaN(a) && math.IsNaN(b)
	}
	return a == b
}

// allFlagSets are the parses the statement leaves open.
var allFlagSets = []parseFlags{{false, false}, {true, false}}

// refValues returns the accepted values of a well-formed formula under one
// binding. anyUndef means some admissible parse has no determined value.
func refValues(trees []refTree, b binding) (vals []float64, anyUndef bool) {
	for _, t := range trees {
		if t.ambig {
			anyUndef = true
			continue
		}
		v := refEval(t.n, b)
		if v.undef {
			anyUndef = true
			continue
		}
		vals = append(vals, v.f)
	}
	return
}

type refTree struct {
	n     *node
	ambig bool
	why   string
}

// refTrees parses a well-formed token string under every admissible reading.
func refTrees(toks []tok) []refTree {
	var out []refTree
	for _, fl := range allFlagSets {
		n, amb, why, ok := refParse(toks, false, fl)
		if !ok {
			panic("reference parser: strict parse succeeded once and failed under other flags")
		}
		out = append(out, refTree{n, amb, why})
	}
	return out
}
