// Harness exprmath decides C19: `{! ...}` math formulas follow the documented
// precedence, constants equal bound variables, malformed formulas are
// rejected at compile time, nothing crashes.
//
// Enumerated (see Rule): every binary-operator tree with up to 3 operators
// over the 17 binary operators and a leaf pool, with at most one decoration
// (prefix -, prefix !, function, redundant parentheses, implied
// multiplication), printed with minimal parentheses in a spaced and a compact
// style, evaluated under 6 binding vectors, directly through
// stdmath.Compile/Eval and through `{! ...}` templates; every constant
// replaced by a bound variable and every variable by its value; every token
// string up to a length for accept/reject; numeric literals at lexical
// boundaries next to every binary operator (lexical.go); the TEXT a variable
// is bound to in a `{! ...}` template (bindtext.go); every parenthesis level
// with implied multiplications next to every operator, after function calls
// and prefixed operands, against the same formula with an explicit `*`
// (implied.go); every operator and function over a pool of ~90 values (small
// integers, 2^k-1/2^k/2^k+1, inexact decimals, huge and tiny magnitudes) with
// each operand as a constant and as a bound variable (valalpha.go).
package main

import (
	"encoding/json"
	"fmt"
	"hash/fnv"
	"math"
	"strconv"
	"strings"
	"time"

	"rare/pkg/expressions"
	"rare/pkg/expressions/stdlib"
	"rare/pkg/expressions/stdmath"
	"verif/runner"
)

// ------------------------------------------------------------------ bindings

var bindPool = []float64{0, 1, -1, 2.5, -3, 1e18}

type env struct {
	x, m0, y float64
	extra    map[string]float64
}

func bindingVector(i int) *env {
	n := len(bindPool)
	return &env{x: bindPool[i%n], m0: bindPool[(i+1)%n], y: bindPool[(i+2)%n]}
}

const nBindings = 6

// fixedVars are further named variables with one fixed binding each, used by
// the lexical family: names that are also hex digits / exponent markers.
var fixedVars = map[string]float64{"e": 7, "E": -4, "b": 13}

// lookup is the reference-side binding (by variable text).
func (e *env) lookup(text string) (float64, bool) {
	switch k := varKey(text); k {
	case "x":
		return e.x, true
	case "y":
		return e.y, true
	case "0":
		return e.m0, true
	default:
		if v, ok := e.extra[k]; ok {
			return v, true
		}
		v, ok := fixedVars[k]
		return v, ok
	}
}

// mctx is the implementation-side binding (stdmath.Context).
type mctx struct {
	e       *env
	unknown int
}

func (c *mctx) GetMatch(i int) float64 {
	if i == 0 {
		return c.e.m0
	}
	c.unknown++
	return 0
}

func (c *mctx) GetKey(k string) float64 {
	switch k {
	case "x":
		return c.e.x
	case "y":
		return c.e.y
	}
	if v, ok := c.e.extra[k]; ok {
		return v
	}
	if v, ok := fixedVars[k]; ok {
		return v
	}
	c.unknown++
	return 0
}

func (e *env) templateContext() *expressions.KeyBuilderContextArray {
	f := func(v float64) string { return strconv.FormatFloat(v, 'g', -1, 64) }
	keys := map[string]string{"x": f(e.x), "y": f(e.y)}
	for k, v := range fixedVars {
		keys[k] = f(v)
	}
	for k, v := range e.extra {
		keys[k] = f(v)
	}
	return &expressions.KeyBuilderContextArray{Elements: []string{f(e.m0)}, Keys: keys}
}

// ------------------------------------------------------------------ running rare

type compiled struct {
	expr     stdmath.Expr
	err      error
	panicked string
}

func compileDirect(f string) (c compiled) {
	defer func() {
		if r := recover(); r != nil {
			c = compiled{panicked: fmt.Sprint(r)}
		}
	}()
	e, err := stdmath.Compile(f)
	return compiled{expr: e, err: err}
}

func evalDirect(e stdmath.Expr, en *env, strictVars bool) (v float64, panicked string) {
	defer func() {
		if r := recover(); r != nil {
			panicked = fmt.Sprint(r)
		}
	}()
	c := &mctx{e: en}
	v = e.Eval(c)
	if c.unknown > 0 && strictVars {
		panic("harness: formula looked up a variable the harness did not bind")
	}
	return v, ""
}

var stdKB = stdlib.NewStdKeyBuilder()
var stdKBNoOpt = stdlib.NewStdKeyBuilderEx(false)

type compiledT struct {
	kb       *expressions.CompiledKeyBuilder
	err      error
	panicked string
}

func compileTemplate(t string, optimize bool) (c compiledT) {
	defer func() {
		if r := recover(); r != nil {
			c = compiledT{panicked: fmt.Sprint(r)}
		}
	}()
	b := stdKB
	if !optimize {
		b = stdKBNoOpt
	}
	kb, err := b.Compile(t)
	if err != nil {
		return compiledT{kb: kb, err: err}
	}
	return compiledT{kb: kb}
}

func evalTemplate(kb *expressions.CompiledKeyBuilder, ctx expressions.KeyBuilderContext) (s string, panicked string) {
	defer func() {
		if r := recover(); r != nil {
			panicked = fmt.Sprint(r)
		}
	}()
	return kb.BuildKey(ctx), ""
}

// panicSig names the defect class of a crash: phase, runtime error class and
// the feature of the formula that the error class points at.
func panicSig(phase, formula, msg string) string {
	cls := "other"
	feature := ""
	switch {
	case strings.Contains(msg, "integer divide by zero"):
		cls = "integer-divide-by-zero"
		if strings.Contains(formula, "%") {
			feature = "/modulo-operator"
		} else {
			feature = "/no-modulo-operator"
		}
	case strings.Contains(msg, "negative shift amount"):
		cls = "negative-shift-amount"
		if strings.Contains(formula, "<<") {
			feature = "/shift-left"
		} else if strings.Contains(formula, ">>") {
			feature = "/shift-right"
		}
	case strings.Contains(msg, "index out of range"):
		cls = "index-out-of-range"
		if danglingPrefix(formula) {
			feature = "/prefix-operator-without-operand"
		} else {
			feature = "/other-input"
		}
	case strings.Contains(msg, "nil pointer"):
		cls = "nil-dereference"
	case strings.Contains(msg, "op not found"):
		cls = "op-not-found"
	case strings.HasPrefix(msg, "harness:"):
		panic(msg)
	}
	return "C19/panic/" + phase + "/" + cls + feature
}

// danglingPrefix: some parenthesis level ends in a prefix operator.
func danglingPrefix(formula string) bool {
	toks := refTokenize(formula)
	for i, t := range toks {
		if t.k == tOp && (t.s == "-" || t.s == "!") && (i == len(toks)-1 || toks[i+1].k == tRP) {
			return true
		}
	}
	return false
}

// ------------------------------------------------------------------ cases

// Case is the replayable description of one check.
type Case struct {
	Kind     string             `json:"kind"` // formula | subst | template | bind | implied (Formula: template with @ at each implied position, Dir: style) | constvar (Formula: pattern with places @1 @2 @3, Texts: the value of each place, Root/Deco: feature for the signature, Dir: which forms)
	Formula  string             `json:"formula"`
	Deco     string             `json:"deco,omitempty"`
	Root     string             `json:"root,omitempty"`
	Other    string             `json:"other,omitempty"`      // subst: the substituted formula
	Extra    map[string]float64 `json:"extra,omitempty"`      // subst: bindings of the introduced variables
	Bind     int                `json:"bind"`                 // binding vector (-1: all)
	Optimize bool               `json:"optimize,omitempty"`   // template: key builder optimisation
	Quoted   bool               `json:"quoted,omitempty"`     // template: formula given as one quoted argument
	Texts    []string           `json:"texts,omitempty"`      // bind: the texts [0] and x are bound to (Formula is a format with %[1]s, %[2]s)
	ExtraQ   map[string]string  `json:"extra_text,omitempty"` // instead of extra when a value is an infinity or NaN (not representable in JSON)
	Dir      string             `json:"dir,omitempty"`        // subst: direction / family when not derivable from Extra
	Lenient  bool               `json:"lenient,omitempty"`    // subst: a name the harness did not bind may be looked up (spellings of unsettled reading)
}

type checker struct {
	w *runner.W
}

func (c *checker) violation(sig, detail string, cs Case) {
	c.w.Violation(sig, detail, cs)
}

func fmtVals(vs []float64) string {
	var sb strings.Builder
	var seen []float64
next:
	for _, v := range vs {
		for _, s := range seen {
			if sameNumber(s, v) {
				continue next
			}
		}
		if len(seen) > 0 {
			sb.WriteString(" or ")
		}
		seen = append(seen, v)
		sb.WriteString(strconv.FormatFloat(v, 'g', -1, 64))
	}
	return sb.String()
}

func (e *env) String() string {
	s := fmt.Sprintf("x=%v [0]=%v y=%v", e.x, e.m0, e.y)
	for k, v := range e.extra {
		s += fmt.Sprintf(" %s=%v", k, v)
	}
	return s
}

type formulaResult struct {
	cls      class
	expr     stdmath.Expr // nil unless compiled
	actual   [nBindings]float64
	evalOK   [nBindings]bool
	compared int // bindings on which a determined reference value was compared
	hash     uint64
}

// checkFormula runs the S1/S3 oracle on one formula text, directly through
// stdmath. bind == -1 checks all binding vectors.
func (c *checker) checkFormula(text, decoLabel, root string, bind int) (res formulaResult) {
	toks := refTokenize(text)
	cls, why := classify(toks)
	res.cls = cls
	cs := Case{Kind: "formula", Formula: text, Deco: decoLabel, Root: root, Bind: -1}
	cp := compileDirect(text)
	h := fnv.New64a()
	h.Write([]byte{byte(cls)})
	defer func() { res.hash = h.Sum64() }()
	if cp.panicked != "" {
		// S3: "Malformed formulas are rejected at compile time and no formula or binding crashes evaluation"
		c.violation(panicSig("compile", text, cp.panicked), fmt.Sprintf("stdmath.Compile(%q) panicked: %s (formula is %s)", text, cp.panicked, cls), cs)
		h.Write([]byte("panic"))
		return
	}
	switch cls {
	case clsMalformed:
		if cp.err == nil {
			// S3: "Malformed formulas are rejected at compile time"
			c.violation("C19/accept/malformed-accepted/"+slug(why), fmt.Sprintf("stdmath.Compile(%q) returned no error although the formula is malformed (%s)", text, why), cs)
		}
		h.Write([]byte("rejected"))
		return
	case clsUnspec:
		if cp.err != nil {
			h.Write([]byte("rejected"))
			return
		}
	case clsWell:
		if cp.err != nil && hasOptional(toks) {
			// a literal spelling the statement and docs/usage/math.md do not give
			// (0X.., .5, 5., 1e3) may be rejected
			h.Write([]byte("rejected-optional-literal"))
			return
		}
		if cp.err != nil {
			// S1: a well-formed formula "evaluates, for all variable bindings, to the value of its parse"
			c.violation("C19/reject/well-formed-rejected/"+decoLabel, fmt.Sprintf("stdmath.Compile(%q) = error %v although the formula is well formed", text, cp.err), cs)
			h.Write([]byte("rejected"))
			return
		}
	}
	res.expr = cp.expr
	var trees []refTree
	if cls == clsWell {
		trees = refTrees(toks)
	}
	for b := 0; b < nBindings; b++ {
		if bind >= 0 && b != bind {
			continue
		}
		en := bindingVector(b)
		v, pk := evalDirect(cp.expr, en, cls == clsWell)
		if pk != "" {
			cs.Bind = b
			c.violation(panicSig("eval", text, pk), fmt.Sprintf("Eval of %q with %s panicked: %s", text, en, pk), cs)
			h.Write([]byte("evalpanic"))
			continue
		}
		res.actual[b], res.evalOK[b] = v, true
		var bits [8]byte
		u := math.Float64bits(v)
		if v != v {
			u = 0x7ff8000000000001
		}
		for i := 0; i < 8; i++ {
			bits[i] = byte(u >> (8 * i))
		}
		h.Write(bits[:])
		if cls != clsWell {
			continue
		}
		want, anyUndef := refValues(trees, en.lookup)
		if anyUndef {
			continue // the statement leaves the value open under some admissible reading
		}
		res.compared++
		ok := false
		for _, x := range want {
			if sameNumber(x, v) {
				ok = true
			}
		}
		if !ok {
			cs.Bind = b
			sig := "C19/value/" + decoLabel
			if decoLabel == decoName[dNone] {
				sig += "/" + root // undecorated trees: the group of the root operator
			}
			c.violation(sig, fmt.Sprintf("formula %q with %s evaluates to %v; its parse under the stated order of operations gives %s\nreference parse: %s", text, en, v, fmtVals(want), showNode(trees[0].n)), cs)
		}
	}
	return
}

func slug(s string) string {
	s = strings.ToLower(s)
	// drop positions / token text so that the signature names a class
	if i := strings.Index(s, " at token"); i >= 0 {
		s = s[:i]
	}
	if i := strings.Index(s, " `"); i >= 0 {
		s = s[:i]
	}
	var sb strings.Builder
	for _, r := range s {
		switch {
		case r >= 'a' && r <= 'z' || r >= '0' && r <= '9':
			sb.WriteRune(r)
		case r == '(':
			sb.WriteString("lparen")
		case r == ')':
			sb.WriteString("rparen")
		default:
			sb.WriteByte('-')
		}
	}
	return strings.Trim(sb.String(), "-")
}

// showNode renders a reference parse fully parenthesised (for details only).
func showNode(n *node) string {
	switch n.k {
	case nNum, nVar:
		return n.name
	case nGroup:
		return showNode(n.r)
	case nUn:
		return "(" + n.name + showNode(n.r) + ")"
	case nFunc:
		return n.name + "(" + showNode(n.r) + ")"
	case nBin:
		op := n.name
		if n.implied {
			op = "·"
		}
		return "(" + showNode(n.l) + " " + op + " " + showNode(n.r) + ")"
	}
	return "?"
}

// checkSubst: "Replacing any numeric constant by a variable bound to the same
// value (or the reverse) never changes the result".
func (c *checker) checkSubst(orig string, base *formulaResult, other string, extra map[string]float64, bind int, dir string) {
	c.checkSubstEx(orig, base, other, extra, bind, dir, true)
}

// substCase: the replayable form of a substitution case (infinities and NaN
// among the bindings are stored as text).
func substCase(orig, other string, extra map[string]float64, bind int) Case {
	cs := Case{Kind: "subst", Formula: orig, Other: other, Extra: extra, Bind: bind}
	for _, v := range extra {
		if math.IsInf(v, 0) || math.IsNaN(v) {
			cs.Extra, cs.ExtraQ = nil, map[string]string{}
			for k, v := range extra {
				cs.ExtraQ[k] = strconv.FormatFloat(v, 'g', -1, 64)
			}
			break
		}
	}
	return cs
}

// strictVars=false: the substituted formula may look up a name the harness did
// not bind (it evaluates to 0 there); used for tokens of unsettled reading.
func (c *checker) checkSubstEx(orig string, base *formulaResult, other string, extra map[string]float64, bind int, dir string, strictVars bool) {
	cs := substCase(orig, other, extra, bind)
	if !strictVars {
		cs.Dir, cs.Lenient = dir, true
	}
	cp := compileDirect(other)
	if cp.panicked != "" {
		c.violation(panicSig("compile", other, cp.panicked), fmt.Sprintf("stdmath.Compile(%q) panicked: %s", other, cp.panicked), Case{Kind: "formula", Formula: other, Bind: -1})
		return
	}
	if cp.err != nil {
		c.violation("C19/subst/"+dir+"/compile-error", fmt.Sprintf("%q compiles but %q (same formula, %s) gives error %v", orig, other, dir, cp.err), cs)
		return
	}
	for b := 0; b < nBindings; b++ {
		if bind >= 0 && b != bind {
			continue
		}
		if !base.evalOK[b] {
			continue
		}
		en := bindingVector(b)
		en.extra = extra
		v, pk := evalDirect(cp.expr, en, strictVars)
		if pk != "" {
			cs.Bind = b
			c.violation(panicSig("eval", other, pk), fmt.Sprintf("Eval of %q with %s panicked: %s", other, en, pk), Case{Kind: "formula", Formula: other, Bind: b})
			continue
		}
		if !sameNumber(v, base.actual[b]) {
			cs.Bind = b
			c.violation("C19/subst/"+dir+"/value-differs", fmt.Sprintf("%q evaluates to %v but %q evaluates to %v with %s", orig, base.actual[b], other, v, en), cs)
		}
	}
}

// checkTemplate runs the formula through `{! ...}` and BuildKey: the output
// must be the number stdmath gives (and the reference accepts).
func (c *checker) checkTemplate(text string, base *formulaResult, quoted, optimize bool) {
	tpl := "{! " + text + "}"
	if quoted {
		tpl = `{! "` + text + `"}`
	}
	cs := Case{Kind: "template", Formula: text, Bind: -1, Quoted: quoted, Optimize: optimize}
	ct := compileTemplate(tpl, optimize)
	if ct.panicked != "" {
		c.violation(panicSig("compile", text, ct.panicked), fmt.Sprintf("KeyBuilder.Compile(%q) panicked: %s", tpl, ct.panicked), cs)
		return
	}
	switch base.cls {
	case clsMalformed:
		if ct.err == nil {
			c.violation("C19/template/malformed-accepted", fmt.Sprintf("template %q compiles without error although the formula is malformed", tpl), cs)
		}
		return
	case clsUnspec:
		return
	}
	if ct.err != nil {
		if base.expr != nil {
			c.violation("C19/template/well-formed-rejected", fmt.Sprintf("template %q gives compile error %v although stdmath compiles the formula", tpl, ct.err), cs)
		}
		return
	}
	for b := 0; b < nBindings; b++ {
		if !base.evalOK[b] {
			continue
		}
		en := bindingVector(b)
		out, pk := evalTemplate(ct.kb, en.templateContext())
		if pk != "" {
			cs.Bind = b
			c.violation(panicSig("eval", text, pk), fmt.Sprintf("BuildKey of %q with %s panicked: %s", tpl, en, pk), cs)
			continue
		}
		v, err := strconv.ParseFloat(out, 64)
		if err != nil {
			cs.Bind = b
			c.violation("C19/template/non-numeric-output", fmt.Sprintf("template %q with %s gives %q; stdmath evaluates the formula to %v", tpl, en, out, base.actual[b]), cs)
			continue
		}
		if !sameNumber(v, base.actual[b]) {
			cs.Bind = b
			c.violation("C19/template/value-differs", fmt.Sprintf("template %q with %s gives %q; stdmath evaluates the formula to %v", tpl, en, out, base.actual[b]), cs)
		}
	}
}

// ------------------------------------------------------------------ enumeration

type tierParams struct {
	maxOps          int
	fullLeavesUpTo  int   // trees with at most this many operators use the whole leaf pool
	reducedLeaves   []int // leaf pool (indexes into leafPool) of bigger trees
	smallPool       []int // decorations/substitutions on bigger trees only when every leaf is in this pool
	tinyPool        []int // ... and on the biggest trees only when every leaf is in this pool
	compactUpTo     int   // compact (no spaces) style for undecorated trees up to this size
	compactDecoUpTo int   // ... for decorated trees up to this size
	decoFullUpTo    int   // decorations on every tree up to this size
	decoSmallUpTo   int   // decorations on small-pool trees up to this size
	decoTinyUpTo    int   // decorations on tiny-pool trees up to this size
	funcs           []string
	substFullUpTo   int // substitutions on every undecorated tree up to this size (decorated: one operator less)
	substSmallUpTo  int // substitutions on undecorated small-pool trees up to this size
	substTinyUpTo   int // substitutions on undecorated tiny-pool trees up to this size
	templateUpTo    int // `{! ...}` checks on undecorated trees up to this size (decorated: one operator less)
	tokenLen        int
	tokenAlphabet   []string
	tokenLenSmall   int // longer strings over the small alphabet
	tokenSmall      []string
	tokenTemplate   int // token strings up to this length also through templates
}

var tokenAlphabetFull = []string{"2", "0.5", "x", "[0]", "+", "-", "*", "^", "<<", "&&", "!", "(", ")", "abs"}
var tokenAlphabetSmall = []string{"2", "x", "+", "-", "^", "!", "(", ")", "abs"}

func params(quick bool) tierParams {
	if quick {
		return tierParams{maxOps: 3, fullLeavesUpTo: 2, reducedLeaves: []int{1, 5}, smallPool: []int{1, 5, 6}, tinyPool: []int{1, 5},
			compactUpTo: 2, compactDecoUpTo: 2, decoFullUpTo: 1, decoSmallUpTo: 2, decoTinyUpTo: 2, funcs: []string{"abs"},
			substFullUpTo: 1, substSmallUpTo: 2, substTinyUpTo: 2, templateUpTo: 1,
			tokenLen: 5, tokenAlphabet: tokenAlphabetFull, tokenLenSmall: 6, tokenSmall: tokenAlphabetSmall, tokenTemplate: 3}
	}
	return tierParams{maxOps: 3, fullLeavesUpTo: 2, reducedLeaves: []int{1, 2, 5, 6}, smallPool: []int{1, 5, 6}, tinyPool: []int{1, 5},
		compactUpTo: 3, compactDecoUpTo: 1, decoFullUpTo: 2, decoSmallUpTo: 2, decoTinyUpTo: 3, funcs: []string{"abs", "sqrt", "floor"},
		substFullUpTo: 2, substSmallUpTo: 2, substTinyUpTo: 3, templateUpTo: 2,
		tokenLen: 6, tokenAlphabet: tokenAlphabetFull, tokenLenSmall: 7, tokenSmall: tokenAlphabetSmall, tokenTemplate: 4}
}

func poolNames(idx []int) string {
	var out []string
	for _, i := range idx {
		out = append(out, leafPool[i].text)
	}
	return strings.Join(out, ",")
}

func constText(v float64) string {
	if v < 0 {
		return "(" + strconv.FormatFloat(v, 'f', -1, 64) + ")"
	}
	return strconv.FormatFloat(v, 'f', -1, 64)
}

func worker(w *runner.W) {
	c := &checker{w: w}
	tp := params(w.Quick())
	var caseNo int64

	// part 1: trees
	part := w.Param("part", "all")
	for n := 0; n <= tp.maxOps && (part == "all" || part == "trees"); n++ {
		shapes := buildShapes(n)
		pool := make([]int, 0, len(leafPool))
		if n <= tp.fullLeavesUpTo {
			for i := range leafPool {
				pool = append(pool, i)
			}
		} else {
			pool = append(pool, tp.reducedLeaves...)
		}
		for _, sh := range shapes {
			opIdx := make([]int, len(sh.bins))
			for {
				for i, b := range sh.bins {
					b.name = binOps[opIdx[i]]
				}
				lfIdx := make([]int, len(sh.leaves))
				for {
					caseNo++
					if w.Owns(caseNo) {
						if w.Expired() {
							return
						}
						for i, l := range sh.leaves {
							setLeaf(l, leafPool[pool[lfIdx[i]]])
						}
						c.treeCase(sh, n, &tp)
					}
					if !inc(lfIdx, len(pool)) {
						break
					}
				}
				if !inc(opIdx, len(binOps)) {
					break
				}
			}
		}
		w.Max("max_binary_operators", int64(n))
	}

	// part 2: token strings
	if part == "all" || part == "tokens" {
		c.tokenStrings(&caseNo, tp.tokenAlphabet, 0, tp.tokenLen, tp.tokenTemplate)
		c.tokenStrings(&caseNo, tp.tokenSmall, tp.tokenLen+1, tp.tokenLenSmall, 0)
	}
	// part 3: numeric literals at lexical boundaries
	if part == "all" || part == "lexical" {
		c.lexical(&caseNo, w.Quick())
	}
	// part 4: binding texts
	if part == "all" || part == "bind" {
		c.bindFamily(&caseNo, w.Quick())
	}
	// part 5: implied multiplication against the explicit form
	if part == "all" || part == "implied" {
		c.implied(&caseNo, w.Quick())
	}
	// part 6: value alphabet for the constant-versus-variable sentence
	if part == "all" || part == "constvar" {
		c.constvar(&caseNo, w.Quick())
	}
}

func inc(idx []int, base int) bool {
	for i := len(idx) - 1; i >= 0; i-- {
		idx[i]++
		if idx[i] < base {
			return true
		}
		idx[i] = 0
	}
	return false
}

// treeCase checks one tree (operators and leaves assigned) with all its
// decorations, styles, substitutions.
func (c *checker) treeCase(sh *shape, n int, tp *tierParams) {
	w := c.w
	root := "leaf"
	if sh.root.k == nBin {
		root = groupName[opGroup[sh.root.name]]
	}
	decos := []deco{{kind: dNone}}
	small, tiny := leavesIn(sh, tp.smallPool), leavesIn(sh, tp.tinyPool)
	if n <= tp.decoFullUpTo || (n <= tp.decoSmallUpTo && small) || (n <= tp.decoTinyUpTo && tiny) {
		for _, nd := range sh.all {
			decos = append(decos, deco{at: nd, kind: dNeg}, deco{at: nd, kind: dNot}, deco{at: nd, kind: dParen})
			for i, fn := range tp.funcs {
				if i == 0 || n <= tp.decoSmallUpTo { // the biggest trees get the first function only
					decos = append(decos, deco{at: nd, kind: dFunc, fn: fn})
				}
			}
			if nd.k == nBin && nd.name == "*" {
				decos = append(decos, deco{at: nd, kind: dImplied})
			}
		}
	}
	for _, d := range decos {
		label := decoName[d.kind]
		spaced := printTree(sh.root, d, true)
		w.SetCase(func() any { return Case{Kind: "formula", Formula: spaced, Deco: label, Root: root, Bind: -1} })
		res := c.checkFormula(spaced, label, root, -1)
		w.Eval(res.compared > 0)
		w.OutcomeHash(res.hash)
		w.Add("formulas", 1)
		if res.compared > 0 && w.WantSample() && n >= 2 && d.kind != dNone {
			w.Sample(map[string]any{"formula": spaced, "decoration": label, "value_at_binding_0": res.actual[0]})
		}
		// harness self-check: the value the tree dictates must be the value of
		// the reference parse of the printed text (tight prefix reading)
		c.selfCheck(sh.root, d, spaced)

		compact := spaced
		if n <= tp.compactUpTo && (d.kind == dNone || n <= tp.compactDecoUpTo) {
			compact = printTree(sh.root, d, false)
		}
		if compact != spaced {
			w.SetCase(func() any { return Case{Kind: "formula", Formula: compact, Deco: label, Root: root, Bind: -1} })
			r2 := c.checkFormula(compact, label, root, -1)
			w.Eval(r2.compared > 0)
			w.Add("formulas", 1)
			if res.expr != nil && r2.expr != nil {
				for b := 0; b < nBindings; b++ {
					if res.evalOK[b] && r2.evalOK[b] && !sameNumber(res.actual[b], r2.actual[b]) {
						c.violation("C19/value/spacing-changes-value", fmt.Sprintf("%q evaluates to %v but %q to %v with %s", spaced, res.actual[b], compact, r2.actual[b], bindingVector(b)), Case{Kind: "formula", Formula: compact, Deco: label, Root: root, Bind: b})
					}
				}
			}
		}
		if res.expr == nil {
			continue
		}
		if n <= tp.templateUpTo && d.kind == dNone || n <= tp.templateUpTo-1 {
			for _, q := range []bool{false, true} {
				for _, opt := range []bool{true, false} {
					c.checkTemplate(spaced, &res, q, opt)
					w.Add("template_cases", 1)
				}
			}
		}
		if (d.kind == dNone && (n <= tp.substFullUpTo || (n <= tp.substSmallUpTo && small) || (n <= tp.substTinyUpTo && tiny))) || (d.kind != dNone && n <= tp.substFullUpTo-1) {
			c.substitutions(sh, d, spaced, &res)
		}
	}
}

func leavesIn(sh *shape, pool []int) bool {
	for _, l := range sh.leaves {
		ok := false
		for _, i := range pool {
			if leafPool[i].text == l.name {
				ok = true
			}
		}
		if !ok {
			return false
		}
	}
	return true
}

func (c *checker) selfCheck(root *node, d deco, text string) {
	toks := refTokenize(text)
	n, ambig, why, ok := refParse(toks, false, parseFlags{})
	if !ok {
		panic(fmt.Sprintf("harness self-check: reference parser rejects generated formula %q: %s", text, why))
	}
	if ambig {
		panic(fmt.Sprintf("harness self-check: generated formula %q is ambiguous for the reference: %s", text, why))
	}
	for b := 0; b < nBindings; b++ {
		en := bindingVector(b)
		a, r := evalTree(root, d, en.lookup), refEval(n, en.lookup)
		if a.undef != r.undef || (!a.undef && !sameNumber(a.f, r.f)) {
			panic(fmt.Sprintf("harness self-check: tree value %v differs from reference parse value %v for %q (%s)", a, r, text, showNode(n)))
		}
	}
}

func (c *checker) substitutions(sh *shape, d deco, orig string, res *formulaResult) {
	w := c.w
	// constants -> variables: each alone, then all together
	var consts []*node
	for _, l := range sh.leaves {
		if l.k == nNum {
			consts = append(consts, l)
		}
	}
	replace := func(ls []*node) {
		saved := make([]node, len(ls))
		extra := map[string]float64{}
		for i, l := range ls {
			saved[i] = *l
			name := "c" + strconv.Itoa(i)
			extra[name] = l.num
			l.k, l.name = nVar, "["+name+"]"
		}
		other := printTree(sh.root, d, true)
		for i, l := range ls {
			*l = saved[i]
		}
		w.SetCase(func() any { return Case{Kind: "subst", Formula: orig, Other: other, Extra: extra, Bind: -1} })
		c.checkSubst(orig, res, other, extra, -1, "constant-to-variable")
		w.Add("substitution_cases", 1)
	}
	for _, l := range consts {
		replace([]*node{l})
	}
	if len(consts) > 1 {
		replace(consts)
	}
	// variables -> constants, per binding vector: each alone, then all together
	var vars []*node
	for _, l := range sh.leaves {
		if l.k == nVar {
			vars = append(vars, l)
		}
	}
	if len(vars) == 0 {
		return
	}
	for b := 0; b < nBindings; b++ {
		if !res.evalOK[b] {
			continue
		}
		en := bindingVector(b)
		sets := [][]*node{}
		for _, v := range vars {
			sets = append(sets, []*node{v})
		}
		if len(vars) > 1 {
			sets = append(sets, vars)
		}
		for _, ls := range sets {
			saved := make([]node, len(ls))
			for i, l := range ls {
				saved[i] = *l
				v, _ := en.lookup(l.name)
				l.k, l.num, l.name = nNum, v, constText(v)
			}
			other := printTree(sh.root, d, true)
			for i, l := range ls {
				*l = saved[i]
			}
			b := b
			w.SetCase(func() any { return Case{Kind: "subst", Formula: orig, Other: other, Bind: b} })
			c.checkSubst(orig, res, other, nil, b, "variable-to-constant")
			w.Add("substitution_cases", 1)
		}
	}
}

// tokenStrings enumerates every token string with minLen..maxLen tokens
// (joined by single spaces) for the accept/reject oracle.
func (c *checker) tokenStrings(caseNo *int64, alphabet []string, minLen, maxLen, templateUpTo int) {
	w := c.w
	for l := minLen; l <= maxLen; l++ {
		idx := make([]int, l)
		for {
			*caseNo++
			if w.Owns(*caseNo) {
				if w.Expired() {
					return
				}
				parts := make([]string, l)
				for i, k := range idx {
					parts[i] = alphabet[k]
				}
				text := strings.Join(parts, " ")
				w.SetCase(func() any {
					return Case{Kind: "formula", Formula: text, Deco: "token-string", Root: "tokens", Bind: -1}
				})
				res := c.checkFormula(text, "token-string", "tokens", -1)
				// non-trivial: decided by the statement (rejected malformed, or a compared value)
				w.Eval(res.cls == clsMalformed || res.compared > 0)
				w.OutcomeHash(res.hash)
				w.Add("token_strings", 1)
				w.Add("token_strings_"+strings.ReplaceAll(res.cls.String(), "-", "_"), 1)
				if l <= templateUpTo && l > 0 {
					c.checkTemplate(text, &res, true, true)
					c.checkTemplate(text, &res, false, true)
					w.Add("template_cases", 2)
				}
				if res.cls == clsWell && res.compared > 0 && l >= 5 && w.WantSample() {
					w.Sample(map[string]any{"token_string": text, "class": res.cls.String(), "value_at_binding_0": res.actual[0]})
				}
			}
			if l == 0 || !inc(idx, len(alphabet)) {
				break
			}
		}
		w.Max("max_token_string_length", int64(l))
	}
}

// ------------------------------------------------------------------ replay

func replay(w *runner.W, raw json.RawMessage) {
	var cs Case
	if err := json.Unmarshal(raw, &cs); err != nil {
		panic(err)
	}
	c := &checker{w: w}
	switch cs.Kind {
	case "formula":
		c.checkFormula(cs.Formula, cs.Deco, cs.Root, cs.Bind)
	case "subst":
		res := c.checkFormula(cs.Formula, "binary-tree", "replay", cs.Bind)
		dir := "constant-to-variable"
		if cs.ExtraQ != nil {
			cs.Extra = map[string]float64{}
			for k, t := range cs.ExtraQ {
				v, err := strconv.ParseFloat(t, 64)
				if err != nil {
					panic(err)
				}
				cs.Extra[k] = v
			}
		}
		if len(cs.Extra) == 0 {
			dir = "variable-to-constant"
		}
		if cs.Dir != "" {
			dir = cs.Dir
		}
		if res.expr != nil {
			c.checkSubstEx(cs.Formula, &res, cs.Other, cs.Extra, cs.Bind, dir, !cs.Lenient)
		}
	case "template":
		res := c.checkFormula(cs.Formula, "binary-tree", "replay", -1)
		c.checkTemplate(cs.Formula, &res, cs.Quoted, cs.Optimize)
	case "bind":
		c.checkBind(cs.Formula, cs.Bind, cs.Texts)
	case "implied":
		c.checkImplied(cs.Formula, cs.Dir, cs.Bind, true)
	case "constvar":
		c.checkConstVar(cs.Formula, cs.Texts, cvFeature{kind: cs.Root, adj: strings.Split(cs.Deco, ",")}, cvParseOpts(cs.Dir))
	default:
		panic("unknown case kind " + cs.Kind)
	}
}

func main() {
	runner.Main(&runner.Spec{
		Name:       "exprmath",
		Properties: []string{"C19"},
		Level:      "exploration",
		Rule: func(prop, tier string) string {
			tp := params(tier != "thorough")
			return fmt.Sprintf("every binary-operator tree (all shapes) with 0..%d operators over the 17 binary operators {%s}; leaves: all assignments over {%s} for trees with <=%d operators, over {%s} for bigger trees; printed with minimal parentheses (shift/bit operators, whose level the statement does not give, always parenthesised against other groups) with single spaces, and without spaces for undecorated trees with <=%d and decorated trees with <=%d operators; at most one decoration (prefix -, prefix !, function in {%s} (bigger trees than %d operators: the first only), redundant parentheses at every node; implied multiplication at every * node) on all trees with <=%d operators, on trees with <=%d operators whose leaves are in {%s} and on trees with <=%d operators whose leaves are in {%s}; each formula compiled by stdmath.Compile and evaluated under 6 binding vectors (x,[0],y rotate through 0,1,-1,2.5,-3,1e18) against the value of an independent parse; undecorated trees with <=%d operators (decorated: one less) also through `{! f}` and `{! \"f\"}` templates with and without key-builder optimisation; substitution on undecorated trees with <=%d operators, on undecorated trees with <=%d operators over {%s} and <=%d operators over {%s}, on decorated trees with <=%d operators: every constant alone and all together replaced by bound variables, every variable alone and all together replaced by its value per binding vector; every token string with 0..%d tokens over {%s} and %d..%d tokens over {%s} joined by spaces for accept/reject (up to %d tokens also through templates). %s. %s. %s. %s. non-trivial = the formula compiled and a value determined by the statement was compared on at least one binding, or (token strings) a malformed string was rejected, or (binding texts) the template output was compared with the error marker or a value, or (implied-multiplication family) the implied and the explicit form compiled and were compared on at least one binding",
				tp.maxOps, strings.Join(binOps, " "), poolNames([]int{0, 1, 2, 3, 4, 5, 6, 7}), tp.fullLeavesUpTo, poolNames(tp.reducedLeaves), tp.compactUpTo, tp.compactDecoUpTo, strings.Join(tp.funcs, ","), tp.decoSmallUpTo,
				tp.decoFullUpTo, tp.decoSmallUpTo, poolNames(tp.smallPool), tp.decoTinyUpTo, poolNames(tp.tinyPool), tp.templateUpTo,
				tp.substFullUpTo, tp.substSmallUpTo, poolNames(tp.smallPool), tp.substTinyUpTo, poolNames(tp.tinyPool), tp.substFullUpTo-1,
				tp.tokenLen, strings.Join(tp.tokenAlphabet, " "), tp.tokenLen+1, tp.tokenLenSmall, strings.Join(tp.tokenSmall, " "), tp.tokenTemplate,
				lexRule(tier != "thorough"), bindRule(tier != "thorough"), impRule(tier != "thorough"), cvRule(tier != "thorough"))
		},
		Assumptions: func(string) []string {
			return []string{
				"operator meanings: + - * / IEEE-754 double, ^ = pow, comparisons and && || ! give 1/0 with non-zero = true; % << >> & | act on integers",
				"the statement gives no level for << >> & |: such operators are compared only fully parenthesised against other groups, and left to right inside {<<,>>}, {&}, {|}",
				"the statement does not say whether a prefix - or ! binds tighter than ^: both readings are accepted",
				"implied multiplication a(b) is the multiplication a*(b): the statement lists it among the formula features and gives one level for multiplication (* / %, equal levels left to right), docs/usage/math.md gives `2(1+1) => 4`; the formula with the juxtaposition must therefore equal the formula with an explicit * at that place (differential oracle, also next to << >> & | whose level is not given), and the independent parse reads a/b(c) as a/b*(c)",
				"integer operators on non-integers, values outside int64, a modulus <= 0, a negative dividend, shift counts outside 0..62, overflowing shifts, and NaN as a truth value have no value fixed by the statement: only 'no crash' is demanded there",
				"stacked prefix operators, unary plus, adjacent operands without operator, a function name without a group are neither demanded to compile nor to be rejected",
				"numeric comparison is NaN-aware (NaN equals NaN) and treats -0 and 0 as equal; the value-alphabet family compares two forms of the SAME formula (a constant against a variable bound to the same decimal text) and demands the identical float64 bit pattern (any NaN equals any NaN; -0 and 0 differ: they print as -0 and 0) and the identical printed text",
				"value-alphabet family: a pool value is one plain decimal text that is the exact shortest rendering of its float64, so the constant (read by the formula compiler) and the binding (read from match data) denote the same float64 under any correctly rounding reader; a negative constant is written in parentheses; (c + 0) and (1 * c) count as spellings of the constant c (the first sentence gives them the value c, and compile-time simplification is to be invisible)",
				"literal spellings that neither the statement nor docs/usage/math.md give (upper-case 0X/0B prefix, leading or trailing dot, unsigned exponent 1e3) may be rejected; when accepted they must have their usual value. A signed exponent (1e-3) is not a literal: unspecified",
				"spellings of unsettled reading as formula tokens (inf/infinity/nan in any letter case, hexadecimal floats, digit separators, exponents, values beyond float64 ...): a compile error, the IEEE constant and a look-up of a variable of that name are each allowed as such; what is demanded is only the constant-vs-variable sentence: when the tree reads the text as a number when a variable is bound to it (so the text is a 'numeric value' by the tree's own account, and docs/usage/math.md makes only non-numeric values variables) AND compiles the formula with the text as a token, both formulas give the same number; no variable of that name is bound. Integers with a redundant leading zero (017: decimal 17 or octal 15) are exempt",
				"binding texts: a plain decimal text (-?digits[.digits], no redundant leading zero) must be read as the float64 nearest to its decimal value (1 ulp tolerated; reference computed with math/big) and must equal the same text written as a constant; for a leading +, redundant leading zeros, leading/trailing dot, exponent, surrounding blanks, 0x/0b/0o prefix, hexadecimal floats (0x1p4), digit separators, inf/infinity/nan and values beyond float64 both the documented error marker <BAD-TYPE> and the natural value are accepted; any other text must give the error marker (anchor: binding 'with error counting'), never a number",
			}
		},
		Worker:         worker,
		Replay:         replay,
		HangSeconds:    30,
		QuickBudget:    3 * time.Minute,
		ThoroughBudget: 14 * time.Minute,
	})
}
