package main

// Generator side of the C19 harness: every binary-operator tree up to a size,
// one optional decoration (prefix operator, function, redundant parentheses,
// implied multiplication), printing with minimal parentheses, and direct
// evaluation of the tree (the value "the tree dictates"). Nothing here imports
// rare.

import "strings"

var binOps = []string{"+", "-", "*", "/", "^", "%", "<<", ">>", "&", "|", "<", "<=", ">", ">=", "==", "&&", "||"}

// leaf pool: constants of S2 (decimal, fraction, 0x, 0b) and the three ways
// of writing a variable.
type leafSpec struct {
	text  string
	isVar bool
	num   float64
}

var leafPool = []leafSpec{
	{"2", false, 2}, {"3", false, 3}, {"0.5", false, 0.5}, {"0x10", false, 16}, {"0b11", false, 3},
	{"x", true, 0}, {"[0]", true, 0}, {"[y]", true, 0},
}

// shape is one binary tree skeleton with its nodes listed.
type shape struct {
	root   *node
	bins   []*node // pre-order
	leaves []*node // left to right
	all    []*node // pre-order, every node
}

func buildShapes(n int) []*shape {
	var gen func(n int) []func() *node
	gen = func(n int) []func() *node {
		if n == 0 {
			return []func() *node{func() *node { return &node{k: nNum} }}
		}
		var out []func() *node
		for l := 0; l < n; l++ {
			for _, lf := range gen(l) {
				for _, rf := range gen(n - 1 - l) {
					lf, rf := lf, rf
					out = append(out, func() *node { return &node{k: nBin, l: lf(), r: rf()} })
				}
			}
		}
		return out
	}
	var shapes []*shape
	for _, mk := range gen(n) {
		s := &shape{root: mk()}
		var walk func(*node)
		walk = func(x *node) {
			s.all = append(s.all, x)
			if x.k == nBin {
				s.bins = append(s.bins, x)
				walk(x.l)
				walk(x.r)
			} else {
				s.leaves = append(s.leaves, x)
			}
		}
		walk(s.root)
		shapes = append(shapes, s)
	}
	return shapes
}

func setLeaf(n *node, l leafSpec) {
	n.name = l.text
	if l.isVar {
		n.k = nVar
	} else {
		n.k = nNum
		n.num = l.num
	}
}

// decorations: at most one per formula
const (
	dNone = iota
	dNeg
	dNot
	dFunc
	dParen
	dImplied
)

var decoName = map[int]string{dNone: "binary-tree", dNeg: "prefix-minus", dNot: "prefix-not", dFunc: "function", dParen: "parentheses", dImplied: "implied-multiplication"}

type deco struct {
	at   *node
	kind int
	fn   string
}

const (
	cAtom = iota
	cGroup
	cUnary
	cBin
)

type printer struct {
	d      deco
	spaced bool
}

func needParens(child, parent string, right bool) bool {
	gc, gp := opGroup[child], opGroup[parent]
	if knownLevel(gc) && knownLevel(gp) {
		// S1: a looser operator below a tighter one needs parentheses; equal
		// levels associate to the left, so a right child of equal level needs them
		if gc < gp {
			return true
		}
		if gc == gp {
			return right
		}
		return false
	}
	// the statement gives no level for shift/bit operators: always
	// parenthesise against other groups; inside the group left to right
	if gc == gp {
		return right
	}
	return true
}

func (p *printer) show(n *node) (string, int) {
	s, c := p.plain(n)
	if n != p.d.at {
		return s, c
	}
	switch p.d.kind {
	case dNeg, dNot:
		op := "-"
		if p.d.kind == dNot {
			op = "!"
		}
		if c != cAtom && c != cGroup {
			s = "(" + s + ")"
		}
		return op + s, cUnary
	case dFunc:
		if c == cGroup {
			return p.d.fn + s, cAtom
		}
		return p.d.fn + "(" + s + ")", cAtom
	case dParen:
		return "(" + s + ")", cGroup
	}
	return s, c
}

func (p *printer) plain(n *node) (string, int) {
	switch n.k {
	case nNum, nVar:
		return n.name, cAtom
	case nBin:
		ls, lc := p.show(n.l)
		rs, rc := p.show(n.r)
		if n == p.d.at && p.d.kind == dImplied {
			// S2 implied multiplication in its documented form: operand(group)
			if lc != cAtom && lc != cGroup {
				ls = "(" + ls + ")"
			}
			if rc != cGroup {
				rs = "(" + rs + ")"
			}
			return ls + rs, cBin
		}
		if lc == cBin && needParens(p.opOf(n.l), n.name, false) {
			ls = "(" + ls + ")"
		}
		if rc == cBin && needParens(p.opOf(n.r), n.name, true) {
			rs = "(" + rs + ")"
		}
		if p.spaced {
			return ls + " " + n.name + " " + rs, cBin
		}
		return ls + n.name + rs, cBin
	}
	panic("printer: unexpected node")
}

func (p *printer) opOf(n *node) string { return n.name }

func printTree(root *node, d deco, spaced bool) string {
	p := &printer{d: d, spaced: spaced}
	s, _ := p.show(root)
	return s
}

// evalTree is the value the tree dictates (decoration applied at d.at).
func evalTree(n *node, d deco, b binding) val {
	var v val
	switch n.k {
	case nNum:
		v = val{f: n.num}
	case nVar:
		f, ok := b(n.name)
		if !ok {
			return undefVal
		}
		v = val{f: f}
	case nBin:
		l, r := evalTree(n.l, d, b), evalTree(n.r, d, b)
		if l.undef || r.undef {
			v = undefVal
		} else {
			v = refBin(n.name, l.f, r.f)
		}
	}
	if n == d.at && !v.undef {
		switch d.kind {
		case dNeg:
			v = val{f: -v.f}
		case dNot:
			if v.f != v.f {
				v = undefVal
			} else {
				v = val{f: b2f(v.f == 0)}
			}
		case dFunc:
			v = val{f: refFuncs[d.fn](v.f)}
		}
	}
	return v
}

// varKey maps the text of a variable token to the name it is bound under:
// bare x and [x] are the key x, [0] is match 0.
func varKey(text string) string {
	if strings.HasPrefix(text, "[") && strings.HasSuffix(text, "]") {
		return text[1 : len(text)-1]
	}
	return text
}
