// Harness tailchan decides the batcher-level part of C15 ("the bytes delivered
// are exactly the bytes appended ... in order, without loss or duplication",
// observed at batchers.TailFilesToChan, the entry point `rare -f` uses) and
// puts the follow batcher under the happens-before detector for C05 (its
// anchor pkg/extractor/batchers/tailBatcher.go). The real TailFilesToChan
// follows TWO files at once on the virtual file system under the controlled
// runtime: one goroutine per file, the notify pumps or poll timers, the shared
// batch channel, the 250 ms time flush (clock jumps are choices), a writer that
// appends complete and partial lines and finally removes both files once their
// bytes were read (plain follow then ends each stream, the last partial batch
// is flushed and the channel closes). Every schedule with at most B deviations
// is executed; at the end the lines of each source must be exactly the lines
// appended, in order, under their true 1-based line numbers.
package main

import (
	"encoding/json"
	"fmt"
	"sort"
	"strconv"
	"strings"
	"time"

	"rare/pkg/extractor/batchers"
	"rare/pkg/followreader"
	vrt "rare/verifrt"
	"rare/verifrt/vos"
	"verif/mc"
	"verif/runner"
)

type Config struct {
	Poll    bool      `json:"poll"`
	Initial [2]string `json:"initial"` // content of the two files when following starts
	History []string  `json:"history"` // writer operations, see ops
	Batch   int       `json:"batch"`
	Buffer  int       `json:"buffer"`
	Jumps   bool      `json:"jumps"` // 250 ms clock jumps at clock readings (time flush)
	OneFile bool      `json:"one_file"`
	// SameBase: the two files have the same base name in two directories
	// (logs/a/current, logs/b/current) instead of two names in one directory
	SameBase bool `json:"same_base_name,omitempty"`
	Bound    int  `json:"bound"`
}

// writer operations
//
//	A  append "a\n" to file 0        X  append "xy\n" to file 1
//	P  append "p" to file 0 (no LF)  Q  append "q\n" to file 0
//	E  append "\n" to file 1 (an empty line)
//	R  remove file 0 once all its bytes were read     S  the same for file 1
//
// every history is completed by the removals that are still missing.
var appendOps = map[string]struct {
	file int
	data string
}{"A": {0, "a\n"}, "X": {1, "xy\n"}, "P": {0, "p"}, "Q": {0, "q\n"}, "E": {1, "\n"}}

type gotBatch struct {
	src   string
	start uint64
	lines []string
}

type obs struct {
	content  [2][]byte
	removed  [2]bool
	batches  []gotBatch
	closed   bool
	readErrs int
	done     bool
}

func paths(c *Config) [2]string {
	if c.SameBase {
		return [2]string{vos.Root + "a/current", vos.Root + "b/current"}
	}
	return [2]string{vos.Root + "f0", vos.Root + "f1"}
}

func body(c *Config, o *obs) {
	// executions of one process must not see each other's package-level state
	// (a shared watcher, a cache): the instrumenter generates these
	followreader.VerifResetGlobals()
	batchers.VerifResetGlobals()
	fs := vos.Reset()
	ps := paths(c)
	nfiles := 2
	if c.OneFile {
		nfiles = 1
	}
	readBytes := map[string]int{}
	readCalls := map[string]int{}
	fs.ReadHook = func(name string, want, avail int) (int, error) {
		n := want
		if avail < n {
			n = avail
		}
		readBytes[name] += n
		readCalls[name]++
		return n, nil
	}
	for i := 0; i < nfiles; i++ {
		fs.Put(ps[i], []byte(c.Initial[i]))
		o.content[i] = []byte(c.Initial[i])
	}
	remove := func(i int) {
		if o.removed[i] || i >= nfiles {
			return
		}
		// "Once delivered data is followed by removal": the reader has read
		// every byte of the file
		vrt.WaitFor(func() bool { return readCalls[ps[i]] > 0 && readBytes[ps[i]] == len(o.content[i]) }, "writer waits until file "+strconv.Itoa(i)+" was read")
		fs.Remove(ps[i])
		o.removed[i] = true
	}
	vrt.GoNamed("writer", func() {
		for _, op := range c.History {
			switch op {
			case "R":
				remove(0)
			case "S":
				remove(1)
			default:
				a := appendOps[op]
				if a.file >= nfiles || o.removed[a.file] {
					continue
				}
				fs.Append(ps[a.file], []byte(a.data))
				o.content[a.file] = append(o.content[a.file], a.data...)
			}
		}
		remove(0)
		remove(1)
		vrt.AddAdvances(14)
	})

	names := vrt.MakeChan[string](2)
	for i := 0; i < nfiles; i++ {
		names.Send(ps[i])
	}
	names.Close()
	b := batchers.TailFilesToChan(names, c.Batch, c.Buffer, false, c.Poll, false)
	ch := b.BatchChan()
	for {
		batch, ok := ch.Recv2()
		if !ok {
			break
		}
		g := gotBatch{src: batch.Source, start: batch.BatchStart}
		for _, l := range batch.Batch {
			g.lines = append(g.lines, string(l))
		}
		o.batches = append(o.batches, g)
	}
	o.closed = true
	o.readErrs = b.ReadErrors()
	o.done = true
}

// refLines: segments between LF, one CR before the LF removed, an unterminated
// non-empty rest is a line (the stream ended with the removal).
func refLines(s string) []string {
	var out []string
	for len(s) > 0 {
		i := strings.IndexByte(s, '\n')
		if i < 0 {
			out = append(out, s)
			break
		}
		l := s[:i]
		if strings.HasSuffix(l, "\r") {
			l = l[:len(l)-1]
		}
		out = append(out, l)
		s = s[i+1:]
	}
	return out
}

type finding struct{ prop, sig, detail string }

func slug(s string) string {
	if i := strings.IndexByte(s, '\n'); i >= 0 {
		s = s[:i]
	}
	var sb strings.Builder
	for _, r := range s {
		switch {
		case r >= 'a' && r <= 'z', r >= 'A' && r <= 'Z', r >= '0' && r <= '9', r == '.', r == '/', r == '-':
			sb.WriteRune(r)
		default:
			sb.WriteByte('_')
		}
	}
	out := sb.String()
	if len(out) > 70 {
		out = out[:70]
	}
	return out
}

func modeName(c *Config) string {
	if c.Poll {
		return "poll"
	}
	return "notify"
}

func check(c *Config, o *obs, res *vrt.Result) []finding {
	var fs []finding
	mode := modeName(c)
	ctx := func() string {
		return fmt.Sprintf("mode=%s initial=%q history=%v batch=%d buffer=%d\ncontent=%q removed=%v\nbatches=%+v\nclosed=%v blocked=%v horizon=%v now=%v", mode, c.Initial, c.History, c.Batch, c.Buffer, o.content, o.removed, o.batches, o.closed, res.Blocked, res.Horizon, res.Now)
	}
	add := func(prop, sig, d string) { fs = append(fs, finding{prop, sig, d + "\n" + ctx()}) }
	for _, f := range res.Faults {
		switch {
		case strings.HasPrefix(f, "data race"):
			name := strings.TrimPrefix(f, "data race on ")
			if i := strings.IndexAny(name, ":\n"); i >= 0 {
				name = name[:i]
			}
			add("C05", "C05/race/"+slug(name), f)
		case strings.Contains(f, "send on closed"):
			add("C05", "C05/tail/send-on-closed-channel", f)
			add("C15", "C15/tailchan/"+mode+"/runtime-fault/send-on-closed-channel", f)
		default:
			add("C05", "C05/tail/runtime-fault/"+slug(f), f)
			add("C15", "C15/tailchan/"+mode+"/runtime-fault/"+slug(f), f)
		}
	}
	if res.StepLimit {
		add("C15", "C15/tailchan/"+mode+"/step-limit", "execution did not become quiescent")
		return fs
	}
	if !o.closed {
		// both files were removed after their bytes were read: plain follow ends
		// both streams, so the batcher must close
		add("C15", "C15/tailchan/"+mode+"/not-ended-after-removal", "both files were removed after all their bytes had been read, but the batch channel was never closed")
		add("C05", "C05/tail/did-not-terminate", "both files were removed after all their bytes had been read, but the batch channel was never closed")
		return fs
	}
	if o.readErrs != 0 {
		add("C15", "C15/tailchan/"+mode+"/read-errors", fmt.Sprintf("%d read errors counted although nothing failed", o.readErrs))
	}
	ps := paths(c)
	for i := 0; i < 2; i++ {
		if c.OneFile && i == 1 {
			continue
		}
		want := refLines(string(o.content[i]))
		var got []string
		next := uint64(1)
		for _, b := range o.batches {
			if b.src != ps[i] {
				continue
			}
			if b.start != next {
				add("C15", "C15/tailchan/"+mode+"/wrong-line-number", fmt.Sprintf("a batch of file %d starts at line %d, %d lines were delivered before it", i, b.start, next-1))
			}
			if len(b.lines) == 0 {
				add("C15", "C15/tailchan/"+mode+"/empty-batch", "an empty batch was sent")
			}
			next = b.start + uint64(len(b.lines))
			got = append(got, b.lines...)
		}
		if strings.Join(got, "\n") != strings.Join(want, "\n") || len(got) != len(want) {
			cls := "lines-differ"
			switch {
			case len(got) < len(want) && strings.HasPrefix(strings.Join(want, "\n"), strings.Join(got, "\n")):
				cls = "lines-missing"
			case len(got) > len(want):
				cls = "lines-duplicated-or-extra"
			}
			add("C15", "C15/tailchan/"+mode+"/"+cls, fmt.Sprintf("file %d: delivered lines %q, appended lines %q", i, got, want))
		}
	}
	for _, b := range o.batches {
		if b.src != ps[0] && b.src != ps[1] {
			add("C15", "C15/tailchan/"+mode+"/unknown-source", fmt.Sprintf("batch from source %q", b.src))
		}
	}
	return fs
}

func run(ex vrt.Chooser, c *Config, race, trace bool) (*obs, *vrt.Result, []finding) {
	o := &obs{}
	opts := vrt.Options{Race: race, Trace: trace, MaxAdvances: 3*len(c.History) + 12, MaxSteps: 40000}
	if c.Jumps {
		opts.ClockJumps = []time.Duration{250 * time.Millisecond}
	}
	res := vrt.Run(ex, opts, func() { body(c, o) })
	return o, res, check(c, o, res)
}

// ---------------------------------------------------------------- enumeration

func histories(maxLen int, alphabet []string) [][]string {
	out := [][]string{{}}
	var rec func(prefix []string)
	rec = func(prefix []string) {
		if len(prefix) == maxLen {
			return
		}
		for _, op := range alphabet {
			// a removal at most once per file; nothing is appended to a removed file
			skip := false
			for _, p := range prefix {
				if p == op && (op == "R" || op == "S") {
					skip = true
				}
				if p == "R" && appendOps[op].data != "" && appendOps[op].file == 0 && op != "R" && op != "S" {
					skip = true
				}
				if p == "S" && appendOps[op].data != "" && appendOps[op].file == 1 && op != "R" && op != "S" {
					skip = true
				}
			}
			if skip {
				continue
			}
			h := append(append([]string{}, prefix...), op)
			out = append(out, h)
			rec(h)
		}
	}
	rec(nil)
	return out
}

var curated = [][]string{
	{"P", "Q", "A"}, {"A", "R", "X"}, {"A", "X", "E", "S"}, {"X", "S", "A", "A"}, {"P", "Q", "R", "X"},
	{"A", "A", "A", "X"}, {"P", "X", "Q", "E"}, {"E", "E", "S", "P"}, {"A", "X", "R", "S"},
}

func configs(prop, tier string) []*Config {
	var out []*Config
	quick := tier != "thorough"
	type pass struct{ maxLen, bound int }
	passes := []pass{{2, 1}, {1, 2}}
	curatedBound := 1
	if !quick {
		passes = []pass{{3, 1}, {2, 2}, {1, 3}}
		curatedBound = 2
	}
	if prop == "C05" {
		// the race detector needs no deep bound: it reasons on happens-before,
		// not on physical overlap
		passes = []pass{{2, 1}}
		if !quick {
			passes = []pass{{3, 1}, {2, 2}}
		}
	}
	alpha := []string{"A", "X", "P", "Q", "E", "R", "S"}
	plumb := [][3]int{{1, 1, 0}, {2, 1, 1}}
	if !quick {
		plumb = append(plumb, [3]int{2, 2, 0}, [3]int{1, 2, 1})
	}
	inits := [][2]string{{"", ""}, {"i\n", "j"}}
	for _, ps := range passes {
		for _, poll := range []bool{false, true} {
			for _, h := range histories(ps.maxLen, alpha) {
				for _, pl := range plumb {
					for ii, init := range inits {
						if quick && ii == 1 && len(h) > 1 {
							continue
						}
						out = append(out, &Config{Poll: poll, Initial: init, History: h, Batch: pl[0], Buffer: pl[1], Jumps: pl[2] == 1, Bound: ps.bound})
					}
				}
			}
		}
	}
	for _, poll := range []bool{false, true} {
		for _, h := range curated {
			for _, pl := range plumb {
				for _, init := range inits {
					out = append(out, &Config{Poll: poll, Initial: init, History: h, Batch: pl[0], Buffer: pl[1], Jumps: pl[2] == 1, Bound: curatedBound})
				}
			}
		}
	}
	// the same base name in two directories (events of one directory must not
	// be taken for the other file's): notify mode, every history up to 2
	// operations and the curated ones
	for _, h := range append(histories(2, alpha), curated...) {
		for _, init := range inits {
			out = append(out, &Config{Poll: false, Initial: init, History: h, Batch: 1, Buffer: 1, SameBase: true, Bound: curatedBound})
		}
	}
	// one file only (the WaitGroup/close logic with a single reader)
	for _, poll := range []bool{false, true} {
		for _, h := range [][]string{{}, {"A"}, {"P", "Q"}, {"A", "R"}, {"P"}} {
			out = append(out, &Config{Poll: poll, History: h, Batch: 1, Buffer: 1, OneFile: true, Bound: passes[0].bound + 2})
		}
	}
	return out
}

type Case struct {
	Config *Config  `json:"config"`
	Vector []int    `json:"vector"`
	Trace  []string `json:"schedule,omitempty"`
}

func worker(w *runner.W) {
	cfgs := configs(w.Prop, w.Tier)
	race := w.Prop == "C05"
	var n int64
	deepest := 0
	for _, c := range cfgs {
		if c.Bound > deepest {
			deepest = c.Bound
		}
		n++
		if !w.Owns(n) {
			continue
		}
		if w.Expired() {
			return
		}
		ex := mc.New(c.Bound)
		for ex.Next() {
			w.SetCase(func() any { return Case{Config: c, Vector: ex.Vector()} })
			o, res, fs := run(ex, c, race, false)
			ex.EndExecution()
			w.Eval(len(o.batches) > 0 && res.Switches > 1)
			w.Add("transitions", int64(res.Steps))
			for _, f := range fs {
				if f.prop == w.Prop {
					w.Violation(f.sig, f.detail, Case{Config: c, Vector: ex.Vector()})
				}
			}
			var order []string
			for _, b := range o.batches {
				order = append(order, b.src[len(b.src)-1:]+strconv.Itoa(len(b.lines)))
			}
			w.Outcome(modeName(c), strings.Join(c.History, ""), strings.Join(order, ","), strconv.FormatBool(o.closed))
			if w.WantSample() && res.Switches > 6 && len(c.History) >= 2 {
				_, r2, _ := run(replayOf(ex.Vector()), c, race, true)
				w.Sample(Case{Config: c, Vector: ex.Vector(), Trace: r2.Trace})
			}
		}
		w.Add("choice_points", ex.ChoicePoints)
		w.Add("histories_x_configurations", 1)
		w.Max("max_depth", int64(ex.MaxDepth))
	}
	w.Max("deviation_bound_deepest_configurations", int64(deepest))
}

func replayOf(vec []int) *mc.Explorer {
	ex := mc.NewReplay(vec)
	ex.Next()
	return ex
}

func replay(w *runner.W, raw json.RawMessage) {
	var c Case
	if err := json.Unmarshal(raw, &c); err != nil {
		panic(err)
	}
	_, res, fs := run(replayOf(c.Vector), c.Config, w.Prop == "C05", true)
	for _, f := range fs {
		if f.prop == w.Prop {
			w.Violation(f.sig, f.detail+"\nschedule: "+strings.Join(res.Trace, " "), c)
		}
	}
}

func main() {
	sort.Strings(nil)
	runner.Main(&runner.Spec{
		Name:       "tailchan",
		Properties: []string{"C15", "C05"},
		Level:      "model_checking",
		Rule: func(prop, tier string) string {
			r := "real batchers.TailFilesToChan following two files (in one directory, and with the same base name in two directories; and one file) on the virtual file system + virtual inotify queue under the controlled runtime, notify and polling readers, batch size 1-2, batch buffer 1-2, the 250 ms time flush with clock jumps as choices; writer histories over {append 'a LF' / 'p' / 'q LF' to file 0, append 'xy LF' / 'LF' to file 1, remove file 0 / file 1 once all its bytes were read}, completed by the missing removals, initial contents {empty, 'i LF' / 'j'}; "
			if prop == "C05" {
				return r + "every schedule with at most 1 deviation (quick: every history up to 2 operations; thorough: up to 3, and up to 2 with 2 deviations; plus 9 longer curated histories) with the vector-clock happens-before detector on the fields and package variables of batchers, followreader, extractor and logger; a data race, a send on a closed channel or a batcher that never closes after both files were removed is a violation. States = distinct (mode, history, batch arrival order); transitions = scheduling steps. Non-trivial = at least one batch and more than one goroutine switch."
			}
			return r + "every schedule with at most B deviations (quick: every history up to 2 operations with B=1 and up to 1 with B=2, 9 curated histories of 3-4 operations with B=1; thorough: up to 3 with B=1, up to 2 with B=2, up to 1 with B=3, the curated ones with B=2; single-file configurations with B=3). Oracle at the end: the batch channel is closed; per source the delivered lines are exactly the appended lines in order (a final unterminated rest is a line), every batch starts at the line number following the previous batch of its source, no empty batch, no read error counted. States = distinct (mode, history, batch arrival order); transitions = scheduling steps. Non-trivial = at least one batch and more than one goroutine switch."
		},
		Assumptions: func(string) []string {
			return []string{"plain follow only (without re-open a removal ends the stream, which gives the harness a definite end state); re-open and --tail are decided at the reader level by the follow harness", "a file is removed only after the reader has read all its bytes ('once delivered data is followed by removal')", "sequentially consistent memory; unsynchronised accesses are reported by the vector-clock detector"}
		},
		Worker:         worker,
		Replay:         replay,
		HangSeconds:    120,
		QuickBudget:    4 * time.Minute,
		ThoroughBudget: 20 * time.Minute,
	})
}
