package main

import (
	"fmt"
	"os"
	"strconv"
	"strings"

	"rare/pkg/expressions"
	"rare/pkg/expressions/funcfile"
	"rare/pkg/expressions/funclib"
	"verif/harness/exprgen"
)

// The SHARED-TEXT family of part (ii) of C10: the SAME argument text in several
// definitions of the funcs file(s).
//
// "A function loaded from a funcs file ... behaves exactly like its body written
// inline - {name a b ..} equals the body with {0}, {1}, .. replaced by the call's
// arguments". All definitions of all --funcs / RARE_FUNC_FILES files are compiled
// by ONE long-lived compiler object (main.go's Before hook), and that compiler's
// function table changes between two definitions (funcfile registers every
// definition with compiler.Func, a name can be defined again). The character-
// identical text `{tag {0}}`, `{time {0}}`, `{@map {@split {0} ,} {tag {0}}}` in
// two definitions therefore means two different things: {0} is each function's
// own first argument, `tag` is whatever the name means where the definition
// stands, and a stage with run-time state (the layout {time}/{buckettime}
// remember, the table of {lookup}, the pooled sub-context of @map) belongs to the
// one occurrence it was compiled for. Anything that lets two occurrences of one
// text share a compiled form (a memo of compiled templates or arguments keyed by
// their text, a pooled stage) shows as a function that no longer equals its body.
//
// A case is
//
//	a shared text T of the pool below (with the helper `tag` it calls, if any, in
//	two versions h1, h2)
//	x a file = a sequence of 2..4 (thorough 5) definitions over {h1, h2, ua, ub, uc}
//	  with at least two occurrences of ua/ub/uc (each of which contains T), so the
//	  helper is (re)defined before / between / after the definitions that use it,
//	  or not at all, and a user may itself be defined twice
//	x the place of T in the three users (an argument of a built-in, the whole body,
//	  an argument two levels deep, a statement between text)
//	x one file or two files split before every definition, loaded exactly as
//	  main.go does, x comment/blank lines
//
// and then ONE long-lived set of compiled call sites ({ua {0}}, {ub {1}},
// {uc {2}}, {tag {3}}; each user is fed its own column, the columns hold the same
// kind of value in different notations) is evaluated in every order of the call
// sites over all rows, plus constant-argument calls and all calls in one
// expression. Oracle: the names family's - ONE resolution policy (names.go) must
// explain the set of loaded names and every value, the expected value being the
// harness's tree-level inlining under that policy compiled afresh by the
// built-in table.
//
// What is stateful by design stays out of the oracle's way: docs/usage/
// expressions.md says of {time} without a format "The first seen date will
// determine the format for all dates going forward", and on the unchanged tree
// the body of a funcs-file function is compiled once for all its call sites. So
// every definition is called with ONE column only, and a column holds ONE
// notation in all rows: each occurrence of the text, in the function and in its
// inlined form alike, sees a single notation.

type sharedText struct {
	id     string
	text   *exprgen.Node
	helper string           // the function T calls that the file (re)defines; "" = none
	hBody  [2]*exprgen.Node // its two versions
	hArgs  []*exprgen.Node  // how the command line calls it
	rows   [][]string       // columns 0..2: what ua, ub, uc are called with; column 3: the helper's
}

var sharedUsers = []string{"ua", "ub", "uc"}

func sharedTexts() []sharedText {
	words := [][]string{{"AbC", "dEf", "Gh i", "jKl"}, {"x", "", "Zz", "9"}}
	lists := [][]string{{"a,B,c", "D", "e,,f", "g,H"}, {"", "q,r", "S", "t"}}
	// three notations of a date, one per column, the same in every row
	dates := [][]string{
		{"14/Apr/2016:19:12:25 +0200", "2016-04-15T03:12:25Z", "2016-04-16 05:06:07", "17 Apr 2016"},
		{"02/Jan/2017:01:02:03 +0000", "2017-01-03T04:05:06Z", "2017-01-04 07:08:09", "x"},
	}
	tagA := C("format", L("<%s>"), R(0))
	tagB := C("format", L("[%s]"), R(0))
	return []sharedText{
		{id: "helper-call", text: C("tag", R(0)), helper: "tag", hBody: [2]*exprgen.Node{tagA, tagB}, rows: words},
		{id: "helper-call-inside-builtin", text: C("lower", C("tag", R(0))), helper: "tag", hBody: [2]*exprgen.Node{tagA, tagB}, rows: words},
		{id: "helper-call-with-key", text: C("tag", R(0), K("key")), helper: "tag",
			hBody: [2]*exprgen.Node{C("format", L("<%s;%s>"), R(0), R(1)), C("format", L("[%s;%s]"), R(1), R(0))},
			hArgs: []*exprgen.Node{R(3), K("key")}, rows: words},
		// the helper has the name of a built-in: before its definition the text means the built-in
		{id: "helper-named-like-a-builtin", text: C("upper", R(0)), helper: "upper", hBody: [2]*exprgen.Node{tagA, C("lower", R(0))}, rows: words},
		{id: "map-over-helper-call", text: C("@map", C("@split", R(0), W(",")), C("tag", R(0))), helper: "tag", hBody: [2]*exprgen.Node{tagA, tagB}, rows: lists},
		// stages with run-time state
		{id: "time-remembered-layout", text: C("time", R(0)), rows: dates},
		{id: "buckettime-remembered-layout", text: C("buckettime", R(0), W("days")), rows: dates},
		{id: "time-of-helper-call", text: C("time", C("tag", R(0))), helper: "tag", hBody: [2]*exprgen.Node{R(0), C("select", R(0), W("0"))}, rows: dates},
		{id: "lookup-in-loaded-table", text: C("lookup", R(0), C("load", W(exprgen.LoadFixture))), rows: [][]string{{"a", "c", "zz", "b"}, {"c", "a", "", "d"}}},
	}
}

func findSharedText(id string) sharedText {
	for _, t := range sharedTexts() {
		if t.id == id {
			return t
		}
	}
	panic("shared: no text " + id)
}

// where T stands in ua, ub, uc
var sharedFormVectors = [][3]string{
	{"arg", "arg", "whole"},
	{"whole", "whole", "arg"},
	{"deep", "around", "arg"},
	// thorough
	{"around", "deep", "whole"},
	{"arg", "deep", "around"},
}

func sharedFormCount(thorough bool) int {
	if thorough {
		return len(sharedFormVectors)
	}
	return 3
}

func sharedBody(name, form string, t *exprgen.Node) *exprgen.Node {
	switch form {
	case "arg": // an argument of a built-in
		return C("format", L(name+"(%s)"), t)
	case "deep": // an argument two levels deep
		return C("format", L(name+"/%s/"), C("coalesce", t, W("x")))
	case "whole": // the whole body
		return t
	case "around": // a statement between text
		return S(L(name+":"), t, L(";"))
	}
	panic("shared: form " + form)
}

func (t sharedText) alphabet() []string {
	if t.helper == "" {
		return sharedUsers
	}
	return append([]string{"h1", "h2"}, sharedUsers...)
}

func userColumn(sym string) int {
	for i, u := range sharedUsers {
		if u == sym {
			return i
		}
	}
	return -1
}

// sharedSeqs: every sequence of minLen..maxLen symbols in which the shared text
// occurs at least twice.
func sharedSeqs(alphabet []string, minLen, maxLen int) [][]string {
	var out [][]string
	var rec func(cur []string, n int)
	rec = func(cur []string, n int) {
		if len(cur) == n {
			users := 0
			for _, s := range cur {
				if userColumn(s) >= 0 {
					users++
				}
			}
			if users >= 2 {
				out = append(out, append([]string{}, cur...))
			}
			return
		}
		for _, a := range alphabet {
			rec(append(cur, a), n)
		}
	}
	for n := minLen; n <= maxLen; n++ {
		rec(nil, n)
	}
	return out
}

func sharedMaxLen(thorough bool) int {
	if thorough {
		return 5
	}
	return 4
}

func (t sharedText) defs(seq []string, forms int) []nameDef {
	fv := sharedFormVectors[forms]
	var out []nameDef
	for _, s := range seq {
		switch s {
		case "h1":
			out = append(out, nameDef{t.helper, "helper", t.hBody[0]})
		case "h2":
			out = append(out, nameDef{t.helper, "helper-again", t.hBody[1]})
		default:
			c := userColumn(s)
			if c < 0 {
				panic("shared: symbol " + s)
			}
			out = append(out, nameDef{s, "user", sharedBody(s, fv[c], t.text)})
		}
	}
	return out
}

type sharedProbe struct {
	call   *exprgen.Node
	path   string // call-of-definition | call-of-helper | several-calls-in-one-expression
	direct bool   // one of the call sites whose evaluation order is permuted
}

// permutation number k (of n!) in lexicographic order
func nthPerm(n, k int) []int {
	items := make([]int, n)
	for i := range items {
		items[i] = i
	}
	fact := 1
	for i := 2; i <= n; i++ {
		fact *= i
	}
	k %= fact
	out := make([]int, 0, n)
	for i := n; i >= 1; i-- {
		fact /= i
		j := k / fact
		k %= fact
		out = append(out, items[j])
		items = append(items[:j], items[j+1:]...)
	}
	return out
}

func factorial(n int) int {
	f := 1
	for i := 2; i <= n; i++ {
		f *= i
	}
	return f
}

// probes: the call sites compiled "on the command line" once the files are
// loaded. The direct ones come first; order = the permutation in which the
// all-in-one expression lists them.
func (t sharedText) probes(seq []string, order int) []sharedProbe {
	var out []sharedProbe
	present := map[string]bool{}
	for _, s := range seq {
		present[s] = true
	}
	for c, u := range sharedUsers {
		if present[u] {
			out = append(out, sharedProbe{C(u, R(c)), "call-of-definition", true})
		}
	}
	if t.helper != "" {
		args := t.hArgs
		if args == nil {
			args = []*exprgen.Node{R(3)}
		}
		out = append(out, sharedProbe{C(t.helper, args...), "call-of-helper", true})
	}
	nd := len(out)
	// a constant argument (folded when the optimiser is on): the value of the user's column in the first row
	for c, u := range sharedUsers {
		if present[u] {
			out = append(out, sharedProbe{C(u, L(t.rows[0][c])), "call-of-definition", false})
		}
	}
	var all []*exprgen.Node
	for i, pi := range nthPerm(nd, order) {
		if i > 0 {
			all = append(all, L("|"))
		}
		all = append(all, out[pi].call)
	}
	out = append(out, sharedProbe{S(all...), "several-calls-in-one-expression", false})
	return out
}

func sharedDirect(probes []sharedProbe) int {
	n := 0
	for _, p := range probes {
		if p.direct {
			n++
		}
	}
	return n
}

type sharedCase struct {
	Text   string   `json:"shared_text"`
	Seq    []string `json:"definitions"`
	Forms  int      `json:"place_of_the_text_in_ua_ub_uc"`
	Split  int      `json:"second_file_starts_at_definition"` // 0: one file
	Filler bool     `json:"comments_and_blank_lines"`
	Order  int      `json:"first_evaluation_order"`
	// the call sites are compiled by one builder per build (as `rare reduce` compiles its
	// expressions) instead of a fresh builder per call site (as `rare expression`, the extractor do)
	OneBuilder bool `json:"call_sites_compiled_by_one_builder,omitempty"`
}

func sharedRule(tier string) string {
	th := tier == "thorough"
	var ids []string
	for _, t := range sharedTexts() {
		ids = append(ids, t.id+"="+t.text.Print(1))
	}
	return fmt.Sprintf("shared-text family (the character-identical argument text in several definitions, all compiled by the one compiler main.go loads every funcs file with): %d shared texts %q (calls of a helper `tag` the file defines in two versions - plain, inside a built-in, with a key argument, under the name of a built-in, inside @map - and stages with run-time state: time/buckettime remembering the layout of the first date, time of a helper call, lookup in a loaded table) "+
		"x every sequence of 2..%d definitions over {h1, h2 = the two versions of the helper; ua, ub, uc = users containing the text} with at least two users (the helper defined or redefined before / between / after the users or not at all, users defined twice) "+
		"x %d placements of the text in (ua, ub, uc) of %v (argument of a built-in / whole body / argument two levels deep / statement between text) x one file or two files split before every definition%s, loaded as main.go's Before hook does (one funclib.NewKeyBuilder(), LoadDefinitionsFile + TryAddFunctions per file); "+
		"then one long-lived set of call sites {ua {0}}, {ub {1}}, {uc {2}}, {tag {3}} compiled by funclib.NewKeyBuilderEx(true/false) (alternating with the case: a fresh builder per call site as `rare expression` and the extractor use it, or one builder for all call sites as `rare reduce` does) is evaluated in every order of the call sites (the first order rotates with the case) on 2 rows whose columns hold the same kind of value in different notations (dates: nginx, RFC 3339, `2006-01-02 15:04:05`), plus a constant-argument call of every user and all calls in one expression; "+
		"oracle: as in the names family ONE of the 4 resolution policies must explain the loaded names and every value in every round, the expected value being the harness's inlining under that policy compiled afresh by the built-in table; every definition is fed one column only, so that what {time} documents as remembered (the first seen layout) is the same for the function and for its inlined body",
		len(ids), ids, sharedMaxLen(th), sharedFormCount(th), sharedFormVectors[:sharedFormCount(th)],
		map[bool]string{true: " x with/without comment and blank lines (files of 5 definitions: the first 3 placements, with or without comment lines alternating)", false: " x with or without comment and blank lines (alternating)"}[th])
}

func (e *env) sharedPhase(unit *int64) {
	w := e.w
	thorough := !w.Quick()
	var caseNo int
	for _, t := range sharedTexts() {
		for si, seq := range sharedSeqs(t.alphabet(), 2, sharedMaxLen(thorough)) {
			*unit++
			nCases := sharedFormCount(thorough) * len(seq)
			if !w.Owns(*unit) {
				caseNo += nCases
				continue
			}
			if w.Expired() {
				return
			}
			for forms := 0; forms < sharedFormCount(thorough); forms++ {
				for split := 0; split < len(seq); split++ {
					caseNo++
					if forms >= sharedFormCount(false) && len(seq) > sharedMaxLen(false) {
						continue // the thorough tier's extra placements only with the files of the quick tier
					}
					fillers := []bool{(si+split+forms)%2 == 1}
					if thorough && len(seq) <= sharedMaxLen(false) {
						fillers = []bool{false, true}
					}
					for _, filler := range fillers {
						// who compiles the call sites alternates with the case (and with the filler)
						one := (caseNo+map[bool]int{true: 1}[filler])%2 == 1
						e.sharedOne(sharedCase{Text: t.id, Seq: seq, Forms: forms, Split: split, Filler: filler, Order: caseNo, OneBuilder: one})
					}
				}
			}
		}
	}
}

type sharedGot struct {
	compiles, skip bool
	vals           []string // per row, first round
	// the first value of a later round that differs from the first round's
	unstable     bool
	uRound, uRow int
	uVal         string
	c            *expressions.CompiledKeyBuilder
}

func (e *env) sharedOne(sc sharedCase) {
	w := e.w
	tx := findSharedText(sc.Text)
	defs := tx.defs(sc.Seq, sc.Forms)
	probes := tx.probes(sc.Seq, sc.Order)
	nd := sharedDirect(probes)
	files := nameFiles(defs, sc.Split, sc.Filler)
	mk := func(where string) Case {
		return Case{Part: "funcs", Body: tx.id, Where: where, Shared: &sc}
	}
	cf := func() any { return mk("") }
	w.SetCase(cf)
	currentCase.Store(cf)
	ctxs := make([]exprgen.Ctx, len(tx.rows))
	for i, r := range tx.rows {
		ctxs[i] = exprgen.Ctx{Name: fmt.Sprintf("row %d %q", i, r), Ctx: exprgen.ArrayCtx(r, exprgen.StdKeys())}
	}
	sigBase := "C10/funcs/shared-text/" + tx.id
	showFiles := ""
	for i, f := range files {
		showFiles += fmt.Sprintf("file %d:\n%s", i+1, f)
	}

	// expected results per policy, computed while funclib.Additional is empty;
	// every inlined call site is compiled afresh (its stages are its own)
	clearAdditional()
	scopes := make([]*nameScope, len(namePolicies))
	expect := make([][]nameExpect, len(namePolicies))
	type refKey struct {
		probe int
		tmpl  string
	}
	refMemo := map[refKey]nameExpect{} // of this case only: two policies often inline a call site to the same text
	for pi, pol := range namePolicies {
		scope := newNameScope(defs, pol)
		scopes[pi] = scope
		expect[pi] = make([]nameExpect, len(probes))
		for qi, q := range probes {
			x := &expect[pi][qi]
			inl, ok := scope.inline(q.call, len(defs), 0)
			if !ok {
				continue
			}
			x.compiles = true
			if seqAsArgument(inl, false) {
				x.skip = true
				continue
			}
			x.tmpl = inl.Print(0)
			k := refKey{qi, x.tmpl}
			if m, have := refMemo[k]; have {
				*x = m
				continue
			}
			func() {
				var ref *expressions.CompiledKeyBuilder
				var rerr *expressions.CompilerErrors
				if p := catch(func() { ref, rerr = funclib.NewKeyBuilderEx(false).Compile(x.tmpl) }); p != nil || rerr != nil || ref == nil {
					x.skip = true
					return
				}
				for _, cx := range ctxs {
					var v string
					if p := catch(func() { v = ref.BuildKey(cx.Ctx) }); p != nil {
						x.skip = true
						return
					}
					x.vals = append(x.vals, v)
				}
			}()
			refMemo[k] = *x
		}
	}

	// the real thing: main.go's Before hook
	observed := map[string]bool{}
	var loadErrs []string
	defer clearAdditional()
	if p := catch(func() {
		cmplr := funclib.NewKeyBuilder()
		for i, text := range files {
			fileSeq++
			path := fmt.Sprintf("%s/s%d-%d.funcs", scratchDir, fileSeq%4, i)
			if err := os.WriteFile(path, []byte(text), 0o644); err != nil {
				panic(err)
			}
			fns, err := funcfile.LoadDefinitionsFile(cmplr, path)
			for n := range fns {
				observed[n] = true
			}
			if err != nil {
				loadErrs = append(loadErrs, err.Error())
			}
			funclib.TryAddFunctions(fns, err)
		}
	}); p != nil {
		w.Eval(true)
		w.Violation(sigBase+"/load-panics", fmt.Sprintf("loading the funcs file(s) panics: %v\n%s", p.val, showFiles), mk("load"))
		return
	}
	obs := strings.Join(sortedKeys(observed), " ")
	var admissible []int
	for pi, scope := range scopes {
		if strings.Join(scope.loadedNames(), " ") == obs {
			admissible = append(admissible, pi)
		}
	}
	if len(admissible) == 0 {
		w.Eval(true)
		detail := fmt.Sprintf("the set of loaded names %q is explained by no reading of the file(s) (errors: %q)\n", sortedKeys(observed), loadErrs)
		for pi, scope := range scopes {
			detail += fmt.Sprintf("  if %s: %q\n", namePolicies[pi], scope.loadedNames())
		}
		w.Violation(sigBase+"/loaded-names", detail+showFiles, mk("load"))
		return
	}

	// one long-lived set of compiled call sites per build
	real := make([][2]sharedGot, len(probes))
	var shared [2]*expressions.KeyBuilder
	builder := func(o int) *expressions.KeyBuilder {
		if !sc.OneBuilder {
			return funclib.NewKeyBuilderEx(o == 0)
		}
		if shared[o] == nil {
			shared[o] = funclib.NewKeyBuilderEx(o == 0)
		}
		return shared[o]
	}
	for qi, q := range probes {
		callT := q.call.Print(0)
		for o := 0; o < 2; o++ {
			g := &real[qi][o]
			var cerr *expressions.CompilerErrors
			if p := catch(func() { g.c, cerr = builder(o).Compile(callT) }); p != nil {
				w.Add("skipped_compile_panics_c08", 1)
				g.skip = true
				continue
			}
			if cerr != nil || g.c == nil {
				g.c = nil
				continue
			}
			g.compiles = true
		}
	}
	// rounds: every order of the direct call sites, starting with the case's own;
	// after the direct ones of a round the other call sites
	rounds := factorial(nd)
	evalOne := func(qi, o, round, row int) {
		g := &real[qi][o]
		if !g.compiles || g.skip {
			return
		}
		var v string
		if p := catch(func() { v = g.c.BuildKey(ctxs[row].Ctx) }); p != nil {
			w.Add("skipped_eval_panics_c08", 1)
			g.skip = true
			return
		}
		if round == 0 {
			g.vals = append(g.vals, v)
			return
		}
		if !g.unstable && v != g.vals[row] {
			g.unstable, g.uRound, g.uRow, g.uVal = true, round, row, v
		}
	}
	for round := 0; round < rounds; round++ {
		perm := nthPerm(nd, sc.Order+round)
		for o := 0; o < 2; o++ {
			for row := range ctxs {
				for _, qi := range perm {
					evalOne(qi, o, round, row)
				}
				for qi := nd; qi < len(probes); qi++ {
					evalOne(qi, o, round, row)
				}
			}
		}
		w.Add("funcs_shared_text_rounds", 1)
	}
	compared := 0
	for qi := range probes {
		for o := 0; o < 2; o++ {
			if g := real[qi][o]; g.compiles && !g.skip {
				compared++
			}
		}
	}

	type miss struct{ probe, build, row int }
	misses := func(pi int) []miss {
		var out []miss
		for qi := range probes {
			x := expect[pi][qi]
			if x.skip {
				continue
			}
			for o := 0; o < 2; o++ {
				g := real[qi][o]
				if g.skip {
					continue
				}
				if g.compiles != x.compiles {
					out = append(out, miss{qi, o, -1})
					continue
				}
				if !g.compiles {
					continue
				}
				found := false
				for ri := range g.vals {
					if g.vals[ri] != x.vals[ri] {
						out = append(out, miss{qi, o, ri})
						found = true
						break
					}
				}
				if !found && g.unstable {
					out = append(out, miss{qi, o, -2})
				}
			}
		}
		return out
	}
	best, bestMiss := -1, []miss(nil)
	for _, pi := range admissible {
		m := misses(pi)
		if best < 0 || (len(m) == 0 && len(bestMiss) > 0) {
			best, bestMiss = pi, m
		}
	}
	w.Eval(compared > 0)
	w.Add("funcs_shared_text_cases", 1)
	sum := ""
	for qi := range probes {
		if x := expect[best][qi]; !x.skip && x.compiles && len(sum) < 200 {
			sum += "|" + strings.Join(x.vals, ",")
		}
	}
	w.Outcome("funcs-shared", tx.id, strings.Join(sc.Seq, " "), strconv.Itoa(sc.Forms), strconv.Itoa(best), sum)
	if len(bestMiss) == 0 {
		if w.WantSample() && sc.Split == 1 && len(sc.Seq) == 4 && sc.Seq[0] == "h1" && sc.Seq[2] == "h2" {
			w.Sample(mk(""))
		}
		return
	}
	// one report per case: the first call site the reading does not explain
	m := bestMiss[0]
	q := probes[m.probe]
	g := real[m.probe][m.build]
	detail := fmt.Sprintf("the call %q (optimise=%v), compiled once after loading the funcs file(s) the way main.go does and evaluated with the other call sites in every order, ", q.call.Print(0), m.build == 0)
	switch {
	case !g.compiles:
		detail += "does not compile"
	case m.row >= 0:
		detail += fmt.Sprintf("returns %q on %s", g.vals[m.row], ctxs[m.row].Name)
	case m.row == -2:
		detail += fmt.Sprintf("returns %q on %s in the first round and %q in round %d (orders of the call sites: %v, then %v)", g.vals[g.uRow], ctxs[g.uRow].Name, g.uVal, g.uRound, nthPerm(nd, sc.Order), nthPerm(nd, sc.Order+g.uRound))
	default:
		detail += "compiles"
	}
	detail += fmt.Sprintf("; loaded names: %q\nthe text %s stands in several definitions; no reading of the file(s) explains all %d call sites of this case; against the reading marked * %d (call site, build) pairs differ:\n", sortedKeys(observed), tx.text.Print(1), len(probes), len(bestMiss))
	for _, pi := range admissible {
		x := expect[pi][m.probe]
		mark := "  "
		if pi == best {
			mark = "* "
		}
		switch {
		case x.skip:
			detail += fmt.Sprintf("%sif %s: (no inline form)\n", mark, namePolicies[pi])
		case !x.compiles:
			detail += fmt.Sprintf("%sif %s: the call names nothing that is loaded (compile error)\n", mark, namePolicies[pi])
		case m.row >= 0:
			detail += fmt.Sprintf("%sif %s: the body written inline is %q = %q\n", mark, namePolicies[pi], x.tmpl, x.vals[m.row])
		case m.row == -2:
			detail += fmt.Sprintf("%sif %s: the body written inline is %q = %q whatever was evaluated before\n", mark, namePolicies[pi], x.tmpl, x.vals[g.uRow])
		default:
			detail += fmt.Sprintf("%sif %s: the body written inline is %q\n", mark, namePolicies[pi], x.tmpl)
		}
	}
	w.Violation(sigBase+"/"+q.path, detail+showFiles, mk(q.path))
}
