package main

import (
	"fmt"
	"os"
	"sort"
	"strconv"
	"strings"

	"rare/pkg/expressions"
	"rare/pkg/expressions/funcfile"
	"rare/pkg/expressions/funclib"
	"verif/harness/exprgen"
)

// The NAMES family of part (ii) of C10: WHICH function a name means.
//
// "A function loaded from a funcs file ... behaves exactly like its body
// written inline - {name a b ..} equals the body with {0}, {1}, .. replaced by
// the call's arguments". The statement makes no exception for any name: a
// funcs-file function called `percent`, `upper`, `@map` (names of built-ins),
// `Upper` (a built-in's name in another case), `a.b`, `9x`, `é`, `5` must
// behave like its body wherever it is called from. Three places resolve a name:
//
//   - the compiler the funcs files are loaded with (main.go's Before hook: one
//     funclib.NewKeyBuilder() for all files; funcfile registers every definition
//     into it with compiler.Func) - it decides what a LATER definition calls;
//   - the same compiler before the definition was read - it decides what an
//     EARLIER definition calls (a forward reference);
//   - funclib.Additional, filled by funclib.TryAddFunctions after every file and
//     merged with funclib.Builtins by funclib.NewKeyBuilderEx - it decides what
//     an expression on the COMMAND LINE calls.
//
// All three must agree about which function a name means. The reference is the
// harness's own tree-level inlining under a RESOLUTION POLICY (below), the
// inlined template evaluated by the plain built-in table without optimisation
// while funclib.Additional is empty. The statement is silent about two things,
// so every policy of the product is accepted, but ONE policy must explain the
// whole case (the set of loaded names and every probe of every call path):
//
//   - scope: does a name inside a body mean what it meant when the definition
//     was read ("lexical": definitions before it, else the built-in; a name that
//     is neither makes the definition fail to load) or what it means once all
//     files are loaded ("global": any other definition, else the built-in)?
//     The unchanged tree is lexical.
//   - a name defined twice: the last definition or the first?
//     The unchanged tree: the last one read so far.
//
// Under no policy does a built-in win over a loaded function of the same name
// on the command line: that would be a loaded function that does not behave
// like its body.

// ---- the enumerated space ----------------------------------------------------------

type nameSpec struct {
	name  string
	class string        // builtin-scalar | builtin-array | case-variant-of-builtin | odd-spelling | plain
	body  *exprgen.Node // nil: the generic body
	one   bool          // the definitions of the file call it with one argument (the built-in of that name takes one, or wants a constant second)
}

func nameSpecs() []nameSpec {
	return []nameSpec{
		// names of built-in scalar helpers; bodies that differ from the built-in
		{"percent", "builtin-scalar", S(C("multi", R(0), W("100")), L("%")), true},
		{"upper", "builtin-scalar", C("lower", R(0)), true},
		{"sumi", "builtin-scalar", C("subi", R(0), R(1)), false},
		{"if", "builtin-scalar", nil, false},
		{"coalesce", "builtin-scalar", nil, false},
		{"len", "builtin-scalar", nil, true},
		// names of built-in array helpers (the loader accepts any name without a blank or '#')
		{"@map", "builtin-array", nil, false},
		{"@join", "builtin-array", C("format", L("j(%s)"), R(0)), true},
		{"@", "builtin-array", nil, false},
		// a built-in's name in another case: must not collide with the built-in
		{"Upper", "case-variant-of-builtin", C("lower", R(0)), true},
		{"PERCENT", "case-variant-of-builtin", nil, false},
		{"sumI", "case-variant-of-builtin", C("subi", R(0), R(1)), false},
		{"@Map", "case-variant-of-builtin", nil, false},
		// fresh names that are not plain lower-case words
		{"a.b", "odd-spelling", nil, false},
		{"a_1", "odd-spelling", nil, false},
		{"x2", "odd-spelling", nil, false},
		{"9x", "odd-spelling", nil, false},
		{"5", "odd-spelling", nil, false},
		{"name-of-func", "odd-spelling", nil, false}, // the spelling docs/usage/funcsfile.md uses
		{"é", "odd-spelling", nil, false},
		{"ÜñÏ", "odd-spelling", nil, false},
		{"mixedCase", "odd-spelling", nil, false},
		// control: an ordinary fresh name
		{"fresh", "plain", nil, false},
	}
}

func genericBody(tag string) *exprgen.Node {
	return C("format", L(tag+"(%s,%s)"), R(0), R(1))
}

type nameDef struct {
	name string
	role string // target | second | early | mid | later
	body *exprgen.Node
}

// nameStructs: the shapes of a file around the target name N.
//
//	single   N
//	later    N, later (calls N)
//	earlier  early (calls N: a forward reference), N
//	both     early, N, later (calls early and N)
//	twice    N, mid (calls N), N again with another body, later (calls N)
//	twice-adjacent  N, N again
//	wraps    N defined as a wrapper around what N meant before (built-in names only), later
var nameStructs = []string{"single", "later", "earlier", "both", "twice", "twice-adjacent", "wraps"}

const (
	callerEarly = "earlydef"
	callerMid   = "middef"
	callerLater = "laterdef"
)

func (s nameSpec) defs(structure string) []nameDef {
	n := s.name
	body := s.body
	if body == nil {
		body = genericBody(n)
	}
	call := func(a, b int) *exprgen.Node {
		if s.one {
			return C(n, R(a))
		}
		return C(n, R(a), R(b))
	}
	target := nameDef{n, "target", body}
	second := nameDef{n, "second", C("format", L("second-"+n+"(%s;%s)"), R(1), R(0))}
	early := nameDef{callerEarly, "early", S(L("("), call(0, 1), L(")"))}
	mid := nameDef{callerMid, "mid", S(L("mid:"), call(0, 1))}
	later := nameDef{callerLater, "later", S(L("["), call(1, 0), L("]"))}
	switch structure {
	case "single":
		return []nameDef{target}
	case "later":
		return []nameDef{target, later}
	case "earlier":
		return []nameDef{early, target}
	case "both":
		later.body = S(L("["), C(callerEarly, R(0), R(1)), L("+"), call(1, 0), L("]"))
		return []nameDef{early, target, later}
	case "twice":
		return []nameDef{target, mid, second, later}
	case "twice-adjacent":
		return []nameDef{target, second}
	case "wraps":
		if !strings.HasPrefix(s.class, "builtin") {
			return nil
		}
		target.body = S(call(0, 1), L("!"))
		return []nameDef{target, later}
	}
	panic("names: structure " + structure)
}

type nameProbe struct {
	call *exprgen.Node
	path string // command-line | earlier-definition | definition-between-duplicates | later-definition | other-name
}

// probes: what is compiled "on the command line" once the files are loaded.
func (s nameSpec) probes(defs []nameDef) []nameProbe {
	n := s.name
	out := []nameProbe{
		{C(n, R(0)), "command-line"},
		{C(n, R(0), R(1)), "command-line"},
		{C(n, W("3")), "command-line"}, // constant call: folded when the optimiser is on
		{C(n, W("a"), L("b c")), "command-line"},
		{C(n, K("key"), R(1)), "command-line"},
		{S(L("pre "), C(n, R(1), R(0)), L(" post")), "command-line"},
		{C("lower", C(n, R(0), R(1))), "command-line"},
		{C(n, C(n, R(0), R(1)), R(1)), "command-line"},
	}
	paths := map[string]string{"early": "earlier-definition", "mid": "definition-between-duplicates", "later": "later-definition"}
	for _, d := range defs {
		p, isCaller := paths[d.role]
		if !isCaller {
			continue
		}
		out = append(out,
			nameProbe{C(d.name, R(0), R(1)), p},
			nameProbe{C(d.name, W("3"), W("a")), p},
			nameProbe{S(L("x"), C(d.name, R(1)), L("y")), p},
		)
	}
	// names that the file does not define keep meaning the built-in: the
	// lower-case spelling of a case variant, and three built-ins in any case
	others := []string{"upper", "lower", "sumi"}
	if lc := strings.ToLower(n); lc != n && funclib.Builtins[lc] != nil {
		others = append([]string{lc}, others...)
	}
	seen := map[string]bool{n: true}
	for _, o := range others {
		if !seen[o] {
			seen[o] = true
			out = append(out, nameProbe{C(o, R(0), R(1)), "other-name"})
		}
	}
	return out
}

// ---- the reference: inlining under a resolution policy ---------------------------------

type namePolicy struct{ global, first bool }

// the unchanged tree's policy first: ties in the mismatch count go to it
var namePolicies = []namePolicy{{false, false}, {false, true}, {true, false}, {true, true}}

func (p namePolicy) String() string {
	s := "a name in a body means what it meant when the definition was read"
	if p.global {
		s = "a name in a body means what it means once all files are loaded"
	}
	if p.first {
		return s + "; of two definitions of a name the first counts"
	}
	return s + "; of two definitions of a name the last counts"
}

var acceptMemo = map[string]bool{}

type nameScope struct {
	defs []nameDef
	pol  namePolicy
	ok   []bool // which definitions the policy predicts to be loaded
}

const (
	resDef = iota
	resBuiltin
	resMissing
)

// resolve: what `name` means at site (index of the definition whose body holds
// the call; len(defs) = the command line).
func (sc *nameScope) resolve(site int, name string) (int, int) {
	pick := -1
	for j, d := range sc.defs {
		if d.name != name || !sc.ok[j] || j == site {
			continue
		}
		if !sc.pol.global && site < len(sc.defs) && j > site {
			continue
		}
		if pick < 0 || !sc.pol.first {
			pick = j
		}
	}
	if pick >= 0 {
		return pick, resDef
	}
	if funclib.Builtins[name] != nil { // the table of the code under test, as exprgen reads it
		return -1, resBuiltin
	}
	return -1, resMissing
}

func (sc *nameScope) resolvable(site int, n *exprgen.Node) bool {
	for _, a := range n.Args {
		if !sc.resolvable(site, a) {
			return false
		}
	}
	if n.Kind == exprgen.Call {
		if _, kind := sc.resolve(site, n.S); kind == resMissing {
			return false
		}
	}
	return true
}

// newNameScope: which definitions load under the policy. A definition loads
// when every name in its body means something and the body, inlined down to
// built-ins, is accepted by the built-in table (a built-in may refuse its
// arguments, e.g. a second argument that must be a constant). Must be called
// while funclib.Additional is empty.
func newNameScope(defs []nameDef, pol namePolicy) *nameScope {
	sc := &nameScope{defs: defs, pol: pol, ok: make([]bool, len(defs))}
	loads := func(i int) bool {
		if !sc.resolvable(i, defs[i].body) {
			return false
		}
		inl, ok := sc.inline(defs[i].body, i, 0)
		if !ok {
			return false
		}
		if seqAsArgument(inl, false) {
			return true // no inline form to ask the built-in table with
		}
		// whether the built-in table accepts a text is a function of the text (funclib.Additional is empty here)
		text := inl.Print(0)
		if a, have := acceptMemo[text]; have {
			return a
		}
		accepted := false
		catch(func() {
			_, errs := funclib.NewKeyBuilderEx(false).Compile(text)
			accepted = errs == nil
		})
		if len(acceptMemo) < 1<<16 {
			acceptMemo[text] = accepted
		}
		return accepted
	}
	if !pol.global {
		for i := range defs {
			sc.ok[i] = loads(i)
		}
		return sc
	}
	for i := range sc.ok {
		sc.ok[i] = true
	}
	for changed := true; changed; {
		changed = false
		for i := range defs {
			if sc.ok[i] && !loads(i) {
				sc.ok[i] = false
				changed = true
			}
		}
	}
	return sc
}

func (sc *nameScope) loadedNames() []string {
	set := map[string]bool{}
	for i, d := range sc.defs {
		if sc.ok[i] {
			set[d.name] = true
		}
	}
	return sortedKeys(set)
}

func sortedKeys(m map[string]bool) []string {
	out := make([]string, 0, len(m))
	for k := range m {
		out = append(out, k)
	}
	sort.Strings(out)
	return out
}

// inline: the call tree with every call of a loaded function replaced by its
// body ("the body with {0}, {1}, .. replaced by the call's arguments"), names
// resolved by the policy. ok=false: a name means nothing (compile error).
func (sc *nameScope) inline(n *exprgen.Node, site, depth int) (*exprgen.Node, bool) {
	switch n.Kind {
	case exprgen.Lit, exprgen.Key, exprgen.Ref, exprgen.Mix:
		return n, true
	}
	if depth > 12 {
		return nil, false
	}
	args := make([]*exprgen.Node, len(n.Args))
	for i, a := range n.Args {
		v, ok := sc.inline(a, site, depth)
		if !ok {
			return nil, false
		}
		args[i] = v
	}
	if n.Kind == exprgen.Call {
		j, kind := sc.resolve(site, n.S)
		switch kind {
		case resMissing:
			return nil, false
		case resDef:
			body, ok := sc.inline(sc.defs[j].body, j, depth+1)
			if !ok {
				return nil, false
			}
			return body.Subst(args), true
		}
	}
	return &exprgen.Node{Kind: n.Kind, S: n.S, Idx: n.Idx, Bare: n.Bare, Args: args}, true
}

// ---- one case -------------------------------------------------------------------------

// namesCase is the replayable identity of a case.
type namesCase struct {
	Name      string `json:"defined_name"`
	Structure string `json:"file_structure"`
	Split     int    `json:"second_file_starts_at_definition"` // 0: one file
	Filler    bool   `json:"comments_and_blank_lines"`
}

func findNameSpec(name string) nameSpec {
	for _, s := range nameSpecs() {
		if s.name == name {
			return s
		}
	}
	panic("names: no spec " + name)
}

func nameFiles(defs []nameDef, split int, filler bool) []string {
	var files []string
	var cur []string
	if filler {
		cur = append(cur, "# names", "")
	}
	for i, d := range defs {
		if split > 0 && i == split {
			files = append(files, strings.Join(cur, "\n")+"\n")
			cur = nil
			if filler {
				cur = append(cur, "", "   # the second file")
			}
		}
		line := d.name + " " + d.body.Print(0)
		if filler && i%2 == 1 {
			line += " # " + d.role
		}
		cur = append(cur, line)
	}
	return append(files, strings.Join(cur, "\n")+"\n")
}

func namesRule(tier string) string {
	var names []string
	for _, s := range nameSpecs() {
		names = append(names, s.name)
	}
	return fmt.Sprintf("names family (which function a name means): %d defined names %q (names of built-in scalar and array helpers, a built-in's name in another case, fresh names with a dot, underscore, digits, only digits, a hyphen, non-ASCII letters, upper case; one plain fresh name as control) "+
		"x %d file structures %v (the name alone; a later definition calling it; an earlier definition calling it = forward reference; both, the later one also calling the earlier; the name defined twice with a caller between and after; twice on adjacent lines; the name defined as a wrapper of the built-in of that name + a later caller) "+
		"x one file or two files loaded one after the other, split before every definition, x with/without comment and blank lines; loaded exactly as main.go's Before hook does (one funclib.NewKeyBuilder(), per file funcfile.LoadDefinitionsFile from a real file then funclib.TryAddFunctions), then compiled by funclib.NewKeyBuilderEx(true/false): "+
		"8 direct call sites of the name (1..2 arguments, constant, key, text around, inside a built-in, nested in itself), 3 call sites of every calling definition, and calls of built-ins the file does not define (the lower-case spelling of a case variant, upper, lower, sumi) on 5 contexts; "+
		"oracle: ONE of 4 resolution policies (a name in a body means what it meant when the definition was read / once all files are loaded; of two definitions of a name the last / the first counts) must explain the set of loaded names and every result, the expected result being the harness's inlining under that policy evaluated by the built-in table alone; no policy lets a built-in win over a loaded function (tier %s: same bounds)",
		len(names), names, len(nameStructs), nameStructs, tier)
}

func (e *env) namesPhase(unit *int64) {
	w := e.w
	for _, s := range nameSpecs() {
		for _, st := range nameStructs {
			defs := s.defs(st)
			if defs == nil {
				continue
			}
			*unit++
			if !w.Owns(*unit) {
				continue
			}
			if w.Expired() {
				return
			}
			for split := 0; split < len(defs); split++ {
				for _, filler := range []bool{false, true} {
					e.namesOne(namesCase{Name: s.name, Structure: st, Split: split, Filler: filler})
				}
			}
		}
	}
}

type nameExpect struct {
	compiles bool
	skip     bool     // the inlined form cannot be written or evaluated: not compared
	tmpl     string   // the inlined template
	vals     []string // per context
}

func (e *env) namesOne(nc namesCase) {
	w := e.w
	spec := findNameSpec(nc.Name)
	defs := spec.defs(nc.Structure)
	probes := spec.probes(defs)
	files := nameFiles(defs, nc.Split, nc.Filler)
	mk := func(where string) Case {
		return Case{Part: "funcs", Body: spec.class, Where: where, Names: &nc}
	}
	cf := func() any { return mk("") }
	w.SetCase(cf)
	currentCase.Store(cf)
	ctxs := funcsContexts(e)
	sigBase := "C10/funcs/which-function/" + spec.class
	showFiles := ""
	for i, f := range files {
		showFiles += fmt.Sprintf("file %d:\n%s", i+1, f)
	}

	// expected results per policy, computed while funclib.Additional is empty
	clearAdditional()
	scopes := make([]*nameScope, len(namePolicies))
	expect := make([][]nameExpect, len(namePolicies))
	for pi, pol := range namePolicies {
		sc := newNameScope(defs, pol)
		scopes[pi] = sc
		expect[pi] = make([]nameExpect, len(probes))
		for qi, q := range probes {
			x := &expect[pi][qi]
			inl, ok := sc.inline(q.call, len(defs), 0)
			if !ok {
				continue // compiles=false: a call of something that is not loaded
			}
			x.compiles = true
			if seqAsArgument(inl, false) {
				x.skip = true // text around a statement cannot be written as one argument
				continue
			}
			x.tmpl = inl.Print(0)
			var ref *expressions.CompiledKeyBuilder
			var rerr *expressions.CompilerErrors
			if p := catch(func() { ref, rerr = funclib.NewKeyBuilderEx(false).Compile(x.tmpl) }); p != nil || rerr != nil || ref == nil {
				x.skip = true
				continue
			}
			for _, cx := range ctxs {
				var v string
				if p := catch(func() { v = ref.BuildKey(cx.Ctx) }); p != nil {
					x.skip = true
					break
				}
				x.vals = append(x.vals, v)
			}
		}
	}

	// the real thing: main.go's Before hook
	observed := map[string]bool{}
	var loadErrs []string
	defer clearAdditional()
	if p := catch(func() {
		cmplr := funclib.NewKeyBuilder()
		for i, text := range files {
			fileSeq++
			path := fmt.Sprintf("%s/n%d-%d.funcs", scratchDir, fileSeq%4, i)
			if err := os.WriteFile(path, []byte(text), 0o644); err != nil {
				panic(err)
			}
			fns, err := funcfile.LoadDefinitionsFile(cmplr, path)
			for n := range fns {
				observed[n] = true
			}
			if err != nil {
				loadErrs = append(loadErrs, err.Error())
			}
			funclib.TryAddFunctions(fns, err)
		}
	}); p != nil {
		w.Eval(true)
		w.Violation(sigBase+"/load-panics", fmt.Sprintf("loading the funcs file(s) panics: %v\n%s", p.val, showFiles), mk("load"))
		return
	}
	obs := strings.Join(sortedKeys(observed), " ")
	var admissible []int
	for pi, sc := range scopes {
		if strings.Join(sc.loadedNames(), " ") == obs {
			admissible = append(admissible, pi)
		}
	}
	if len(admissible) == 0 {
		w.Eval(true)
		detail := fmt.Sprintf("the set of loaded names %q is explained by no reading of the file(s) (errors: %q)\n", sortedKeys(observed), loadErrs)
		for pi, sc := range scopes {
			detail += fmt.Sprintf("  if %s: %q\n", namePolicies[pi], sc.loadedNames())
		}
		w.Violation(sigBase+"/loaded-names", detail+showFiles, mk("load"))
		return
	}

	// every probe, both builds
	type got struct {
		compiles, skip bool
		vals           []string
	}
	real := make([][2]got, len(probes))
	compared := 0
	for qi, q := range probes {
		callT := q.call.Print(0)
		for o := 0; o < 2; o++ {
			g := &real[qi][o]
			var c *expressions.CompiledKeyBuilder
			var cerr *expressions.CompilerErrors
			if p := catch(func() { c, cerr = funclib.NewKeyBuilderEx(o == 0).Compile(callT) }); p != nil {
				w.Add("skipped_compile_panics_c08", 1)
				g.skip = true
				continue
			}
			if cerr != nil || c == nil {
				continue
			}
			g.compiles = true
			for _, cx := range ctxs {
				var v string
				if p := catch(func() { v = c.BuildKey(cx.Ctx) }); p != nil {
					w.Add("skipped_eval_panics_c08", 1)
					g.skip = true
					break
				}
				g.vals = append(g.vals, v)
			}
			if !g.skip {
				compared++
			}
		}
	}
	// mismatches of a policy: (probe, build) pairs it does not explain
	type miss struct{ probe, build, ctx int }
	misses := func(pi int) []miss {
		var out []miss
		for qi := range probes {
			x := expect[pi][qi]
			if x.skip {
				continue
			}
			for o := 0; o < 2; o++ {
				g := real[qi][o]
				if g.skip {
					continue
				}
				if g.compiles != x.compiles {
					out = append(out, miss{qi, o, -1})
					continue
				}
				for ci := range g.vals {
					if g.vals[ci] != x.vals[ci] {
						out = append(out, miss{qi, o, ci})
						break
					}
				}
			}
		}
		return out
	}
	best, bestMiss := -1, []miss(nil)
	for _, pi := range admissible {
		// a reading that explains everything is accepted; otherwise the report is
		// made against the first admissible reading (the unchanged tree's comes first)
		m := misses(pi)
		if best < 0 || (len(m) == 0 && len(bestMiss) > 0) {
			best, bestMiss = pi, m
		}
	}
	w.Eval(compared > 0)
	w.Add("funcs_names_cases", 1)
	sum := ""
	for qi := range probes {
		if x := expect[best][qi]; !x.skip && x.compiles && len(sum) < 200 {
			sum += "|" + strings.Join(x.vals, ",")
		}
	}
	w.Outcome("funcs-names", spec.name, nc.Structure, strconv.Itoa(best), sum)
	if len(bestMiss) == 0 {
		if w.WantSample() && nc.Structure == "both" && nc.Split == 1 {
			w.Sample(mk(""))
		}
		return
	}
	reported := map[string]bool{}
	for _, m := range bestMiss {
		q := probes[m.probe]
		sig := sigBase + "/" + q.path
		if reported[sig] {
			continue
		}
		reported[sig] = true
		g := real[m.probe][m.build]
		detail := fmt.Sprintf("the call %q (optimise=%v) compiled after loading the funcs file(s) the way main.go does ", q.call.Print(0), m.build == 0)
		if !g.compiles {
			detail += "does not compile"
		} else if m.ctx >= 0 {
			detail += fmt.Sprintf("returns %q on context %s", g.vals[m.ctx], ctxs[m.ctx].Name)
		} else {
			detail += "compiles"
		}
		detail += fmt.Sprintf("; loaded names: %q\nno reading of the file(s) explains all %d call sites of this case; against the reading marked * %d (call site, build) pairs differ:\n", sortedKeys(observed), len(probes), len(bestMiss))
		for _, pi := range admissible {
			x := expect[pi][m.probe]
			mark := "  "
			if pi == best {
				mark = "* "
			}
			switch {
			case x.skip:
				detail += fmt.Sprintf("%sif %s: (no inline form)\n", mark, namePolicies[pi])
			case !x.compiles:
				detail += fmt.Sprintf("%sif %s: the call names nothing that is loaded (compile error)\n", mark, namePolicies[pi])
			case m.ctx >= 0:
				detail += fmt.Sprintf("%sif %s: the body written inline is %q = %q\n", mark, namePolicies[pi], x.tmpl, x.vals[m.ctx])
			default:
				detail += fmt.Sprintf("%sif %s: the body written inline is %q\n", mark, namePolicies[pi], x.tmpl)
			}
		}
		w.Violation(sig, detail+showFiles, mk(q.path))
	}
}
