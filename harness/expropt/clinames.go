package main

import (
	"fmt"
	"os"
	"strings"

	"verif/harness/exprgen"
)

// The names family (names.go) through the start-up sequence of the real binary:
// which function a name means is decided by main.go's Before hook (one compiler
// for all --funcs / RARE_FUNC_FILES files, funclib.TryAddFunctions after each)
// together with funclib.NewKeyBuilderEx, which every command compiles with.
//
//	rare --funcs f [--funcs g] expression [--no-optimize] -d .. '{name {0} {1}}'
//	rare                       expression [--no-optimize] -d .. '<inlined under a resolution policy>'
//
// One policy must explain every probe of a case (stdout and exit success; a
// probe that names nothing loaded must fail).

type cliNamesCase struct {
	Name      string `json:"defined_name"`
	Structure string `json:"file_structure"`
	Delivery  string `json:"funcs_delivery"` // flag | env | two-flags | two-env
	Split     int    `json:"second_file_starts_at_definition"`
	NoOpt     bool   `json:"no_optimize"`
}

func cliNamesSpecs(thorough bool) []string {
	if thorough {
		var out []string
		for _, s := range nameSpecs() {
			out = append(out, s.name)
		}
		return out
	}
	return []string{"percent", "upper", "@map", "Upper", "a.b", "é", "fresh"}
}

func cliNamesStructs(thorough bool) []string {
	if thorough {
		return nameStructs
	}
	return []string{"both", "twice", "wraps"}
}

func cliNamesRule(tier string) string {
	th := tier == "thorough"
	return fmt.Sprintf("names family through the real binary: defined names %q x file structures %v x delivery {--funcs f, RARE_FUNC_FILES=f, two --funcs files split before %s%s} x with/without --no-optimize; per case the first two direct call sites of the name, one call site of every calling definition and the built-ins the file does not define, `rare <funcs> expression -d .. '{call}'` against `rare expression -d .. '<inlined under a resolution policy>'`: one of the 4 policies must explain stdout and exit success of every call site of the case",
		cliNamesSpecs(th), cliNamesStructs(th), map[bool]string{true: "every definition", false: "the second and before the last definition"}[th], map[bool]string{true: ", the same through RARE_FUNC_FILES=f,g", false: ""}[th])
}

func (e *env) cliNamesPhase(unit *int64) {
	w := e.w
	thorough := !w.Quick()
	var c *cliEnv
	for _, name := range cliNamesSpecs(thorough) {
		spec := findNameSpec(name)
		for _, st := range cliNamesStructs(thorough) {
			defs := spec.defs(st)
			if defs == nil {
				continue
			}
			*unit++
			if !w.Owns(*unit) {
				continue
			}
			if w.Expired() {
				return
			}
			if c == nil {
				c = e.cliSetup()
			}
			var cases []cliNamesCase
			for _, noOpt := range []bool{false, true} {
				cases = append(cases, cliNamesCase{Name: name, Structure: st, Delivery: "flag", NoOpt: noOpt},
					cliNamesCase{Name: name, Structure: st, Delivery: "env", NoOpt: noOpt})
				splits := map[int]bool{}
				for s := 1; s < len(defs); s++ {
					if thorough || s == 1 || s == len(defs)-1 {
						splits[s] = true
					}
				}
				for s := 1; s < len(defs); s++ {
					if !splits[s] {
						continue
					}
					cases = append(cases, cliNamesCase{Name: name, Structure: st, Delivery: "two-flags", Split: s, NoOpt: noOpt})
					if thorough {
						cases = append(cases, cliNamesCase{Name: name, Structure: st, Delivery: "two-env", Split: s, NoOpt: noOpt})
					}
				}
			}
			for _, cc := range cases {
				e.cliNamesOne(c, cc)
			}
		}
	}
}

func (e *env) cliNamesOne(c *cliEnv, cc cliNamesCase) {
	w := e.w
	spec := findNameSpec(cc.Name)
	defs := spec.defs(cc.Structure)
	cf := func() any { return Case{Part: "cli", Body: spec.class, CliNames: &cc} }
	w.SetCase(cf)
	currentCase.Store(cf)

	// the probes of the in-process family, fewer per path
	var probes []nameProbe
	perPath := map[string]int{}
	for _, q := range spec.probes(defs) {
		limit := 1
		if q.path == "command-line" {
			limit = 2
		}
		key := q.path + "\x00" + calledName(q.call)
		if q.path == "other-name" {
			key = q.path
		}
		if perPath[key] < limit {
			perPath[key]++
			probes = append(probes, q)
		}
	}
	files := nameFiles(defs, cc.Split, true)
	var paths []string
	for i, text := range files {
		p := fmt.Sprintf("%s/cli-names-%d.funcs", scratchDir, i)
		if err := os.WriteFile(p, []byte(text), 0o644); err != nil {
			panic(err)
		}
		paths = append(paths, p)
	}
	sub := []string{"expression"}
	if cc.NoOpt {
		sub = append(sub, "--no-optimize")
	}
	for _, d := range cliData {
		sub = append(sub, "-d", d)
	}
	var global, extraEnv []string
	switch cc.Delivery {
	case "flag", "two-flags":
		for _, p := range paths {
			global = append(global, "--funcs", p)
		}
	case "env", "two-env":
		extraEnv = []string{"RARE_FUNC_FILES=" + strings.Join(paths, ",")}
	default:
		panic("cli names: delivery " + cc.Delivery)
	}
	if want := map[bool]int{false: 1, true: 2}[strings.HasPrefix(cc.Delivery, "two")]; len(paths) != want {
		panic("cli names: delivery and split disagree")
	}

	// the runs with the funcs files
	real := make([]cliRun, len(probes))
	for qi, q := range probes {
		real[qi] = c.run(w, global, extraEnv, append(append([]string{}, sub...), q.call.Print(0)))
		if real[qi].hung {
			w.Eval(true)
			w.Violation("C10/cli-funcs/hang/which-function", fmt.Sprintf("the process did not exit within 60 s: %s %q", strings.Join(real[qi].env, " "), real[qi].argv), cf())
			return
		}
	}
	// expected per policy
	type exp struct {
		compiles, skip bool
		tmpl           string
		run            cliRun
	}
	expect := make([][]exp, len(namePolicies))
	for pi, pol := range namePolicies {
		sc := newNameScope(defs, pol)
		expect[pi] = make([]exp, len(probes))
		for qi, q := range probes {
			x := &expect[pi][qi]
			inl, ok := sc.inline(q.call, len(defs), 0)
			if !ok {
				continue
			}
			x.compiles = true
			if seqAsArgument(inl, false) {
				x.skip = true
				continue
			}
			x.tmpl = inl.Print(0)
			key := "names\x00" + fmt.Sprint(cc.NoOpt) + "\x00" + x.tmpl
			r, have := c.inlineMem[key]
			if !have {
				r = c.run(w, nil, nil, append(append([]string{}, sub...), x.tmpl))
				c.inlineMem[key] = r
			}
			x.run = r
			if r.hung || !r.ok {
				x.skip = true // the inlined form itself is refused: nothing to compare with
			}
		}
	}
	misses := func(pi int) []int {
		var out []int
		for qi := range probes {
			x := expect[pi][qi]
			if x.skip {
				continue
			}
			g := real[qi]
			if g.ok != x.compiles || (g.ok && g.stdout != x.run.stdout) {
				out = append(out, qi)
			}
		}
		return out
	}
	best, bestMiss := -1, []int(nil)
	for pi := range namePolicies {
		// a reading that explains everything is accepted; otherwise the report is
		// made against the first reading (the unchanged tree's)
		if m := misses(pi); best < 0 || (len(m) == 0 && len(bestMiss) > 0) {
			best, bestMiss = pi, m
		}
	}
	okRuns := 0
	sum := ""
	for qi := range probes {
		if real[qi].ok {
			okRuns++
		}
		sum += "|" + real[qi].stdout
	}
	w.Eval(okRuns > 0)
	w.Add("cli_names_cases", 1)
	w.Outcome("cli-names", cc.Name, cc.Structure, sum)
	if len(bestMiss) == 0 {
		return
	}
	showFiles := ""
	for i, f := range files {
		showFiles += fmt.Sprintf("file %d:\n%s", i+1, f)
	}
	reported := map[string]bool{}
	for _, qi := range bestMiss {
		q := probes[qi]
		sig := "C10/cli-funcs/which-function/" + spec.class + "/" + q.path
		if reported[sig] {
			continue
		}
		reported[sig] = true
		g := real[qi]
		detail := fmt.Sprintf("%s %q\n  -> stdout %q, exit ok=%v, stderr %q\nno reading of the funcs file(s) explains all %d call sites of this case; against the reading marked * %d call sites differ:\n",
			strings.Join(g.env, " "), g.argv, g.stdout, g.ok, tailOf(g.stderr), len(probes), len(bestMiss))
		for pi := range namePolicies {
			x := expect[pi][qi]
			mark := "  "
			if pi == best {
				mark = "* "
			}
			switch {
			case x.skip:
				detail += fmt.Sprintf("%sif %s: (no inline form)\n", mark, namePolicies[pi])
			case !x.compiles:
				detail += fmt.Sprintf("%sif %s: the call names nothing that is loaded, the command must fail\n", mark, namePolicies[pi])
			default:
				detail += fmt.Sprintf("%sif %s: the body written inline, %q\n     -> stdout %q\n", mark, namePolicies[pi], x.run.argv, x.run.stdout)
			}
		}
		w.Violation(sig, detail+showFiles, cf())
	}
}

func calledName(n *exprgen.Node) string {
	if n.Kind == exprgen.Call {
		return n.S
	}
	for _, a := range n.Args {
		if s := calledName(a); s != "" {
			return s
		}
	}
	return ""
}
