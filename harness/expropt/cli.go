package main

import (
	"bytes"
	"context"
	"fmt"
	"os"
	"os/exec"
	"os/signal"
	"strings"
	"syscall"
	"time"

	"verif/harness/exprgen"
)

// Part (ii-cli) of C10: the statement's "A function loaded from a funcs file
// ... behaves exactly like its body written inline" observed where users load
// funcs files: the start-up sequence of the real binary (main.go's Before hook:
// --funcs / RARE_FUNC_FILES next to the global switches --noformat, --color,
// --nocolor, --nounicode, --noload). Loading compiles every body with the
// optimiser on, and the optimiser folds constant sub-expressions by evaluating
// them at once; helpers whose text depends on a package-level switch
// (humanize.Enabled: hi, hf, percent?; color.Enabled: color;
// termunicode.UnicodeEnabled: bar; stdlib.DisableLoad: load) therefore see the
// switches as they are at load time. In-process harness parts pin those
// switches and can never see that order; this part runs
//
//	rare <global flags> --funcs f expression [--no-optimize] -d .. '{fn {0} {1} {2} {3}}'
//	rare <global flags>           expression [--no-optimize] -d .. '<body inlined>'
//
// (same flags, same process environment, function against inline) and demands
// byte-equal standard output and the same success/failure.

const binEnv = "EXPROPT_RARE_BIN"

// ensureBinary is the first thing main does. The process `./check` starts
// builds the rare binary of the repository under test ($VERIF_REPO, default
// /repo) into a private temporary directory, runs itself again with the
// binary's path in the environment (coordinator, workers and replays inherit
// it), removes the directory and exits with the inner process's exit code. A
// failed build is a harness error, never a violation.
func ensureBinary() {
	if os.Getenv(binEnv) != "" {
		return
	}
	for _, a := range os.Args[1:] {
		if a == "-worker" || a == "--worker" || strings.HasPrefix(a, "-worker=") || strings.HasPrefix(a, "--worker=") {
			return // a worker started by hand: the cli part reports the missing binary
		}
		if a == "-h" || a == "-help" || a == "--help" {
			return
		}
	}
	repo := os.Getenv("VERIF_REPO")
	if repo == "" {
		repo = "/repo"
	}
	dir, err := os.MkdirTemp("", "expropt-bin-")
	if err != nil {
		fmt.Fprintln(os.Stderr, "HARNESS-ERROR: expropt:", err)
		os.Exit(2)
	}
	bin := dir + "/rare"
	build := exec.Command("go", "build", "-o", bin, ".")
	build.Dir = repo
	build.Env = append(os.Environ(), "GOFLAGS=-mod=mod", "GOPROXY=off", "GOSUMDB=off", "GOTOOLCHAIN=local")
	if out, err := build.CombinedOutput(); err != nil {
		os.RemoveAll(dir)
		fmt.Fprintf(os.Stderr, "HARNESS-ERROR: expropt: build of the rare binary from %s failed: %v\n%s\n", repo, err, out)
		os.Exit(2)
	}
	inner := exec.Command(os.Args[0], os.Args[1:]...)
	inner.Env = append(os.Environ(), binEnv+"="+bin)
	inner.Stdin, inner.Stdout, inner.Stderr = os.Stdin, os.Stdout, os.Stderr
	// an interrupt reaches the inner process through the process group; this
	// one stays to remove the binary
	sig := make(chan os.Signal, 4)
	signal.Notify(sig, os.Interrupt, syscall.SIGTERM)
	go func() {
		for s := range sig {
			if inner.Process != nil {
				inner.Process.Signal(s)
			}
		}
	}()
	err = inner.Run()
	os.RemoveAll(dir)
	if err != nil {
		if inner.ProcessState != nil && inner.ProcessState.ExitCode() >= 0 {
			os.Exit(inner.ProcessState.ExitCode())
		}
		fmt.Fprintln(os.Stderr, "HARNESS-ERROR: expropt:", err)
		os.Exit(2)
	}
	os.Exit(0)
}

// ---- the enumerated space --------------------------------------------------------

type cliHelper struct {
	name  string
	konst *exprgen.Node // a constant use (folded when the funcs file is loaded)
	dyn   *exprgen.Node // a use that depends on the match (nil: the helper has none)
}

// Every builtin whose result depends on a package-level switch the global
// flags set (read from pkg/expressions/stdlib: funcsStrings.go hi/hf,
// drawing.go color/bar, funcsLookups.go load), plus the formatting helpers that
// are documented not to depend on it (percent, bytesize, bytesizesi,
// downscale) as controls.
func cliHelpers() []cliHelper {
	return []cliHelper{
		{"hi", C("hi", W("1234567")), C("hi", R(0))},
		{"hf", C("hf", W("12345.678")), C("hf", R(0))},
		{"percent", C("percent", W("0.25")), C("percent", R(1))},
		{"bytesize", C("bytesize", W("1234567")), C("bytesize", R(0))},
		{"bytesizesi", C("bytesizesi", W("1234567")), C("bytesizesi", R(0))},
		{"downscale", C("downscale", W("1234567")), C("downscale", R(0))},
		{"color", C("color", W("red"), W("CRIT")), C("color", W("blue"), R(2))},
		{"bar", C("bar", W("5"), W("10"), W("10")), C("bar", R(3), W("10"), W("10"))},
		{"load", C("load", W(exprgen.LoadFixture)), nil},
	}
}

var cliData = []string{"7654321", "0.5", "some text", "5"}

type cliFn struct {
	name, helper, form string
	body               *exprgen.Node
	file               int // which file of the two-file delivery defines it
	note               string
}

// cliFns: per helper a function whose body is the constant use, one whose body
// is the dynamic use, one with text, the constant use, the constant use nested
// in a builtin, the dynamic use and an argument, and (defined last) one that
// calls the first two.
func cliFns() []cliFn {
	var out []cliFn
	for _, h := range cliHelpers() {
		kn, dn := "f"+h.name+"const", "f"+h.name+"dynamic"
		out = append(out, cliFn{kn, h.name, "const", h.konst, 0, ""})
		mixed := []*exprgen.Node{L("c="), h.konst, L(" n="), C("len", h.konst)}
		second := []*exprgen.Node{C(kn, W("x")), L("+")}
		if h.dyn != nil {
			out = append(out, cliFn{dn, h.name, "dynamic", h.dyn, 0, ""})
			mixed = append(mixed, L(" d="), h.dyn)
			second = append(second, C(dn, R(0), R(1), R(2), R(3)), L("+"))
		}
		mixed = append(mixed, L(" "), R(0))
		second = append(second, R(0))
		out = append(out, cliFn{"f" + h.name + "mixed", h.name, "mixed", S(mixed...), 1, "text, constant and dynamic uses"})
		out = append(out, cliFn{"f" + h.name + "second", h.name, "second", S(second...), 1, "calls the functions defined before it"})
	}
	return out
}

// cliFiles renders the functions as one file and as two files (the second
// using functions of the first).
func cliFiles() (one string, two [2]string) {
	var all, a, b []string
	all = append(all, "# functions around the helpers that read a process-wide switch", "")
	a = append(a, "# first file: constant and dynamic bodies")
	b = append(b, "# second file: uses the functions of the first", "")
	prev := ""
	for _, f := range cliFns() {
		line := f.name + " " + f.body.Print(0)
		if f.note != "" {
			line += " # " + f.note
		}
		if f.helper != prev && prev != "" {
			all = append(all, "")
		}
		prev = f.helper
		all = append(all, line)
		if f.file == 0 {
			a = append(a, line)
		} else {
			b = append(b, line)
		}
	}
	return strings.Join(all, "\n") + "\n", [2]string{strings.Join(a, "\n") + "\n", strings.Join(b, "\n") + "\n"}
}

func cliFlagSets(thorough bool) [][]string {
	colors := [][]string{nil, {"--color"}, {"--nocolor"}}
	switches := []string{"--noformat", "--nounicode", "--noload"}
	if thorough {
		colors = append(colors, []string{"--color", "--nocolor"}, []string{"--nocolor", "--color"})
		switches = append(switches, "--notrim")
	}
	var out [][]string
	subsets := func(sw []string, cols [][]string) {
		for mask := 0; mask < 1<<len(sw); mask++ {
			for _, c := range cols {
				set := []string{}
				for i, s := range sw {
					if mask&(1<<i) != 0 {
						set = append(set, s)
					}
				}
				out = append(out, append(set, c...))
			}
		}
	}
	subsets(switches, colors)
	if thorough {
		// the short names of the same flags
		subsets([]string{"--nf", "--nu", "--nl"}, [][]string{{"--nc"}, {"--nc", "--color"}})
	}
	return out
}

// deliveries: how the funcs file reaches the binary.
func cliDeliveries(thorough bool) []string {
	if thorough {
		return []string{"flag", "env", "two-flags", "two-env", "flag-after-switches"}
	}
	return []string{"flag", "env", "two-flags"}
}

// call forms: the arguments passed through from the data, or constants.
func cliCallForms(thorough bool) []string {
	if thorough {
		return []string{"pass-through", "constant-arguments"}
	}
	return []string{"pass-through"}
}

func cliCall(name, form string) *exprgen.Node {
	if form == "constant-arguments" {
		return C(name, W(cliData[0]), W(cliData[1]), L(cliData[2]), W(cliData[3]))
	}
	return C(name, R(0), R(1), R(2), R(3))
}

func cliRule(tier string) string {
	th := tier == "thorough"
	names := []string{}
	for _, h := range cliHelpers() {
		names = append(names, h.name)
	}
	return fmt.Sprintf("the real binary built from the repository under test: %d sets of global flags (every subset of --noformat, --nounicode, --noload%s x {no colour flag, --color, --nocolor%s}%s) "+
		"x funcs files reaching it as %v (--funcs f / RARE_FUNC_FILES=f / two files, the second using the functions of the first) "+
		"x %d functions: for each helper of %v (those whose text depends on humanize.Enabled, color.Enabled, termunicode.UnicodeEnabled, stdlib.DisableLoad, and the formatting helpers that do not, as controls) a body that is a constant use, a dynamic use, text + constant + constant nested in {len} + dynamic use + argument, and a later function calling the first two "+
		"x `expression` with and without --no-optimize x call forms %v on data %q; output of `rare <flags> <funcs> expression -d .. '{fn ..}'` against `rare <flags> expression -d .. '<body inlined by the harness>'`: byte-equal stdout and the same exit success",
		len(cliFlagSets(th)), map[bool]string{true: ", --notrim"}[th], map[bool]string{true: ", both in either order"}[th], map[bool]string{true: "; and the short names --nf --nu --nl --nc"}[th],
		cliDeliveries(th), len(cliFns()), names, cliCallForms(th), cliData)
}

// ---- execution ---------------------------------------------------------------------

type cliCase struct {
	Flags    []string `json:"global_flags"`
	Delivery string   `json:"funcs_delivery"`
	NoOpt    bool     `json:"no_optimize"`
	Fn       string   `json:"function"`
	CallForm string   `json:"call_form"`
}

type cliRun struct {
	stdout string
	stderr string
	ok     bool
	hung   bool
	argv   []string
	env    []string
}

type cliEnv struct {
	bin       string
	one       string
	two       [2]string
	oneText   string
	twoText   [2]string
	inlineMem map[string]cliRun
	feeders   []*feeder // writers of the named pipes of the case being run
}

func (e *env) cliSetup() *cliEnv {
	bin := os.Getenv(binEnv)
	if bin == "" {
		panic("expropt: " + binEnv + " is not set: start the harness without -worker so that it builds the rare binary")
	}
	if _, err := os.Stat(bin); err != nil {
		panic("expropt: the rare binary is gone: " + err.Error())
	}
	one, two := cliFiles()
	c := &cliEnv{bin: bin, one: scratchDir + "/cli-all.funcs", two: [2]string{scratchDir + "/cli-first.funcs", scratchDir + "/cli-second.funcs"}, oneText: one, twoText: two, inlineMem: map[string]cliRun{}}
	for name, text := range map[string]string{c.one: one, c.two[0]: two[0], c.two[1]: two[1]} {
		if err := os.WriteFile(name, []byte(text), 0o644); err != nil {
			panic(err)
		}
	}
	return c
}

// run executes the binary with an explicit environment in the scratch
// directory (which holds the {load} fixture). The time limit only turns a
// process that never exits into a reported hang.
func (c *cliEnv) run(w interface{ Tick() }, global []string, extraEnv []string, sub []string) cliRun {
	argv := append(append([]string{}, global...), sub...)
	envv := append([]string{"PATH=" + os.Getenv("PATH"), "HOME=" + scratchDir, "TZ=UTC", "GOMAXPROCS=1", "LANG=C"}, extraEnv...)
	ctx, cancel := context.WithTimeout(context.Background(), 60*time.Second)
	defer cancel()
	cmd := exec.CommandContext(ctx, c.bin, argv...)
	cmd.Dir = scratchDir
	cmd.Env = envv
	var so, se bytes.Buffer
	cmd.Stdout, cmd.Stderr = &so, &se
	err := cmd.Run()
	w.Tick()
	r := cliRun{stdout: so.String(), stderr: se.String(), ok: err == nil, argv: append([]string{"rare"}, argv...), env: extraEnv}
	if ctx.Err() != nil {
		r.hung = true
	}
	if err != nil {
		if _, isExit := err.(*exec.ExitError); !isExit {
			panic("expropt: cannot run the rare binary: " + err.Error())
		}
	}
	return r
}

func (e *env) cliPhase(unit *int64) {
	w := e.w
	thorough := !w.Quick()
	var c *cliEnv
	fns := cliFns()
	for _, flags := range cliFlagSets(thorough) {
		for _, f := range fns {
			*unit++
			if !w.Owns(*unit) {
				continue
			}
			if w.Expired() {
				return
			}
			if c == nil {
				c = e.cliSetup()
			}
			for _, noOpt := range []bool{false, true} {
				for _, form := range cliCallForms(thorough) {
					for _, del := range cliDeliveries(thorough) {
						e.cliOne(c, cliCase{Flags: flags, Delivery: del, NoOpt: noOpt, Fn: f.name, CallForm: form})
					}
				}
			}
		}
	}
}

func (e *env) cliOne(c *cliEnv, cc cliCase) {
	w := e.w
	var fn *cliFn
	defs := map[string]*exprgen.Node{}
	for _, f := range cliFns() {
		f := f
		defs[f.name] = f.body
		if f.name == cc.Fn {
			fn = &f
		}
	}
	if fn == nil {
		panic("cli: no function " + cc.Fn)
	}
	cf := func() any { return Case{Part: "cli", Cli: &cc, Body: fn.helper + "/" + fn.form} }
	w.SetCase(cf)
	currentCase.Store(cf)

	call := cliCall(fn.name, cc.CallForm)
	callT := call.Print(0)
	inlineT := call.Inline(defs).Print(0)
	sub := []string{"expression"}
	if cc.NoOpt {
		sub = append(sub, "--no-optimize")
	}
	for _, d := range cliData {
		sub = append(sub, "-d", d)
	}
	global := append([]string{}, cc.Flags...)
	var extraEnv []string
	switch cc.Delivery {
	case "flag":
		global = append(global, "--funcs", c.one)
	case "flag-after-switches":
		global = append([]string{"--funcs", c.one}, global...)
	case "env":
		extraEnv = []string{"RARE_FUNC_FILES=" + c.one}
	case "two-flags":
		global = append(global, "--funcs", c.two[0], "--funcs", c.two[1])
	case "two-env":
		extraEnv = []string{"RARE_FUNC_FILES=" + c.two[0] + "," + c.two[1]}
	default:
		if !strings.HasPrefix(cc.Delivery, "pipe-") {
			panic("cli: delivery " + cc.Delivery)
		}
		global, extraEnv = c.pipeDelivery(cc, fn.name, global)
	}
	feeders := c.feeders
	c.feeders = nil
	// the inline run does not depend on how the funcs file is delivered
	key := strings.Join(cc.Flags, " ") + "\x00" + fmt.Sprint(cc.NoOpt) + "\x00" + inlineT
	inl, have := c.inlineMem[key]
	if !have {
		inl = c.run(w, cc.Flags, nil, append(append([]string{}, sub...), inlineT))
		c.inlineMem[key] = inl
	}
	got := c.run(w, global, extraEnv, append(append([]string{}, sub...), callT))
	sigTail := fn.helper + "/" + fn.form
	pipeNote := ""
	for i, f := range feeders {
		f.finish() // the process has exited (or was killed): release a writer nobody read from
		pipeNote += fmt.Sprintf("pipe %d, written in %d piece(s), each after the reader consumed the one before: a reader opened it: %v; %d bytes accepted; error of the writer: %v\n", i+1, len(f.pieces), f.opened, f.written, f.werr)
	}
	if len(feeders) > 0 {
		sigTail = "pipe-delivery/" + fn.form
		w.Add("cli_pipe_delivery_cases", 1)
	}
	if got.hung || inl.hung {
		w.Eval(true)
		w.Violation("C10/cli-funcs/hang/"+sigTail, fmt.Sprintf("the process did not exit within 60 s\nfunction run: %s %q (hung=%v)\ninline run:   %q (hung=%v)", strings.Join(got.env, " "), got.argv, got.hung, inl.argv, inl.hung), cf())
		return
	}
	w.Eval(got.ok && inl.ok)
	w.Add("cli_cases", 1)
	w.Outcome("cli", fn.name, strings.Join(cc.Flags, " "), inl.stdout, fmt.Sprint(inl.ok))
	if got.stdout != inl.stdout || got.ok != inl.ok {
		// the definitions involved (the files hold all functions of the part)
		file := ""
		for _, used := range fn.body.Funcs(nil) {
			if b, ok := defs[used]; ok {
				file += "\n  " + used + " " + b.Print(0)
			}
		}
		if file != "" {
			where := "earlier in the same file"
			if strings.HasPrefix(cc.Delivery, "two") {
				where = "in the first of the two files"
			}
			file = "definitions it uses (" + where + "):" + file
		}
		w.Violation("C10/cli-funcs/differs-from-inline/"+sigTail,
			fmt.Sprintf("a function from a funcs file and its body written inline print different results under the same global flags %q\n"+
				"function: %s %q\n  -> stdout %q, exit ok=%v, stderr %q\n"+
				"inline:   %q\n  -> stdout %q, exit ok=%v, stderr %q\n"+
				"definition: %s %s\n%s%s",
				cc.Flags, strings.Join(got.env, " "), got.argv, got.stdout, got.ok, tailOf(got.stderr), inl.argv, inl.stdout, inl.ok, tailOf(inl.stderr), fn.name, fn.body.Print(0), file, pipeNote),
			cf())
	}
	if w.WantSample() && got.ok && inl.ok && len(cc.Flags) > 1 && fn.form == "mixed" {
		w.Sample(cf())
	}
}

// ---- the funcs file delivered through a named pipe ---------------------------------
//
// `rare --funcs <(gen) ..`: the funcs file is not a complete regular file but a
// pipe (stat size 0; the bytes arrive in the writer's pieces). The same files,
// flags, functions and oracle as above; the file's text is fed into a named pipe
// by the harness (pipefeed.go) in
//
//	pipe-1      one write
//	pipe-2      two pieces, the boundary inside the name of the called function's definition
//	pipe-3      three pieces: inside the first comment line, right after the newline before that definition
//	pipe-env-2  RARE_FUNC_FILES=<pipe>, two pieces, the boundary right before the newline ending that definition
//	pipe-bytes  byte by byte (thorough)
//	pipe-two    the two files, each through a pipe of its own in two pieces (thorough)

func cliPipeDeliveries(thorough bool) []string {
	out := []string{"pipe-1", "pipe-2", "pipe-3", "pipe-env-2"}
	if thorough {
		out = append(out, "pipe-bytes", "pipe-two")
	}
	return out
}

func cliPipeFlagSets() [][]string { return [][]string{{}, {"--noformat", "--nocolor"}} }

func cliPipeFns() []string {
	return []string{"fhiconst", "fhidynamic", "fhimixed", "fhisecond", "floadconst"}
}

func cliPipeRule(tier string) string {
	return fmt.Sprintf("funcs file through a named pipe instead of a regular file (what `--funcs <(gen)` is): the same file(s) fed by the harness as %v (one write / two pieces cut inside the name of the called function's definition / three pieces cut inside the first comment line and right after the newline before that definition / RARE_FUNC_FILES=<pipe> in two pieces cut right before the newline ending that definition%s; every later piece is written only after the process consumed the one before) x global flags %q x functions %v x with and without --no-optimize; same oracle (signature C10/cli-funcs/differs-from-inline/pipe-delivery/<form>)",
		cliPipeDeliveries(tier == "thorough"), map[bool]string{true: " / byte by byte / the two files through a pipe each"}[tier == "thorough"], cliPipeFlagSets(), cliPipeFns())
}

func (c *cliEnv) pipe(text string, cuts []int) string {
	path := newFifo(scratchDir)
	c.feeders = append(c.feeders, startFeeder(path, cutPieces([]byte(text), cuts)))
	return path
}

// pipeDelivery starts the feeder(s) and returns the arguments/environment naming the pipe(s).
func (c *cliEnv) pipeDelivery(cc cliCase, fn string, global []string) ([]string, []string) {
	text := c.oneText
	def := strings.Index(text, "\n"+fn+" ") + 1 // the definition line of fn
	if def <= 0 {
		panic("cli: no definition line of " + fn)
	}
	eol := def + strings.IndexByte(text[def:], '\n')
	switch cc.Delivery {
	case "pipe-1":
		return append(global, "--funcs", c.pipe(text, nil)), nil
	case "pipe-2":
		return append(global, "--funcs", c.pipe(text, []int{def + 3})), nil
	case "pipe-3":
		return append(global, "--funcs", c.pipe(text, []int{5, def})), nil
	case "pipe-env-2":
		return global, []string{"RARE_FUNC_FILES=" + c.pipe(text, []int{eol})}
	case "pipe-bytes":
		cuts := make([]int, 0, len(text))
		for i := 1; i < len(text); i++ {
			cuts = append(cuts, i)
		}
		return append(global, "--funcs", c.pipe(text, cuts)), nil
	case "pipe-two":
		a, b := c.twoText[0], c.twoText[1]
		return append(global, "--funcs", c.pipe(a, []int{len(a) / 2}), "--funcs", c.pipe(b, []int{len(b) / 3})), nil
	}
	panic("cli: delivery " + cc.Delivery)
}

func (e *env) cliPipePhase(unit *int64) {
	w := e.w
	var c *cliEnv
	for _, flags := range cliPipeFlagSets() {
		for _, fn := range cliPipeFns() {
			for _, del := range cliPipeDeliveries(!w.Quick()) {
				*unit++
				if !w.Owns(*unit) {
					continue
				}
				if w.Expired() {
					return
				}
				if c == nil {
					c = e.cliSetup()
				}
				for _, noOpt := range []bool{false, true} {
					e.cliOne(c, cliCase{Flags: flags, Delivery: del, NoOpt: noOpt, Fn: fn, CallForm: "pass-through"})
				}
			}
		}
	}
}

func tailOf(s string) string {
	if len(s) > 300 {
		return "..." + s[len(s)-300:]
	}
	return s
}

func (e *env) cliReplay(c Case) {
	if c.CliNames != nil {
		e.cliNamesOne(e.cliSetup(), *c.CliNames)
		return
	}
	if c.CliShared != nil {
		e.cliSharedOne(e.cliSetup(), *c.CliShared)
		return
	}
	if c.Cli == nil {
		panic("cli case without parameters")
	}
	e.cliOne(e.cliSetup(), *c.Cli)
}
