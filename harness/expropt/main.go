// Harness expropt decides parts (i) and (ii) of C10: static optimisation never
// changes an expression's value (and does not freeze {time live}/{time delta}),
// and a function loaded from a funcs file behaves like its body written inline.
// Part (iii) (several workers evaluating concurrently) belongs to a
// scheduler-based harness, not to this one.
package main

import (
	"encoding/json"
	"fmt"
	"os"
	"runtime/metrics"
	"strconv"
	"strings"
	"sync/atomic"
	"time"

	"rare/pkg/color"
	"rare/pkg/expressions"
	"rare/pkg/expressions/funclib"
	"rare/pkg/expressions/stdlib"
	"rare/pkg/humanize"
	"rare/pkg/logger"
	"rare/pkg/multiterm/termunicode"
	"verif/harness/exprgen"
	"verif/runner"
)

// Case is the replayable form of one case (strings Go-quoted: templates and
// groups contain NUL and invalid UTF-8, which JSON would alter).
type Case struct {
	Part     string   `json:"part"` // opt | time | funcs
	Family   string   `json:"family,omitempty"`
	Fn       string   `json:"fn,omitempty"`
	Template string   `json:"template_goquoted"`
	Groups   []string `json:"groups_goquoted,omitempty"`
	Contexts []string `json:"contexts,omitempty"`
	// funcs
	File   string `json:"funcs_file_goquoted,omitempty"`
	Plain  string `json:"funcs_file_plain_goquoted,omitempty"`
	Inline string `json:"inlined_template_goquoted,omitempty"`
	Body   string `json:"body,omitempty"`
	OnDisk bool   `json:"on_disk,omitempty"`
	Where  string `json:"where,omitempty"`
	// funcs, delivery family: how the bytes of the file reach the loader (nil: a complete regular file / memory)
	Delivery *delivery `json:"delivery,omitempty"`
	// funcs, long-line family: the case is rebuilt from these
	Long *longCase `json:"long_line,omitempty"`
	// funcs, names family: the case is rebuilt from these
	Names *namesCase `json:"names,omitempty"`
	// cli: the case is rebuilt from these
	Cli      *cliCase      `json:"cli,omitempty"`
	CliNames *cliNamesCase `json:"cli_names,omitempty"`
	// funcs / cli, shared-text family: the case is rebuilt from these
	Shared    *sharedCase    `json:"shared_text,omitempty"`
	CliShared *cliSharedCase `json:"cli_shared_text,omitempty"`
}

func q(s string) string { return strconv.Quote(s) }
func uq(s string) string {
	v, err := strconv.Unquote(s)
	if err != nil {
		panic(err)
	}
	return v
}

func setGlobals() {
	os.Setenv("TZ", "UTC")
	color.Enabled = true
	humanize.Enabled = true
	humanize.Decimals = 4
	termunicode.UnicodeEnabled = true
	stdlib.DisableLoad = false
	logger.DeferLogs() // LoadDefinitions logs every rejected definition
}

var scratchDir string

func enterScratchDir() func() {
	dir, err := os.MkdirTemp("", "expropt-")
	if err != nil {
		panic(err)
	}
	if err := os.WriteFile(dir+"/"+exprgen.LoadFixture, []byte("a b\nc d\n"), 0o644); err != nil {
		panic(err)
	}
	if err := os.Chdir(dir); err != nil {
		panic(err)
	}
	scratchDir = dir
	return func() { os.RemoveAll(dir) }
}

type panicInfo struct{ val any }

func catch(f func()) (pi *panicInfo) {
	defer func() {
		if r := recover(); r != nil {
			pi = &panicInfo{val: r}
		}
	}()
	f()
	return nil
}

type env struct {
	w     *runner.W
	fixed []exprgen.Ctx
	// sentinels planted into the shared sub-context pool: A while compiling
	// (what a constant folded at compile time would have seen), B while
	// evaluating
	sentA, sentB *exprgen.Sentinel
}

func newEnv(w *runner.W) *env {
	return &env{w: w, fixed: exprgen.FixedContexts(),
		sentA: &exprgen.Sentinel{Value: "3"}, sentB: &exprgen.Sentinel{Value: "5"}}
}

func (e *env) plant(template string, s *exprgen.Sentinel) {
	if strings.Contains(template, "{@") {
		exprgen.PlantPool(s)
	}
}

func (e *env) ctxByName(p *exprgen.Prog, names []string) []exprgen.PlanEntry {
	var out []exprgen.PlanEntry
	for _, n := range names {
		if n == "case" {
			out = append(out, exprgen.PlanEntry{Ctx: exprgen.Ctx{Name: "case", Ctx: exprgen.ArrayCtx(p.Groups, exprgen.StdKeys())}})
		}
		for _, f := range e.fixed {
			if f.Name == n {
				out = append(out, exprgen.PlanEntry{Ctx: f})
			}
		}
	}
	return out
}

// memoryGuard ends the worker (as a harness error, with the case named)
// instead of letting a runaway evaluation take the machine down; exprcrash,
// not this harness, is where non-returning programs are decided.
func memoryGuard(w *runner.W, current func() any) {
	sample := []metrics.Sample{{Name: "/memory/classes/heap/objects:bytes"}}
	for {
		time.Sleep(200 * time.Millisecond)
		metrics.Read(sample)
		if sample[0].Value.Kind() == metrics.KindUint64 && sample[0].Value.Uint64() > 2<<30 {
			b, _ := json.Marshal(current())
			fmt.Fprintf(os.Stderr, "expropt: heap beyond 2 GiB while running %s\n", b)
			os.Exit(5)
		}
	}
}

var currentCase atomic.Value

func worker(w *runner.W) {
	cleanup := enterScratchDir()
	defer cleanup()
	go memoryGuard(w, func() any {
		if f, ok := currentCase.Load().(func() any); ok {
			return f()
		}
		return nil
	})
	e := newEnv(w)
	only := w.Param("only", "")
	var unit int64
	if only == "" || only == "time" {
		if w.Shard == 0 {
			e.timePhase()
		}
	}
	if only == "" || only == "funcs" {
		e.funcsPhase(&unit)
	}
	if only == "long" { // diagnosis: the long-line family alone
		e.longPhase(&unit)
	}
	if only == "delivery" { // diagnosis: the delivery family alone (in-process and cli)
		e.deliveryPhase(&unit)
		e.cliPipePhase(&unit)
	}
	if only == "names" { // diagnosis: the names family alone (in-process and cli)
		e.namesPhase(&unit)
		e.cliNamesPhase(&unit)
	}
	if only == "shared" || only == "shared-inproc" { // diagnosis: the shared-text family alone (in-process and cli)
		e.sharedPhase(&unit)
	}
	if only == "shared" || only == "shared-cli" {
		e.cliSharedPhase(&unit)
	}
	if only == "" || only == "funcs" || only == "cli" {
		e.cliPhase(&unit)
		e.cliPipePhase(&unit)
		e.cliNamesPhase(&unit)
		e.cliSharedPhase(&unit)
	}
	if only == "" || only == "opt" || strings.Contains(only, "/") {
		e.optPhase(&unit, only)
	}
}

func replay(w *runner.W, raw json.RawMessage) {
	cleanup := enterScratchDir()
	defer cleanup()
	var c Case
	if err := json.Unmarshal(raw, &c); err != nil {
		panic(err)
	}
	e := newEnv(w)
	switch c.Part {
	case "opt":
		p := &exprgen.Prog{Family: c.Family, Fn: c.Fn, Template: uq(c.Template), Dynamic: true, TimeDep: strings.Contains(c.Template, "time")}
		for _, g := range c.Groups {
			p.Groups = append(p.Groups, uq(g))
		}
		e.optOne(p, e.ctxByName(p, c.Contexts))
	case "time":
		e.timePhase()
	case "funcs":
		e.funcsReplay(c)
	case "cli":
		e.cliReplay(c)
	default:
		panic("unknown part " + c.Part)
	}
}

func budget(tier string) time.Duration {
	if tier == "thorough" {
		return 20 * time.Minute
	}
	return 150 * time.Second
}

func main() {
	ensureBinary()
	setGlobals()
	runner.Main(&runner.Spec{
		Name:       "expropt",
		Properties: []string{"C10"},
		Level:      "exploration",
		Rule: func(prop, tier string) string {
			b := exprgen.BoundsFor(tier)
			return "(i) " + exprgen.Describe(b) + ". Every program is compiled by funclib.NewKeyBuilderEx(true) and (false) and both are evaluated on the program's case context and the fixed contexts " +
				"(all-empty = what the optimiser probes with, numeric, huge, odd bytes, two real SliceSpaceExpressionContexts; fewer for constant-only programs, see exprgen.Plan); oracle: byte-equal results. " +
				"(i-time) " + strconv.Itoa(len(timeTemplates())) + " templates around {time live}/{time delta} (bare, nested in helpers, behind a funcs-file function) compiled, then evaluated after the wall clock advanced by >= 2 s: live must lie between the clock readings taken around the evaluation, delta between the elapsed bounds (a frozen value cannot). " +
				"(ii) funcs files: " + funcsRule(tier) + ". " +
				"(ii-cli) funcs files through the start-up sequence of " + cliRule(tier) + "; " + cliPipeRule(tier) + "; " + cliNamesRule(tier) + "; " + cliSharedRule(tier) + ". " +
				"non-trivial = both builds compiled without error and at least one context was compared (for funcs: the definition loaded and the inlined body compiled; for cli: both processes exited with success); an outcome is (part, function or body, results)"
		},
		Assumptions: func(string) []string {
			return []string{
				"a program that panics on either side is not compared (crashes are decided by C08/exprcrash); programs and contexts known not to return on the unchanged tree (@range whose loop variable leaves int64) and inputs that exhaust resources by design are not run (exprgen.Plan / ExcludedByDesign)",
				"a template for which Compile reports errors on either side is not compared (the commands refuse it)",
				"the shared sub-context pool of the range helpers is put into a known state: while compiling, every pooled sub-context's parent is a context whose keys are all \"3\", while evaluating one whose keys are all \"5\" (in a real run they would be contexts of earlier, unrelated evaluations); a helper that resets its sub-context never sees either",
				"templates that read the clock ({time now|live|delta}) are compiled and evaluated again until both builds ran within one wall-clock second; the clock itself is only read to bracket, never to decide",
				"funcs files: one space between name and body, no '#' or backslash inside a body, lines are broken only at argument separators (the documentation does not say how other whitespace around a continuation is joined); zero-argument call sites are key lookups and are not generated; a definition that LoadDefinitions rejects even when written on one line is not compared",
				"delivery family: the statement speaks of the file's text, not of how its bytes arrive, so a funcs text that loads from a complete regular file is expected to load identically through a named pipe (one write, pieces, byte by byte) and through any chunking of an io.Reader; only fifos made by syscall.Mkfifo in the scratch directory and readers that return at least one byte per Read are used (no (0, nil) reads, no read errors, no file that grows while it is read - that race cannot be scheduled without timing); the pieces of a pipe delivery are separated by observing FIONREAD == 0 on the pipe, never by sleeping; in-process a load that has not returned after 60 s is reported as a hang and its writer released by opening the pipe O_RDONLY|O_NONBLOCK and draining it",
				"long-line family: neither the statement nor docs/usage/funcsfile.md bounds the length of a line of a funcs file, so every definition of a generated file whose body compiles inline is expected to be loaded under its own name whatever the length of its physical lines (up to the largest size of the tier); lines end in \\n (no \\r\\n); the one-definition-per-line reference of the other funcs cases does not apply (it would itself be a long line)",
				"names family (in-process and through the binary): where the statement is silent every reading is accepted, but ONE reading must explain the whole case (the set of loaded names and every call site): (a) a name used inside a body means what it meant when the definition was read (the unchanged tree: an earlier definition calling a name that a later line defines calls the built-in of that name, or is rejected when there is none) or what it means once all files are loaded; (b) of two definitions of one name the last or the first counts. No reading lets a built-in win over a loaded function of the same name, on the command line or in a later definition (the statement makes no exception for such names). The definitions of a file call the name with one argument where the built-in of that name takes one or wants a constant second one (so that the forward reference is accepted); a definition whose body, inlined down to built-ins, the built-in table refuses is expected not to load; defined names contain no blank, '#', quote or brace; a call site whose inlined form cannot be written (text as an argument) or is refused by the built-in table is not compared",
				"shared-text family (in-process and through the binary): the statement's 'the body with {0}, {1}, .. replaced by the call's arguments' is taken per occurrence - the same argument text in two definitions is two independent bodies, each with its own {0} and, for a helper the file defines twice, its own meaning of the name under ONE of the names family's 4 resolution policies for the whole case; what the documentation declares remembered ({time}/{buckettime} without a format: 'The first seen date will determine the format for all dates going forward') is kept out of the oracle's way: a definition is only ever called with one column and a column holds one notation in every row, so the function's occurrence of the text and the inlined body's see the same single notation; users do not call users (a user's body instance is reached from the command line only)",
				"cli part: the rare binary is built once per run by this harness (`go build -o <tmp>/rare .` in $VERIF_REPO, default /repo; a failed build is a harness error) and removed afterwards; every process gets an explicit environment (PATH, HOME=<scratch>, TZ=UTC, GOMAXPROCS=1, LANG=C and RARE_FUNC_FILES only when that is the delivery) and pipes for stdout/stderr, so colour is off unless --color is given (the terminal default, colour on, is not reachable without a pty); standard error (log lines of rejected definitions, compile errors) is not compared, only stdout and exit success; a process that has not exited after 60 s is reported as a hang",
				"part (iii) of the statement (concurrent evaluators) is not covered here",
				"in-process parts: process globals pinned: TZ=UTC, color.Enabled=true, humanize.Enabled=true, termunicode.UnicodeEnabled=true, stdlib.DisableLoad=false, funclib.Additional emptied after every funcs case",
			}
		},
		Worker:         worker,
		Replay:         replay,
		HangSeconds:    120,
		QuickBudget:    budget("quick"),
		ThoroughBudget: budget("thorough"),
	})
}

// ---- part (i): optimised == unoptimised ---------------------------------------

var kbs = [2]*expressions.KeyBuilder{}

func builders() [2]*expressions.KeyBuilder {
	if kbs[0] == nil {
		kbs = [2]*expressions.KeyBuilder{funclib.NewKeyBuilderEx(true), funclib.NewKeyBuilderEx(false)}
	}
	return kbs
}

func (e *env) optPhase(unit *int64, only string) {
	w := e.w
	blocks := exprgen.WellFormedBlocks(exprgen.BoundsFor(w.Tier))
	for _, b := range blocks {
		*unit++
		if !w.Owns(*unit) {
			continue
		}
		if strings.Contains(only, "/") && !strings.HasPrefix(b.ID, only) {
			continue
		}
		if w.Expired() {
			return
		}
		n := 0
		b.Each(func(p *exprgen.Prog) bool {
			n++
			if n&255 == 0 && w.Expired() {
				return false
			}
			cf := func() any { return e.optCase(p, nil, "") }
			w.SetCase(cf)
			currentCase.Store(cf)
			e.optOne(p, nil)
			return true
		})
		w.Add("blocks", 1)
	}
}

func (e *env) optCase(p *exprgen.Prog, plan []exprgen.PlanEntry, where string) Case {
	c := Case{Part: "opt", Family: p.Family, Fn: p.Fn, Template: q(p.Template), Where: where}
	for _, g := range p.Groups {
		c.Groups = append(c.Groups, q(g))
	}
	if plan == nil {
		plan = exprgen.Plan(p, e.fixed)
	}
	for _, pe := range plan {
		if !pe.Hazard {
			c.Contexts = append(c.Contexts, pe.Name)
		}
	}
	return c
}

// optOne compares the two builds of one program. C10: "For every template and
// every match context, evaluation with static optimisation enabled (the
// default) yields the same string as evaluation with optimisation disabled".
func (e *env) optOne(p *exprgen.Prog, plan []exprgen.PlanEntry) {
	w := e.w
	if plan == nil {
		plan = exprgen.Plan(p, e.fixed)
	}
	if p.Hazard != "" && !p.Dynamic {
		// constant arguments: the optimiser would run the non-returning call
		// at compile time
		w.Add("skipped_known_not_to_return_c08", 1)
		return
	}
	kb := builders()
	type result struct {
		ok   bool
		vals [2]string
	}
	var res []result
	compiledOK := false
	for attempt := 0; attempt < 6; attempt++ {
		res = res[:0]
		compiledOK = false
		sec := time.Now().Unix()
		var c [2]*expressions.CompiledKeyBuilder
		var errs [2]*expressions.CompilerErrors
		crashed := false
		for o := 0; o < 2; o++ {
			e.plant(p.Template, e.sentA)
			if pi := catch(func() { c[o], errs[o] = kb[o].Compile(p.Template) }); pi != nil {
				crashed = true
			}
		}
		if crashed {
			w.Add("skipped_compile_panics_c08", 1)
			w.Eval(false)
			return
		}
		if errs[0] != nil || errs[1] != nil || c[0] == nil || c[1] == nil {
			w.Add("skipped_compile_errors", 1)
			w.Eval(false)
			return
		}
		compiledOK = true
		for _, pe := range plan {
			if pe.Hazard {
				res = append(res, result{})
				continue
			}
			var r result
			r.ok = true
			for o := 0; o < 2; o++ {
				e.plant(p.Template, e.sentB)
				if pi := catch(func() { r.vals[o] = c[o].BuildKey(pe.Ctx.Ctx) }); pi != nil {
					r.ok = false
				}
			}
			res = append(res, r)
		}
		if !p.TimeDep || time.Now().Unix() == sec {
			break
		}
		// the clock ticked between the two builds: do it again
	}
	compared := 0
	sum := ""
	for i, r := range res {
		if !r.ok {
			if !plan[i].Hazard {
				w.Add("skipped_eval_panics_c08", 1)
			}
			continue
		}
		compared++
		if !p.TimeDep && len(sum) < 200 {
			sum += "|" + r.vals[1]
		}
		if r.vals[0] != r.vals[1] {
			fn := p.Fn
			if fn == "" {
				fn = p.Family
			}
			note := ""
			if strings.Contains(p.Template, "{@") {
				note = "\n(range helpers take their sub-context from a shared pool; the harness had left in it a context whose keys are all 3 before compiling and one whose keys are all 5 before evaluating - a helper that does not reset its pooled sub-context reads those instead of the match)"
			}
			w.Violation("C10/opt-differs/"+fn,
				fmt.Sprintf("optimised and unoptimised evaluation differ\ntemplate: %q\ngroups: %q\ncontext: %s\noptimised:   %q\nunoptimised: %q%s", p.Template, p.Groups, plan[i].Name, r.vals[0], r.vals[1], note),
				e.optCase(p, plan, "ctx="+plan[i].Name))
		}
	}
	w.Eval(compiledOK && compared > 0)
	w.Add("programs_"+p.Family, 1)
	w.Add("contexts_compared", int64(compared))
	if !p.TimeDep {
		w.Outcome("opt", p.Family, p.Fn, sum)
	}
	if w.WantSample() && compared > 3 && p.Dynamic && p.Family == "d2" {
		w.Sample(e.optCase(p, plan, ""))
	}
}

// ---- part (i-time): {time live} / {time delta} are not frozen -----------------

type timeTemplate struct {
	tmpl  string
	kind  string // live | delta
	shape string // where the clock-reading call sits (part of the signature)
	funcs string // funcs file to load first
}

func timeTemplates() []timeTemplate {
	return []timeTemplate{
		{"{time live}", "live", "bare", ""},
		{"{time delta}", "delta", "bare", ""},
		{"{time LIVE}", "live", "bare", ""},
		{"{time \"live\"}", "live", "bare", ""},
		{"{sumi {time live} 0}", "live", "inside-helper", ""},
		{"{sumi {time delta} 0}", "delta", "inside-helper", ""},
		{"{coalesce {time live}}", "live", "inside-helper", ""},
		{"{if 1 {time delta}}", "delta", "inside-helper", ""},
		{"{maxi {time live} 0}", "live", "inside-helper", ""},
		{"{sumi {sumi {time live} 0} 0}", "live", "inside-helper", ""},
		{"{@map x {time live}}", "live", "inside-range-helper", ""},
		{"{@map x {time delta}}", "delta", "inside-range-helper", ""},
		{"{@reduce {@ 0 0} {sumi {0} {1} {time live}}}", "live", "inside-range-helper", ""},
		{"{@for 0 {lt {1} 1} {time live}}{@select {@for 0 {lt {1} 2} {time live}} 1}", "live0", "inside-range-helper", ""},
		{"{tnow x}", "live", "inside-funcs-function", "tnow {time live}\n"},
		{"{tdelta x}", "delta", "inside-funcs-function", "tdelta {sumi {time delta} 0}\n"},
		{"{tpass {time live}}", "live", "argument-of-funcs-function", "tpass {sumi {0} 0}\n"},
	}
}

// timePhase: "values defined to vary ({time live}, {time delta}) are not
// frozen". The clock is the environment here; it is read only to bracket the
// evaluation (live must lie between the readings around it) and the harness
// waits until at least two whole seconds passed since compilation, so a value
// frozen at compile time is outside the bracket whatever the load.
func (e *env) timePhase() {
	w := e.w
	tt := timeTemplates()
	type built struct {
		c      [2]*expressions.CompiledKeyBuilder
		c0, c1 int64
		ok     bool
	}
	bs := make([]built, len(tt))
	for i, t := range tt {
		i, t := i, t
		catch(func() {
			if t.funcs != "" {
				fns, err := loadFuncs(t.funcs, false)
				if err != nil {
					return
				}
				funclib.AddFunctions(fns)
				defer clearAdditional()
			}
			b := built{c0: time.Now().Unix()}
			var e0, e1 *expressions.CompilerErrors
			b.c[0], e0 = funclib.NewKeyBuilderEx(true).Compile(t.tmpl)
			b.c[1], e1 = funclib.NewKeyBuilderEx(false).Compile(t.tmpl)
			b.c1 = time.Now().Unix()
			b.ok = e0 == nil && e1 == nil
			bs[i] = b
		})
	}
	var latest int64
	for _, b := range bs {
		if b.c1 > latest {
			latest = b.c1
		}
	}
	for time.Now().Unix() < latest+2 {
		time.Sleep(100 * time.Millisecond)
		w.Tick()
	}
	for i, t := range tt {
		b := bs[i]
		if !b.ok {
			w.Eval(false)
			continue
		}
		for o := 0; o < 2; o++ {
			var v string
			before := time.Now().Unix()
			pi := catch(func() { v = b.c[o].BuildKey(exprgen.ArrayCtx([]string{"1"}, exprgen.StdKeys())) })
			after := time.Now().Unix()
			if pi != nil {
				w.Add("skipped_eval_panics_c08", 1)
				continue
			}
			if t.kind == "live0" {
				v = strings.TrimPrefix(v, "0")
			}
			n, err := strconv.ParseInt(v, 10, 64)
			lo, hi := before, after
			if strings.HasPrefix(t.kind, "delta") {
				lo, hi = before-b.c1, after-b.c0
			}
			w.Eval(true)
			w.Outcome("time", t.kind, strconv.Itoa(o), strconv.FormatBool(err == nil && n >= lo && n <= hi))
			if err != nil || n < lo || n > hi {
				w.Violation("C10/time-frozen/"+t.shape+"/"+strings.TrimSuffix(t.kind, "0"),
					fmt.Sprintf("template %q (optimise=%v) compiled at unix %d..%d and evaluated at %d..%d returned %q; a value that varies with the clock must lie in [%d,%d]", t.tmpl, o == 0, b.c0, b.c1, before, after, v, lo, hi),
					Case{Part: "time", Template: q(t.tmpl)})
			}
		}
	}
}
