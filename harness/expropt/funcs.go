package main

import (
	"fmt"
	"os"
	"sort"
	"strconv"
	"strings"

	"rare/pkg/expressions"
	"rare/pkg/expressions/funcfile"
	"rare/pkg/expressions/funclib"
	"verif/harness/exprgen"
)

// Part (ii) of C10: "A function loaded from a funcs file (with comments, blank
// lines and backslash-continued lines) behaves exactly like its body written
// inline - {name a b ..} equals the body with {0}, {1}, .. replaced by the
// call's arguments, named keys resolved in the caller's match and missing
// arguments empty".
//
// A case is (definitions, layout of the file, call site, context). The
// reference is tree-level inlining done by the harness (exprgen.Node.Inline:
// {i} outside the sub-expression of a range helper is replaced by argument i or
// by the empty constant); the inlined template is evaluated by the plain
// builtin table without optimisation.

type ndef struct {
	name string
	body *exprgen.Node
	id   string // body class, used in signatures
	// extra call sites (argument lists) that make the body's behaviour visible
	calls [][]*exprgen.Node
	// const-only bodies: the same body with the parameter-fed optional
	// argument left out, i.e. what the helper does when it silently falls back
	// to its default. A difference is filed under the const-only signature only
	// if the function returns exactly this.
	dflt *exprgen.Node
}

var (
	L = exprgen.L
	W = exprgen.W
	R = exprgen.R
	K = exprgen.K
	C = exprgen.C
	S = exprgen.S
)

// firstDefs: bodies using {0}, {1}, {2}, {key}, missing arguments, lazy
// arguments, a range helper with a rebinding sub-expression, typed arguments,
// a constant body, top-level text around statements, a constant-only helper
// argument fed from a parameter.
func firstDefs() []ndef {
	return []ndef{
		{"double", C("sumi", R(0), R(0)), "double", nil, nil},
		{"add", C("sumi", R(0), R(1)), "add2", nil, nil},
		{"pick", C("switch", C("eq", R(0), W("a")), W("isa"), C("eq", R(0), W("b")), W("isb"), W("other")), "switch-doc", nil, nil},
		{"dflt", C("coalesce", R(1), K("key"), W("dflt")), "coalesce-key", nil, nil},
		{"lazy", C("if", R(1), C("upper", R(0)), C("lower", R(0))), "lazy-if", nil, nil},
		{"swap", C("format", W("%s/%s"), R(1), R(0)), "format-swap", nil, nil},
		{"third", S(R(2), L("-"), R(0)), "third-text", nil, nil},
		{"incall", C("@map", R(0), C("sumi", R(0), K("n"))), "map-rebinding", nil, nil},
		{"small", C("lt", R(0), W("5")), "typed-lt", nil, nil},
		{"three", C("sumi", W("1"), W("2")), "constant", nil, nil},
		{"wrap", S(L("<"), C("upper", R(0)), L("|"), K("key"), L(">")), "text-around", nil, nil},
		{"csvline", C("csv", R(0), R(1), L("a b")), "quoted-literal", nil, nil},
		{"rep", C("repeat", R(0), W("2")), "rejected-at-load", nil, nil},
		// helpers with an optional argument that must be a constant ("delim",
		// initial value, comment prefix, time format, time zone), fed from a
		// parameter of the function; one signature for the class
		{"spl", C("@split", R(0), R(1)), constOnly, [][]*exprgen.Node{{L("a,b"), L(",")}}, C("@split", R(0))},
		{"jn", C("@join", R(0), R(1)), constOnly, [][]*exprgen.Node{{C("@", W("a"), W("b")), W("-")}}, C("@join", R(0))},
		{"red", C("@reduce", R(0), C("sumi", R(0), R(1)), R(1)), constOnly, [][]*exprgen.Node{{C("@", W("1"), W("2")), W("10")}}, C("@reduce", R(0), C("sumi", R(0), R(1)))},
		{"lk", C("lookup", R(0), L("c d"), R(1)), constOnly, [][]*exprgen.Node{{W("c"), W("c")}}, C("lookup", R(0), L("c d"))},
		{"hk", C("haskey", R(0), L("c d"), R(1)), constOnly, [][]*exprgen.Node{{W("c"), W("c")}}, C("haskey", R(0), L("c d"))},
		{"tfm", C("time", R(0), R(1)), constOnly, [][]*exprgen.Node{{L("2020|03|01"), L("2006|01|02")}}, C("time", R(0))},
		{"ttz", C("time", R(0), L(""), R(1)), constOnly, [][]*exprgen.Node{{L("2020-03-01 10:00:00"), W("America/New_York")}}, C("time", R(0), L(""))},
		{"tff", C("timeformat", R(0), R(1)), constOnly, [][]*exprgen.Node{{W("1583020800"), W("YEAR")}}, C("timeformat", R(0))},
		{"tftz", C("timeformat", R(0), W("RFC3339"), R(1)), constOnly, [][]*exprgen.Node{{W("1583020800"), W("America/New_York")}}, C("timeformat", R(0), W("RFC3339"))},
		{"btf", C("buckettime", R(0), W("days"), R(1)), constOnly, [][]*exprgen.Node{{L("2020|03|01"), L("2006|01|02")}}, C("buckettime", R(0), W("days"))},
		{"tatz", C("timeattr", R(0), W("weekday"), R(1)), constOnly, [][]*exprgen.Node{{W("1583020800"), W("America/New_York")}}, C("timeattr", R(0), W("weekday"))},
	}
}

const constOnly = "const-only-arg-from-param"

// secondDefs call the first definition f.
func secondDefs(f string) []ndef {
	return []ndef{
		{"twice", C(f, C(f, R(0), R(1)), R(1)), "nested-self", nil, nil},
		{"flip", C("upper", C(f, R(1), R(0))), "inside-builtin", nil, nil},
		{"keyed", S(L("["), C(f, R(0), K("key")), L("]")), "key-argument", nil, nil},
		{"mapped", C("@map", R(0), C(f, R(0), W("x"))), "call-in-map", nil, nil},
	}
}

func callArgs() []*exprgen.Node {
	return []*exprgen.Node{W("2"), W("a"), L("a b"), R(0), R(1), K("key"), C("sumi", R(0), W("1"))}
}

// callSites for a function name: 1..3 arguments (constant, dynamic, nested
// call, nested call of the function itself), bare and wrapped.
func callSites(name string, full bool) []*exprgen.Node {
	a := callArgs()
	var out []*exprgen.Node
	for _, x := range a {
		out = append(out, C(name, x))
	}
	for i, x := range a {
		for j, y := range a {
			if !full && (i+j)%3 != 0 {
				continue
			}
			out = append(out, C(name, x, y))
		}
	}
	for _, x := range a {
		out = append(out, C(name, x, W("b"), R(1)))
	}
	out = append(out,
		C("upper", C(name, W("a"), R(0))),
		C(name, C(name, R(0), R(1)), R(1)),
		C("@map", R(0), C(name, R(0), K("n"))),
		S(L("pre "), C(name, R(1), R(0)), L(" "), C(name, K("key"))),
	)
	return out
}

// pieces splits a definition line into the units between which a line may be
// broken: the argument separators of the first call of the body.
func pieces(d ndef) []string {
	body := d.body
	var call *exprgen.Node
	prefix, suffix := "", ""
	switch body.Kind {
	case exprgen.Call:
		call = body
	case exprgen.Seq:
		for i, a := range body.Args {
			if a.Kind == exprgen.Call && call == nil {
				call = a
				prefix = exprgen.S(body.Args[:i]...).Print(0)
				suffix = exprgen.S(body.Args[i+1:]...).Print(0)
			}
		}
	}
	if call == nil || len(call.Args) == 0 {
		return []string{d.name + " " + body.Print(0)}
	}
	out := []string{d.name + " " + prefix + "{" + call.S}
	for _, a := range call.Args {
		out = append(out, a.Print(1))
	}
	out = append(out, "}"+suffix)
	return out
}

// layout renders one definition. breaks: indexes i such that a line break
// follows piece i; deco selects how a continuation is decorated.
type layout struct {
	breaks []int
	deco   int // 0 plain "\", 1 "\ # comment", 2 comment line inside, 3 blank line inside, 4 tab indent, 5 no indent, 6 two blanks before "\"
	trail  bool
}

func (l layout) String() string {
	return fmt.Sprintf("breaks=%v deco=%d trail=%v", l.breaks, l.deco, l.trail)
}

func render(d ndef, l layout) []string {
	ps := pieces(d)
	last := len(ps) - 1
	isBreak := map[int]bool{}
	if last > 0 {
		for _, b := range l.breaks {
			if b < last {
				isBreak[b] = true
			}
		}
	}
	indent := "    "
	switch l.deco {
	case 4:
		indent = "\t"
	case 5:
		indent = ""
	}
	var lines []string
	cur, fresh := "", true
	for i, p := range ps {
		if !fresh && !(i == last && last > 0) {
			cur += " " // pieces on one line are separated by one blank; the closing brace attaches
		}
		cur += p
		fresh = false
		if isBreak[i] {
			switch l.deco {
			case 1:
				cur += " \\ # why"
			case 6:
				cur += "  \\"
			default:
				cur += " \\"
			}
			lines = append(lines, cur)
			if l.deco == 2 {
				lines = append(lines, "  # inside")
			}
			if l.deco == 3 {
				lines = append(lines, "")
			}
			cur, fresh = indent, true
		}
	}
	if l.trail {
		cur += " # trailing"
	}
	return append(lines, cur)
}

func plainLine(d ndef) string { return d.name + " " + d.body.Print(0) }

func layouts(nPieces int, thorough bool) []layout {
	out := []layout{{}, {trail: true}}
	maxBreaks := 2
	for b1 := 0; b1 < nPieces-1; b1++ {
		for deco := 0; deco <= 6; deco++ {
			out = append(out, layout{breaks: []int{b1}, deco: deco})
		}
		out = append(out, layout{breaks: []int{b1}, deco: 1, trail: true})
		if maxBreaks >= 2 {
			for b2 := b1 + 1; b2 < nPieces-1; b2++ {
				decos := []int{0, 1, 2}
				if thorough {
					decos = []int{0, 1, 2, 3, 4, 5, 6}
				}
				for _, deco := range decos {
					out = append(out, layout{breaks: []int{b1, b2}, deco: deco})
				}
			}
		}
	}
	return out
}

var fillers = [][]string{nil, {"# a comment"}, {""}, {"   # indented comment", ""}}

func funcsRule(tier string) string {
	return fmt.Sprintf("%d first definitions (bodies over {0},{1},{2},{key}, missing and lazy arguments, a rebinding @map, typed and constant-only helper arguments, text around statements) and %d second definitions calling the first (nested, inside a builtin, with a key argument, inside @map); "+
		"every layout of a definition over its argument separators with up to 2 line breaks x 7 continuation styles (backslash, backslash + trailing comment, comment line or blank line inside the continuation, tab / no indentation, two blanks before the backslash) and an optional trailing comment, x 4 fillers (none, comment, blank, indented comment + blank) before and between definitions, loaded through LoadDefinitionsFile from a real file (one call site per layout) or LoadDefinitions, then TryAddFunctions as main.go does; "+
		"call sites with 1..3 arguments from {2, a, 'a b', {0}, {1}, {key}, {sumi {0} 1}} (all pairs in the thorough tier), a nested call of the function itself, a call inside a builtin, inside @map and between text; 5 contexts; compared with the harness's tree-level inlining evaluated by the builtin table, for the optimising and the plain call-site build (tier %s); %s; %s; %s; %s", len(firstDefs()), len(secondDefs("f")), tier, longRule(tier), namesRule(tier), sharedRule(tier), deliveryRule(tier))
}

func clearAdditional() {
	for k := range funclib.Additional {
		delete(funclib.Additional, k)
	}
}

var fileSeq int

// loadFuncs loads a funcs file text the way main.go does: an optimising
// compiler of the builtin table, funcfile.LoadDefinitions(File).
func loadFuncs(text string, onDisk bool) (map[string]expressions.KeyBuilderFunction, error) {
	cmplr := funclib.NewKeyBuilder()
	if onDisk {
		fileSeq++
		name := fmt.Sprintf("%s/f%d.funcs", scratchDir, fileSeq%4)
		if err := os.WriteFile(name, []byte(text), 0o644); err != nil {
			panic(err)
		}
		return funcfile.LoadDefinitionsFile(cmplr, name)
	}
	return funcfile.LoadDefinitions(cmplr, strings.NewReader(text), "generated")
}

func funcsContexts(e *env) []exprgen.Ctx {
	own := exprgen.Ctx{Name: "case", Ctx: exprgen.ArrayCtx([]string{"3", "b", "", "7"}, exprgen.StdKeys())}
	out := []exprgen.Ctx{own, {Name: "arr", Ctx: exprgen.ArrayCtx([]string{"1\x002\x00x", "a"}, exprgen.StdKeys())}}
	for _, f := range e.fixed {
		switch f.Name {
		case "empty", "numeric", "real-a":
			out = append(out, f)
		}
	}
	return out
}

type funcsCase struct {
	defs   []ndef
	text   string // file as generated
	plain  string // the same definitions, one per line, nothing else
	call   *exprgen.Node
	onDisk bool
	layout string
}

func (e *env) funcsPhase(unit *int64) {
	w := e.w
	thorough := !w.Quick()
	firsts := firstDefs()
	for fi, f := range firsts {
		seconds := append([]ndef{{}}, secondDefs(f.name)...)
		if f.id == constOnly {
			// known to differ on its own; callers of it would only repeat that
			seconds = seconds[:1]
		}
		for si, s2 := range seconds {
			*unit++
			if !w.Owns(*unit) {
				continue
			}
			if w.Expired() {
				return
			}
			defs := []ndef{f}
			if s2.name != "" {
				defs = append(defs, s2)
			}
			target := defs[len(defs)-1]
			plain := ""
			for _, d := range defs {
				plain += plainLine(d) + "\n"
			}
			// (a) every layout x fillers x 3 call sites, from a real file
			sites := callSites(target.name, false)
			few := []*exprgen.Node{sites[3], sites[len(sites)-4], sites[len(sites)-1]}
			for _, lay := range layouts(len(pieces(target)), thorough) {
				for bi, before := range fillers {
					for mi, mid := range fillers {
						if len(defs) == 1 && mi > 0 {
							continue
						}
						var lines []string
						lines = append(lines, before...)
						for di, d := range defs {
							if di == len(defs)-1 {
								lines = append(lines, render(d, lay)...)
							} else {
								// the first definition of two: its own layouts are
								// covered when it is the target; vary it a little
								l1 := layout{}
								if bi%2 == 1 && len(pieces(d)) > 2 {
									l1 = layout{breaks: []int{0}, deco: 1}
								}
								lines = append(lines, render(d, l1)...)
								lines = append(lines, mid...)
							}
						}
						if bi == 3 {
							lines = append(lines, "# the end")
						}
						text := strings.Join(lines, "\n") + "\n"
						if bi == 2 {
							text = strings.TrimSuffix(text, "\n") // last line without newline
						}
						for ci, call := range few {
							// the first call site goes through a real file (LoadDefinitionsFile)
							e.funcsOne(funcsCase{defs: defs, text: text, plain: plain, call: call, onDisk: ci == 0, layout: lay.String()})
						}
					}
				}
			}
			// (b) every call site, one-line layout and two continued layouts
			for _, lay := range []layout{{}, {breaks: []int{0}, deco: 1}, {breaks: []int{0, 1}, deco: 2, trail: true}} {
				text := ""
				for di, d := range defs {
					if di == len(defs)-1 {
						text += strings.Join(render(d, lay), "\n") + "\n"
					} else {
						text += plainLine(d) + "\n"
					}
				}
				sites := callSites(target.name, thorough)
				for _, args := range target.calls {
					sites = append(sites, C(target.name, args...))
				}
				for _, call := range sites {
					e.funcsOne(funcsCase{defs: defs, text: text, plain: plain, call: call, layout: lay.String()})
				}
			}
			_ = fi
			_ = si
			w.Add("funcs_definition_sets", 1)
		}
	}
	e.longPhase(unit)
	e.namesPhase(unit)
	e.sharedPhase(unit)
	e.deliveryPhase(unit)
}

func (e *env) funcsReplay(c Case) {
	if c.Long != nil {
		e.longOne(*c.Long)
		return
	}
	if c.Names != nil {
		e.namesOne(*c.Names)
		return
	}
	if c.Shared != nil {
		e.sharedOne(*c.Shared)
		return
	}
	// rebuild from the recorded texts; the definitions are recovered by name
	var defs []ndef
	all := append(firstDefs(), deliveryDefs()...)
	for _, f := range firstDefs() {
		all = append(all, secondDefs(f.name)...)
	}
	plain := uq(c.Plain)
	for _, line := range strings.Split(strings.TrimSpace(plain), "\n") {
		for _, d := range all {
			if plainLine(d) == line {
				defs = append(defs, d)
				break
			}
		}
	}
	// the call tree is recovered by printing the candidate call sites
	var callNode *exprgen.Node
	if len(defs) > 0 {
		target := defs[len(defs)-1]
		sites := callSites(target.name, true)
		for _, args := range target.calls {
			sites = append(sites, C(target.name, args...))
		}
		for _, cs := range sites {
			if cs.Print(0) == uq(c.Template) {
				callNode = cs
			}
		}
	}
	e.funcsCompare(cmpIn{defs: defs, callNode: callNode, text: uq(c.File), plain: plain, callT: uq(c.Template), inlineT: uq(c.Inline), onDisk: c.OnDisk, id: c.Body, layoutDesc: "replayed", deliv: c.Delivery})
}

func (e *env) funcsOne(fc funcsCase) {
	defsMap := map[string]*exprgen.Node{}
	for _, d := range fc.defs {
		defsMap[d.name] = d.body
	}
	callT := fc.call.Print(0)
	inlined := fc.call.Inline(defsMap)
	if seqAsArgument(inlined, false) {
		// text around a statement cannot be written as one argument without
		// nesting quotes (DESIGN §6: quotes do not nest): no inline form
		e.w.Add("funcs_inline_form_not_writable", 1)
		return
	}
	inlineT := inlined.Print(0)
	// the signature names the first definition's body class; the second
	// definition (a caller of the first) is in the detail
	id := fc.defs[0].id
	e.w.SetCase(func() any {
		return Case{Part: "funcs", Template: q(callT), File: q(fc.text), Plain: q(fc.plain), Inline: q(inlineT), Body: id, OnDisk: fc.onDisk}
	})
	e.funcsCompare(cmpIn{defs: fc.defs, callNode: fc.call, text: fc.text, plain: fc.plain, callT: callT, inlineT: inlineT, onDisk: fc.onDisk, id: id, layoutDesc: fc.layout})
}

// defaultedValue evaluates the call with the first definition's body replaced
// by its dflt form (optional argument left out), inlined, on the builtin table.
func defaultedValue(defs []ndef, call *exprgen.Node, cx exprgen.Ctx) (v string, ok bool) {
	if call == nil || len(defs) == 0 || defs[0].dflt == nil {
		return "", false
	}
	m := map[string]*exprgen.Node{defs[0].name: defs[0].dflt}
	for _, d := range defs[1:] {
		m[d.name] = d.body
	}
	if pi := catch(func() {
		c, errs := funclib.NewKeyBuilderEx(false).Compile(call.Inline(m).Print(0))
		if errs != nil || c == nil {
			return
		}
		v, ok = c.BuildKey(cx.Ctx), true
	}); pi != nil {
		return "", false
	}
	return v, ok
}

func seqAsArgument(n *exprgen.Node, isArg bool) bool {
	if n.Kind == exprgen.Seq && isArg {
		return true
	}
	for _, a := range n.Args {
		if seqAsArgument(a, n.Kind == exprgen.Call) {
			return true
		}
	}
	return false
}

// cmpIn is one funcs-file case: the definitions, the file text they are loaded
// from, the call and its inlined form.
type cmpIn struct {
	defs       []ndef
	callNode   *exprgen.Node
	text       string // the funcs file
	plain      string // the same definitions one per line ("" = the long-line family, which has no such reference)
	callT      string
	inlineT    string
	onDisk     bool
	id         string
	layoutDesc string
	long       *longCase // the long-line family: replayed from its parameters, texts abbreviated in reports
	deliv      *delivery // the delivery family: the file reaches the loader through a named pipe / a chunking io.Reader
}

func (e *env) funcsCompare(in cmpIn) {
	w := e.w
	defs, callNode, text, plain, callT, inlineT, onDisk, id, layoutDesc := in.defs, in.callNode, in.text, in.plain, in.callT, in.inlineT, in.onDisk, in.id, in.layoutDesc
	mk := func(where string) Case {
		if in.long != nil {
			return Case{Part: "funcs", Template: q(callT), Body: id, OnDisk: onDisk, Where: where, Long: in.long}
		}
		return Case{Part: "funcs", Template: q(callT), File: q(text), Plain: q(plain), Inline: q(inlineT), Body: id, OnDisk: onDisk, Where: where, Delivery: in.deliv}
	}
	// what a report shows of the file and of values (the long-line family's are abbreviated)
	show, showV := text, func(s string) string { return strconv.Quote(s) }
	loadSig := "C10/funcs/layout-changes-what-is-loaded"
	if in.long != nil {
		show = abbrevLines(text)
		showV = abbrevValue
		loadSig += "/" + id
	}
	names := make([]string, 0, len(defs))
	for _, d := range defs {
		names = append(names, d.name)
	}
	sort.Strings(names)
	has := func(m map[string]expressions.KeyBuilderFunction) bool {
		for _, n := range names {
			if m[n] == nil {
				return false
			}
		}
		return true
	}
	// the definitions written one per line must be acceptable at all
	if plain != "" {
		var plainFns map[string]expressions.KeyBuilderFunction
		var plainErr error
		if pi := catch(func() { plainFns, plainErr = loadFuncs(plain, false) }); pi != nil {
			w.Add("skipped_load_panics_c08", 1)
			w.Eval(false)
			return
		}
		if plainErr != nil || !has(plainFns) {
			w.Add("funcs_rejected_even_on_one_line", 1)
			w.Eval(false)
			return
		}
	}
	var fns map[string]expressions.KeyBuilderFunction
	var err error
	loadWhat, feedNote := "the definitions load when written one per line but", ""
	if in.deliv != nil {
		// the delivery family: the very same bytes must load from a complete regular file first
		var wholeFns map[string]expressions.KeyBuilderFunction
		var wholeErr error
		if pi := catch(func() { wholeFns, wholeErr = loadFuncs(text, true) }); pi != nil || wholeErr != nil || !has(wholeFns) || len(wholeFns) != len(names) {
			w.Add("funcs_delivery_text_not_loadable_from_a_regular_file", 1)
			w.Eval(false)
			return
		}
		loadSig = "C10/funcs/delivery-changes-what-is-loaded/" + in.deliv.class()
		layoutDesc += "; delivered as " + in.deliv.describe(text)
		loadWhat = "the same bytes load from a complete regular file but"
	}
	hung := false
	if pi := catch(func() {
		if in.deliv != nil {
			fns, err, hung, feedNote = loadFuncsVia(text, in.deliv)
			return
		}
		fns, err = loadFuncs(text, onDisk)
	}); pi != nil {
		// the same definitions load when written one per line
		w.Eval(true)
		w.Violation(loadSig,
			fmt.Sprintf("%s loading this layout (%s) panics: %v\nfile:\n%s", loadWhat, layoutDesc, pi.val, show), mk("load"))
		return
	}
	if hung {
		w.Eval(true)
		w.Violation("C10/funcs/hang/"+id,
			fmt.Sprintf("%s loading it as %s had not returned after 60 s\n%s\nfile:\n%s", loadWhat, layoutDesc, feedNote, show), mk("load"))
		return
	}
	if in.deliv != nil {
		w.Add("funcs_delivery_cases", 1)
		w.Add("funcs_delivery_"+in.deliv.class(), 1)
	}
	if err != nil || !has(fns) || len(fns) != len(names) {
		got := make([]string, 0, len(fns))
		for n := range fns {
			got = append(got, n)
		}
		sort.Strings(got)
		w.Eval(true)
		what := "the definitions load when written one per line but not in this layout"
		if in.deliv != nil {
			what = "the same bytes load from a complete regular file but not through this delivery: " + feedNote
		}
		if in.long != nil {
			what = "every definition of this file is short enough to load when its lines are short (and its body compiles inline), but this file does not load as written: a definition is missing, truncated into another name, or the loader reported an error"
			for i := range got {
				got[i] = abbrevValue(got[i])
			}
		}
		w.Violation(loadSig,
			fmt.Sprintf("%s (%s)\nfile:\n%s\nerror: %v\nloaded names: %v, expected %v", what, layoutDesc, show, err, got, names), mk("load"))
		return
	}
	// reference: the inlined body on the builtin table, not optimised
	var ref *expressions.CompiledKeyBuilder
	var refErr *expressions.CompilerErrors
	if pi := catch(func() { ref, refErr = funclib.NewKeyBuilderEx(false).Compile(inlineT) }); pi != nil || refErr != nil || ref == nil {
		w.Add("funcs_inlined_body_not_compilable", 1)
		w.Eval(false)
		return
	}
	funclib.TryAddFunctions(fns, err)
	defer clearAdditional()
	var calls [2]*expressions.CompiledKeyBuilder
	for o := 0; o < 2; o++ {
		var cerr *expressions.CompilerErrors
		if pi := catch(func() { calls[o], cerr = funclib.NewKeyBuilderEx(o == 0).Compile(callT) }); pi != nil {
			w.Add("skipped_compile_panics_c08", 1)
			w.Eval(false)
			return
		}
		if cerr != nil || calls[o] == nil {
			w.Eval(true)
			w.Violation("C10/funcs/call-site-does-not-compile/"+id,
				fmt.Sprintf("the call %q of a loaded function does not compile (%v) although the inlined body %s does\nfile:\n%s", callT, cerr, showV(inlineT), show), mk("compile"))
			return
		}
	}
	compared := 0
	sum := ""
	for _, cx := range funcsContexts(e) {
		var want string
		if pi := catch(func() { want = ref.BuildKey(cx.Ctx) }); pi != nil {
			w.Add("skipped_eval_panics_c08", 1)
			continue
		}
		for o := 0; o < 2; o++ {
			var got string
			if pi := catch(func() { got = calls[o].BuildKey(cx.Ctx) }); pi != nil {
				w.Add("skipped_eval_panics_c08", 1)
				continue
			}
			compared++
			if got != want {
				sig := "C10/funcs/differs-from-inline/" + id
				if id == constOnly {
					// the known class is exactly: the helper ignored the
					// parameter-fed optional argument and used its default.
					// Anything else these bodies do wrong is a different defect.
					if dv, ok := defaultedValue(defs, callNode, cx); !ok || dv != got {
						sig = "C10/funcs/differs-from-inline/const-only-body-but-not-the-default/" + defs[0].name
					}
				}
				if w.Param("split", "") == "1" { // diagnosis: one signature per definition set
					sig += "/" + strings.Join(names, "+")
				}
				w.Violation(sig,
					fmt.Sprintf("call %q (optimise=%v) on context %s returned %s; the inlined body %s returns %s%s\nlayout: %s\nfile:\n%s", callT, o == 0, cx.Name, showV(got), showV(inlineT), showV(want), firstDiff(got, want), layoutDesc, show), mk("ctx="+cx.Name))
			}
		}
		if len(sum) < 200 {
			sum += "|" + want
		}
	}
	w.Eval(compared > 0)
	w.Add("funcs_cases", 1)
	w.Outcome("funcs", id, sum)
	if in.long != nil {
		w.Add("funcs_long_line_cases", 1)
		w.Max("funcs_longest_physical_line", int64(in.long.Size))
	}
	if w.WantSample() && compared > 0 && in.long == nil && strings.Contains(text, "\\") && strings.Contains(callT, "{0}") {
		w.Sample(mk(""))
	}
}
