package main

import (
	"fmt"
	"os"
	"strings"
)

// The shared-text family (shared.go) through the start-up sequence of the real
// binary: all --funcs / RARE_FUNC_FILES files are compiled by the one compiler of
// main.go's Before hook, the command compiles the call sites with
// funclib.NewKeyBuilderEx.
//
//	rare --funcs a [--funcs b] expression [--no-optimize] -k key=K -d c0 -d c1 -d c2 -d c3 '{ua {0}}|{ub {1}}|{uc {2}}|{tag {3}}'
//	rare                       expression [--no-optimize] -k key=K -d c0 -d c1 -d c2 -d c3 '<inlined under a resolution policy>'
//
// and the same for every call site alone. One policy must explain every call
// site of a case (stdout and exit success).

type cliSharedCase struct {
	Text     string   `json:"shared_text"`
	Seq      []string `json:"definitions"`
	Forms    int      `json:"place_of_the_text_in_ua_ub_uc"`
	Delivery string   `json:"funcs_delivery"` // flag | env | two-flags | two-env
	Split    int      `json:"second_file_starts_at_definition"`
	NoOpt    bool     `json:"no_optimize"`
	Order    int      `json:"order_of_the_calls_in_one_expression"`
	Row      int      `json:"row"`
}

// the files of the cli part: the helper redefined between / before the users, a
// user that precedes the helper, no helper at all, a user defined twice
func cliSharedSeqs(t sharedText, thorough bool) [][]string {
	all := []string{"h1 ua h2 ub", "h1 h2 ua ub", "ua h1 ub h2 uc", "ua ub uc", "h1 ua h2 ua ub"}
	if thorough {
		all = append(all, "h1 ua ub h2", "h2 ua h1 ub h2 uc", "ua ub", "h1 ua ub uc h2 uc", "ua h2 ub", "h1 ua h1 ub")
	}
	var out [][]string
	seen := map[string]bool{}
	for _, s := range all {
		var seq []string
		for _, sym := range strings.Fields(s) {
			if t.helper == "" && userColumn(sym) < 0 {
				continue
			}
			seq = append(seq, sym)
		}
		if k := strings.Join(seq, " "); !seen[k] {
			seen[k] = true
			out = append(out, seq)
		}
	}
	return out
}

func cliSharedRule(tier string) string {
	th := tier == "thorough"
	return fmt.Sprintf("shared-text family through the real binary: the %d shared texts x files %q (symbols as in the in-process family; the helper symbols dropped for texts without helper) x placement of the text (ua, ub, uc) = %v x delivery {--funcs f, RARE_FUNC_FILES=f, two --funcs files split before %s%s} x with/without --no-optimize x %s; per case all call sites in one expression (their order rotating with the case) and every call site alone, `rare <funcs> expression -k key=K -d c0 -d c1 -d c2 -d c3 '<calls>'` against `rare expression .. '<inlined under a resolution policy>'`: one of the 4 policies must explain stdout and exit success of every call site of the case",
		len(sharedTexts()), cliSharedSeqs(sharedTexts()[0], th), sharedFormVectors[:cliSharedForms(th)],
		map[bool]string{true: "every definition", false: "the second and before the last definition"}[th], map[bool]string{true: ", the same through RARE_FUNC_FILES=f,g", false: ""}[th],
		map[bool]string{true: "both rows of data", false: "the first row of data"}[th])
}

func cliSharedForms(thorough bool) int {
	if thorough {
		return 2
	}
	return 1
}

func (e *env) cliSharedPhase(unit *int64) {
	w := e.w
	thorough := !w.Quick()
	var c *cliEnv
	caseNo := 0
	for _, t := range sharedTexts() {
		for _, seq := range cliSharedSeqs(t, thorough) {
			for forms := 0; forms < cliSharedForms(thorough); forms++ {
				*unit++
				caseNo++
				if !w.Owns(*unit) {
					continue
				}
				if w.Expired() {
					return
				}
				if c == nil {
					c = e.cliSetup()
				}
				rows := 1
				if thorough {
					rows = len(t.rows)
				}
				n := 0
				for _, noOpt := range []bool{false, true} {
					for row := 0; row < rows; row++ {
						var cases []cliSharedCase
						base := cliSharedCase{Text: t.id, Seq: seq, Forms: forms, NoOpt: noOpt, Row: row}
						add := func(delivery string, split int) {
							cc := base
							cc.Delivery, cc.Split = delivery, split
							n++
							cc.Order = caseNo + n
							cases = append(cases, cc)
						}
						add("flag", 0)
						add("env", 0)
						for s := 1; s < len(seq); s++ {
							if !thorough && s != 1 && s != len(seq)-1 {
								continue
							}
							add("two-flags", s)
							if thorough {
								add("two-env", s)
							}
						}
						for _, cc := range cases {
							e.cliSharedOne(c, cc)
						}
					}
				}
			}
		}
	}
}

func (e *env) cliSharedOne(c *cliEnv, cc cliSharedCase) {
	w := e.w
	tx := findSharedText(cc.Text)
	defs := tx.defs(cc.Seq, cc.Forms)
	cf := func() any { return Case{Part: "cli", Body: tx.id, CliShared: &cc} }
	w.SetCase(cf)
	currentCase.Store(cf)

	// the all-in-one expression first, then every direct call site alone
	var probes []sharedProbe
	all := tx.probes(cc.Seq, cc.Order)
	probes = append(probes, all[len(all)-1])
	for _, q := range all {
		if q.direct {
			probes = append(probes, q)
		}
	}
	files := nameFiles(defs, cc.Split, true)
	var paths []string
	for i, text := range files {
		p := fmt.Sprintf("%s/cli-shared-%d.funcs", scratchDir, i)
		if err := os.WriteFile(p, []byte(text), 0o644); err != nil {
			panic(err)
		}
		paths = append(paths, p)
	}
	sub := []string{"expression"}
	if cc.NoOpt {
		sub = append(sub, "--no-optimize")
	}
	sub = append(sub, "-k", "key=K")
	for _, d := range tx.rows[cc.Row] {
		sub = append(sub, "-d", d)
	}
	var global, extraEnv []string
	switch cc.Delivery {
	case "flag", "two-flags":
		for _, p := range paths {
			global = append(global, "--funcs", p)
		}
	case "env", "two-env":
		extraEnv = []string{"RARE_FUNC_FILES=" + strings.Join(paths, ",")}
	default:
		panic("cli shared: delivery " + cc.Delivery)
	}
	if want := map[bool]int{false: 1, true: 2}[strings.HasPrefix(cc.Delivery, "two")]; len(paths) != want {
		panic("cli shared: delivery and split disagree")
	}

	real := make([]cliRun, len(probes))
	for qi, q := range probes {
		real[qi] = c.run(w, global, extraEnv, append(append([]string{}, sub...), q.call.Print(0)))
		if real[qi].hung {
			w.Eval(true)
			w.Violation("C10/cli-funcs/hang/shared-text", fmt.Sprintf("the process did not exit within 60 s: %s %q", strings.Join(real[qi].env, " "), real[qi].argv), cf())
			return
		}
	}
	type exp struct {
		compiles, skip bool
		tmpl           string
		run            cliRun
	}
	expect := make([][]exp, len(namePolicies))
	for pi, pol := range namePolicies {
		scope := newNameScope(defs, pol)
		expect[pi] = make([]exp, len(probes))
		for qi, q := range probes {
			x := &expect[pi][qi]
			inl, ok := scope.inline(q.call, len(defs), 0)
			if !ok {
				continue
			}
			x.compiles = true
			if seqAsArgument(inl, false) {
				x.skip = true
				continue
			}
			x.tmpl = inl.Print(0)
			key := "shared\x00" + tx.id + "\x00" + fmt.Sprint(cc.NoOpt, cc.Row) + "\x00" + x.tmpl
			r, have := c.inlineMem[key]
			if !have {
				r = c.run(w, nil, nil, append(append([]string{}, sub...), x.tmpl))
				c.inlineMem[key] = r
			}
			x.run = r
			if r.hung || !r.ok {
				x.skip = true // the inlined form itself is refused: nothing to compare with
			}
		}
	}
	misses := func(pi int) []int {
		var out []int
		for qi := range probes {
			x := expect[pi][qi]
			if x.skip {
				continue
			}
			g := real[qi]
			if g.ok != x.compiles || (g.ok && g.stdout != x.run.stdout) {
				out = append(out, qi)
			}
		}
		return out
	}
	best, bestMiss := -1, []int(nil)
	for pi := range namePolicies {
		if m := misses(pi); best < 0 || (len(m) == 0 && len(bestMiss) > 0) {
			best, bestMiss = pi, m
		}
	}
	okRuns := 0
	sum := ""
	for qi := range probes {
		if real[qi].ok {
			okRuns++
		}
		sum += "|" + real[qi].stdout
	}
	w.Eval(okRuns > 0)
	w.Add("cli_shared_text_cases", 1)
	w.Outcome("cli-shared", tx.id, strings.Join(cc.Seq, " "), sum)
	if len(bestMiss) == 0 {
		return
	}
	showFiles := ""
	for i, f := range files {
		showFiles += fmt.Sprintf("file %d:\n%s", i+1, f)
	}
	// one report per case: the first call site the reading does not explain
	qi := bestMiss[0]
	q := probes[qi]
	g := real[qi]
	detail := fmt.Sprintf("%s %q\n  -> stdout %q, exit ok=%v, stderr %q\nthe text %s stands in several definitions; no reading of the funcs file(s) explains all %d call sites of this case; against the reading marked * %d call sites differ:\n",
		strings.Join(g.env, " "), g.argv, g.stdout, g.ok, tailOf(g.stderr), tx.text.Print(1), len(probes), len(bestMiss))
	for pi := range namePolicies {
		x := expect[pi][qi]
		mark := "  "
		if pi == best {
			mark = "* "
		}
		switch {
		case x.skip:
			detail += fmt.Sprintf("%sif %s: (no inline form)\n", mark, namePolicies[pi])
		case !x.compiles:
			detail += fmt.Sprintf("%sif %s: the call names nothing that is loaded, the command must fail\n", mark, namePolicies[pi])
		default:
			detail += fmt.Sprintf("%sif %s: the body written inline, %q\n     -> stdout %q\n", mark, namePolicies[pi], x.run.argv, x.run.stdout)
		}
	}
	// one signature per shared text: which call site shows it first depends on what else the file defines
	w.Violation("C10/cli-funcs/shared-text/"+tx.id, "first call site that differs: "+q.path+"\n"+detail+showFiles, cf())
}
