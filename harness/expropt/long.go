package main

import (
	"fmt"
	"strings"

	"verif/harness/exprgen"
)

// The SIZE dimension of part (ii): "A function loaded from a funcs file (with
// comments, blank lines and backslash-continued lines) behaves exactly like its
// body written inline". Nothing in the statement or in docs/usage/funcsfile.md
// bounds the length of a line, so a definition must not depend on how many
// bytes its physical lines have. The family puts ONE physical line of an exact
// length N - around the buffer sizes line readers are built from (2^k and 2^k±1)
// - at every place a funcs file can have one:
//
//	single      the whole definition on one line of N bytes
//	first       the first member of a backslash-continued definition
//	middle      a middle member (one quoted argument) of a continued definition
//	last        the last member of a continued definition
//	cont-note   a continued member whose backslash is followed by a comment ("\ # ..") filling it to N bytes
//	trail-note  a one-line definition with a trailing comment filling the line to N bytes
//	note        a comment line of N bytes after the definition
//	blank       a line of N blanks after the definition
//
// The long definition's body is literal text (numbered words, so that any cut,
// duplication or reordering changes the value) with {0} before, {0} after the
// long text and near the end, {1} and {key} inside a helper call. Definitions
// before and after it (one of them calling it) and comment / blank lines after
// it make a lost or a junk registration visible: the set of loaded names must
// be exactly the file's. Oracle as for every funcs case: the call's value equals
// the harness's tree-level inlining of the body, evaluated by the builtin table.

type longCase struct {
	Size  int    `json:"physical_line_bytes"`
	Where string `json:"where"`
	Last  bool   `json:"long_definition_is_the_end_of_the_file,omitempty"` // and the file has no final newline
	Call  int    `json:"call"`
}

var longWheres = []string{"single", "first", "middle", "last", "cont-note", "trail-note", "note", "blank"}

func longSizes(thorough bool) []int {
	// 2^k-1, 2^k, 2^k+1 around the classic buffer sizes, a few in between
	out := []int{64, 255, 256, 257, 1023, 1024, 1025, 4095, 4096, 4097, 4098, 8191, 8192, 8193, 12288, 12289,
		16384, 16385, 32768, 32769, 65534, 65535, 65536, 65537, 70000, 131072, 131073}
	if thorough {
		out = append(out, 63, 65, 127, 128, 129, 511, 512, 513, 2047, 2048, 2049, 4094, 4099, 5000, 8190, 8194, 16383, 24576, 24577, 32767,
			49152, 65533, 65538, 98304, 131071, 200000, 262143, 262144, 262145, 524288, 524289, 1048576, 1048577)
	}
	return out
}

// sizeClass is part of the signature: the class of the longest physical line
// relative to the two classic limits (4 KiB reader buffer, 64 KiB scanner token).
func sizeClass(n int) string {
	switch {
	case n <= 4096:
		return "le4096"
	case n < 65536:
		return "4097-65535"
	default:
		return "ge65536"
	}
}

// padText is p bytes of numbered words.
func padText(p int) string {
	if p <= 0 {
		return ""
	}
	var sb strings.Builder
	sb.Grow(p + 8)
	for i := 1; sb.Len() < p; i++ {
		fmt.Fprintf(&sb, "w%05d ", i)
	}
	return sb.String()[:p]
}

const (
	longName   = "llong"
	longBefore = "lbefore"
	longAfter  = "lafter"
	longUse    = "luse"
)

func longBody(t1, t2, lit, t3 string) *exprgen.Node {
	return S(L(t1), R(0), L(t2), C("coalesce", R(1), K("key"), L(lit)), L(t3), R(0), L(";end"))
}

// longFile builds the file for (size, where, last). ok=false: the size is
// smaller than the shortest line of that kind.
func longFile(lc longCase) (defs []ndef, text string, ok bool) {
	build := func(pad int) (defs []ndef, lines []string, target int) {
		t1, t2, lit, t3 := "alpha ", " beta ", "gamma delta", " epsilon "
		p := padText(pad)
		switch lc.Where {
		case "single", "last":
			t3 = " " + p
		case "first":
			t2 = " " + p
		case "middle":
			lit = p + "."
		}
		long := ndef{name: longName, body: longBody(t1, t2, lit, t3), id: "long-line"}
		before := ndef{name: longBefore, body: C("upper", R(0)), id: "long-line"}
		after := ndef{name: longAfter, body: S(L("["), C("lower", R(0)), L("]")), id: "long-line"}
		use := ndef{name: longUse, body: C(longName, R(1), R(0)), id: "long-line"}

		var ll []string // the long definition and what belongs to it
		switch lc.Where {
		case "single":
			ll = []string{plainLine(long)}
			target = 0
		case "first", "middle", "last":
			ll = render(long, layout{breaks: []int{0, 1, 2, 3}})
			target = map[string]int{"first": 0, "middle": 3, "last": 4}[lc.Where]
		case "cont-note":
			ll = render(long, layout{breaks: []int{0, 1, 2, 3}})
			ll[1] += " # " + p
			target = 1
		case "trail-note":
			ll = []string{plainLine(long) + " # " + p}
			target = 0
		case "note":
			ll = []string{plainLine(long), "# " + p}
			target = 1
		case "blank":
			ll = []string{plainLine(long), strings.Repeat(" ", pad)}
			target = 1
		}
		head := []string{"# the long-line family", plainLine(before), ""}
		if lc.Last {
			// the long definition (and its comment / blank line) ends the file
			defs = []ndef{before, after, long}
			lines = append(append(head, "   # between", plainLine(after)), ll...)
			target += len(head) + 2
		} else {
			defs = []ndef{before, long, after, use}
			lines = append(head, ll...)
			target += len(head)
			lines = append(lines, "  # a comment after it", "", plainLine(after))
			lines = append(lines, render(use, layout{breaks: []int{0}, deco: 1})...)
			lines = append(lines, "# the end")
		}
		return defs, lines, target
	}
	_, lines, target := build(0)
	need := lc.Size - len(lines[target])
	if need < 0 {
		return nil, "", false
	}
	defs, lines, target = build(need)
	if len(lines[target]) != lc.Size {
		panic(fmt.Sprintf("long-line family: built a line of %d bytes instead of %d (%s)", len(lines[target]), lc.Size, lc.Where))
	}
	for i, l := range lines {
		if i != target && len(l) > 200 {
			panic("long-line family: a second long line")
		}
	}
	text = strings.Join(lines, "\n")
	if !lc.Last {
		text += "\n"
	}
	return defs, text, true
}

func longCalls(last bool) []*exprgen.Node {
	out := []*exprgen.Node{
		C(longName, L("a b"), R(0)),
		S(L("pre "), C(longName, R(1), K("key")), L(" "), C(longAfter, R(0))),
	}
	if last {
		return append(out, C(longName, R(3))) // missing arguments empty
	}
	return append(out, C(longUse, W("2"), R(1))) // a later definition calling the long one
}

func longRule(tier string) string {
	s := longSizes(tier == "thorough")
	return fmt.Sprintf("long-line family: one physical line of exactly N bytes, N in %v, placed as %v "+
		"(the whole definition / the first, a middle, the last member of a backslash-continued definition / a continued member or a one-line definition filled up by a trailing comment / a comment line / a line of blanks after the definition); "+
		"the long definition's body is numbered literal words with {0} before and after the long text, {1} and {key} inside a helper call; short definitions before and after it (one calling it), comment and blank lines after it; "+
		"the long definition in the middle of the file (final newline) or ending it (no final newline); 3 call sites; the first call site loads from a real file; the set of loaded names must be the file's and the call must equal the inlined body",
		s, longWheres)
}

func (e *env) longPhase(unit *int64) {
	w := e.w
	for _, size := range longSizes(!w.Quick()) {
		for _, where := range longWheres {
			*unit++
			if !w.Owns(*unit) {
				continue
			}
			if w.Expired() {
				return
			}
			for _, last := range []bool{false, true} {
				for ci := range longCalls(last) {
					e.longOne(longCase{Size: size, Where: where, Last: last, Call: ci})
				}
			}
		}
	}
}

func (e *env) longOne(lc longCase) {
	defs, text, ok := longFile(lc)
	if !ok {
		e.w.Add("funcs_long_line_size_below_shortest_line", 1)
		return
	}
	calls := longCalls(lc.Last)
	if lc.Call < 0 || lc.Call >= len(calls) {
		panic("long-line family: no such call")
	}
	call := calls[lc.Call]
	defsMap := map[string]*exprgen.Node{}
	for _, d := range defs {
		defsMap[d.name] = d.body
	}
	inlined := call.Inline(defsMap)
	if seqAsArgument(inlined, false) {
		panic("long-line family: call site without an inline form")
	}
	callT := call.Print(0)
	id := "long-line/" + sizeClass(lc.Size)
	l := lc
	cf := func() any { return Case{Part: "funcs", Template: q(callT), Body: id, OnDisk: lc.Call == 0, Long: &l} }
	e.w.SetCase(cf)
	currentCase.Store(cf)
	last := "in the middle of the file"
	if lc.Last {
		last = "ending the file, no final newline"
	}
	e.funcsCompare(cmpIn{defs: defs, callNode: call, text: text, callT: callT, inlineT: inlined.Print(0), onDisk: lc.Call == 0, id: id,
		layoutDesc: fmt.Sprintf("one physical line of %d bytes: %s, %s", lc.Size, lc.Where, last), long: &l})
}

// ---- reporting helpers ---------------------------------------------------------

func abbrevValue(s string) string {
	if len(s) <= 240 {
		return fmt.Sprintf("%q", s)
	}
	return fmt.Sprintf("%q...(%d bytes in all)...%q", s[:100], len(s), s[len(s)-100:])
}

func abbrevLines(text string) string {
	lines := strings.Split(text, "\n")
	for i, l := range lines {
		if len(l) > 240 {
			lines[i] = fmt.Sprintf("%s...(a line of %d bytes)...%s", l[:100], len(l), l[len(l)-100:])
		}
	}
	return strings.Join(lines, "\n")
}

// firstDiff locates the first differing byte of two long values.
func firstDiff(a, b string) string {
	if len(a) <= 240 && len(b) <= 240 {
		return ""
	}
	n := 0
	for n < len(a) && n < len(b) && a[n] == b[n] {
		n++
	}
	cut := func(s string) string {
		lo, hi := n-30, n+30
		if lo < 0 {
			lo = 0
		}
		if hi > len(s) {
			hi = len(s)
		}
		if lo > hi {
			lo = hi
		}
		return fmt.Sprintf("%q", s[lo:hi])
	}
	return fmt.Sprintf("\n(lengths %d and %d; first difference at byte %d: %s against %s)", len(a), len(b), n, cut(a), cut(b))
}
