package main

// Delivery of bytes through something that is NOT a complete regular file: a
// named pipe (what `--funcs <(gen)`, `{load /dev/stdin}` or a mkfifo is to the
// program): stat size 0, the bytes arrive in as many reads as the writer makes
// writes. The feeder writes the given pieces one after the other and writes
// piece i+1 only after the reader has taken piece i out of the pipe (FIONREAD
// on the pipe is 0), so that every piece boundary is a SHORT READ on the
// reader's side. Nothing here is decided by time: the rendezvous of open(2) on
// a fifo synchronises the two ends, the emptiness of the pipe is observed, not
// assumed; sleeping is only how the poll yields the processor.
//
// (the same file lives in harness/exprfuncs; harnesses do not share packages)

import (
	"fmt"
	"os"
	"runtime"
	"sync/atomic"
	"syscall"
	"time"
	"unsafe"
)

const fionread = 0x541B // linux FIONREAD / TIOCINQ

type feeder struct {
	path   string
	pieces [][]byte
	abort  atomic.Bool
	done   chan struct{}
	// what happened (read after finish())
	opened  bool  // a reader opened the pipe before the harness gave up
	written int   // bytes the pipe accepted
	werr    error // first error of the writing end (EPIPE: the reader closed before everything was delivered)
}

var fifoSeq int

// newFifo makes a fresh named pipe in dir.
func newFifo(dir string) string {
	fifoSeq++
	path := fmt.Sprintf("%s/pipe%d.fifo", dir, fifoSeq)
	os.Remove(path)
	if err := syscall.Mkfifo(path, 0o600); err != nil {
		panic("harness: mkfifo " + path + ": " + err.Error())
	}
	return path
}

// cutPieces cuts data at the given ascending byte offsets (0 < cut < len).
func cutPieces(data []byte, cuts []int) [][]byte {
	var out [][]byte
	prev := 0
	for _, c := range cuts {
		if c <= prev || c >= len(data) {
			continue
		}
		out = append(out, data[prev:c])
		prev = c
	}
	return append(out, data[prev:])
}

func startFeeder(path string, pieces [][]byte) *feeder {
	f := &feeder{path: path, pieces: pieces, done: make(chan struct{})}
	go f.run()
	return f
}

func (f *feeder) run() {
	defer close(f.done)
	var fd int
	var err error
	for {
		// blocks until somebody opens the pipe for reading
		fd, err = syscall.Open(f.path, syscall.O_WRONLY|syscall.O_CLOEXEC, 0)
		if err != syscall.EINTR {
			break
		}
	}
	if err != nil {
		f.werr = err
		return
	}
	defer syscall.Close(fd)
	if f.abort.Load() {
		return // opened by finish(): the code under test never opened the pipe
	}
	f.opened = true
	for i, p := range f.pieces {
		if i > 0 && !f.waitConsumed(fd) {
			return
		}
		for len(p) > 0 {
			n, err := syscall.Write(fd, p)
			if err == syscall.EINTR {
				continue
			}
			if err != nil {
				f.werr = err
				return
			}
			f.written += n
			p = p[n:]
		}
	}
}

// waitConsumed returns once the pipe is empty (the reader has read everything
// written so far), or false when the harness gave up on the case.
func (f *feeder) waitConsumed(fd int) bool {
	for spins := 0; ; spins++ {
		var n int32
		if _, _, e := syscall.Syscall(syscall.SYS_IOCTL, uintptr(fd), fionread, uintptr(unsafe.Pointer(&n))); e != 0 {
			f.werr = e
			return false
		}
		if f.abort.Load() {
			return false
		}
		if n == 0 {
			return true
		}
		if spins < 200 {
			runtime.Gosched()
		} else {
			time.Sleep(20 * time.Microsecond)
		}
	}
}

// finish is called after the code under test returned (or was given up on). It
// never blocks for long: a writer still blocked in open(2) (nobody opened the
// pipe) is released by opening the reading end without blocking; a writer
// blocked in write(2) or waiting for the pipe to drain is released by draining
// it here. Removes the pipe.
func (f *feeder) finish() {
	defer os.Remove(f.path)
	select {
	case <-f.done:
		return
	default:
	}
	f.abort.Store(true)
	fd, err := syscall.Open(f.path, syscall.O_RDONLY|syscall.O_NONBLOCK|syscall.O_CLOEXEC, 0)
	if err != nil {
		panic("harness: cannot open " + f.path + " to release the writer: " + err.Error())
	}
	defer syscall.Close(fd)
	buf := make([]byte, 1<<16)
	start := time.Now()
	for {
		select {
		case <-f.done:
			return
		default:
		}
		if n, _ := syscall.Read(fd, buf); n <= 0 {
			time.Sleep(200 * time.Microsecond)
		}
		if time.Since(start) > 60*time.Second {
			panic("harness: the writer of " + f.path + " does not end")
		}
	}
}

// withDeadline runs f on its own goroutine; hung = it has not returned after
// d (the goroutine is abandoned). A wall-clock limit decides nothing else.
func withDeadline(d time.Duration, f func()) (pi *panicInfo, hung bool) {
	ch := make(chan *panicInfo, 1)
	go func() { ch <- catch(f) }()
	t := time.NewTimer(d)
	defer t.Stop()
	select {
	case pi = <-ch:
		return pi, false
	case <-t.C:
		return nil, true
	}
}
