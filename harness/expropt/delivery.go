package main

import (
	"fmt"
	"io"
	"sort"
	"strings"
	"time"

	"rare/pkg/expressions"
	"rare/pkg/expressions/funcfile"
	"rare/pkg/expressions/funclib"
	"verif/harness/exprgen"
)

// The DELIVERY dimension of part (ii) of C10: "A function loaded from a funcs
// file (with comments, blank lines and backslash-continued lines) behaves
// exactly like its body written inline". The statement speaks of the file's
// text, not of how its bytes reach the loader, so the same text must load the
// same functions when it is
//
//	(a) a complete regular file (every other funcs case),
//	(b) a named pipe written in ONE write (`--funcs <(gen)`, a mkfifo): stat
//	    size 0, no seeking, the data arrives after the open,
//	(c) the same pipe written in 2 or 3 pieces or byte by byte, every piece
//	    written only after the reader took the previous one out of the pipe
//	    (each boundary is a short read), boundaries at every byte position
//	    (2 pieces) / every pair of kinds of positions (3 pieces; all pairs in
//	    the thorough tier): inside a name, inside a body, before/after a
//	    newline, inside the backslash-newline of a continuation, inside a
//	    comment,
//	(d) an io.Reader handed to funcfile.LoadDefinitions that returns the text
//	    in EVERY chunking (all compositions into Read results for tiny texts;
//	    fixed chunk sizes, every two-chunk split and byte-wise for the longer
//	    ones), the last chunk with (n>0, nil) then (0, io.EOF) or with
//	    (n>0, io.EOF).
//
// Oracle (unchanged): the set of loaded names is the file's and every call
// equals the harness's tree-level inlining evaluated by the built-in table;
// before that the same bytes are loaded from a complete regular file, so a
// difference is the delivery's.

type delivery struct {
	Kind        string `json:"kind"`                          // fifo | reader
	Cuts        []int  `json:"cuts,omitempty"`                // piece / chunk boundaries: byte offsets into the text
	Every       int    `json:"every,omitempty"`               // > 0: a boundary after every `every` bytes instead of Cuts
	EOFWithData bool   `json:"eof_with_last_chunk,omitempty"` // reader: the last chunk comes together with io.EOF
}

func (d *delivery) cuts(n int) []int {
	if d.Every > 0 {
		var out []int
		for c := d.Every; c < n; c += d.Every {
			out = append(out, c)
		}
		return out
	}
	return d.Cuts
}

// class is part of the signature.
func (d *delivery) class() string {
	switch {
	case d.Kind == "reader":
		return "reader-chunks"
	case d.Every > 0:
		return "fifo-bytewise"
	case len(d.Cuts) == 0:
		return "fifo-one-write"
	}
	return "fifo-pieces"
}

func (d *delivery) describe(text string) string {
	cuts := d.cuts(len(text))
	how := fmt.Sprintf("a named pipe written in %d piece(s), each after the reader consumed the one before", len(cuts)+1)
	if d.Kind == "reader" {
		how = fmt.Sprintf("an io.Reader returning %d chunk(s)", len(cuts)+1)
		if d.EOFWithData {
			how += ", the last one together with io.EOF"
		}
	}
	if d.Every > 0 {
		return fmt.Sprintf("%s (a boundary every %d byte(s))", how, d.Every)
	}
	if len(cuts) == 0 {
		return how
	}
	var parts []string
	for _, p := range cutPieces([]byte(text), cuts) {
		parts = append(parts, fmt.Sprintf("%q", p))
	}
	if len(parts) > 6 {
		parts = append(parts[:6], "...")
	}
	return fmt.Sprintf("%s: boundaries at %v, i.e. %s", how, cuts, strings.Join(parts, " + "))
}

// chunkReader returns data in the chunks given by cuts.
type chunkReader struct {
	data        []byte
	cuts        []int
	pos         int
	eofWithData bool
}

func (r *chunkReader) Read(p []byte) (int, error) {
	if r.pos >= len(r.data) {
		return 0, io.EOF
	}
	end := len(r.data)
	for _, c := range r.cuts {
		if c > r.pos {
			if c < end {
				end = c
			}
			break
		}
	}
	n := copy(p, r.data[r.pos:end])
	r.pos += n
	if r.pos == len(r.data) && r.eofWithData {
		return n, io.EOF
	}
	return n, nil
}

// loadFuncsVia loads text through the delivery the way main.go does (an
// optimising compiler of the built-in table). hung: the loader had not
// returned after 60 s. note describes what the writing end of a pipe saw.
func loadFuncsVia(text string, d *delivery) (fns map[string]expressions.KeyBuilderFunction, err error, hung bool, note string) {
	cmplr := funclib.NewKeyBuilder()
	cuts := d.cuts(len(text))
	var pi *panicInfo
	switch d.Kind {
	case "reader":
		r := &chunkReader{data: []byte(text), cuts: cuts, eofWithData: d.EOFWithData}
		pi, hung = withDeadline(60*time.Second, func() { fns, err = funcfile.LoadDefinitions(cmplr, r, "generated") })
	case "fifo":
		path := newFifo(scratchDir)
		fd := startFeeder(path, cutPieces([]byte(text), cuts))
		pi, hung = withDeadline(60*time.Second, func() { fns, err = funcfile.LoadDefinitionsFile(cmplr, path) })
		fd.finish()
		note = fmt.Sprintf("the writing end: a reader opened the pipe: %v; %d of %d bytes were accepted by the pipe; error of the writer: %v", fd.opened, fd.written, len(text), fd.werr)
	default:
		panic("delivery kind " + d.Kind)
	}
	if hung {
		return nil, nil, true, note
	}
	if pi != nil {
		panic(pi.val)
	}
	return fns, err, false, note
}

// ---- the enumerated space --------------------------------------------------------

type deliveryText struct {
	name  string
	defs  []ndef
	text  string
	plain string
	calls []*exprgen.Node
	tiny  bool // every composition into chunks
}

// tiny definitions (texts of a few bytes for the exhaustive chunkings)
func deliveryDefs() []ndef {
	return []ndef{
		{"f", R(0), "tiny", [][]*exprgen.Node{{W("a")}, {R(1), W("b")}}, nil},
		{"g", R(1), "tiny", [][]*exprgen.Node{{W("a"), R(0)}, {K("key")}}, nil},
		{"h", C("@", R(0), W("b")), "tiny", [][]*exprgen.Node{{R(1)}, {W("x"), W("y")}}, nil},
		{"j", S(R(0), L("x")), "tiny", [][]*exprgen.Node{{R(0)}, {L("a b")}}, nil},
	}
}

func deliveryTexts(thorough bool) []deliveryText {
	var out []deliveryText
	firsts := firstDefs()
	byName := func(n string) ndef {
		for _, d := range firsts {
			if d.name == n {
				return d
			}
		}
		panic("delivery: no definition " + n)
	}
	plainOf := func(defs []ndef) string {
		s := ""
		for _, d := range defs {
			s += plainLine(d) + "\n"
		}
		return s
	}
	few := func(name string) []*exprgen.Node {
		s := callSites(name, false)
		return []*exprgen.Node{s[3], s[len(s)-1]}
	}
	add := func(name string, defs []ndef, lines []string, finalNewline bool) {
		text := strings.Join(lines, "\n")
		if finalNewline {
			text += "\n"
		}
		out = append(out, deliveryText{name: name, defs: defs, text: text, plain: plainOf(defs), calls: few(defs[len(defs)-1].name)})
	}
	// 1: comment and blank line before; a switch continued twice with "\ # comment"; trailing comment; comment after
	pick := byName("pick")
	l := []string{"# a comment", ""}
	l = append(l, render(pick, layout{breaks: []int{1, 3}, deco: 1, trail: true})...)
	add("continued-with-comments", []ndef{pick}, append(l, "# the end"), true)
	// 2: two definitions, the first continued, an indented comment and a blank line between; no final newline
	dflt := byName("dflt")
	keyed := secondDefs("dflt")[2]
	l = render(dflt, layout{breaks: []int{0}, deco: 1})
	l = append(l, "   # indented comment", "")
	l = append(l, render(keyed, layout{trail: true})...)
	add("two-definitions-no-final-newline", []ndef{dflt, keyed}, l, false)
	// 3: text around statements; a comment line inside the continuation; tab indentation
	wrap := byName("wrap")
	l = append([]string{""}, render(wrap, layout{breaks: []int{0}, deco: 2})...)
	add("comment-line-inside-continuation", []ndef{wrap}, l, true)
	if thorough {
		lazy := byName("lazy")
		flip := secondDefs("lazy")[1]
		l = render(lazy, layout{breaks: []int{0, 2}, deco: 3})
		l = append(l, "# between")
		l = append(l, render(flip, layout{breaks: []int{0}, deco: 4})...)
		add("blank-line-inside-continuation", []ndef{lazy, flip}, l, true)
		swap := byName("swap")
		l = render(swap, layout{breaks: []int{0, 1}, deco: 6, trail: true})
		add("two-blanks-before-backslash", []ndef{swap}, append([]string{"#"}, l...), false)
	}
	// tiny texts: every composition into chunks
	td := deliveryDefs()
	tiny := func(name, text string, defs ...ndef) {
		var calls []*exprgen.Node
		for _, d := range defs {
			for _, a := range d.calls {
				calls = append(calls, C(d.name, a...))
			}
		}
		out = append(out, deliveryText{name: name, defs: defs, text: text, plain: plainOf(defs), calls: calls, tiny: true})
	}
	tiny("tiny-two-definitions", "f {0}\ng {1}\n", td[0], td[1])
	tiny("tiny-comment-blank-no-final-newline", "#c\n\nj {0}x", td[3])
	tiny("tiny-trailing-comment", "f {0} # c\n", td[0])
	tiny("tiny-continuation", "h {@ {0} \\\nb}", td[2])
	if thorough {
		tiny("tiny-continuation-with-comment", "h {@ {0} \\#\nb}", td[2])
	}
	return out
}

// byteRegions names, for every byte of a funcs text, what it is part of.
func byteRegions(text string) []string {
	reg := make([]string, len(text))
	continued := false
	pos := 0
	for _, line := range strings.SplitAfter(text, "\n") {
		hash := strings.IndexByte(line, '#')
		code := strings.TrimRight(strings.TrimSuffix(line, "\n"), " \t")
		if hash >= 0 {
			code = strings.TrimRight(line[:hash], " \t")
		}
		nameEnd := -1
		if !continued && strings.TrimSpace(code) != "" {
			lead := len(code) - len(strings.TrimLeft(code, " \t"))
			nameEnd = lead + strings.IndexByte(code[lead:]+" ", ' ')
		}
		for i := 0; i < len(line); i++ {
			c := line[i]
			var r string
			switch {
			case c == '\n':
				r = "newline"
			case hash >= 0 && i == hash:
				r = "hash"
			case hash >= 0 && i > hash:
				r = "comment"
			case c == '\\':
				r = "backslash"
			case i < nameEnd && c != ' ' && c != '\t':
				r = "name"
			case c == ' ' || c == '\t':
				r = "blank"
			case c == '{':
				r = "open"
			case c == '}':
				r = "close"
			default:
				r = "body"
			}
			reg[pos+i] = r
		}
		if strings.TrimSpace(code) != "" {
			continued = strings.HasSuffix(code, "\\")
		}
		pos += len(line)
	}
	return reg
}

// cutKinds: one boundary position per kind (what ends the piece before it >
// what starts the piece after it), in order of first appearance.
func cutKinds(text string) (positions []int, kinds []string) {
	reg := byteRegions(text)
	seen := map[string]bool{}
	for p := 1; p < len(text); p++ {
		k := reg[p-1] + ">" + reg[p]
		if !seen[k] {
			seen[k] = true
			positions = append(positions, p)
			kinds = append(kinds, k)
		}
	}
	return
}

func deliveryRule(tier string) string {
	th := tier == "thorough"
	var names, tinies []string
	nk := 0
	for _, t := range deliveryTexts(th) {
		if t.tiny {
			tinies = append(tinies, fmt.Sprintf("%q", t.text))
			continue
		}
		names = append(names, fmt.Sprintf("%s (%d bytes)", t.name, len(t.text)))
		if p, _ := cutKinds(t.text); len(p) > nk {
			nk = len(p)
		}
	}
	three := fmt.Sprintf("3 pieces with the boundaries at every pair of one position per kind of boundary (kind = what the byte before and the byte after the boundary are part of: name, body, blank, brace, backslash, newline, '#', comment; up to %d kinds per text)", nk)
	if th {
		three = "3 pieces with the boundaries at every pair of byte positions"
	}
	limit := 13
	if th {
		limit = 16
	}
	return fmt.Sprintf("delivery family: the funcs texts %s, each delivered to funcfile.LoadDefinitionsFile through a named pipe (syscall.Mkfifo in the scratch directory; the writer writes piece i+1 only after FIONREAD on the pipe is 0, i.e. every boundary is a short read; nothing is timed) in 1 write, in 2 pieces with the boundary at every byte position, in %s, and byte by byte; "+
		"and to funcfile.LoadDefinitions as an io.Reader returning 2 chunks split at every byte position and chunks of 1, 2, 3, 5, 7, 16 bytes, the last chunk followed by (0, io.EOF) or returned with io.EOF; "+
		"the tiny texts %s as an io.Reader in every composition into chunks (texts of at most %d bytes; longer ones every composition with at most 3 boundaries and byte by byte) x both EOF styles, and through the named pipe byte by byte and at every single boundary; 2 call sites per text (tiny: every call site of its definitions); "+
		"the bytes must first load from a complete regular file, then the delivery must give the same set of names and every call site the value of the inlined body (signatures C10/funcs/delivery-changes-what-is-loaded/<delivery>, C10/funcs/differs-from-inline/delivery/<delivery>, C10/funcs/hang/delivery/<delivery>; a load that has not returned after 60 s is a hang and the writer is released by the harness)",
		strings.Join(names, ", "), three, strings.Join(tinies, ", "), limit)
}

// deliveriesFor enumerates the deliveries of one text.
func deliveriesFor(t deliveryText, thorough bool, emit func(d delivery, callIdx []int)) {
	n := len(t.text)
	all := make([]int, len(t.calls))
	for i := range all {
		all[i] = i
	}
	first := all[:1]
	both := []bool{false, true}
	if t.tiny {
		limit := 13
		if thorough {
			limit = 16
		}
		for mask := 0; mask < 1<<(n-1); mask++ {
			var cuts []int
			for b := 0; b < n-1; b++ {
				if mask&(1<<b) != 0 {
					cuts = append(cuts, b+1)
				}
			}
			if n > limit && len(cuts) > 3 && len(cuts) != n-1 {
				continue
			}
			for _, e := range both {
				emit(delivery{Kind: "reader", Cuts: cuts, EOFWithData: e}, all)
			}
			if len(cuts) <= 1 || len(cuts) == n-1 {
				emit(delivery{Kind: "fifo", Cuts: cuts}, all)
			}
		}
		return
	}
	emit(delivery{Kind: "fifo"}, all)
	emit(delivery{Kind: "fifo", Every: 1}, all)
	for p := 1; p < n; p++ {
		emit(delivery{Kind: "fifo", Cuts: []int{p}}, all)
		for _, e := range both {
			emit(delivery{Kind: "reader", Cuts: []int{p}, EOFWithData: e}, first)
		}
	}
	for _, every := range []int{1, 2, 3, 5, 7, 16} {
		for _, e := range both {
			emit(delivery{Kind: "reader", Every: every, EOFWithData: e}, all)
		}
	}
	var positions []int
	if thorough {
		for p := 1; p < n; p++ {
			positions = append(positions, p)
		}
	} else {
		positions, _ = cutKinds(t.text)
		sort.Ints(positions)
	}
	for i, p := range positions {
		for _, q := range positions[i+1:] {
			emit(delivery{Kind: "fifo", Cuts: []int{p, q}}, first)
		}
	}
}

func (e *env) deliveryPhase(unit *int64) {
	w := e.w
	thorough := !w.Quick()
	for _, t := range deliveryTexts(thorough) {
		t := t
		stop := false
		deliveriesFor(t, thorough, func(d delivery, callIdx []int) {
			*unit++
			if stop || !w.Owns(*unit) {
				return
			}
			if w.Expired() {
				stop = true
				return
			}
			for _, ci := range callIdx {
				dd := d
				e.deliveryOne(t, &dd, t.calls[ci])
			}
		})
		if stop {
			return
		}
	}
}

func (e *env) deliveryOne(t deliveryText, d *delivery, call *exprgen.Node) {
	defsMap := map[string]*exprgen.Node{}
	for _, df := range t.defs {
		defsMap[df.name] = df.body
	}
	inlined := call.Inline(defsMap)
	if seqAsArgument(inlined, false) {
		panic("delivery family: call site without an inline form: " + call.Print(0))
	}
	callT, inlineT := call.Print(0), inlined.Print(0)
	id := "delivery/" + d.class()
	cf := func() any {
		return Case{Part: "funcs", Template: q(callT), File: q(t.text), Plain: q(t.plain), Inline: q(inlineT), Body: id, Delivery: d}
	}
	e.w.SetCase(cf)
	currentCase.Store(cf)
	e.funcsCompare(cmpIn{defs: t.defs, callNode: call, text: t.text, plain: t.plain, callT: callT, inlineT: inlineT, id: id, layoutDesc: t.name, deliv: d})
}
