// Harness pipeline decides C01, C02 and C05 on the real reader -> batcher ->
// extractor workers -> consumer / aggregation-loop pipeline of rare, compiled
// onto the controlled runtime (vrt): every goroutine switch, channel and select
// decision, timer, clock jump and read chunking is an explorer choice, and all
// schedules with at most B deviations are executed for every configuration of a
// small grid. Oracles compare with an independent sequential reference.
package main

import (
	"bytes"
	"compress/gzip"
	"encoding/json"
	"errors"
	"fmt"
	"io"
	"os"
	"regexp"
	"sort"
	"strconv"
	"strings"
	"time"

	"rare/cmd/helpers"
	"rare/pkg/aggregation"
	"rare/pkg/extractor"
	"rare/pkg/extractor/batchers"
	"rare/pkg/matchers"
	"rare/pkg/matchers/dissect"
	"rare/pkg/matchers/fastregex"
	"rare/pkg/readahead"
	"rare/pkg/slicepool"
	vrt "rare/verifrt"
	"rare/verifrt/vos"
	"verif/mc"
	"verif/runner"
)

// ---------------------------------------------------------------- configuration

type Config struct {
	Path    string   `json:"path"` // reader | files
	Sources []string `json:"sources"`
	Matcher string   `json:"matcher"` // re | dissect | always
	Extract string   `json:"extract"`
	Ignore  string   `json:"ignore"`
	// IgnoreFirst, when set, are ignore expressions evaluated BEFORE Ignore
	// that are never truthy on the harness's inputs (the set is shared by all
	// workers; any truthy expression ignores)
	IgnoreFirst []string `json:"ignore_first,omitempty"`
	Batch   int      `json:"batch"`
	Workers int      `json:"workers"`
	Readers int      `json:"readers"`
	Buffer  int      `json:"buffer"`
	Chunk   bool     `json:"chunk"`  // short reads are explorer choices
	Jumps   bool     `json:"jumps"`  // clock jumps of 250ms before any clock reading
	Agg     bool     `json:"agg"`    // consume through helpers.RunAggregationLoop
	ErrSrc  int      `json:"errsrc"` // source with an injected read error (-1: none)
	ErrAt   int      `json:"errat"`  // the error replaces the answer of this read (0-based) of that source; -1: the open fails
	Bound   int      `json:"bound"`
	// files path with -z: Gz[i] says that source i is stored gzip-compressed
	// (Sources[i] is its decompressed text); the others are plain files that
	// must be "read from their first byte"
	Gunzip bool   `json:"gunzip,omitempty"`
	Gz     []bool `json:"gz,omitempty"`
}

const (
	exFull  = "{src}|{line}|{0}|{1}|{2}"
	exGroup = "{1}"
	exZero  = "{0}"
	igEqB   = "{eq {0} b}"
)

var errInjected = errors.New("injected read error")

var gzCache = map[string][]byte{}

// gzBytes: one gzip member holding s (deterministic: no name, no time).
func gzBytes(s string) []byte {
	if b, ok := gzCache[s]; ok {
		return b
	}
	var buf bytes.Buffer
	zw, _ := gzip.NewWriterLevel(&buf, gzip.BestSpeed)
	zw.Write([]byte(s))
	zw.Close()
	gzCache[s] = buf.Bytes()
	return gzCache[s]
}

// ---------------------------------------------------------------- reference (independent of rare)

type refLine struct {
	src     string
	num     uint64
	text    string
	class   string // matched | ignored | unmatched
	indices []int
	key     string
}

// refSplit: segments between '\n'; one trailing '\r' removed from terminated
// lines; a final unterminated non-empty segment is a line.
func refSplit(s string) []string {
	var out []string
	for len(s) > 0 {
		i := strings.IndexByte(s, '\n')
		if i < 0 {
			out = append(out, s)
			break
		}
		l := s[:i]
		if strings.HasSuffix(l, "\r") {
			l = l[:len(l)-1]
		}
		out = append(out, l)
		s = s[i+1:]
	}
	return out
}

var refRe = regexp.MustCompile(`(a+)|(b)`)

func refMatch(matcher, line string) []int {
	switch matcher {
	case "re":
		return refRe.FindStringSubmatchIndex(line)
	case "dissect": // a%{x}: first 'a', x = the rest
		i := strings.IndexByte(line, 'a')
		if i < 0 {
			return nil
		}
		return []int{i, len(line), i + 1, len(line)}
	case "dissect-ic": // a%{x}b%{y}, ignore-case: first 'a', x up to the first following 'b', y the rest
		low := strings.ToLower(line) // ASCII only in the harness's inputs
		i := strings.IndexByte(low, 'a')
		if i < 0 {
			return nil
		}
		j := strings.IndexByte(low[i+1:], 'b')
		if j < 0 {
			return nil
		}
		j += i + 1
		return []int{i, len(line), i + 1, j, j + 1, len(line)}
	default:
		return []int{0, len(line)}
	}
}

func group(line string, idx []int, g int) string {
	if 2*g+1 >= len(idx) || idx[2*g] < 0 {
		return ""
	}
	return line[idx[2*g]:idx[2*g+1]]
}

func refKey(extract, src string, num uint64, line string, idx []int) string {
	switch extract {
	case exFull:
		return src + "|" + strconv.FormatUint(num, 10) + "|" + group(line, idx, 0) + "|" + group(line, idx, 1) + "|" + group(line, idx, 2)
	case exGroup:
		return group(line, idx, 1)
	case exZero:
		return group(line, idx, 0)
	}
	panic("unknown extract")
}

func srcName(c *Config, i int) string {
	if c.Path == "reader" {
		return "<stdin>"
	}
	return fmt.Sprintf("%sf%d", vos.Root, i)
}

// reference classifies every line of the bytes that are delivered (all of a
// source, or the bytes before an injected error).
func reference(c *Config, delivered []string) []refLine {
	var out []refLine
	for i, content := range delivered {
		for n, l := range refSplit(content) {
			r := refLine{src: srcName(c, i), num: uint64(n + 1), text: l}
			idx := refMatch(c.Matcher, l)
			switch {
			case len(idx) == 0:
				r.class = "unmatched"
			case c.Ignore == igEqB && group(l, idx, 0) == "b":
				r.class, r.indices = "ignored", idx
			default:
				r.indices = idx
				r.key = refKey(c.Extract, r.src, r.num, l, idx)
				if r.key == "" {
					r.class = "ignored"
				} else {
					r.class = "matched"
				}
			}
			out = append(out, r)
		}
	}
	return out
}

// ---------------------------------------------------------------- one execution

type snapshot struct {
	counts  map[string]int64
	matched uint64
	during  bool // a Sample was in progress when the render started
	total   int64
	groups  int
}

type obs struct {
	matches     []extractor.Match
	held        [][]extractor.Match // the batches as received, kept until the end ("however long the consumer holds them")
	arrival     []string
	read, match uint64
	ignored     uint64
	readErrs    int
	delivered   []int // bytes delivered per source
	readerClose int
	batchClosed bool
	readClosed  bool
	completed   bool
	status      []string
	// aggregation loop
	snaps        []snapshot
	final        map[string]int64
	overlap      string
	openFailed   bool
	injected     bool // the injected read error was actually returned
	overlap2     string
	samples      int
	lastSampleAt int
	renderStart  []int // value of "samples finished" when each render began
	sampleEnd    int
}

type chunkReader struct {
	c     *Config
	o     *obs
	data  string
	pos   int
	reads int
	err   error
}

func (r *chunkReader) Read(p []byte) (int, error) {
	vrt.YieldAt("stdin.Read")
	if r.err != nil {
		return 0, r.err
	}
	if r.c.ErrSrc == 0 && r.reads == r.c.ErrAt {
		r.o.injected = true
		r.err = errInjected
		r.reads++
		return 0, errInjected
	}
	r.reads++
	avail := len(r.data) - r.pos
	if avail == 0 || len(p) == 0 {
		if avail == 0 {
			r.err = io.EOF
			return 0, io.EOF
		}
		return 0, nil
	}
	n := min(avail, len(p))
	if r.c.Chunk && n > 1 && vrt.Choose(2, 1, "shortread") == 1 {
		n = 1
	}
	copy(p, r.data[r.pos:r.pos+n])
	r.pos += n
	r.o.delivered[0] = r.pos
	return n, nil
}

func (r *chunkReader) Close() error { r.o.readerClose++; return nil }

type monitorAgg struct {
	real     *aggregation.MatchCounter
	o        *obs
	inSample bool
	inRender bool
}

func (m *monitorAgg) Sample(ele string) {
	if m.inRender {
		m.o.overlap = "Sample began while a render was in progress"
	}
	m.inSample = true
	vrt.YieldAt("in Sample")
	m.real.Sample(ele)
	m.o.samples++
	m.inSample = false
	m.o.sampleEnd++
}

func (m *monitorAgg) ParseErrors() uint64 { return m.real.ParseErrors() }

func buildMatcher(name string) matchers.Factory {
	switch name {
	case "re":
		return matchers.ToFactory(fastregex.MustCompile(`(a+)|(b)`))
	case "dissect":
		return matchers.ToFactory(dissect.MustCompile("a%{x}"))
	case "dissect-ic":
		d, err := dissect.CompileEx("a%{x}b%{y}", true)
		if err != nil {
			panic(err)
		}
		return matchers.ToFactory(d)
	}
	return &matchers.AlwaysMatch{}
}

var matcherCache = map[string]matchers.Factory{}

func body(c *Config, o *obs) {
	// executions of one process must not see each other's package-level state
	batchers.VerifResetGlobals()
	extractor.VerifResetGlobals()
	slicepool.VerifResetGlobals()
	readahead.VerifResetGlobals()
	fs := vos.Reset()
	o.delivered = make([]int, len(c.Sources))
	var b *batchers.Batcher
	if c.Path == "reader" {
		b = batchers.OpenReaderToChan("<stdin>", &chunkReader{c: c, o: o, data: c.Sources[0]}, c.Batch, c.Buffer)
	} else {
		names := vrt.MakeChan[string](len(c.Sources))
		idx := map[string]int{}
		for i, content := range c.Sources {
			n := srcName(c, i)
			idx[n] = i
			data := []byte(content)
			if c.Gunzip && i < len(c.Gz) && c.Gz[i] {
				data = gzBytes(content)
			}
			fs.Put(n, data)
			names.Send(n)
		}
		names.Close()
		if c.ErrSrc >= 0 && c.ErrAt < 0 {
			bad := srcName(c, c.ErrSrc)
			fs.OpenHook = func(name string) error {
				if name == bad {
					o.openFailed = true
					return errInjected
				}
				return nil
			}
		}
		reads := map[string]int{}
		fs.ReadHook = func(name string, want, avail int) (int, error) {
			i := idx[name]
			k := reads[name]
			reads[name]++
			if c.ErrSrc == i && k == c.ErrAt {
				o.injected = true
				return 0, errInjected
			}
			n := min(want, avail)
			if c.Gunzip && c.ErrSrc == i && i < len(c.Gz) && c.Gz[i] && k == 0 {
				// the failing gzip input: its first read delivers exactly the 10-byte
				// gzip header (a legitimate short read), so the input is recognised as
				// gzip and the injected error of a later read falls inside the
				// compressed data, before anything could be decompressed
				n = min(n, 10)
			} else if c.Chunk && n > 1 && vrt.Choose(2, 1, "shortread") == 1 {
				n = 1
			}
			o.delivered[i] += n
			return n, nil
		}
		b = batchers.OpenFilesToChan(names, c.Gunzip, c.Readers, c.Batch, c.Buffer)
	}
	var ig extractor.IgnoreSet
	if c.Ignore != "" {
		var err error
		if ig, err = extractor.NewIgnoreExpressions(append(append([]string{}, c.IgnoreFirst...), c.Ignore)...); err != nil {
			panic(err)
		}
	}
	m := matcherCache[c.Matcher]
	if m == nil {
		m = buildMatcher(c.Matcher)
		matcherCache[c.Matcher] = m
	}
	ext, err := extractor.New(b.BatchChan(), &extractor.Config{Matcher: m, Extract: c.Extract, Workers: c.Workers, Ignore: ig})
	if err != nil {
		panic(err)
	}
	if c.Agg {
		agg := &monitorAgg{real: aggregation.NewCounter(), o: o}
		render := func() {
			if agg.inSample {
				o.overlap = "render began while a Sample was in progress"
			}
			if agg.inRender {
				o.overlap2 = "a render began while another render was in progress"
			}
			agg.inRender = true
			o.renderStart = append(o.renderStart, o.sampleEnd)
			snap := snapshot{counts: map[string]int64{}, during: agg.inSample}
			for _, it := range agg.real.Items() {
				snap.counts[it.Name] = it.Item.Count()
			}
			snap.total, snap.groups = agg.real.Total(), agg.real.GroupCount()
			vrt.YieldAt("in render")
			// what the commands print below the graph
			o.status = append(o.status, helpers.FWriteExtractorSummary(ext, agg.real.ParseErrors()), b.StatusString())
			snap.matched = ext.MatchedLines()
			o.snaps = append(o.snaps, snap)
			agg.inRender = false
		}
		helpers.RunAggregationLoop(ext, agg, render)
		o.final = map[string]int64{}
		for _, it := range agg.real.Items() {
			o.final[it.Name] = it.Item.Count()
		}
	} else {
		rc := ext.ReadChan()
		for {
			batch, ok := rc.Recv2()
			if !ok {
				break
			}
			o.held = append(o.held, batch)
			for _, mt := range batch {
				o.matches = append(o.matches, mt)
				o.arrival = append(o.arrival, mt.Source+":"+strconv.FormatUint(mt.LineNumber, 10))
			}
		}
	}
	o.read, o.match, o.ignored = ext.ReadLines(), ext.MatchedLines(), ext.IgnoredLines()
	o.readErrs = b.ReadErrors()
	o.batchClosed = b.BatchChan().Closed()
	o.readClosed = ext.ReadChan().Closed()
	o.completed = true
}

type finding struct{ prop, sig, detail string }

func run(ex vrt.Chooser, c *Config, race bool) (*obs, *vrt.Result, []finding) {
	o := &obs{}
	opts := vrt.Options{Race: race, Trace: false, MaxAdvances: 40}
	opts.ClockJumps = jumps(c)
	res := vrt.Run(ex, opts, func() { body(c, o) })
	return o, res, check(c, o, res)
}

// jumps: the time-flush path compares against 250ms; the status line
// recomputes its rate after 500ms (aggregation-loop configurations).
func jumps(c *Config) []time.Duration {
	switch {
	case c.Agg:
		return []time.Duration{600 * time.Millisecond}
	case c.Jumps:
		return []time.Duration{250 * time.Millisecond}
	}
	return nil
}

func firstLine(s string) string {
	if i := strings.IndexByte(s, '\n'); i >= 0 {
		return s[:i]
	}
	return s
}

func slug(s string) string {
	s = firstLine(s)
	var sb strings.Builder
	for _, r := range s {
		switch {
		case r >= 'a' && r <= 'z', r >= 'A' && r <= 'Z', r >= '0' && r <= '9', r == '.', r == '/', r == '-':
			sb.WriteRune(r)
		default:
			sb.WriteByte('_')
		}
	}
	out := sb.String()
	if len(out) > 70 {
		out = out[:70]
	}
	return out
}

func check(c *Config, o *obs, res *vrt.Result) []finding {
	var fs []finding
	add := func(prop, sig, detail string) { fs = append(fs, finding{prop, sig, detail}) }
	mode := "consume"
	if c.Agg {
		mode = "aggloop"
	}
	// ---- termination and runtime faults (C05; a pipeline that does not complete also loses lines: C01)
	for _, f := range res.Faults {
		switch {
		case strings.HasPrefix(f, "data race"):
			name := strings.TrimPrefix(firstLine(f), "data race on ")
			if i := strings.IndexByte(name, ':'); i >= 0 {
				name = name[:i]
			}
			add("C05", "C05/race/"+slug(name), f)
		case strings.HasPrefix(f, "panic in goroutine") && strings.Contains(f, "send on closed channel"), strings.HasPrefix(f, "send on closed"):
			add("C05", "C05/send-on-closed-channel", f)
		case strings.HasPrefix(f, "close of closed"):
			add("C05", "C05/double-close", f)
		default:
			add("C05", "C05/runtime-fault/"+slug(f), f)
		}
	}
	if res.StepLimit {
		add("C05", "C05/livelock-step-limit", "the execution did not become quiescent within the step limit")
	}
	if !o.completed || len(res.Blocked) > 0 {
		d := fmt.Sprintf("completed=%v blocked=%v faults=%d", o.completed, res.Blocked, len(res.Faults))
		add("C05", "C05/"+mode+"/deadlock-or-leak", d)
		add("C01", "C01/pipeline-did-not-complete", d)
		return fs
	}
	if !o.batchClosed || !o.readClosed {
		add("C05", "C05/channel-not-closed", fmt.Sprintf("batch channel closed=%v read channel closed=%v", o.batchClosed, o.readClosed))
	}
	// ---- reference over the delivered bytes
	delivered := make([]string, len(c.Sources))
	wantErrs := 0
	for i, s := range c.Sources {
		delivered[i] = s
		if c.ErrSrc == i && c.ErrAt < 0 {
			delivered[i] = ""
			wantErrs = 1
		} else if c.ErrSrc == i {
			// the error replaced read number ErrAt; if the source had already hit EOF before, no error happened
			if o.injected {
				if c.Gunzip && i < len(c.Gz) && c.Gz[i] {
					delivered[i] = "" // only the gzip header was delivered before the error
				} else {
					delivered[i] = s[:o.delivered[i]]
				}
				wantErrs = 1
			}
		}
	}
	ref := reference(c, delivered)
	var nM, nI uint64
	want := map[string]*refLine{}
	for i := range ref {
		r := &ref[i]
		switch r.class {
		case "matched":
			nM++
		case "ignored":
			nI++
		}
		want[r.src+":"+strconv.FormatUint(r.num, 10)] = r
	}
	ctx := fmt.Sprintf("config=%s\nreference lines=%d matched=%d ignored=%d\nobserved read=%d matched=%d ignored=%d errors=%d", cfgJSON(c), len(ref), nM, nI, o.read, o.match, o.ignored, o.readErrs)
	// C01: totals
	if o.read != uint64(len(ref)) {
		add("C01", "C01/"+c.Path+"/read-lines-total", ctx)
	}
	if o.match != nM {
		add("C01", "C01/"+c.Path+"/matched-total", ctx)
	}
	if o.ignored != nI {
		add("C01", "C01/"+c.Path+"/ignored-total", ctx)
	}
	if o.readErrs != wantErrs {
		add("C06", "C06/"+c.Path+"/read-error-count", fmt.Sprintf("%s\nwant %d read errors", ctx, wantErrs))
	}
	if c.Path == "reader" && o.readerClose != 1 {
		add("C06", "C06/reader/closed-times", fmt.Sprintf("reader closed %d times", o.readerClose))
	}
	if c.Agg {
		// C05: final render complete and after the last sample; renders monotone
		wantCounts := map[string]int64{}
		for _, r := range ref {
			if r.class == "matched" {
				wantCounts[r.key]++
			}
		}
		if o.overlap != "" {
			add("C05", "C05/render-overlaps-sample", o.overlap+"\n"+ctx)
		}
		if o.overlap2 != "" {
			add("C05", "C05/render-overlaps-render", o.overlap2+"\n"+ctx)
		}
		if len(o.snaps) == 0 {
			add("C05", "C05/no-final-render", ctx)
			return fs
		}
		last := o.snaps[len(o.snaps)-1]
		if !eqCounts(last.counts, wantCounts) || !eqCounts(o.final, wantCounts) {
			add("C05", "C05/final-render-incomplete", fmt.Sprintf("%s\nfinal render %v\naggregator %v\nwant %v", ctx, last.counts, o.final, wantCounts))
		}
		if o.renderStart[len(o.renderStart)-1] != o.sampleEnd {
			add("C05", "C05/final-render-before-last-sample", ctx)
		}
		for _, s := range o.snaps {
			var sum int64
			for k, v := range s.counts {
				sum += v
				if v > wantCounts[k] {
					add("C05", "C05/render-count-exceeds-final", fmt.Sprintf("%s\nrender %v final %v", ctx, s.counts, wantCounts))
				}
			}
			if sum != s.total || len(s.counts) != s.groups {
				add("C05", "C05/render-inconsistent-snapshot", fmt.Sprintf("%s\nrender %v total %d groups %d", ctx, s.counts, s.total, s.groups))
			}
			if uint64(sum) > s.matched {
				add("C05", "C05/render-matched-below-displayed", fmt.Sprintf("%s\nrender %v matched total shown %d", ctx, s.counts, s.matched))
			}
		}
		return fs
	}
	// C01: multiset of (source, key); C02: fields of every match
	seen := map[string]int{}
	for i, m := range o.matches {
		id := m.Source + ":" + strconv.FormatUint(m.LineNumber, 10)
		seen[id]++
		r := want[id]
		d := fmt.Sprintf("%s\nmatch #%d: source=%q line=%d text=%q indices=%v key=%q", ctx, i, m.Source, m.LineNumber, m.Line, m.Indices, m.Extracted)
		if r == nil || r.class != "matched" {
			add("C01", "C01/"+c.Path+"/emitted-line-not-in-reference", d)
			add("C02", "C02/"+c.Path+"/source-or-line-number", d)
			continue
		}
		if seen[id] > 1 {
			add("C01", "C01/"+c.Path+"/line-emitted-twice", d)
		}
		d += fmt.Sprintf("\nreference: text=%q indices=%v key=%q", r.text, r.indices, r.key)
		if m.Extracted != r.key {
			add("C01", "C01/"+c.Path+"/key", d)
		}
		if m.Line != r.text {
			add("C02", "C02/"+c.Path+"/line-text", d)
		}
		if !eqInts(m.Indices, r.indices) {
			add("C02", "C02/"+c.Matcher+"/indices", d)
		}
	}
	for id, r := range want {
		if r.class == "matched" && seen[id] == 0 {
			add("C01", "C01/"+c.Path+"/matched-line-not-emitted", fmt.Sprintf("%s\nmissing %s %q", ctx, id, r.text))
		}
	}
	// C02: "these values stay correct however long the consumer holds them": the
	// batches are kept as received and read again after the pipeline has ended
	k := 0
	for bi, hb := range o.held {
		for j, m := range hb {
			if k < len(o.matches) {
				w := o.matches[k]
				if m.Source != w.Source || m.LineNumber != w.LineNumber || m.Line != w.Line || m.Extracted != w.Extracted || !eqInts(m.Indices, w.Indices) {
					add("C02", "C02/"+c.Path+"/held-batch-changed", fmt.Sprintf("%s\nbatch #%d element %d was %s:%d %q key=%q when received and is %s:%d %q key=%q at the end", ctx, bi, j, w.Source, w.LineNumber, w.Line, w.Extracted, m.Source, m.LineNumber, m.Line, m.Extracted))
				}
			}
			k++
		}
	}
	// C02: with one reader and one worker matches are emitted in input order
	if c.Workers == 1 && (c.Path == "reader" || c.Readers == 1) {
		var wantOrder []string
		for _, r := range ref {
			if r.class == "matched" {
				wantOrder = append(wantOrder, r.src+":"+strconv.FormatUint(r.num, 10))
			}
		}
		if strings.Join(wantOrder, ",") != strings.Join(o.arrival, ",") {
			add("C02", "C02/"+c.Path+"/emission-order", fmt.Sprintf("%s\nwant %v got %v", ctx, wantOrder, o.arrival))
		}
	}
	return fs
}

func eqCounts(a, b map[string]int64) bool {
	if len(a) != len(b) {
		return false
	}
	for k, v := range a {
		if b[k] != v {
			return false
		}
	}
	return true
}

func eqInts(a, b []int) bool {
	if len(a) != len(b) {
		return false
	}
	for i := range a {
		if a[i] != b[i] {
			return false
		}
	}
	return true
}

func cfgJSON(c *Config) string {
	b, _ := json.Marshal(c)
	return string(b)
}

// ---------------------------------------------------------------- enumeration

var shapes = []string{
	"",               // 0
	"a",              // 1 no trailing newline
	"a\nb\n",         // 2
	"b\na",           // 3
	"\n",             // 4 empty line
	"a\r\nb\r\n",     // 5 CRLF
	"aaaaaa\nb\n",    // 6 longer than the 4-byte read buffer
	"ab\n\nba\n",     // 7
	"a\nb\na\nb\n",   // 8 several batches
	"b\nb\naaaaa\nb", // 9
	"a\nb\na\nb\na\nb\na\nb\n",                   // 10: eight one-line batches from one worker (more than the match channel holds)
	"a\nb\nb\na\na\nb\nb\na\na\nb\nb\na\na\nb\nb\na\n", // 11: eight two-line batches
	"Ab\naaB\nabb\nAB\n",                               // 12: lines for the ignore-case dissect pattern a%{x}b%{y}
}

type logic struct{ matcher, extract, ignore string }

var logics = []logic{
	{"re", exFull, ""},
	{"re", exGroup, ""},
	{"re", exFull, igEqB},
	{"dissect", exFull, ""},
	{"always", exFull, ""},
}

func configs(prop, tier string) []*Config {
	var out []*Config
	quick := tier != "thorough"
	bound := 2
	if !quick {
		bound = 3
	}
	add := func(c Config) {
		c.ErrSrc = -1
		c.Bound = bound
		cc := c
		out = append(out, &cc)
	}
	agg := prop == "C05"
	if agg {
		// aggregation loop: render ticker + status line readers
		type p struct {
			src                             []string
			files                           bool
			batch, workers, readers, buffer int
		}
		var ps []p
		for _, batch := range []int{1, 2} {
			for _, workers := range []int{1, 2} {
				ps = append(ps, p{[]string{shapes[2]}, false, batch, workers, 1, 1})
				ps = append(ps, p{[]string{shapes[2], shapes[3]}, true, batch, workers, 2, 1})
			}
		}
		ps = append(ps, p{[]string{shapes[8]}, false, 1, 2, 1, 2}, p{[]string{shapes[2], shapes[1]}, true, 1, 1, 1, 2}, p{[]string{shapes[7]}, false, 2, 1, 1, 1})
		// workers 0 and -1: "use the default" (two workers); termination must not
		// depend on the configured number being the number of goroutines started
		ps = append(ps, p{[]string{shapes[2]}, false, 1, 0, 1, 1}, p{[]string{shapes[3]}, false, 2, -1, 1, 1})
		if !quick {
			ps = append(ps, p{[]string{shapes[8]}, false, 2, 2, 1, 1}, p{[]string{shapes[8], shapes[2]}, true, 2, 2, 2, 2}, p{[]string{shapes[9]}, false, 1, 2, 1, 1})
		}
		for _, x := range ps {
			path := "reader"
			if x.files {
				path = "files"
			}
			add(Config{Path: path, Sources: x.src, Matcher: "re", Extract: exZero, Batch: x.batch, Workers: x.workers, Readers: x.readers, Buffer: x.buffer, Agg: true})
		}
		if quick {
			// one small configuration one deviation deeper: a render that falls
			// between a worker's send and its counter update needs three
			c := Config{Path: "reader", Sources: []string{shapes[2]}, Matcher: "re", Extract: exZero, Batch: 1, Workers: 1, Readers: 1, Buffer: 1, Agg: true}
			c.ErrSrc, c.Bound = -1, 3
			out = append(out, &c)
		}
		// a worker that gets more batches ahead of the aggregation loop than the
		// match channel holds (8 batches, channel capacity 5): the batch the loop
		// is still walking must not be recycled. With a batch buffer that holds the
		// whole input the reader runs ahead by default, so one deviation (leaving
		// the loop inside Sample) lets the worker lap it. One deviation less than
		// the rest of the tier (the executions are four times longer).
		for _, lc := range []Config{
			// (keys carry the line number, so that every batch has its own content)
			{Path: "reader", Sources: []string{shapes[11]}, Matcher: "re", Extract: exFull, Batch: 2, Workers: 1, Readers: 1, Buffer: 8, Agg: true},
			{Path: "reader", Sources: []string{shapes[11]}, Matcher: "re", Extract: exFull, Batch: 2, Workers: 1, Readers: 1, Buffer: 1, Agg: true},
			// 16 one-line batches: enough to back the whole pipeline up (loop holding
			// one batch, match channel full, worker holding one, batch channel full,
			// reader sending) at the moment the render timer fires - a lock taken by
			// the status line and held across a channel send closes a cycle there
			{Path: "reader", Sources: []string{shapes[11]}, Matcher: "re", Extract: exFull, Batch: 1, Workers: 1, Readers: 1, Buffer: 1, Agg: true},
		} {
			lc.ErrSrc, lc.Bound = -1, bound-1
			l := lc
			out = append(out, &l)
		}
		// unsynchronised matcher scratch shared between workers is only visible to
		// the race detector: dissect instances own an int pool
		add(Config{Path: "reader", Sources: []string{shapes[8]}, Matcher: "dissect", Extract: exFull, Batch: 1, Workers: 2, Readers: 1, Buffer: 1, Agg: true})
		add(Config{Path: "reader", Sources: []string{shapes[12]}, Matcher: "dissect-ic", Extract: exFull, Batch: 1, Workers: 2, Readers: 1, Buffer: 1, Agg: true})
		return out
	}
	if prop == "C06" {
		// an injected failure of one input (open error, or a read error at every
		// read position) while another input is read: the failure is counted
		// once, the bytes before it and the whole other input are processed,
		// and the reader slot is released (no deadlock with --readers 1)
		for _, pr := range [][2]int{{2, 3}, {8, 1}} {
			for _, readers := range []int{1, 2} {
				for errSrc := 0; errSrc < 2; errSrc++ {
					maxAt := 3
					if quick {
						maxAt = 2
					}
					for errAt := -1; errAt <= maxAt; errAt++ {
						for _, batch := range []int{1, 2} {
							c := Config{Path: "files", Sources: []string{shapes[pr[0]], shapes[pr[1]]}, Matcher: "re", Extract: exFull, Batch: batch, Workers: 1, Readers: readers, Buffer: 1, Chunk: true}
							c.Bound = bound
							c.ErrSrc, c.ErrAt = errSrc, errAt
							out = append(out, &c)
						}
					}
				}
			}
		}
		// -z: "gzip content is delivered decompressed and non-gzip files are read
		// from their first byte", with short reads as choices while the gzip
		// header is probed (no injected error: what a failing probe read means
		// for the count of read errors the statement does not say)
		type gzc struct {
			src []string
			gz  []bool
		}
		gzs := []gzc{
			{[]string{shapes[2], shapes[3]}, []bool{true, false}},
			{[]string{shapes[1], shapes[6]}, []bool{false, true}},         // a 1-byte plain file: shorter than a gzip header
			{[]string{"\x1f\x8bzz\nb\n", shapes[2]}, []bool{false, true}}, // plain text that starts with the gzip magic
			{[]string{shapes[0], shapes[8]}, []bool{false, false}},        // an empty file and a plain one
			{[]string{shapes[5], shapes[4]}, []bool{true, true}},
		}
		for _, g := range gzs {
			for _, readers := range []int{1, 2} {
				for _, batch := range []int{1, 2} {
					if quick && batch == 2 && readers == 2 {
						continue
					}
					c := Config{Path: "files", Sources: g.src, Gz: g.gz, Gunzip: true, Matcher: "always", Extract: exFull, Batch: batch, Workers: 1, Readers: readers, Buffer: 1, Chunk: true}
					c.Bound = bound
					c.ErrSrc = -1
					out = append(out, &c)
				}
			}
		}
		// -z with a gzip input that fails WHILE BEING READ (after its header),
		// followed by two intact gzip inputs read by two readers: whatever the
		// failing input leaves behind (a reader closed twice, a recycled
		// decompressor) must not touch the later inputs
		for _, readers := range []int{1, 2} {
			for _, order := range [][]int{{0, 1, 2}, {1, 0, 2}} {
				src := []string{shapes[2], shapes[8], shapes[9]}
				c := Config{Path: "files", Gunzip: true, Matcher: "always", Extract: exFull, Batch: 1, Workers: 1, Readers: readers, Buffer: 1, Chunk: true}
				for _, k := range order {
					c.Sources = append(c.Sources, src[k])
					c.Gz = append(c.Gz, true)
				}
				c.Bound = bound
				c.ErrSrc, c.ErrAt = order[0], 1
				// the failing input is the one holding shapes[2]: position of 0 in order
				for pos, k := range order {
					if k == 0 {
						c.ErrSrc = pos
					}
				}
				out = append(out, &c)
			}
		}
		for _, s := range []int{2, 8, 6} {
			for errAt := 0; errAt <= 3; errAt++ {
				c := Config{Path: "reader", Sources: []string{shapes[s]}, Matcher: "re", Extract: exFull, Batch: 2, Workers: 1, Readers: 1, Buffer: 1, Chunk: true}
				c.Bound = bound
				c.ErrSrc, c.ErrAt = 0, errAt
				out = append(out, &c)
			}
		}
		return out
	}
	// C01 / C02: plumbing grid with the first logic, logic grid with two plumbings
	rshapes := []int{1, 2, 3, 5, 6, 8}
	batches := []int{1, 2, 3}
	if quick {
		rshapes = []int{3, 5, 6, 8}
		batches = []int{1, 2}
	}
	for _, s := range rshapes {
		for _, batch := range batches {
			for _, workers := range []int{1, 2} {
				for _, buffer := range []int{1, 2} {
					if quick && buffer == 2 && batch == 2 {
						continue
					}
					add(Config{Path: "reader", Sources: []string{shapes[s]}, Matcher: "re", Extract: exFull, Batch: batch, Workers: workers, Readers: 1, Buffer: buffer, Chunk: true, Jumps: true})
				}
			}
		}
	}
	pairs := [][2]int{{2, 3}, {8, 1}, {6, 0}, {5, 2}}
	if quick {
		pairs = pairs[:2]
	}
	for _, pr := range pairs {
		for _, readers := range []int{1, 2} {
			for _, batch := range []int{1, 2} {
				for _, workers := range []int{1, 2} {
					for _, buffer := range []int{1, 2} {
						if quick && buffer == 2 && (batch == 2 || workers == 1) {
							continue
						}
						add(Config{Path: "files", Sources: []string{shapes[pr[0]], shapes[pr[1]]}, Matcher: "re", Extract: exFull, Batch: batch, Workers: workers, Readers: readers, Buffer: buffer, Chunk: !quick})
					}
				}
			}
		}
	}
	// a few small, maximally concurrent configurations one deviation deeper than
	// the rest of the tier (quick 3, thorough 4)
	for _, d := range []Config{
		{Path: "reader", Sources: []string{shapes[3]}, Matcher: "re", Extract: exFull, Batch: 1, Workers: 2, Readers: 1, Buffer: 1, Chunk: true, Jumps: true},
		{Path: "reader", Sources: []string{shapes[2]}, Matcher: "re", Extract: exFull, Batch: 2, Workers: 2, Readers: 1, Buffer: 1, Jumps: true},
		{Path: "files", Sources: []string{shapes[1], shapes[3]}, Matcher: "re", Extract: exFull, Batch: 1, Workers: 2, Readers: 2, Buffer: 1},
		{Path: "files", Sources: []string{shapes[2], shapes[1]}, Matcher: "re", Extract: exFull, Batch: 1, Workers: 1, Readers: 1, Buffer: 1, Chunk: true},
	} {
		d.ErrSrc = -1
		d.Bound = bound + 1
		dd := d
		out = append(out, &dd)
	}
	add(Config{Path: "reader", Sources: []string{shapes[8]}, Matcher: "dissect", Extract: exFull, Batch: 1, Workers: 2, Readers: 1, Buffer: 2})
	add(Config{Path: "reader", Sources: []string{shapes[8]}, Matcher: "re", Extract: exFull, Batch: 1, Workers: 0, Readers: 1, Buffer: 1})
	// ignore-case dissect with two literals: whatever the compiled pattern keeps
	// for folding lines is shared by the instances of all workers
	// (two deviations in both tiers: the detector needs no particular schedule)
	for _, dc := range []Config{
		{Path: "reader", Sources: []string{shapes[12]}, Matcher: "dissect-ic", Extract: exFull, Batch: 1, Workers: 2, Readers: 1, Buffer: 1},
		{Path: "reader", Sources: []string{shapes[12]}, Matcher: "dissect-ic", Extract: exFull, Batch: 2, Workers: 2, Readers: 1, Buffer: 2},
	} {
		dc.ErrSrc, dc.Bound = -1, 2
		d := dc
		out = append(out, &d)
	}
	// more batches from one worker than the match channel (capacity 5) holds,
	// while the consumer keeps every batch it received: a worker that recycles
	// its match slices overwrites what the consumer still holds
	for _, lc := range []Config{
		{Path: "reader", Sources: []string{shapes[10]}, Matcher: "re", Extract: exFull, Batch: 1, Workers: 1, Readers: 1, Buffer: 1},
		{Path: "reader", Sources: []string{shapes[11]}, Matcher: "re", Extract: exFull, Batch: 2, Workers: 1, Readers: 1, Buffer: 2},
		{Path: "reader", Sources: []string{shapes[11]}, Matcher: "re", Extract: exFull, Batch: 1, Workers: 2, Readers: 1, Buffer: 1},
	} {
		lc.ErrSrc, lc.Bound = -1, bound-1
		l := lc
		out = append(out, &l)
	}
	// several ignore expressions, the truthy one last (a set that reorders or
	// caches its expressions is shared by the workers)
	for _, s := range []int{9, 8} {
		add(Config{Path: "reader", Sources: []string{shapes[s]}, Matcher: "re", Extract: exFull, Ignore: igEqB, IgnoreFirst: []string{"{eq {0} zz}", "{eq {1} zz}"}, Batch: 1, Workers: 2, Readers: 1, Buffer: 1})
	}
	add(Config{Path: "files", Sources: []string{shapes[2], shapes[3]}, Matcher: "re", Extract: exFull, Batch: 2, Workers: -1, Readers: 2, Buffer: 1})
	for _, l := range logics[1:] {
		for _, s := range []int{4, 7, 9} {
			add(Config{Path: "reader", Sources: []string{shapes[s]}, Matcher: l.matcher, Extract: l.extract, Ignore: l.ignore, Batch: 2, Workers: 2, Readers: 1, Buffer: 1})
			if !quick {
				add(Config{Path: "files", Sources: []string{shapes[s], shapes[3]}, Matcher: l.matcher, Extract: l.extract, Ignore: l.ignore, Batch: 1, Workers: 2, Readers: 2, Buffer: 1})
			}
		}
	}
	return out
}

func c06Prefix(c *Config) string {
	if c.Gunzip {
		return "C06/gunzip/"
	}
	return "C06/with-failing-input/"
}

type Case struct {
	Config *Config  `json:"config"`
	Vector []int    `json:"vector"`
	Trace  []string `json:"schedule,omitempty"`
}

func worker(w *runner.W) {
	cfgs := configs(w.Prop, w.Tier)
	if b := w.Param("bound", ""); b != "" {
		// experiment switch (-p bound=N): never used by ./check
		n, _ := strconv.Atoi(b)
		for _, c := range cfgs {
			c.Bound = n
		}
	}
	// the explorer interleaves only at synchronisation operations; that is
	// sound only for race-free code, so C01 runs with the happens-before
	// detector too and reports a race on pipeline state as its own violation
	race := w.Prop == "C05" || w.Prop == "C01"
	var unitNo int64
	orders := map[string]bool{}
	for ci, c := range cfgs {
		if w.Expired() {
			return
		}
		w.SetCase(func() any { return Case{Config: c} })
		units := mc.Units(c.Bound, func(e *mc.Explorer) {
			run(e, c, false)
			e.EndExecution()
		})
		cfgOrders := map[string]bool{}
		for _, u := range units {
			unitNo++
			if !w.Owns(unitNo) {
				continue
			}
			if w.Expired() {
				return
			}
			ex := mc.NewSubtree(c.Bound, u)
			for ex.Next() {
				w.SetCase(func() any { return Case{Config: c, Vector: ex.Vector()} })
				o, res, fs := run(ex, c, race)
				ex.EndExecution()
				w.Eval(res.Switches > 0)
				w.Add("transitions", int64(res.Steps))
				w.Max("max_steps", int64(res.Steps))
				for _, f := range fs {
					if f.prop == w.Prop {
						w.Violation(f.sig, f.detail, Case{Config: c, Vector: ex.Vector()})
					} else if w.Prop == "C01" && strings.HasPrefix(f.sig, "C05/race/") {
						w.Violation("C01/race/"+strings.TrimPrefix(f.sig, "C05/race/"), "unsynchronised access to state the classification of lines depends on (with real parallelism lines can be matched on another line's data)\n"+f.detail, Case{Config: c, Vector: ex.Vector()})
					} else if w.Prop == "C06" && (f.prop == "C01" || (f.prop == "C05" && !strings.HasPrefix(f.sig, "C05/race"))) {
						// with a failing input: lost or duplicated lines of the other inputs, deadlocks
						w.Violation(c06Prefix(c)+f.sig, f.detail, Case{Config: c, Vector: ex.Vector()})
					}
				}
				key := strings.Join(o.arrival, ",") + "#" + strconv.Itoa(len(o.snaps)) + "#" + fmt.Sprint(o.renderStart)
				w.Outcome(strconv.Itoa(ci), key)
				cfgOrders[key] = true
				if w.WantSample() && res.Switches > 3 {
					w.Sample(traceCase(c, ex.Vector()))
				}
			}
			w.Add("choice_points", ex.ChoicePoints)
		}
		if len(cfgOrders) > 1 {
			orders[strconv.Itoa(ci)] = true
		}
		if w.Shard == 0 {
			w.Add("configs", 1)
		}
	}
	if len(cfgs) > 0 {
		w.Max("deviation_bound_completed", int64(cfgs[0].Bound))
		deepest := 0
		for _, c := range cfgs {
			if c.Bound > deepest {
				deepest = c.Bound
			}
		}
		w.Max("deviation_bound_deepest_configurations", int64(deepest))
	}
	_ = orders
}

func traceCase(c *Config, vec []int) Case {
	ex := mc.NewReplay(vec)
	ex.Next()
	o := &obs{}
	opts := vrt.Options{Trace: true, MaxAdvances: 40}
	opts.ClockJumps = jumps(c)
	res := vrt.Run(ex, opts, func() { body(c, o) })
	return Case{Config: c, Vector: vec, Trace: res.Trace}
}

func replay(w *runner.W, raw json.RawMessage) {
	var c Case
	if err := json.Unmarshal(raw, &c); err != nil {
		panic(err)
	}
	ex := mc.NewReplay(c.Vector)
	ex.Next()
	_, res, fs := run(ex, c.Config, w.Prop == "C05" || w.Prop == "C01")
	if os.Getenv("VERIF_TRACE") != "" {
		// development aid: print the schedule of the replayed vector
		fmt.Fprintln(os.Stderr, strings.Join(traceCase(c.Config, c.Vector).Trace, "\n"))
	}
	for _, f := range fs {
		if f.prop == w.Prop {
			w.Violation(f.sig, f.detail+"\nschedule: "+strings.Join(traceCase(c.Config, c.Vector).Trace, " "), c)
		} else if w.Prop == "C01" && strings.HasPrefix(f.sig, "C05/race/") {
			w.Violation("C01/race/"+strings.TrimPrefix(f.sig, "C05/race/"), f.detail, c)
		} else if w.Prop == "C06" && (f.prop == "C01" || (f.prop == "C05" && !strings.HasPrefix(f.sig, "C05/race"))) {
			w.Violation(c06Prefix(c.Config)+f.sig, f.detail, c)
		}
	}
	_ = res
}

func main() {
	sort.Strings(nil)
	runner.Main(&runner.Spec{
		Name:       "pipeline",
		Properties: []string{"C01", "C02", "C05", "C06"},
		Level:      "model_checking",
		Rule: func(prop, tier string) string {
			return "real batcher + extractor workers + consumer (C01/C02) or helpers.RunAggregationLoop with a monitored counter aggregator and status-line readers (C05), compiled onto the controlled runtime; for every configuration of the grid (input shapes over {a,b,CR,LF} incl. CRLF, empty lines, no trailing newline, a line longer than the 4-byte read buffer; for C06 also -z with gzip-compressed and plain sources (a 1-byte file, text starting with the gzip magic, an empty file) under short reads; batch 1-3, workers 1-2 and 0/-1 (= the default of two), readers 1-2, batch-buffer 1-2; regex/dissect/always matcher; extract/ignore expressions) every schedule with at most 2 (quick) / 3 (thorough) deviations (one more for four small, maximally concurrent configurations of C01/C02 and one of C05) from the default scheduler (delay bounding: run until blocked, then the next goroutine in cyclic order) (preemptions at channel/mutex/atomic/waitgroup/go operations, 1-byte short reads, 250ms clock jumps at clock readings, firing of the 100ms render timer while work is runnable) is executed; blocking switches and select choices are free. States = distinct (configuration, emission order, render positions) outcomes; transitions = scheduling steps. Non-trivial = at least one goroutine switch."
		},
		Assumptions: func(string) []string {
			return []string{"ReadAheadBufferSize is overridden to 4 (scale only)", "sequentially consistent memory; unsynchronised accesses are reported by the vector-clock detector on struct fields and package variables of the instrumented packages, not on captured locals", "blocked senders on a full channel may be released in any order"}
		},
		Worker:         worker,
		Replay:         replay,
		HangSeconds:    120,
		QuickBudget:    4 * time.Minute,
		ThoroughBudget: 25 * time.Minute,
	})
}
