// Harness classify is the sequential companion of the pipeline harness for
// C01: it decides the *classification* clause ("every line ... ends in exactly
// one class: matched (a non-empty key was produced), ignored (an ignore
// expression was truthy, or the key was empty) or unmatched") over a wide
// alphabet of field contents - every kind of blank the documentation's
// "empty value (or only whitespace)" can mean, multi-byte characters, NUL - for
// every combination of matcher, key expression, set of ignore expressions,
// worker count and batch size of a small grid. The whole line set is one
// input of the real batcher + extractor (free-running; the result must not
// depend on the schedule), and every emitted match is mapped back to its line
// by its line number.
package main

import (
	"encoding/json"
	"fmt"
	"io"
	"sort"
	"strconv"
	"strings"
	"time"

	"rare/pkg/extractor"
	"rare/pkg/extractor/batchers"
	"rare/pkg/matchers"
	"rare/pkg/matchers/dissect"
	"rare/pkg/matchers/fastregex"
	"verif/runner"
)

// ---- reference (imports nothing from rare) -------------------------------------

// Unicode White_Space code points (UCD PropList.txt). "False is an empty value
// (or only whitespace)" (docs/usage/expressions.md).
func refWhite(r rune) bool {
	switch {
	case r >= 0x09 && r <= 0x0d, r == 0x20, r == 0x85, r == 0xa0, r == 0x1680,
		r >= 0x2000 && r <= 0x200a, r == 0x2028, r == 0x2029, r == 0x202f, r == 0x205f, r == 0x3000:
		return true
	}
	return false
}

// refTruthy: 1 truthy, 0 falsy, -1 not settled (bytes that are not valid
// UTF-8 next to blanks: whether such a byte "is whitespace" is nobody's
// documented business).
func refTruthy(s string) int {
	settled := true
	for i := 0; i < len(s); {
		c := s[i]
		if c < 0x80 {
			if !refWhite(rune(c)) {
				return 1
			}
			i++
			continue
		}
		r, n := decodeRune(s[i:])
		if n == 0 {
			settled = false
			i++
			continue
		}
		if !refWhite(r) {
			return 1
		}
		i += n
	}
	if !settled {
		return -1
	}
	return 0
}

// decodeRune: strict UTF-8 decoder for 2..4 byte sequences (n == 0: invalid).
func decodeRune(s string) (rune, int) {
	c := s[0]
	need := 0
	var r rune
	switch {
	case c >= 0xc2 && c <= 0xdf:
		need, r = 1, rune(c&0x1f)
	case c >= 0xe0 && c <= 0xef:
		need, r = 2, rune(c&0x0f)
	case c >= 0xf0 && c <= 0xf4:
		need, r = 3, rune(c&0x07)
	default:
		return 0, 0
	}
	if len(s) < need+1 {
		return 0, 0
	}
	for i := 1; i <= need; i++ {
		if s[i]&0xc0 != 0x80 {
			return 0, 0
		}
		r = r<<6 | rune(s[i]&0x3f)
	}
	if need == 2 && (r < 0x800 || r >= 0xd800 && r <= 0xdfff) || need == 3 && (r < 0x10000 || r > 0x10ffff) {
		return 0, 0
	}
	return r, need + 1
}

// a line is F1|F2| ; anything else does not match
func refFields(line string) (f1, f2 string, ok bool) {
	i := strings.IndexByte(line, '|')
	if i < 0 {
		return
	}
	j := strings.IndexByte(line[i+1:], '|')
	if j < 0 {
		return
	}
	j += i + 1
	return line[:i], line[i+1 : j], true
}

type expr struct {
	Text string
	// value on (line, f1, f2)
	eval func(line, f1, f2 string) string
}

func truthyStr(b bool) string {
	if b {
		return "1"
	}
	return ""
}

var keyExprs = []expr{
	{"{1}", func(_, f1, _ string) string { return f1 }},
	{"{0}", func(l, _, _ string) string { return l }},
	{"{2}", func(_, _, f2 string) string { return f2 }},
	{"{1}{2}", func(_, f1, f2 string) string { return f1 + f2 }},
}

// ignore expressions; eval returns the expression's value, unsettled reports
// that the reference cannot decide its truthiness-dependent value
var ignoreExprs = []expr{
	{"{2}", func(_, _, f2 string) string { return f2 }},
	{"{1}", func(_, f1, _ string) string { return f1 }},
	{"{eq {1} b}", func(_, f1, _ string) string { return truthyStr(f1 == "b") }},
	{" ", func(_, _, _ string) string { return " " }},
	{"{2}{1}", func(_, f1, f2 string) string { return f2 + f1 }},
	{"\\t{2}\\n", func(_, _, f2 string) string { return "\t" + f2 + "\n" }},
}

var ignoreSets = [][]int{nil, {0}, {1}, {2}, {3}, {0, 2}, {2, 0}, {4}, {5}, {3, 1}}

type Config struct {
	Matcher string `json:"matcher"` // re | dissect
	Key     int    `json:"key_expr"`
	Ignore  []int  `json:"ignore_set"`
	Workers int    `json:"workers"`
	Batch   int    `json:"batch"`
}

type Case struct {
	Config  Config   `json:"config"`
	KeyText string   `json:"key_expression"`
	IgnText []string `json:"ignore_expressions"`
	Line    string   `json:"line_goquoted,omitempty"`
}

// tokens the fields are built from
var tokens = []string{"", "a", "b", " ", "\t", "\v", "\f", "\r", "\u00a0", "\u0085", "\u2003", "\u3000", "\u2028", "\u1680", "\u200b", "\ufeff", "0", "\x00", "é", "\xa0", "\x85"}

// fieldsUpTo returns all strings of at most n tokens (n <= 3; the third token
// ranges over a reduced set).
func fieldsUpTo(n int) []string {
	seen := map[string]bool{}
	var out []string
	add := func(s string) {
		if !seen[s] {
			seen[s] = true
			out = append(out, s)
		}
	}
	for _, a := range tokens {
		add(a)
		if n < 2 {
			continue
		}
		for _, b := range tokens {
			add(a + b)
			if n < 3 {
				continue
			}
			for _, c := range []string{" ", "\u00a0", "a", "\f", "\xa0"} {
				add(a + b + c)
			}
		}
	}
	return out
}

// lineSet: quick - one field of up to 2 tokens, the other of at most 1;
// thorough - (up to 3, at most 1), (at most 1, up to 3) and (up to 2, up to 2).
func lineSet(tier string) []string {
	seen := map[string]bool{}
	var lines []string
	cross := func(as, bs []string) {
		for _, f1 := range as {
			for _, f2 := range bs {
				l := f1 + "|" + f2 + "|"
				if !seen[l] {
					seen[l] = true
					lines = append(lines, l)
				}
			}
		}
	}
	one, two := fieldsUpTo(1), fieldsUpTo(2)
	if tier == "thorough" {
		three := fieldsUpTo(3)
		cross(three, one)
		cross(one, three)
		cross(two, two)
	} else {
		cross(two, one)
		cross(one, two)
	}
	// lines that do not match at all
	lines = append(lines, "", "zzz", "a|b", " ", "|")
	return lines
}

func factory(m string) matchers.Factory {
	switch m {
	case "re":
		re, err := fastregex.Compile(`^([^|]*)\|([^|]*)\|$`)
		if err != nil {
			panic(err)
		}
		return matchers.ToFactory(re)
	case "dissect":
		d, err := dissect.Compile("%{a}|%{b}|")
		if err != nil {
			panic(err)
		}
		return matchers.ToFactory(d)
	}
	panic("matcher")
}

// refMatch: the dissect pattern also matches lines with more than two bars
// (first occurrence of each delimiter); the generated lines have exactly two
// or fewer than two, so both matchers agree with refFields
type refOut struct {
	class   string // matched | ignored | unmatched | unsettled
	key     string
	because string
}

func reference(c Config, line string) refOut {
	f1, f2, ok := refFields(line)
	if !ok {
		return refOut{class: "unmatched"}
	}
	for _, i := range c.Ignore {
		v := ignoreExprs[i].eval(line, f1, f2)
		switch refTruthy(v) {
		case 1:
			return refOut{class: "ignored", because: fmt.Sprintf("ignore expression %q evaluates to %q, which is not blank", ignoreExprs[i].Text, v)}
		case -1:
			return refOut{class: "unsettled"}
		}
	}
	k := keyExprs[c.Key].eval(line, f1, f2)
	if k == "" {
		return refOut{class: "ignored", because: "the key is empty"}
	}
	return refOut{class: "matched", key: k}
}

type slowReader struct {
	data []byte
	pos  int
}

func (r *slowReader) Read(p []byte) (int, error) {
	if r.pos >= len(r.data) {
		return 0, io.EOF
	}
	n := copy(p, r.data[r.pos:])
	r.pos += n
	return n, nil
}
func (r *slowReader) Close() error { return nil }

func runConfig(w *runner.W, c Config, lines []string, only string) {
	cs := Case{Config: c, KeyText: keyExprs[c.Key].Text}
	var igText []string
	for _, i := range c.Ignore {
		igText = append(igText, ignoreExprs[i].Text)
	}
	cs.IgnText = igText
	w.SetCase(func() any { return cs })
	// the line terminator is LF; a field ending in CR directly before the final
	// bar never sits at the end of the line, so no CR is dropped by the splitter
	input := strings.Join(lines, "\n") + "\n"
	var ig extractor.IgnoreSet
	if len(igText) > 0 {
		var err error
		ig, err = extractor.NewIgnoreExpressions(igText...)
		if err != nil {
			panic(fmt.Sprintf("ignore expressions %q do not compile: %v", igText, err))
		}
	}
	b := batchers.OpenReaderToChan("in", &slowReader{data: []byte(input)}, c.Batch, 2)
	ex, err := extractor.New(b.BatchChan(), &extractor.Config{Matcher: factory(c.Matcher), Extract: keyExprs[c.Key].Text, Workers: c.Workers, Ignore: ig})
	if err != nil {
		panic(err)
	}
	got := map[uint64][]string{}
	for batch := range ex.ReadChan() {
		for _, m := range batch {
			got[m.LineNumber] = append(got[m.LineNumber], m.Extracted)
			if m.Line != lines[m.LineNumber-1] {
				w.Violation("C01/classify/line-text-differs", fmt.Sprintf("line %d is %q, the match carries %q", m.LineNumber, lines[m.LineNumber-1], m.Line), cs)
			}
		}
	}
	var wantMatched, wantIgnored, unsettled uint64
	for i, l := range lines {
		if only != "" && l != only {
			continue
		}
		n := uint64(i + 1)
		ref := reference(c, l)
		g := got[n]
		lc := cs
		lc.Line = strconv.Quote(l)
		switch ref.class {
		case "unsettled":
			unsettled++
			w.Add("lines_not_settled_by_the_documentation", 1)
			continue
		case "matched":
			wantMatched++
			if len(g) == 0 {
				w.Violation("C01/classify/matched-line-not-emitted/"+blankClass(c, l), fmt.Sprintf("line %q: no ignore expression of %q is truthy and the key %q is %q (not empty), so the line is matched; it was not emitted", l, igText, cs.KeyText, ref.key), lc)
			} else if len(g) > 1 {
				w.Violation("C01/classify/line-emitted-twice", fmt.Sprintf("line %q emitted %d times", l, len(g)), lc)
			} else if g[0] != ref.key {
				w.Violation("C01/classify/wrong-key", fmt.Sprintf("line %q: key %q, reference %q", l, g[0], ref.key), lc)
			}
		case "ignored":
			wantIgnored++
			if len(g) > 0 {
				w.Violation("C01/classify/ignored-line-emitted/"+blankClass(c, l), fmt.Sprintf("line %q must be ignored (%s); it was emitted with key %q", l, ref.because, g[0]), lc)
			}
		default:
			if len(g) > 0 {
				w.Violation("C01/classify/unmatched-line-emitted", fmt.Sprintf("line %q does not match; it was emitted with key %q", l, g[0]), lc)
			}
		}
		w.Eval(ref.class != "unmatched")
		w.Outcome(strconv.Itoa(c.Key), fmt.Sprint(c.Ignore), ref.class, blankClass(c, l))
	}
	if only == "" {
		if ex.ReadLines() != uint64(len(lines)) {
			w.Violation("C01/classify/read-count", fmt.Sprintf("ReadLines()=%d, the input has %d lines", ex.ReadLines(), len(lines)), cs)
		}
		if unsettled == 0 {
			if ex.MatchedLines() != wantMatched || ex.IgnoredLines() != wantIgnored {
				w.Violation("C01/classify/totals", fmt.Sprintf("Matched: %d / %d (Ignored: %d); reference Matched: %d (Ignored: %d)", ex.MatchedLines(), ex.ReadLines(), ex.IgnoredLines(), wantMatched, wantIgnored), cs)
			}
		} else if ex.MatchedLines() < wantMatched || ex.MatchedLines() > wantMatched+unsettled || ex.MatchedLines()+ex.IgnoredLines() != wantMatched+wantIgnored+unsettled {
			w.Violation("C01/classify/totals", fmt.Sprintf("Matched: %d / %d (Ignored: %d); reference Matched: %d..%d, matched+ignored = %d", ex.MatchedLines(), ex.ReadLines(), ex.IgnoredLines(), wantMatched, wantMatched+unsettled, wantMatched+wantIgnored+unsettled), cs)
		}
	}
	w.Add("pipeline_runs", 1)
	w.Add("transitions", int64(len(lines)))
}

// blankClass names the kind of blank that decides the line (for signatures)
func blankClass(c Config, line string) string {
	f1, f2, ok := refFields(line)
	if !ok {
		return "no-fields"
	}
	s := f1 + f2
	has := func(set string) bool { return strings.ContainsAny(s, set) }
	switch {
	case has("\v\f"):
		return "ascii-vt-ff"
	case has("\u00a0\u0085\u2003\u3000\u2028\u1680"):
		return "unicode-space"
	case has("\u200b\ufeff"):
		return "zero-width-non-space"
	case has(" \t\r"):
		return "ascii-blank"
	case has("\x00"):
		return "nul"
	}
	return "plain"
}


// ---- size family ------------------------------------------------------------------
// n numbered lines `k<i>|<x or y>|` (every third line has x, which the ignore
// expression {eq {2} x} selects), or three lines whose middle one has a field
// of n bytes; through the real reader batcher with its production read buffer.

type SizeCase struct {
	Shape   string `json:"shape"` // lines | long-field
	N       int    `json:"n"`
	Workers int    `json:"workers"`
	Batch   int    `json:"batch"`
	Ignore  bool   `json:"ignore"`
	Matcher string `json:"matcher"`
}

func sizeNs(quick bool, shape string) []int {
	var out []int
	for n := 0; n <= 70; n++ {
		out = append(out, n)
	}
	maxK := 17
	if quick {
		maxK = 14
	}
	if shape == "long-field" {
		maxK = 18 // twice the 128 KiB read buffer
		if quick {
			maxK = 17
		}
	}
	for k := 7; k <= maxK; k++ {
		out = append(out, 1<<k-1, 1<<k, 1<<k+1)
	}
	out = append(out, 999, 1000, 1001, 1999, 2000, 2001) // the default batch size
	return out
}

func sizeClass(n int) string {
	switch {
	case n <= 70:
		return "upto70"
	case n <= 1025:
		return "upto1025"
	case n <= 16385:
		return "upto16385"
	}
	return "above16385"
}

func runSize(w *runner.W, c SizeCase) {
	w.SetCase(func() any { return c })
	var sb strings.Builder
	type want struct {
		key     string
		ignored bool
	}
	var wants []want
	switch c.Shape {
	case "lines":
		for i := 1; i <= c.N; i++ {
			f2 := "y"
			if i%3 == 0 {
				f2 = "x"
			}
			k := "k" + strconv.Itoa(i)
			sb.WriteString(k + "|" + f2 + "|\n")
			wants = append(wants, want{k, c.Ignore && f2 == "x"})
		}
	case "long-field":
		long := strings.Repeat("L", c.N)
		sb.WriteString("a|y|\n" + long + "|x|\n" + "b|y|\n")
		wants = []want{{"a", false}, {long, c.Ignore}, {"b", false}}
		if c.N == 0 {
			wants[1] = want{"", false} // empty key: ignored (counted below)
		}
	}
	var ig extractor.IgnoreSet
	if c.Ignore {
		var err error
		ig, err = extractor.NewIgnoreExpressions("{eq {2} x}")
		if err != nil {
			panic(err)
		}
	}
	b := batchers.OpenReaderToChan("in", &slowReader{data: []byte(sb.String())}, c.Batch, 2)
	ex, err := extractor.New(b.BatchChan(), &extractor.Config{Matcher: factory(c.Matcher), Extract: "{1}", Workers: c.Workers, Ignore: ig})
	if err != nil {
		panic(err)
	}
	got := make(map[uint64]string, len(wants))
	dup := 0
	for batch := range ex.ReadChan() {
		for _, m := range batch {
			if _, ok := got[m.LineNumber]; ok {
				dup++
			}
			got[m.LineNumber] = m.Extracted
		}
	}
	pre := "C01/classify/size-family/" + c.Shape + "/" + sizeClass(c.N) + "/"
	var wantM, wantI uint64
	bad := 0
	for i, wl := range wants {
		g, ok := got[uint64(i+1)]
		switch {
		case wl.ignored || wl.key == "":
			wantI++
			if ok && bad < 3 {
				bad++
				w.Violation(pre+"ignored-line-emitted", fmt.Sprintf("line %d of %d must be ignored; emitted with a key of %d bytes", i+1, len(wants), len(g)), c)
			}
		default:
			wantM++
			if !ok && bad < 3 {
				bad++
				w.Violation(pre+"matched-line-not-emitted", fmt.Sprintf("line %d of %d (key of %d bytes) was not emitted", i+1, len(wants), len(wl.key)), c)
			} else if ok && g != wl.key && bad < 3 {
				bad++
				w.Violation(pre+"wrong-key", fmt.Sprintf("line %d of %d: key %.40q.. (%d bytes), reference %.40q.. (%d bytes)", i+1, len(wants), g, len(g), wl.key, len(wl.key)), c)
			}
		}
	}
	if dup > 0 {
		w.Violation(pre+"line-emitted-twice", fmt.Sprintf("%d lines emitted more than once", dup), c)
	}
	if len(got) > len(wants) {
		w.Violation(pre+"line-number-beyond-input", fmt.Sprintf("%d distinct line numbers for %d lines", len(got), len(wants)), c)
	}
	if ex.ReadLines() != uint64(len(wants)) || ex.MatchedLines() != wantM || ex.IgnoredLines() != wantI {
		w.Violation(pre+"totals", fmt.Sprintf("Matched: %d / %d (Ignored: %d); reference Matched: %d / %d (Ignored: %d)", ex.MatchedLines(), ex.ReadLines(), ex.IgnoredLines(), wantM, len(wants), wantI), c)
	}
	w.Eval(len(wants) > 0)
	w.Outcome("size", c.Shape, strconv.Itoa(c.N), strconv.FormatBool(c.Ignore))
	w.Add("size_family_runs", 1)
	w.Add("transitions", int64(len(wants)))
}

func sizeCases(quick bool) []SizeCase {
	var out []SizeCase
	plumb := [][2]int{{1, 1}, {2, 7}, {0, 1000}, {3, 1001}}
	for _, shape := range []string{"lines", "long-field"} {
		for _, n := range sizeNs(quick, shape) {
			for pi, p := range plumb {
				if n > 20000 && p[1] == 1 && quick {
					continue
				}
				m := "re"
				if pi%2 == 1 {
					m = "dissect"
				}
				for _, ig := range []bool{false, true} {
					out = append(out, SizeCase{Shape: shape, N: n, Workers: p[0], Batch: p[1], Ignore: ig, Matcher: m})
				}
			}
		}
	}
	return out
}

func configs(tier string) []Config {
	var out []Config
	plumb := [][2]int{{1, 1}, {2, 3}, {0, 1000}}
	if tier == "thorough" {
		plumb = [][2]int{{1, 1}, {1, 3}, {2, 1}, {2, 3}, {3, 2}, {0, 1000}, {4, 7}, {-1, 2}}
	}
	for _, m := range []string{"re", "dissect"} {
		for k := range keyExprs {
			for _, ig := range ignoreSets {
				for _, p := range plumb {
					out = append(out, Config{Matcher: m, Key: k, Ignore: ig, Workers: p[0], Batch: p[1]})
				}
			}
		}
	}
	return out
}

func worker(w *runner.W) {
	lines := lineSet(w.Tier)
	var n int64
	for _, c := range configs(w.Tier) {
		n++
		if !w.Owns(n) {
			continue
		}
		if w.Expired() {
			return
		}
		runConfig(w, c, lines, "")
	}
	for _, sc := range sizeCases(w.Quick()) {
		n++
		if !w.Owns(n) {
			continue
		}
		if w.Expired() {
			return
		}
		runSize(w, sc)
	}
	if w.Shard == 0 {
		w.Add("lines_per_run", int64(len(lines)))
		w.Add("states", int64(len(lines)))
	}
}

func replay(w *runner.W, raw json.RawMessage) {
	var sc SizeCase
	if err := json.Unmarshal(raw, &sc); err == nil && sc.Shape != "" {
		runSize(w, sc)
		return
	}
	var c Case
	if err := json.Unmarshal(raw, &c); err != nil {
		panic(err)
	}
	only := ""
	if c.Line != "" {
		var err error
		only, err = strconv.Unquote(c.Line)
		if err != nil {
			panic(err)
		}
	}
	runConfig(w, c.Config, lineSet(w.Tier), only)
}

func main() {
	sort.Strings(nil)
	runner.Main(&runner.Spec{
		Name:       "classify",
		Properties: []string{"C01"},
		Level:      "model_checking",
		Rule: func(prop, tier string) string {
			return fmt.Sprintf("classification clause of C01 on the real batcher + extractor (free-running goroutines; the result may not depend on the schedule): one input of %d lines `F1|F2|` where one of F1, F2 ranges over all strings of up to 2 tokens (thorough: 3, the third from 5 kinds) and the other over at most 1 (thorough also: both up to 2) tokens from {empty, a, b, blank, TAB, VT, FF, CR, NBSP, NEL, EM SPACE, IDEOGRAPHIC SPACE, LINE SEPARATOR, OGHAM SPACE, ZERO WIDTH SPACE, BOM, 0, NUL, é, the lone bytes 0xA0 and 0x85} plus 5 lines that do not match; x matcher {regex, dissect} x key expression {{1},{0},{2},{1}{2}} x %d sets of ignore expressions over {{2},{1},{eq {1} b},' ',{2}{1},TAB{2}LF} (order matters: any truthy expression ignores) x (workers, batch) grid incl. workers 0 (default) ; every emitted match is mapped to its line by line number. Oracle: matched iff the line has both bars, no ignore expression is non-blank (blank = only Unicode White_Space; strings where a byte that is not valid UTF-8 would decide are not judged) and the key is not the empty string (a key of blanks is a key); key text; no line emitted twice; totals. Size family: n numbered lines `k<i>|y or x|` (every third is selected by the ignore expression {eq {2} x}) for n = 0..70, 999..1001, 1999..2001 and 2^k-1, 2^k, 2^k+1 (k = 7..14 quick / 17 thorough), and three lines whose middle one has a first field of n bytes (k up to 17 / 18: beyond the 128 KiB read buffer), x (workers, batch) in {(1,1),(2,7),(default,1000),(3,1001)} x ignore on/off, regex and dissect alternating; every line must come out exactly once under its own number with its own key. non-trivial = the line matches the pattern", len(lineSet(tier)), len(ignoreSets))
		},
		Assumptions: func(string) []string {
			return []string{"whitespace in 'False is an empty value (or only whitespace)' is read as the Unicode White_Space property (which is what Go, the implementation language, calls space); zero-width space and BOM are not White_Space and therefore truthy", "schedules are whatever the Go runtime gives (the schedule-exhaustive part of C01 is the pipeline harness); a schedule-dependent result would show up as a non-reproducible violation"}
		},
		Worker:         worker,
		Replay:         replay,
		HangSeconds:    60,
		QuickBudget:    3 * time.Minute,
		ThoroughBudget: 15 * time.Minute,
	})
}
