package main

// Reference list model for C17. Nothing from rare is imported here. A list is
// a NUL-separated string. The encoding is not injective for one value: "" is
// both the empty list and the list holding one empty string, and the
// statement does not say which, so the model is set-valued: every helper
// returns the set of results that some reading allows, and the real result
// must be a member. Where the statement is silent (negative @select index,
// negative @slice length, @slice start before the beginning, explicit empty
// @join delimiter, invalid @range arguments) the set holds every reasonable
// answer or the result is left unconstrained.

import (
	"strconv"
	"strings"
	"unicode"
	"unicode/utf8"
)

const nul = "\x00"

type env struct {
	g    []string
	keys map[string]string
	id   *ctx // identity of a top-level match (nil in sub-contexts): key of the memo below
}

// memo of the model's value of shared sub-programs (the inner chain of the
// two-operation programs is the same *Node for every outer operation)
var refMemo = map[*Node]map[*ctx]acc{}
var refMemoSize int

type acc struct {
	vals   []string
	anyErr bool // any documented error marker is accepted as well
	free   bool // not constrained by the statement
	skip   bool // the model predicts that the program does not terminate: not executed
	// pred, when set, replaces vals: the allowed results are too many to list
	// (a string in which occurrences of the delimiter overlap at many places)
	// and are given by a test instead. Only the outermost helper can be judged
	// this way; a helper consuming such a value is unconstrained.
	pred func(got string) bool
}

const maxSet = 48

func one(s string) acc { return acc{vals: []string{s}} }

var errorMarkers = []string{"<BAD-TYPE>", "<PARSE-ERROR>", "<ARGN>", "<CONST>", "<ENUM>", "<NAME>", "<EMPTY>", "<FILE>", "<VALUE>"}

func isErrorMarker(s string) bool {
	for _, m := range errorMarkers {
		if s == m {
			return true
		}
	}
	return false
}

func (a acc) accepts(got string) bool {
	if a.free {
		return true
	}
	if a.pred != nil {
		return a.pred(got) || (a.anyErr && isErrorMarker(got))
	}
	for _, v := range a.vals {
		if v == got {
			return true
		}
	}
	return a.anyErr && isErrorMarker(got)
}

func (a *acc) add(b acc) {
	if b.skip {
		a.skip = true
	}
	if b.pred != nil {
		if len(a.vals) == 0 && a.pred == nil && !a.free {
			a.pred = b.pred
		} else {
			a.free = true
		}
		return
	}
	if a.pred != nil {
		a.free = true
		return
	}
	if b.free {
		a.free = true
	}
	if b.anyErr {
		a.anyErr = true
	}
	for _, v := range b.vals {
		dup := false
		for _, w := range a.vals {
			if w == v {
				dup = true
				break
			}
		}
		if !dup {
			a.vals = append(a.vals, v)
		}
	}
	if len(a.vals) > maxSet {
		a.free = true
	}
}

// lift applies f to every combination of the arguments' possible values.
func lift(args []acc, f func(v []string) acc) acc {
	var out acc
	args = append([]acc{}, args...)
	for i, a := range args {
		if a.skip {
			out.skip = true
		}
		if a.anyErr {
			// whichever marker the argument produced, it is an ordinary
			// string for the helper that consumes it
			a.anyErr = false
			a.vals = append([]string{}, a.vals...)
			a.add(acc{vals: errorMarkers})
			args[i] = a
		}
		if a.free || a.pred != nil || len(a.vals) == 0 {
			out.free = true
		}
	}
	if out.free || out.skip {
		return out
	}
	idx := make([]int, len(args))
	cur := make([]string, len(args))
	for {
		for i := range args {
			cur[i] = args[i].vals[idx[i]]
		}
		out.add(f(cur))
		if out.free {
			return out
		}
		i := len(args) - 1
		for ; i >= 0; i-- {
			idx[i]++
			if idx[i] < len(args[i].vals) {
				break
			}
			idx[i] = 0
		}
		if i < 0 {
			return out
		}
	}
}

// decode: the lists a string may stand for.
func decode(v string) [][]string {
	if v == "" {
		return [][]string{{}, {""}}
	}
	return [][]string{strings.Split(v, nul)}
}

func encode(l []string) string { return strings.Join(l, nul) }

// "Truthiness is the presence of a value. False is an empty value (or only whitespace)"
func truthy(s string) bool { return strings.TrimSpace(s) != "" }

func boolStr(b bool) string {
	if b {
		return "1"
	}
	return ""
}

// splitVariants: every list L with join(L, d) == s whose elements do not
// contain d ("@split and @join are inverse"). Exactly one unless occurrences
// of d overlap in s. Linear in len(s) when there is one; complete=false when
// there are more than maxSet (the enumeration stops; use splitOK instead).
func splitVariants(s, d string) (res [][]string, complete bool) {
	var cur []string
	complete = true
	var rec func(start int)
	rec = func(start int) {
		if !complete {
			return
		}
		i := strings.Index(s[start:], d)
		if i < 0 {
			if len(res) >= maxSet {
				complete = false
				return
			}
			res = append(res, append(append([]string{}, cur...), s[start:]))
			return
		}
		i += start
		// the element s[start:j] must not contain d, so the delimiter that ends
		// it starts at the first occurrence or overlaps it
		for j := i; j < i+len(d) && j+len(d) <= len(s); j++ {
			if s[j:j+len(d)] == d {
				cur = append(cur, s[start:j])
				rec(j + len(d))
				cur = cur[:len(cur)-1]
			}
		}
	}
	rec(0)
	return res, complete
}

// splitOK: got is a list whose elements do not contain d and whose join by d
// is s (the definition splitVariants enumerates).
func splitOK(got, s, d string) bool {
	l := strings.Split(got, nul)
	for _, x := range l {
		if strings.Contains(x, d) {
			return false
		}
	}
	return strings.Join(l, d) == s
}

// forCap: the model does not follow a @for beyond this many iterations (the
// program is then not executed). The SIZE family raises it to its n.
var forCap = 24

func ref(n *Node, e env) acc {
	switch n.K {
	case "lit":
		return one(n.S)
	case "grp":
		if n.I >= 0 && n.I < len(e.g) {
			return one(e.g[n.I])
		}
		return one("") // a group that does not exist is empty
	case "key":
		return one(e.keys[n.S])
	case "cat":
		return lift(refAll(n.A, e), func(v []string) acc { return one(strings.Join(v, "")) })
	case "call":
		if e.id == nil {
			return refCall(n, e)
		}
		if m, ok := refMemo[n]; ok {
			if a, ok := m[e.id]; ok {
				return a
			}
		} else {
			if refMemoSize > 200000 {
				refMemo, refMemoSize = map[*Node]map[*ctx]acc{}, 0
			}
			refMemo[n] = map[*ctx]acc{}
		}
		a := refCall(n, e)
		m := refMemo[n]
		if m == nil { // the memo was emptied while the arguments were evaluated
			m = map[*ctx]acc{}
			refMemo[n] = m
		}
		m[e.id] = a
		refMemoSize++
		return a
	}
	panic("bad node")
}

func refAll(ns []*Node, e env) []acc {
	out := make([]acc, len(ns))
	for i, n := range ns {
		out[i] = ref(n, e)
	}
	return out
}

func upperKeepingBytes(s string) string {
	var sb strings.Builder
	for i := 0; i < len(s); {
		r, w := utf8.DecodeRuneInString(s[i:])
		if r == utf8.RuneError && w == 1 {
			sb.WriteByte(s[i])
		} else {
			sb.WriteRune(unicode.ToUpper(r))
		}
		i += w
	}
	return sb.String()
}

func atoi(s string) (int, bool) {
	v, err := strconv.Atoi(s)
	return v, err == nil
}

// constText: the text of an argument that must be known when the expression
// is compiled (a delimiter): a literal, or a sub-expression without groups and
// keys whose value the model knows exactly.
func constText(n *Node) (string, bool) {
	if n.K == "lit" {
		return n.S, true
	}
	if n.usesKey() || n.usesGroup() {
		return "", false
	}
	a := ref(n, env{keys: map[string]string{}})
	if a.free || a.skip || a.anyErr || a.pred != nil || len(a.vals) != 1 {
		return "", false
	}
	return a.vals[0], true
}

func constTextIs(n *Node, want string) bool {
	v, ok := constText(n)
	return ok && v == want
}

func litInt(n *Node) int {
	v, ok := atoi(n.S)
	if n.K != "lit" || !ok {
		panic("harness: constant integer expected, got " + n.String())
	}
	return v
}

// sub-context of @map/@filter/@reduce/@for: "{0}/{1} bound as documented and
// named keys resolved in the enclosing match"
func sub(e env, v0, v1 string) env { return env{g: []string{v0, v1}, keys: e.keys} }

func refCall(n *Node, e env) acc {
	switch n.S {
	// ---- the scalar helpers used inside sub-expressions ----
	case "upper":
		// bytes that are not UTF-8 may be kept or replaced (strings.ToUpper
		// replaces them); that is a matter of the scalar helper, not of C17
		return lift(refAll(n.A, e), func(v []string) acc {
			return acc{vals: []string{strings.ToUpper(v[0]), upperKeepingBytes(v[0])}}
		})
	case "len":
		// bytes or characters: the documentation says "length of a string"
		return lift(refAll(n.A, e), func(v []string) acc {
			return acc{vals: []string{strconv.Itoa(len(v[0])), strconv.Itoa(utf8.RuneCountInString(v[0]))}}
		})
	case "sumi":
		return lift(refAll(n.A, e), func(v []string) acc {
			sum := 0
			for _, s := range v {
				x, ok := atoi(s)
				if !ok {
					return one("<BAD-TYPE>")
				}
				sum += x
			}
			return one(strconv.Itoa(sum))
		})
	case "eq":
		return lift(refAll(n.A, e), func(v []string) acc { return one(boolStr(v[0] == v[1])) })
	case "not":
		return lift(refAll(n.A, e), func(v []string) acc { return one(boolStr(!truthy(v[0]))) })
	case "if":
		return lift(refAll(n.A, e), func(v []string) acc {
			if truthy(v[0]) {
				return one(v[1])
			}
			if len(v) > 2 {
				return one(v[2])
			}
			return one("")
		})
	case "coalesce":
		return lift(refAll(n.A, e), func(v []string) acc {
			for _, s := range v {
				if s != "" {
					return one(s)
				}
			}
			return one("")
		})
	case "lt":
		return lift(refAll(n.A, e), func(v []string) acc {
			a, ok1 := atoi(v[0])
			b, ok2 := atoi(v[1])
			if !ok1 || !ok2 {
				return one("<BAD-TYPE>")
			}
			return one(boolStr(a < b))
		})

	// ---- array helpers ----
	case "@", "$":
		// "{$ ..}/{@ ..} concatenate their arguments in order"
		if len(n.A) == 1 {
			return ref(n.A[0], e)
		}
		return lift(refAll(n.A, e), func(v []string) acc {
			var out acc
			var rec func(i int, pre []string)
			rec = func(i int, pre []string) {
				if i == len(v) {
					out.add(one(encode(pre)))
					return
				}
				for _, l := range decode(v[i]) {
					rec(i+1, append(append([]string{}, pre...), l...))
				}
			}
			rec(0, nil)
			return out
		})
	case "@len":
		// "@len counts elements"
		return lift(refAll(n.A[:1], e), func(v []string) acc {
			var out acc
			for _, l := range decode(v[0]) {
				out.add(one(strconv.Itoa(len(l))))
			}
			return out
		})
	case "@split":
		d := " " // "If delim isn't specified, " " will be used"
		if len(n.A) > 1 {
			dv, ok := constText(n.A[1])
			if !ok {
				return acc{free: true} // a delimiter taken from the match is not described
			}
			d = dv
		}
		return lift(refAll(n.A[:1], e), func(v []string) acc {
			if v[0] == "" {
				return one("")
			}
			vs, complete := splitVariants(v[0], d)
			if !complete {
				s := v[0]
				return acc{pred: func(got string) bool { return splitOK(got, s, d) }}
			}
			var out acc
			for _, l := range vs {
				out.add(one(encode(l)))
			}
			return out
		})
	case "@join":
		ds := []string{" "}
		if len(n.A) > 1 {
			dv, ok := constText(n.A[1])
			if !ok {
				// a delimiter taken from the match is not described, except that
				// "@split and @join are inverse for any non-empty delimiter": the
				// same non-empty delimiter given to both gives the string back (or
				// the helpers refuse it)
				if in := n.A[0]; in.K == "call" && in.S == "@split" && len(in.A) == 2 && in.A[1].String() == n.A[1].String() {
					dval, s := ref(n.A[1], e), ref(in.A[0], e)
					plain := !s.free && s.pred == nil && !s.skip && len(s.vals) > 0 && !s.anyErr &&
						!dval.free && dval.pred == nil && !dval.anyErr && len(dval.vals) == 1 && dval.vals[0] != ""
					for _, v := range s.vals {
						if strings.Contains(v, nul) {
							plain = false
						}
					}
					if plain {
						return acc{vals: s.vals, anyErr: true}
					}
				}
				return acc{free: true}
			}
			ds = []string{dv}
			if dv == "" { // "If delim is empty, it will be " ""
				ds = []string{"", " "}
			}
			// "@split and @join are inverse for any non-empty delimiter": joining
			// what @split returned by the same delimiter gives the string back,
			// whichever of the allowed decompositions @split chose
			// (a string that already holds list separators is not "a string" for
			// this sentence: @join would rewrite those too; the general rule below
			// handles it)
			if in := n.A[0]; dv != "" && in.K == "call" && in.S == "@split" && len(in.A) == 2 && constTextIs(in.A[1], dv) {
				s := ref(in.A[0], e)
				plain := !s.free && s.pred == nil && !s.skip && len(s.vals) > 0
				for _, v := range s.vals {
					if strings.Contains(v, nul) {
						plain = false
					}
				}
				if plain {
					return s
				}
			}
		}
		return lift(refAll(n.A[:1], e), func(v []string) acc {
			var out acc
			for _, l := range decode(v[0]) {
				for _, d := range ds {
					out.add(one(strings.Join(l, d)))
				}
			}
			return out
		})
	case "@select":
		// "@select ... return the indexed element"; the statement does not say
		// that a negative index counts from the end, both readings are accepted
		i := litInt(n.A[1])
		return lift(refAll(n.A[:1], e), func(v []string) acc {
			var out acc
			for _, l := range decode(v[0]) {
				switch {
				case i >= 0 && i < len(l):
					out.add(one(l[i]))
				case i >= 0:
					out.add(one(""))
				default:
					out.add(one(""))
					if j := len(l) + i; j >= 0 {
						out.add(one(l[j]))
					}
				}
			}
			return out
		})
	case "@slice":
		s := litInt(n.A[1])
		var l *int
		if len(n.A) > 2 {
			x := litInt(n.A[2])
			l = &x
		}
		return lift(refAll(n.A[:1], e), func(v []string) acc {
			var out acc
			for _, lst := range decode(v[0]) {
				out.add(sliceVariants(lst, s, l))
			}
			return out
		})
	case "@in":
		// "@in tests membership"
		return lift(refAll(n.A, e), func(v []string) acc {
			var out acc
			for _, l := range decode(v[1]) {
				found := false
				for _, x := range l {
					if x == v[0] {
						found = true
					}
				}
				out.add(one(boolStr(found)))
			}
			return out
		})
	case "@range":
		return lift(refAll(n.A, e), rangeRef)
	case "@map":
		// "@map ... apply their sub-expression to each element in order"
		return lift(refAll(n.A[:1], e), func(v []string) acc {
			var out acc
			for _, l := range decode(v[0]) {
				items := make([]acc, len(l))
				for i, x := range l {
					items[i] = ref(n.A[1], sub(e, x, ""))
				}
				if len(items) == 0 {
					out.add(one(""))
					continue
				}
				out.add(lift(items, func(r []string) acc { return one(encode(r)) }))
			}
			return out
		})
	case "@filter":
		return lift(refAll(n.A[:1], e), func(v []string) acc {
			var out acc
			for _, l := range decode(v[0]) {
				l := l
				items := make([]acc, len(l))
				for i, x := range l {
					items[i] = ref(n.A[1], sub(e, x, ""))
				}
				if len(items) == 0 {
					out.add(one(""))
					continue
				}
				out.add(lift(items, func(r []string) acc {
					var keep []string
					for i, c := range r {
						if truthy(c) {
							keep = append(keep, l[i])
						}
					}
					return one(encode(keep))
				}))
			}
			return out
		})
	case "@reduce":
		// "{0} is the memo, and {1} is the current value. If initial is unset,
		// it will use arr[0] as the initial value" (signature: [initial=""])
		init := ""
		if len(n.A) > 2 {
			init = n.A[2].S
		}
		return lift(refAll(n.A[:1], e), func(v []string) acc {
			var out acc
			for _, l := range decode(v[0]) {
				memo := one(init)
				rest := l
				if init == "" {
					if len(l) == 0 {
						out.add(one(""))
						continue
					}
					memo, rest = one(l[0]), l[1:]
				}
				for _, x := range rest {
					x := x
					memo = lift([]acc{memo}, func(m []string) acc { return ref(n.A[1], sub(e, m[0], x)) })
				}
				out.add(memo)
			}
			return out
		})
	case "@for":
		// "{0} is the current value and {1} is the index of the increment"
		return lift(refAll(n.A[:1], e), func(v []string) acc {
			val := v[0]
			var out []string
			for idx := 0; ; idx++ {
				if idx > forCap {
					return acc{skip: true}
				}
				se := sub(e, val, strconv.Itoa(idx))
				c := ref(n.A[1], se)
				if c.free || c.anyErr || len(c.vals) != 1 {
					return acc{free: true}
				}
				if !truthy(c.vals[0]) {
					break
				}
				out = append(out, val)
				nx := ref(n.A[2], se)
				if nx.free || nx.anyErr || len(nx.vals) != 1 {
					return acc{free: true}
				}
				val = nx.vals[0]
			}
			return one(encode(out))
		})
	}
	panic("harness: no reference for helper " + n.S)
}

// sliceVariants: "@slice return[s] the indexed element(s), a negative @slice
// start counting from the end". start before the beginning: either the start
// is clamped to 0 or the window [start,start+len) is clipped to the list.
// An explicit negative length is not described: to-the-end, empty, counting
// from the end and an error marker are all accepted.
func sliceVariants(l []string, s int, ln *int) acc {
	n := len(l)
	var out acc
	ends := func(b int) []int {
		if ln == nil {
			return []int{n}
		}
		if *ln < 0 {
			out.anyErr = true
			return []int{n, b, n + *ln}
		}
		return []int{b + *ln}
	}
	emit := func(b, e int) {
		if b < 0 {
			b = 0
		}
		if b > n {
			b = n
		}
		if e < b {
			e = b
		}
		if e > n {
			e = n
		}
		out.add(one(encode(l[b:e])))
	}
	b := s
	if s < 0 {
		b = n + s
	}
	if b >= 0 {
		for _, e := range ends(b) {
			emit(b, e)
		}
	} else {
		for _, e := range ends(0) {
			emit(0, e)
		}
		for _, e := range ends(b) {
			emit(0, e)
		}
	}
	return out
}

// rangeRef: "{@range [start=0] <stop> [incr=1]} Creates an array from
// start..stop, incrementing by incr" (the examples exclude stop).
func rangeRef(v []string) acc {
	start, stop, incr := 0, 0, 1
	var ok1, ok2, ok3 = true, true, true
	switch len(v) {
	case 1:
		stop, ok2 = atoi(v[0])
	case 2:
		start, ok1 = atoi(v[0])
		stop, ok2 = atoi(v[1])
	case 3:
		start, ok1 = atoi(v[0])
		stop, ok2 = atoi(v[1])
		incr, ok3 = atoi(v[2])
	}
	if !ok1 || !ok2 || !ok3 {
		return acc{anyErr: true}
	}
	if incr == 0 || (incr > 0 && start > stop) || (incr < 0 && start < stop) {
		return acc{vals: []string{""}, anyErr: true}
	}
	var out []string
	for i := start; (incr > 0 && i < stop) || (incr < 0 && i > stop); i += incr {
		out = append(out, strconv.Itoa(i))
	}
	return one(encode(out))
}
