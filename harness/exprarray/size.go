package main

// Family "size" (signatures end in /size-family): the other families run every
// program on lists of 0..3 elements; here fixed simple programs are run on
// lists whose SIZE is swept: n elements (element i is "e<i>", so that loss,
// duplication and reordering show), with empty elements at the start, in the
// middle, at the end and as a run of n trailing empty elements; delimiters of
// 1..5 bytes including self-overlapping ones next to elements that end in a
// prefix (or start with a suffix) of the delimiter; @select/@slice positions
// and lengths around -n and n; @range/@for producing n elements; @map/@filter/
// @reduce over n elements; the nested programs of family "nest" over n
// elements. n = 0..70 and 2^k-1, 2^k, 2^k+1 (k >= 7) up to the cap of the tier.
// The oracle is the list model of ref.go applied to the big input.

import (
	"strconv"
	"strings"
)

const (
	sizeCapQuick    = 4097
	sizeCapThorough = 65537
)

func sweepSizes(maxN int) []int {
	var out []int
	for n := 0; n <= 70 && n <= maxN; n++ {
		out = append(out, n)
	}
	for k := 7; 1<<k-1 <= maxN; k++ {
		for _, n := range []int{1<<k - 1, 1 << k, 1<<k + 1} {
			if n <= maxN {
				out = append(out, n)
			}
		}
	}
	return out
}

type sizeRef struct {
	Shape string `json:"shape"`
	N     int    `json:"n"`
}

type sizeShape struct {
	name       string
	build      func(n int) (*Node, ctx, bool) // ok=false: the shape does not exist for this n
	capQ, capT int                            // 0: the default caps
}

var sizeKeys = map[string]string{"k": "K", "e": "e1", "n": "2", "z": "0"}

func elem(i int) string { return "e" + strconv.Itoa(i) }

// list styles: what the n elements are
var listStyles = []string{"plain", "holes", "trailing-empties", "all-empty", "leading-empties"}

func styledList(style string, n int) []string {
	l := make([]string, 0, n+1)
	switch style {
	case "plain":
		for i := 0; i < n; i++ {
			l = append(l, elem(i))
		}
	case "holes": // empty elements at the start, in the middle and at the end
		for i := 0; i < n; i++ {
			if i == 0 || i == n/2 || i == n-1 {
				l = append(l, "")
			} else {
				l = append(l, elem(i))
			}
		}
	case "trailing-empties": // one element and n empty ones after it (n trailing delimiters)
		l = append(l, elem(0))
		for i := 0; i < n; i++ {
			l = append(l, "")
		}
	case "all-empty":
		for i := 0; i < n; i++ {
			l = append(l, "")
		}
	case "leading-empties":
		for i := 0; i < n; i++ {
			if i < n/2 {
				l = append(l, "")
			} else {
				l = append(l, elem(i))
			}
		}
	default:
		panic("list style " + style)
	}
	return l
}

// elements next to which a self-overlapping delimiter finds further matches
func overlapList(style, d string, n int) []string {
	l := make([]string, n)
	for i := range l {
		k := i % len(d)
		if style == "ends-in-delimiter-prefix" {
			l[i] = strconv.Itoa(i) + d[:k]
		} else { // starts-with-delimiter-suffix
			l[i] = d[len(d)-k:] + strconv.Itoa(i)
		}
	}
	return l
}

var sizeDelims = []string{",", "::", "aba", "abab", "ababa", "aa"}

func sizeCtx(l []string, d string) ctx {
	return ctx{G: []string{encode(l), strings.Join(l, d), "", "", ""}, K: sizeKeys}
}

// position/length arguments around -n and n, written into the shape name
// symbolically so that a shape is one program family over all n
type symInt struct {
	name string
	val  func(n int) int
}

var symPositions = []symInt{
	{"-n-1", func(n int) int { return -n - 1 }}, {"-n", func(n int) int { return -n }}, {"-n+1", func(n int) int { return -n + 1 }},
	{"-2", func(n int) int { return -2 }}, {"-1", func(n int) int { return -1 }}, {"0", func(n int) int { return 0 }},
	{"1", func(n int) int { return 1 }}, {"2", func(n int) int { return 2 }}, {"n/2", func(n int) int { return n / 2 }},
	{"n-2", func(n int) int { return n - 2 }}, {"n-1", func(n int) int { return n - 1 }}, {"n", func(n int) int { return n }},
	{"n+1", func(n int) int { return n + 1 }},
}

var symLengths = []symInt{
	{"0", func(n int) int { return 0 }}, {"1", func(n int) int { return 1 }}, {"2", func(n int) int { return 2 }},
	{"n/2", func(n int) int { return n / 2 }}, {"n-1", func(n int) int { return max(n-1, 0) }}, {"n", func(n int) int { return n }}, {"n+1", func(n int) int { return n + 1 }},
}

func sizeShapes() []sizeShape {
	var out []sizeShape
	add := func(name string, capQ, capT int, build func(n int) (*Node, ctx, bool)) {
		out = append(out, sizeShape{name: name, build: build, capQ: capQ, capT: capT})
	}

	// ---- @split/@join/@len/@select over n elements x delimiter length 1..5 ----
	splitProgs := []struct {
		name string
		mk   func(d string, n int) *Node
	}{
		{"split", func(d string, n int) *Node { return call("@split", grp(1), lit(d)) }},
		{"join-of-split", func(d string, n int) *Node { return call("@join", call("@split", grp(1), lit(d)), lit(d)) }},
		{"rejoin-of-split", func(d string, n int) *Node { return call("@join", call("@split", grp(1), lit(d)), lit("|")) }},
		{"len-of-split", func(d string, n int) *Node { return call("@len", call("@split", grp(1), lit(d))) }},
		{"last-of-split", func(d string, n int) *Node { return call("@select", call("@split", grp(1), lit(d)), num(-1)) }},
		{"nth-of-split", func(d string, n int) *Node { return call("@select", call("@split", grp(1), lit(d)), num(max(n-1, 0))) }},
		{"join", func(d string, n int) *Node { return call("@join", grp(0), lit(d)) }},
		{"split-of-join", func(d string, n int) *Node { return call("@split", call("@join", grp(0), lit(d)), lit(d)) }},
	}
	for _, d := range sizeDelims {
		styles := append([]string{}, listStyles...)
		if len(d) > 1 {
			styles = append(styles, "ends-in-delimiter-prefix", "starts-with-delimiter-suffix")
		}
		for _, st := range styles {
			for _, sp := range splitProgs {
				d, st, sp := d, st, sp
				add("delimiter/"+strconv.Quote(d)+"/"+st+"/"+sp.name, 0, 0, func(n int) (*Node, ctx, bool) {
					var l []string
					if strings.Contains(st, "delimiter") {
						l = overlapList(st, d, n)
					} else {
						l = styledList(st, n)
					}
					return sp.mk(d, n), sizeCtx(l, d), true
				})
			}
		}
	}

	// ---- @select / @slice with positions and lengths around -n and n ----
	for _, st := range []string{"plain", "holes", "trailing-empties"} {
		st := st
		for _, p := range symPositions {
			p := p
			add("select/"+st+"/index="+p.name, 0, 0, func(n int) (*Node, ctx, bool) {
				return call("@select", grp(0), num(p.val(n))), sizeCtx(styledList(st, n), " "), true
			})
			add("slice/"+st+"/start="+p.name, 0, 0, func(n int) (*Node, ctx, bool) {
				return call("@slice", grp(0), num(p.val(n))), sizeCtx(styledList(st, n), " "), true
			})
			for _, ln := range symLengths {
				ln := ln
				add("slice/"+st+"/start="+p.name+"/length="+ln.name, 0, 0, func(n int) (*Node, ctx, bool) {
					return call("@slice", grp(0), num(p.val(n)), num(ln.val(n))), sizeCtx(styledList(st, n), " "), true
				})
			}
		}
	}

	// ---- generators: @range and @for producing n elements ----
	noList := func() ctx { return ctx{G: []string{"", "", "", "", ""}, K: sizeKeys} }
	wrap := []struct {
		name string
		mk   func(in *Node) *Node
	}{
		{"", func(in *Node) *Node { return in }},
		{"/len", func(in *Node) *Node { return call("@len", in) }},
		{"/join", func(in *Node) *Node { return call("@join", in, lit(",")) }},
		{"/last", func(in *Node) *Node { return call("@select", in, num(-1)) }},
		{"/sum", func(in *Node) *Node { return call("@reduce", in, call("sumi", grp(0), grp(1))) }},
		{"/tail", func(in *Node) *Node { return call("@slice", in, num(-2)) }},
	}
	ranges := []struct {
		name string
		args func(n int) []int
	}{
		{"range(n)", func(n int) []int { return []int{n} }},
		{"range(0,n)", func(n int) []int { return []int{0, n} }},
		{"range(-n,n)", func(n int) []int { return []int{-n, n} }},
		{"range(5,5+n)", func(n int) []int { return []int{5, 5 + n} }},
		{"range(n,0,-1)", func(n int) []int { return []int{n, 0, -1} }},
		{"range(0,2n,2)", func(n int) []int { return []int{0, 2 * n, 2} }},
		{"range(0,7n,7)", func(n int) []int { return []int{0, 7 * n, 7} }},
		{"range(n,-n,-3)", func(n int) []int { return []int{n, -n, -3} }},
		{"range(0,n,n)", func(n int) []int { return []int{0, n, max(n, 1)} }},
		{"range(1,n,n+1)", func(n int) []int { return []int{1, n, n + 1} }},
	}
	for _, r := range ranges {
		for _, wr := range wrap {
			r, wr := r, wr
			add("generate/"+r.name+wr.name, 0, 0, func(n int) (*Node, ctx, bool) {
				var a []*Node
				for _, v := range r.args(n) {
					a = append(a, num(v))
				}
				return wr.mk(call("@range", a...)), noList(), true
			})
			add("generate/"+r.name+"-from-groups"+wr.name, 0, 0, func(n int) (*Node, ctx, bool) {
				var a []*Node
				g := []string{""}
				for i, v := range r.args(n) {
					a = append(a, grp(i+1))
					g = append(g, strconv.Itoa(v))
				}
				return wr.mk(call("@range", a...)), ctx{G: g, K: sizeKeys}, true
			})
		}
	}
	fors := []struct {
		name       string
		capQ, capT int
		mk         func(n int) *Node
	}{
		{"for(0;value<n;+1)", 0, 0, func(n int) *Node {
			return call("@for", num(0), call("lt", grp(0), num(n)), call("sumi", grp(0), num(1)))
		}},
		{"for(key;index<n;+3)", 0, 0, func(n int) *Node {
			return call("@for", key("z"), call("lt", grp(1), num(n)), call("sumi", grp(0), num(3)))
		}},
		{"for(empty;index<n;empty)", 0, 0, func(n int) *Node { return call("@for", lit(""), call("lt", grp(1), num(n)), lit("")) }},
		{"for(key;index<n;key)", 0, 0, func(n int) *Node { return call("@for", key("z"), call("lt", grp(1), num(n)), cat(key("k"), grp(1))) }},
		// the value grows by one byte per element: n*n/2 bytes
		{"for(x;index<n;append)", 257, 1025, func(n int) *Node { return call("@for", lit("x"), call("lt", grp(1), num(n)), cat(grp(0), lit("y"))) }},
	}
	for _, fr := range fors {
		for _, wr := range wrap {
			if wr.name == "/sum" {
				continue
			}
			fr, wr := fr, wr
			add("generate/"+fr.name+wr.name, fr.capQ, fr.capT, func(n int) (*Node, ctx, bool) {
				return wr.mk(fr.mk(n)), noList(), true
			})
		}
	}

	// ---- @map / @filter / @reduce over n elements ----
	type subProg struct {
		name       string
		capQ, capT int
		mk         func(n int) *Node
	}
	subs := []subProg{
		{"map/element+key", 0, 0, func(n int) *Node { return call("@map", grp(0), cat(grp(0), key("k"))) }},
		{"map/upper", 0, 0, func(n int) *Node { return call("@map", grp(0), call("upper", grp(0))) }},
		{"map/len", 0, 0, func(n int) *Node { return call("@map", grp(0), call("len", grp(0))) }},
		{"map/empty-to-dash", 0, 0, func(n int) *Node { return call("@map", grp(0), call("if", grp(0), grp(0), lit("-"))) }},
		{"map/constant-empty", 0, 0, func(n int) *Node { return call("@map", grp(0), lit("")) }},
		{"map/constant-empty/len", 0, 0, func(n int) *Node { return call("@len", call("@map", grp(0), lit(""))) }},
		{"filter/non-empty", 0, 0, func(n int) *Node { return call("@filter", grp(0), grp(0)) }},
		{"filter/empty", 0, 0, func(n int) *Node { return call("@filter", grp(0), call("not", grp(0))) }},
		{"filter/empty/len", 0, 0, func(n int) *Node { return call("@len", call("@filter", grp(0), call("not", grp(0)))) }},
		{"filter/all", 0, 0, func(n int) *Node { return call("@filter", grp(0), lit("1")) }},
		{"filter/none", 0, 0, func(n int) *Node { return call("@filter", grp(0), lit("")) }},
		{"filter/equals-middle", 0, 0, func(n int) *Node { return call("@filter", grp(0), call("eq", grp(0), lit(elem(n/2)))) }},
		{"filter/in-first-middle-last", 0, 0, func(n int) *Node {
			return call("@filter", grp(0), call("@in", grp(0), call("@", lit(elem(0)), lit(elem(n/2)), lit(elem(max(n-1, 0))))))
		}},
		{"filter/short", 0, 0, func(n int) *Node { return call("@filter", grp(0), call("lt", call("len", grp(0)), num(3))) }},
		{"reduce/last", 0, 0, func(n int) *Node { return call("@reduce", grp(0), grp(1)) }},
		{"reduce/first", 0, 0, func(n int) *Node { return call("@reduce", grp(0), grp(0)) }},
		{"reduce/sum-of-lengths", 0, 0, func(n int) *Node { return call("@reduce", grp(0), call("sumi", grp(0), call("len", grp(1))), lit("0")) }},
		{"reduce/count", 0, 0, func(n int) *Node { return call("@reduce", grp(0), call("sumi", grp(0), num(1)), lit("0")) }},
		// the memo grows with every element: n*n*k bytes are copied
		{"reduce/concatenate", 1025, 4097, func(n int) *Node { return call("@reduce", grp(0), cat(grp(0), lit("-"), grp(1))) }},
		{"reduce/concatenate-with-initial", 1025, 4097, func(n int) *Node { return call("@reduce", grp(0), cat(grp(0), grp(1), key("k")), lit("I")) }},
	}
	for _, st := range []string{"plain", "holes", "trailing-empties", "all-empty"} {
		for _, sp := range subs {
			st, sp := st, sp
			add("each/"+st+"/"+sp.name, sp.capQ, sp.capT, func(n int) (*Node, ctx, bool) {
				return sp.mk(n), sizeCtx(styledList(st, n), " "), true
			})
		}
	}

	// ---- the nested programs over n structured elements, and with the n at the innermost level ----
	for i, p := range nestPrograms() {
		i, p := i, p
		if p.S == "@for" {
			continue // no list
		}
		// the two @reduce programs that carry the whole memo along copy n*n bytes
		capQ, capT := 0, 4097
		if p.S == "@reduce" {
			capQ, capT = 513, 1025
		}
		add("nested/program-"+strconv.Itoa(i)+"/n-elements", capQ, capT, func(n int) (*Node, ctx, bool) {
			l := make([]string, n)
			for j := range l {
				s := strconv.Itoa(j)
				l[j] = "p" + s + ",q" + s + ";r" + s + " s" + s + ";t" + s + ",u" + s
				if j%5 == 3 {
					l[j] = ""
				}
			}
			return p, sizeCtx(l, " "), true
		})
		add("nested/program-"+strconv.Itoa(i)+"/n-innermost-parts", capQ, capT, func(n int) (*Node, ctx, bool) {
			parts := make([]string, n)
			for j := range parts {
				parts[j] = "w" + strconv.Itoa(j)
			}
			words := strings.Join(parts, " ")
			semis := strings.Join(parts, ";")
			return p, sizeCtx([]string{"a b", words, "x," + semis + ",y z", ""}, " "), true
		})
	}
	return out
}

func sizeCap(sh *sizeShape, quick bool) int {
	if quick {
		if sh.capQ > 0 {
			return sh.capQ
		}
		return sizeCapQuick
	}
	if sh.capT > 0 {
		return sh.capT
	}
	return sizeCapThorough
}

// sizeProgram: the program is built only when a shard owns it (materialize).
func sizeProgram(sh *sizeShape, n int) (*program, bool) {
	return &program{family: "size", size: &sizeRef{sh.name, n}, forCap: n + 2, build: func() (*Node, []ctx) {
		node, x, ok := sh.build(n)
		if !ok {
			return nil, nil
		}
		return node, []ctx{x}
	}}, true
}

func enumerateSize(quick bool, f func(p *program) bool) bool {
	shapes := sizeShapes()
	for i := range shapes {
		sh := &shapes[i]
		for _, n := range sweepSizes(sizeCap(sh, quick)) {
			p, ok := sizeProgram(sh, n)
			if !ok {
				continue
			}
			if !f(p) {
				return false
			}
		}
	}
	return true
}

func sizeProgramByRef(r *sizeRef) *program {
	shapes := sizeShapes()
	for i := range shapes {
		if shapes[i].name == r.Shape {
			p, _ := sizeProgram(&shapes[i], r.N)
			if !p.materialize() {
				panic("size shape " + r.Shape + " does not exist for n=" + strconv.Itoa(r.N))
			}
			return p
		}
	}
	panic("unknown size shape " + r.Shape)
}
