package main

// Family "history": the result of an expression is a function of the match it
// is evaluated on. The other families put the package-level sub-context pool
// into the state of a fresh process before every evaluation (prime), so state
// that survives between evaluations - in a pooled sub-context, in a compiled
// stage - is never seen there. Here, per program P:
//
//   - the pool is primed ONCE, P is compiled ONCE, and that one compiled
//     expression is evaluated over all its matches forward and then backward
//     without priming in between;
//   - then, for each of the disturber programs D (other compiled expressions
//     that take 1..4 nested sub-contexts from the same pool, bind {1}, and
//     resolve named keys), D and P are evaluated alternately: D on one of its
//     own matches, P on its next match, and so on.
//
// Every result (of P and of D) must equal what a fresh compilation evaluated
// on a primed pool returns for that match alone. The named keys differ from
// match to match (and between P's and D's matches), so that a sub-context that
// still points at an earlier match shows. The fresh results of P are also
// judged by the list model.

import (
	"encoding/json"
	"fmt"
	"strconv"
	"strings"

	"rare/pkg/expressions"
	"rare/pkg/expressions/stdlib"
	"verif/runner"
)

// histStep is one evaluation of a replayable history.
type histStep struct {
	Node *Node `json:"node"`
	Ctx  ctx   `json:"match"`
}

func historyKeys(j int) map[string]string {
	return map[string]string{"k": "K" + strconv.Itoa(j%5), "e": elemAlphabet[j%len(elemAlphabet)], "n": strconv.Itoa(j % 4), "z": strconv.Itoa(j % 3)}
}

func disturbers() []*Node {
	return []*Node{
		call("@map", grp(0), cat(grp(0), key("k"))),
		deepMap(4, cat(grp(0), key("k")), func(int) []*Node { return []*Node{lit("|"), grp(0), key("k")} }),
		call("@reduce", grp(0), cat(grp(0), grp(1), key("k"))),
		call("@filter", grp(0), call("eq", grp(0), key("e"))),
		call("@for", key("e"), call("lt", grp(1), num(2)), cat(grp(0), key("k"))),
		call("@map", grp(0), cat(call("@reduce", call("@split", grp(0), lit(" ")), cat(grp(1), grp(0))), lit(":"), grp(0), key("k"))),
	}
}

func disturberMatches() []ctx {
	var out []ctx
	for j, l := range [][]string{{"q", "r r"}, {"b b", "", "q"}, {"x;y,z w", "a"}, {}, {"a", "a", "b b"}} {
		x := listCtx(l, " ")
		x.K = map[string]string{"k": "Q" + strconv.Itoa(j), "e": "b b", "n": "3", "z": "1"}
		out = append(out, x)
	}
	return out
}

// evalRaw evaluates without touching the pool first.
func (c *compiled) evalRaw(x ctx) (res string) {
	if c.cpan != "" {
		return "panic: at compile time: " + panicClass(c.cpan)
	}
	defer func() {
		if r := recover(); r != nil {
			res = "panic: " + panicClass(fmt.Sprint(r))
		}
	}()
	return c.ckb.BuildKey(&expressions.KeyBuilderContextArray{Elements: x.G, Keys: x.K})
}

// compileRaw compiles without touching the pool first.
func compileRaw(tmpl string) *compiled {
	c := &compiled{}
	func() {
		defer func() {
			if r := recover(); r != nil {
				c.cpan = fmt.Sprint(r)
			}
		}()
		ckb, err := stdlib.NewStdKeyBuilder().Compile(tmpl)
		c.ckb = ckb
		if err != nil {
			c.cerr = err.Error()
		}
	}()
	return c
}

// freshResult: compiled just now, pool in the state of a fresh process.
func freshResult(n *Node, x ctx) string {
	c := compileTemplate(n.String())
	got, pan := c.eval(x)
	if pan != "" {
		return "panic: " + panicClass(strings.TrimPrefix(pan, "at compile time: "))
	}
	return got
}

type histRun struct {
	nodes []*Node // nodes[0] is P, the others the disturbers
	steps []struct {
		prog int
		x    ctx
	}
}

// execute runs steps[from:to] on newly compiled programs and a primed pool and
// returns the result of the last step.
func (h *histRun) execute(from, to int) string {
	prime()
	cs := make([]*compiled, len(h.nodes))
	var res string
	for _, s := range h.steps[from:to] {
		if cs[s.prog] == nil {
			cs[s.prog] = compileRaw(h.nodes[s.prog].String())
		}
		res = cs[s.prog].evalRaw(s.x)
	}
	return res
}

func helperName(n *Node) string {
	if n.K != "call" {
		return "template"
	}
	if n.S == "@" || n.S == "$" {
		return "concat"
	}
	return strings.TrimPrefix(n.S, "@")
}

// runHistory runs the history unit of one program; cs are its matches.
func runHistory(w *runner.W, p *program, dist []*Node, distM []ctx, distFresh [][]string) {
	var ms []ctx
	for j, x := range p.ctxs {
		ms = append(ms, ctx{G: x.G, K: historyKeys(j)})
	}
	for j := 1; len(p.ctxs) == 1 && j < 4; j++ { // a program without a list: the same groups under other keys
		ms = append(ms, ctx{G: p.ctxs[0].G, K: historyKeys(j)})
	}
	// fresh results of P; judged by the model as well
	fresh := make([]string, len(ms))
	for j, x := range ms {
		want := ref(p.node, env{g: x.G, keys: x.K})
		if want.skip {
			return // a @for the model does not follow: the program is not executed
		}
		fresh[j] = freshResult(p.node, x)
		if !strings.HasPrefix(fresh[j], "panic: ") && !want.accepts(fresh[j]) {
			r := check(p.node, nil, x)
			if !r.ok {
				report(w, p, x, r)
				return
			}
		}
	}
	h := &histRun{nodes: append([]*Node{p.node}, dist...)}
	add := func(prog int, x ctx) {
		h.steps = append(h.steps, struct {
			prog int
			x    ctx
		}{prog, x})
	}
	for _, x := range ms {
		add(0, x)
	}
	for j := len(ms) - 1; j >= 0; j-- {
		add(0, ms[j])
	}
	wantOf := make([]string, 0, len(h.steps))
	for j := range ms {
		wantOf = append(wantOf, fresh[j])
	}
	for j := len(ms) - 1; j >= 0; j-- {
		wantOf = append(wantOf, fresh[j])
	}
	for d := range dist {
		for j, x := range ms {
			dj := (j + d) % len(distM)
			add(1+d, distM[dj])
			wantOf = append(wantOf, distFresh[d][dj])
			add(0, x)
			wantOf = append(wantOf, fresh[j])
		}
	}
	// the long-lived run
	prime()
	cs := make([]*compiled, len(h.nodes))
	for t, s := range h.steps {
		if cs[s.prog] == nil {
			cs[s.prog] = compileRaw(h.nodes[s.prog].String())
		}
		got := cs[s.prog].evalRaw(s.x)
		w.Eval(!strings.HasPrefix(wantOf[t], "panic: ") && !isErrorMarker(wantOf[t]))
		w.Add("history_evaluations", 1)
		if got == wantOf[t] {
			continue
		}
		// shortest suffix of the history that reproduces it from scratch, as the
		// stored case will be replayed (through its JSON form)
		var hist []histStep
		reproduced := false
		for L := 1; ; L *= 2 {
			from := max(0, t-L)
			if res := h.execute(from, t+1); res != wantOf[t] {
				hist = hist[:0]
				for _, s := range h.steps[from : t+1] {
					hist = append(hist, histStep{h.nodes[s.prog], s.x})
				}
				if r2, ok := replayOutcome(hist); ok && r2 != wantOf[t] {
					reproduced, got = true, r2
					break
				}
			}
			if from == 0 {
				break
			}
		}
		if !reproduced {
			hist = hist[:0]
			for _, s := range h.steps[max(0, t-8) : t+1] {
				hist = append(hist, histStep{h.nodes[s.prog], s.x})
			}
		}
		var sb strings.Builder
		if reproduced {
			sb.WriteString("compiled once each and evaluated in this order without anything in between (pool of a fresh process at the start):\n")
		} else {
			fmt.Fprintf(&sb, "after %d earlier evaluations (not reproduced from a suffix of them); the last ones:\n", t)
		}
		show := hist
		if len(show) > 8 {
			fmt.Fprintf(&sb, "(%d evaluations, the last 8 shown)\n", len(hist))
			show = show[len(show)-8:]
		}
		for _, s := range show {
			fmt.Fprintf(&sb, "  %s on groups %s keys k=%q e=%q n=%q\n", s.Node.String(), quoteAll(s.Ctx.G), s.Ctx.K["k"], s.Ctx.K["e"], s.Ctx.K["n"])
		}
		fmt.Fprintf(&sb, "the last evaluation returned %q\nthe same expression compiled fresh returns %q for that match", got, wantOf[t])
		last := h.nodes[s.prog]
		w.Violation("C17/"+helperName(last)+"/value-depends-on-earlier-evaluations", sb.String(),
			Case{Family: "history", Template: last.String(), Node: last, Ctx: s.x, History: hist})
		return
	}
}

// replayOutcome runs a stored history exactly as a replay will: from its JSON form.
func replayOutcome(hist []histStep) (string, bool) {
	b, err := json.Marshal(hist)
	if err != nil {
		return "", false
	}
	var back []histStep
	if err := json.Unmarshal(b, &back); err != nil {
		return "", false
	}
	return runSteps(back), true
}

func runSteps(hist []histStep) string {
	prime()
	cs := map[string]*compiled{}
	var got string
	for _, s := range hist {
		t := s.Node.String()
		if cs[t] == nil {
			cs[t] = compileRaw(t)
		}
		got = cs[t].evalRaw(s.Ctx)
	}
	return got
}

func replayHistory(w *runner.W, c Case) {
	if len(c.History) == 0 {
		return
	}
	got := runSteps(c.History)
	last := c.History[len(c.History)-1]
	want := freshResult(last.Node, last.Ctx)
	if got != want {
		w.Violation("C17/"+helperName(last.Node)+"/value-depends-on-earlier-evaluations",
			fmt.Sprintf("%d evaluations in order, each expression compiled once; the last one, %s on groups %s, returned %q\nthe same expression compiled fresh returns %q for that match",
				len(c.History), last.Node.String(), quoteAll(last.Ctx.G), got, want), c)
	}
}

// historyFamily: every program of the families other than chain2, split and
// size gets one history unit; sharding continues the program counter.
func historyFamily(w *runner.W, programNo *int64) bool {
	dist := disturbers()
	distM := disturberMatches()
	var distFresh [][]string
	ok := true
	enumerate(w.Quick(), func(p *program) bool {
		switch p.family {
		case "chain2", "split", "size", "arglist", "delim":
			return true
		}
		*programNo++
		if !w.Owns(*programNo) {
			return true
		}
		if w.Expired() {
			ok = false
			return false
		}
		if probeSkips(p.node) {
			return true
		}
		if distFresh == nil {
			for _, d := range dist {
				var fr []string
				for _, x := range distM {
					fr = append(fr, freshResult(d, x))
				}
				distFresh = append(distFresh, fr)
			}
		}
		hp := *p
		hp.family = "history"
		cur := Case{Family: "history", Template: p.node.String(), Node: p.node}
		w.SetCase(func() any { return cur })
		w.Add("history_programs", 1)
		runHistory(w, &hp, dist, distM, distFresh)
		return true
	})
	return ok
}
