package main

import (
	"encoding/json"
	"strconv"
	"strings"
	"unicode/utf8"
)

// ---- alphabets (DESIGN §4 C17) ----------------------------------------------

// The last three elements are not valid UTF-8 (a lone 0xE9, the first byte of
// a two-byte rune, 0xFF): match groups are bytes from a log line, and every
// helper has to hand them on byte for byte.
var elemAlphabet = []string{"", "a", "b b", "é", "\xe9", "\xc3", "\xff"}
var delims = []string{",", "::", " ", "é", "ab"}

// lists of 0..maxLen elements over elemAlphabet, shortest first
func allLists(maxLen int) [][]string {
	out := [][]string{{}}
	prev := [][]string{{}}
	for l := 1; l <= maxLen; l++ {
		var cur [][]string
		for _, p := range prev {
			for _, e := range elemAlphabet {
				cur = append(cur, append(append([]string{}, p...), e))
			}
		}
		out = append(out, cur...)
		prev = cur
	}
	return out
}

// the enclosing match: named keys every program may use
var caseKeys = map[string]string{"k": "K", "e": "a", "n": "2"}

// ---- sub-expressions ("8 scalar helpers incl. named keys") ---------------------

func mapFns() []*Node {
	return []*Node{
		grp(0),
		call("upper", grp(0)),
		cat(grp(0), key("k")),
		call("len", grp(0)),
		call("sumi", grp(0), num(1)),
		call("if", call("eq", grp(0), lit("a")), lit("X"), grp(0)),
		call("coalesce", grp(0), key("k"), lit("z")),
		grp(-1),
		call("@join", call("@split", grp(0), lit(" ")), lit("+")),
		call("@map", call("@split", grp(0), lit(" ")), cat(grp(0), key("k"))),
		call("@len", call("@split", grp(0), lit(" "))),
	}
}

func filterFns() []*Node {
	return []*Node{
		grp(0),
		call("not", grp(0)),
		call("eq", grp(0), lit("a")),
		call("eq", grp(0), key("e")),
		call("lt", call("len", grp(0)), num(2)),
		lit("1"),
		lit(""),
		call("@in", grp(0), call("@", lit("a"), lit("é"))),
		grp(-1),
	}
}

func reduceFns() []*Node {
	return []*Node{
		cat(grp(0), grp(1)),
		cat(grp(0), lit("-"), grp(1)),
		call("sumi", grp(0), grp(1)),
		grp(1),
		grp(0),
		cat(grp(0), grp(1), key("k")),
		cat(grp(0), grp(-1), grp(1)),
	}
}

var reduceInits = []*Node{nil, lit(""), lit("I"), lit("0")}

// ---- unary operations over an inner expression --------------------------------

type op struct {
	name  string
	build func(inner *Node) *Node
}

func indexRange(quick bool) []int {
	lo, hi := -5, 5
	if quick {
		lo, hi = -3, 3
	}
	var out []int
	for i := lo; i <= hi; i++ {
		out = append(out, i)
	}
	return out
}

func allOps(quick bool) []op {
	var ops []op
	add := func(name string, b func(inner *Node) *Node) { ops = append(ops, op{name, b}) }
	add("@len", func(in *Node) *Node { return call("@len", in) })
	add("@join", func(in *Node) *Node { return call("@join", in) })
	for _, d := range append([]string{""}, delims...) {
		d := d
		add("@join", func(in *Node) *Node { return call("@join", in, lit(d)) })
	}
	add("@split", func(in *Node) *Node { return call("@split", in) })
	for _, d := range delims {
		d := d
		add("@split", func(in *Node) *Node { return call("@split", in, lit(d)) })
	}
	for _, f := range mapFns() {
		f := f
		add("@map", func(in *Node) *Node { return call("@map", in, f) })
	}
	for _, f := range filterFns() {
		f := f
		add("@filter", func(in *Node) *Node { return call("@filter", in, f) })
	}
	for _, f := range reduceFns() {
		for _, i := range reduceInits {
			f, i := f, i
			add("@reduce", func(in *Node) *Node {
				if i == nil {
					return call("@reduce", in, f)
				}
				return call("@reduce", in, f, i)
			})
		}
	}
	idx := indexRange(quick)
	for _, i := range idx {
		i := i
		add("@select", func(in *Node) *Node { return call("@select", in, num(i)) })
	}
	for _, s := range idx {
		s := s
		add("@slice", func(in *Node) *Node { return call("@slice", in, num(s)) })
		for _, l := range idx {
			l := l
			add("@slice", func(in *Node) *Node { return call("@slice", in, num(s), num(l)) })
		}
	}
	return ops
}

// ---- sources -----------------------------------------------------------------------

// A source produces the list the operations work on. Groups of the match:
// {0} the list itself (NUL separated), {1} the list joined by the source's
// delimiter, {2}{3}{4} its first three elements.
type source struct {
	node     *Node
	usesList bool
	delim    string // how {1} is joined
}

func sources() []source {
	out := []source{{node: grp(0), usesList: true, delim: " "}}
	out = append(out, source{node: call("@split", grp(1)), usesList: true, delim: " "})
	for _, d := range delims {
		out = append(out, source{node: call("@split", grp(1), lit(d)), usesList: true, delim: d})
	}
	out = append(out,
		source{node: call("@", grp(2), grp(3), grp(4)), usesList: true, delim: " "},
		source{node: call("$", grp(2), grp(3)), usesList: true, delim: " "},
		source{node: call("@", grp(2)), usesList: true, delim: " "},
		source{node: call("@", grp(0), grp(2)), usesList: true, delim: " "},
		source{node: call("$", grp(0), grp(0)), usesList: true, delim: " "},
		source{node: call("@", lit("a"), lit("b b"), lit("é"))},
		source{node: call("@range", num(3))},
		source{node: call("@range", num(1), num(4))},
		source{node: call("@range", num(5), num(0), num(-2))},
		source{node: call("@range", key("n"))},
		source{node: call("@for", num(0), call("lt", grp(0), num(3)), call("sumi", grp(0), num(1)))},
		source{node: call("@for", lit("a"), call("lt", grp(1), num(2)), cat(grp(0), lit("x")))},
	)
	return out
}

type ctx struct {
	G []string
	K map[string]string
}

// Groups may hold bytes that are not UTF-8, which encoding/json would replace;
// they are stored as Go string literals.
type ctxJSON struct {
	G  []string          `json:"groups_go_quoted"`
	K  map[string]string `json:"keys,omitempty"`
	KQ map[string]string `json:"keys_go_quoted,omitempty"` // instead of keys when a value is not UTF-8
}

func (c ctx) MarshalJSON() ([]byte, error) {
	j := ctxJSON{K: c.K}
	for _, v := range c.K {
		if !utf8.ValidString(v) {
			j.K, j.KQ = nil, map[string]string{}
			for k, v := range c.K {
				j.KQ[k] = strconv.Quote(v)
			}
			break
		}
	}
	for _, g := range c.G {
		j.G = append(j.G, strconv.Quote(g))
	}
	return json.Marshal(j)
}

func (c *ctx) UnmarshalJSON(b []byte) error {
	var j ctxJSON
	if err := json.Unmarshal(b, &j); err != nil {
		return err
	}
	c.K = j.K
	if j.KQ != nil {
		c.K = map[string]string{}
		for k, v := range j.KQ {
			u, err := strconv.Unquote(v)
			if err != nil {
				return err
			}
			c.K[k] = u
		}
	}
	c.G = nil
	for _, g := range j.G {
		u, err := strconv.Unquote(g)
		if err != nil {
			return err
		}
		c.G = append(c.G, u)
	}
	return nil
}

func listCtx(l []string, delim string) ctx {
	g := []string{encode(l), strings.Join(l, delim), "", "", ""}
	for i := 0; i < 3 && i < len(l); i++ {
		g[2+i] = l[i]
	}
	return ctx{G: g, K: caseKeys}
}

// ---- the enumeration ---------------------------------------------------------------

type program struct {
	family string
	node   *Node
	ctxs   []ctx
	size   *sizeRef              // family "size": how to regenerate the program
	forCap int                   // > 0: how far the model follows a @for in this program
	build  func() (*Node, []ctx) // families "size", "arglist", "delim": node and match are built when a shard owns the program
	// families "arglist" and "delim" (arglist.go): the helper call under the
	// consumer, and the twin - the same program with every constant argument
	// replaced by a group; twinCtxs[i] is the twin's match for ctxs[i]
	inner, twin, twinInner *Node
	twinCtxs               []ctx
}

// materialize builds a lazily described program; false: it does not exist.
func (p *program) materialize() bool {
	if p.build != nil {
		p.node, p.ctxs = p.build()
		p.build = nil
	}
	return p.node != nil
}

// enumerate calls f for every program of the tier, in a fixed order.
func enumerate(quick bool, f func(p *program) bool) {
	maxLen := 3
	if quick {
		maxLen = 2
	}
	lists := allLists(maxLen)
	ops := allOps(quick)
	noList := []ctx{{G: []string{"", "", "", "", ""}, K: caseKeys}}
	ctxCache := map[string][]ctx{}
	ctxsOf := func(s source) []ctx {
		if !s.usesList {
			return noList
		}
		if c, ok := ctxCache[s.delim]; ok {
			return c
		}
		var c []ctx
		for _, l := range lists {
			c = append(c, listCtx(l, s.delim))
		}
		ctxCache[s.delim] = c
		return c
	}

	// family "chain": source, op(source); op(op(source)) comes last so that
	// the first witness of a defect is a small program
	for _, s := range sources() {
		cs := ctxsOf(s)
		if !f(&program{family: "chain0", node: s.node, ctxs: cs}) {
			return
		}
		for _, o1 := range ops {
			if !f(&program{family: "chain1", node: o1.build(s.node), ctxs: cs}) {
				return
			}
		}
	}

	// family "split": strings with adjacent and overlapping delimiters
	strLen := 5
	if quick {
		strLen = 4
	}
	var strs []ctx
	alpha := []string{"a", ":", ",", "é", "\xe9", "\xc3", "\xff"}
	var gen func(pre string, n int)
	gen = func(pre string, n int) {
		strs = append(strs, ctx{G: []string{"", pre}, K: caseKeys})
		if n == 0 {
			return
		}
		for _, a := range alpha {
			gen(pre+a, n-1)
		}
	}
	gen("", strLen)
	for _, d := range []string{",", "::", "é", "aa", "a:", ":,:"} {
		sp := call("@split", grp(1), lit(d))
		for _, n := range []*Node{sp, call("@join", sp, lit(d)), call("@len", sp), call("@select", sp, num(1)), call("@slice", sp, num(-2), num(1))} {
			if !f(&program{family: "split", node: n, ctxs: strs}) {
				return
			}
		}
	}

	// family "range": constant and dynamic arguments
	rv := []string{}
	for _, i := range indexRange(quick) {
		rv = append(rv, num(i).S)
	}
	rv = append(rv, "x", "")
	var rctx [3][]ctx
	for _, a := range rv {
		rctx[0] = append(rctx[0], ctx{G: []string{"", a}, K: caseKeys})
		if isIntText(a) {
			if !f(&program{family: "range", node: call("@range", lit(a)), ctxs: noList}) {
				return
			}
		}
		for _, b := range rv {
			rctx[1] = append(rctx[1], ctx{G: []string{"", a, b}, K: caseKeys})
			if isIntText(a) && isIntText(b) {
				if !f(&program{family: "range", node: call("@range", lit(a), lit(b)), ctxs: noList}) {
					return
				}
			}
			for _, c := range rv {
				rctx[2] = append(rctx[2], ctx{G: []string{"", a, b, c}, K: caseKeys})
				if isIntText(a) && isIntText(b) && isIntText(c) {
					n := call("@range", lit(a), lit(b), lit(c))
					if !f(&program{family: "range", node: n, ctxs: noList}) {
						return
					}
					if !f(&program{family: "range", node: call("@len", n), ctxs: noList}) {
						return
					}
				}
			}
		}
	}
	for i, n := range []*Node{call("@range", grp(1)), call("@range", grp(1), grp(2)), call("@range", grp(1), grp(2), grp(3))} {
		if !f(&program{family: "range", node: n, ctxs: rctx[i]}) {
			return
		}
		if !f(&program{family: "range", node: call("@join", n, lit(",")), ctxs: rctx[i]}) {
			return
		}
	}

	// family "for"
	starts := []*Node{num(0), num(1), lit(""), lit("a")}
	conds := []*Node{
		call("lt", grp(1), num(0)), call("lt", grp(1), num(1)), call("lt", grp(1), num(2)), call("lt", grp(1), num(3)),
		call("lt", grp(0), num(5)),
		call("lt", grp(1), key("n")), call("lt", grp(0), key("n")),
		call("lt", grp(1), call("coalesce", key("n"), num(0))), // ends on the empty match of the compile-time probe
		call("lt", grp(1), cat(grp(-1), lit("2"))),
	}
	incrs := []*Node{
		call("sumi", grp(0), num(1)), call("sumi", grp(0), grp(0)), call("sumi", grp(0), grp(1)),
		cat(grp(0), lit("x")), key("k"), cat(grp(0), key("k")), lit(""),
	}
	for _, s := range starts {
		for _, c := range conds {
			for _, i := range incrs {
				n := call("@for", s, c, i)
				for _, r := range []*Node{n, call("@len", n), call("@join", n, lit(","))} {
					if !f(&program{family: "for", node: r, ctxs: noList}) {
						return
					}
				}
			}
		}
	}

	// family "in": "@in tests membership"; the array must be constant
	arrs := []*Node{
		call("@", lit("a"), lit("b b"), lit("é")),
		call("@", lit("a")),
		lit(""),
		call("@", lit(""), lit("a")),
		call("@split", lit("a,b"), lit(",")),
		call("@split", lit("a::b"), lit("::")),
		call("@split", lit("b b")),
		call("@range", num(3)),
		call("@slice", call("@", lit("a"), lit("b"), lit("c")), num(1)),
		call("@slice", call("@", lit("a"), lit("b"), lit("c")), num(-5)),
		call("@map", call("@", lit("a"), lit("b")), call("upper", grp(0))),
		call("@filter", call("@", lit("a"), lit(""), lit("b")), grp(0)),
	}
	var ictx []ctx
	for _, v := range []string{"", "a", "b", "b b", "é", ":b", "1", "A", "K", "c"} {
		ictx = append(ictx, ctx{G: []string{"", "", v}, K: caseKeys})
	}
	for _, a := range arrs {
		in := call("@in", grp(2), a)
		for _, n := range []*Node{in, call("@in", key("e"), a), call("@in", lit("b"), a), call("if", in, lit("yes"), lit("no"))} {
			if !f(&program{family: "in", node: n, ctxs: ictx}) {
				return
			}
		}
	}
	for _, s := range sources() {
		if !s.usesList {
			continue
		}
		for _, a := range arrs[:4] {
			n := call("@filter", s.node, call("@in", grp(0), a))
			if !f(&program{family: "in", node: n, ctxs: ctxsOf(s)}) {
				return
			}
		}
	}

	// families "nest" (helpers nested inside sub-expressions) and "size"
	// (sweeps of the list size), see nest.go and size.go
	if !enumerateNest(quick, f) {
		return
	}
	if !enumerateSize(quick, f) {
		return
	}
	// families "arglist" and "delim": constant versus dynamic arguments, see arglist.go
	if !enumerateArglist(quick, f) {
		return
	}
	if !enumerateDelim(quick, f) {
		return
	}

	// family "chain", two stacked operations
	for _, s := range sources() {
		cs := ctxsOf(s)
		for _, o1 := range ops {
			n1 := o1.build(s.node)
			for _, o2 := range ops {
				if !f(&program{family: "chain2", node: o2.build(n1), ctxs: cs}) {
					return
				}
			}
		}
	}
}
