// Harness exprarray decides the sequential part of C17: the array helpers
// @split @join @len @map @filter @reduce @select @slice @in @range @for {$ ..}
// {@ ..} obey list semantics. Every program of a small grammar (sources x up
// to two stacked operations, sub-expressions drawn from 8 scalar helpers with
// named keys and nested array helpers) is compiled by the real KeyBuilder and
// evaluated through BuildKey on every list of 0..3 elements over
// {"", a, "b b", é, \xe9, \xc3, \xff}; the result must be a member of the set the reference list
// model (ref.go) allows. The concurrent-evaluator part of C17 is decided
// elsewhere.
package main

import (
	"encoding/json"
	"fmt"
	"strconv"
	"strings"
	"time"

	"rare/pkg/expressions"
	"rare/pkg/expressions/stdlib"
	"verif/runner"
)

// ---- running the real code ------------------------------------------------------

// The sub-context pool of funcsRange.go is package-level state: a pooled
// sub-context keeps the parent of its previous use. So that a case cannot
// influence the next one, the pool is put into the state of a fresh process
// (every pooled object without a parent) before each compile and each
// evaluation: five nested @map calls evaluated with a nil context reset all
// five pooled objects.
var primer *expressions.CompiledKeyBuilder

func prime() {
	if primer == nil {
		kb, err := stdlib.NewStdKeyBuilderEx(false).Compile("{@map x {@map x {@map x {@map x {@map x {@map x {0}}}}}}}")
		if err != nil {
			panic("harness: primer does not compile: " + err.Error())
		}
		primer = kb
	}
	if got := primer.BuildKey(nil); got != "x" {
		panic("harness: primer returned " + strconv.Quote(got))
	}
}

type compiled struct {
	ckb  *expressions.CompiledKeyBuilder
	cerr string
	cpan string
}

func compileTemplate(tmpl string) *compiled {
	c := &compiled{}
	prime()
	func() {
		defer func() {
			if r := recover(); r != nil {
				c.cpan = fmt.Sprint(r)
			}
		}()
		ckb, err := stdlib.NewStdKeyBuilder().Compile(tmpl)
		c.ckb = ckb
		if err != nil {
			c.cerr = err.Error()
		}
	}()
	return c
}

// compileCached is used when a failure is localised: the sub-programs of the
// failing programs repeat. (Compiled programs hold no state of their own; the
// pool they share is reset before every evaluation.)
var compileCache = map[string]*compiled{}

func compileCached(tmpl string) *compiled {
	if c, ok := compileCache[tmpl]; ok {
		return c
	}
	if len(compileCache) > 20000 {
		compileCache = map[string]*compiled{}
	}
	c := compileTemplate(tmpl)
	compileCache[tmpl] = c
	return c
}

func (c *compiled) eval(x ctx) (out string, pan string) {
	if c.cpan != "" {
		return "", "at compile time: " + c.cpan
	}
	prime()
	defer func() {
		if r := recover(); r != nil {
			pan = fmt.Sprint(r)
		}
	}()
	return c.ckb.BuildKey(&expressions.KeyBuilderContextArray{Elements: x.G, Keys: x.K}), ""
}

func panicClass(msg string) string {
	switch {
	case strings.Contains(msg, "index out of range"):
		return "index-out-of-range"
	case strings.Contains(msg, "nil pointer"):
		return "nil-pointer-dereference"
	case strings.Contains(msg, "slice bounds"):
		return "slice-bounds-out-of-range"
	case strings.Contains(msg, "divide by zero"):
		return "integer-divide-by-zero"
	}
	return "other"
}

// ---- checking one case -------------------------------------------------------------

type result struct {
	ok   bool
	skip bool
	got  string
	pan  string
	cerr string
	want acc
}

func check(n *Node, c *compiled, x ctx) result {
	return checkWant(n, c, x, ref(n, env{g: x.G, keys: x.K}))
}

// probeSkips: Compile evaluates every stage once against an empty match to
// find constants (EvalStaticStage). A @for whose condition only ends thanks to
// a group or key would run to the 1,000,000-iteration guard there (with a
// growing value: quadratic time and memory), so such a program is not compiled.
func probeSkips(n *Node) bool {
	return ref(n, env{keys: map[string]string{}}).skip
}

func checkWant(n *Node, c *compiled, x ctx, want acc) result {
	if want.skip {
		return result{ok: true, skip: true, want: want}
	}
	if c == nil {
		if probeSkips(n) {
			return result{ok: true, skip: true, want: want}
		}
		c = compileCached(n.String())
	}
	got, pan := c.eval(x)
	r := result{got: got, pan: pan, cerr: c.cerr, want: want}
	r.ok = pan == "" && c.cerr == "" && want.accepts(got)
	return r
}

// children evaluated in the same context as the node itself (not the
// sub-expressions of @map/@filter/@reduce/@for)
func mainChildren(n *Node) []*Node {
	if n.K != "call" {
		return nil
	}
	switch n.S {
	case "@map", "@filter", "@reduce", "@for", "@select", "@slice", "@split", "@join", "@len":
		return n.A[:1]
	}
	return n.A
}

// localise finds the innermost helper call that fails on its own.
func localise(n *Node, x ctx) (*Node, result) {
	for _, ch := range mainChildren(n) {
		if ch.K != "call" {
			continue
		}
		if r := check(ch, nil, x); !r.ok {
			return localise(ch, x)
		}
	}
	return n, check(n, nil, x)
}

// elementCount: how many elements the (real) value of n has, for naming the
// input class of a failing @slice/@select.
func elementCount(n *Node, x ctx) int {
	v := ""
	if n.K == "call" {
		v = check(n, nil, x).got
	} else if a := ref(n, env{g: x.G, keys: x.K}); len(a.vals) > 0 {
		v = a.vals[0]
	}
	if v == "" {
		return 0
	}
	return strings.Count(v, nul) + 1
}

// classify names the defect class of a failing helper call.
func classify(n *Node, x ctx, r result) string {
	fail := "wrong-result"
	if r.pan != "" {
		fail = "panic-" + panicClass(r.pan)
	} else if r.cerr != "" {
		fail = "compile-error"
	}
	if n.K != "call" {
		return "C17/template/" + fail
	}
	name := strings.TrimPrefix(n.S, "@")
	if n.S == "@" || n.S == "$" {
		name = "concat"
	}
	subFeature := func(fs ...*Node) string {
		k, a := false, false
		for _, f := range fs {
			k = k || f.usesKey()
			a = a || f.usesArrayHelper()
		}
		switch {
		case k && a:
			return "nested-helper-with-named-key"
		case k:
			return "named-key"
		case a:
			return "nested-array-helper"
		}
		return "plain-subexpression"
	}
	switch n.S {
	case "@map", "@filter", "@reduce":
		if n.A[1].usesNegativeGroup() && strings.Contains(r.pan, "index out of range") {
			return "C17/subcontext/negative-group-index/" + fail
		}
		return "C17/" + name + "/" + subFeature(n.A[1]) + "/" + fail
	case "@for":
		if (n.A[1].usesNegativeGroup() || n.A[2].usesNegativeGroup()) && strings.Contains(r.pan, "index out of range") {
			return "C17/subcontext/negative-group-index/" + fail
		}
		if r.pan == "" && len(r.want.vals) == 1 {
			// the expected sequence without its leading empty elements
			w := r.want.vals[0]
			t := strings.TrimLeft(w, nul)
			if t != w && r.got == t {
				return "C17/for/leading-empty-element/dropped"
			}
		}
		return "C17/for/" + subFeature(n.A[1], n.A[2]) + "/" + fail
	case "@split":
		class := "default-delimiter"
		if len(n.A) > 1 {
			class = "single-byte-delimiter"
			if len(n.A[1].S) > 1 {
				class = "multibyte-delimiter"
			}
		}
		if fail == "wrong-result" {
			fail = "wrong-list"
		}
		return "C17/split/" + class + "/" + fail
	case "@slice":
		cnt := elementCount(n.A[0], x)
		s := litInt(n.A[1])
		class := "start-in-range"
		switch {
		case s >= 0 && s >= cnt:
			class = "start-past-end"
		case s < 0 && -s <= cnt:
			class = "negative-start-in-range"
		case s < 0:
			class = "start-before-beginning"
		}
		if fail == "wrong-result" {
			fail = "wrong-list"
			// an allowed list with one more separator in front of it
			for _, v := range r.want.vals {
				if r.got == nul+v {
					fail = "leading-separator"
				}
			}
		}
		return "C17/slice/" + class + "/" + fail
	case "@select":
		cnt := elementCount(n.A[0], x)
		i := litInt(n.A[1])
		class := "index-in-range"
		if i < 0 {
			class = "negative-index"
		} else if i >= cnt {
			class = "index-past-end"
		}
		return "C17/select/" + class + "/" + fail
	case "@range":
		return "C17/range/" + strconv.Itoa(len(n.A)) + "-arguments/" + fail
	}
	return "C17/" + name + "/" + fail
}

type Case struct {
	Family   string `json:"family"`
	Template string `json:"template"`
	Ctx      ctx    `json:"match"`
	Node     *Node  `json:"node"`
}

func quoteAll(l []string) string {
	q := make([]string, len(l))
	for i, s := range l {
		q[i] = strconv.Quote(s)
	}
	return "[" + strings.Join(q, " ") + "]"
}

func describe(n *Node, x ctx, r result, blamed *Node, br result) string {
	var sb strings.Builder
	fmt.Fprintf(&sb, "template %s\ngroups %s keys k=%q e=%q n=%q\n", n.String(), quoteAll(x.G), x.K["k"], x.K["e"], x.K["n"])
	if r.pan != "" {
		fmt.Fprintf(&sb, "panicked: %s\n", r.pan)
	} else {
		fmt.Fprintf(&sb, "returned %q = list %s\n", r.got, quoteAll(strings.Split(r.got, nul)))
	}
	if r.cerr != "" {
		fmt.Fprintf(&sb, "compile error: %s\n", r.cerr)
	}
	fmt.Fprintf(&sb, "the list model allows %s", quoteAll(r.want.vals))
	if r.want.anyErr {
		sb.WriteString(" or an error marker")
	}
	if blamed != n {
		fmt.Fprintf(&sb, "\ninnermost failing helper: %s", blamed.String())
		if br.pan != "" {
			fmt.Fprintf(&sb, " panicked: %s", br.pan)
		} else {
			fmt.Fprintf(&sb, " returned %q, allowed %s", br.got, quoteAll(br.want.vals))
		}
	}
	return sb.String()
}

func report(w *runner.W, family string, n *Node, x ctx, r result) {
	blamed, br := localise(n, x)
	if br.ok { // cannot happen: the node itself failed
		blamed, br = n, r
	}
	w.Violation(classify(blamed, x, br), describe(n, x, r, blamed, br), Case{family, n.String(), x, n})
}

// ---- worker ------------------------------------------------------------------------

func worker(w *runner.W) {
	var programNo int64
	var cur Case
	w.SetCase(func() any { return cur })
	enumerate(w.Quick(), func(p *program) bool {
		programNo++
		if !w.Owns(programNo) {
			return true
		}
		if programNo%512 < int64(w.N) && w.Expired() {
			return false
		}
		tmpl := p.node.String()
		var c *compiled
		if probeSkips(p.node) {
			w.Add("programs_not_compiled_probe_would_not_terminate", 1)
			return true
		}
		w.Add("programs", 1)
		w.Add("programs_"+p.family, 1)
		w.Max("max_helper_nesting", int64(p.node.depth()))
		// the same compiled program over the matches in order; the small
		// families also in reverse order (state kept inside a compiled stage
		// between evaluations would show as a different answer)
		seq := p.ctxs
		if p.family != "chain2" && len(p.ctxs) > 1 {
			seq = append([]ctx{}, p.ctxs...)
			for i := len(p.ctxs) - 1; i >= 0; i-- {
				seq = append(seq, p.ctxs[i])
			}
		}
		for si := range seq {
			x := seq[si]
			cur = Case{p.family, tmpl, x, p.node}
			id := &p.ctxs[si%len(p.ctxs)]
			if si >= len(p.ctxs) {
				id = &p.ctxs[2*len(p.ctxs)-1-si]
			}
			want := ref(p.node, env{g: x.G, keys: x.K, id: id})
			if want.skip {
				w.Add("not_executed_model_predicts_nontermination", 1)
				continue
			}
			if c == nil {
				c = compileTemplate(tmpl)
			}
			r := checkWant(p.node, c, x, want)
			nontrivial := r.ok && !r.want.free && !isErrorMarker(r.got)
			w.Eval(nontrivial)
			if r.want.free {
				w.Add("unconstrained_by_statement", 1)
			}
			if !r.ok {
				report(w, p.family, p.node, x, r)
				continue
			}
			w.Outcome(p.node.S, r.got)
			if nontrivial && w.WantSample() && p.family == "chain2" && strings.Count(r.got, nul) >= 2 && programNo%97 < int64(w.N) {
				w.Sample(map[string]any{"template": tmpl, "match": x, "result_go_quoted": strconv.Quote(r.got)})
			}
		}
		return true
	})
}

func replay(w *runner.W, raw json.RawMessage) {
	var c Case
	if err := json.Unmarshal(raw, &c); err != nil {
		panic(err)
	}
	r := check(c.Node, nil, c.Ctx)
	if r.skip {
		fmt.Println("the model predicts non-termination; not executed")
		return
	}
	if !r.ok {
		report(w, c.Family, c.Node, c.Ctx, r)
	}
}

func main() {
	runner.Main(&runner.Spec{
		Name:       "exprarray",
		Properties: []string{"C17"},
		Level:      "exploration",
		Rule: func(prop, tier string) string {
			ll, ix, sl := "0..3", "-5..5", "5"
			if tier != "thorough" {
				ll, ix, sl = "0..2", "-3..3", "4"
			}
			return "programs: 20 sources ({0}; @split of the joined list by {default, ',', '::', ' ', 'é', 'ab'}; {@ ..}/{$ ..} of groups, of list+element, of constants; 4 @range; 2 @for) x chains of 0, 1 and 2 operations out of {@len; @join default/''/5 delimiters; @split default/5 delimiters; @map with 11 sub-expressions; @filter with 9; @reduce with 7 x initial {unset, '', I, 0}; @select index " + ix + "; @slice start " + ix + " x length {unset, " + ix + "}} (sub-expressions: {0} {1} {-1} named keys, upper len sumi eq not if coalesce lt, nested @split/@join/@map/@len/@in), each on every list of " + ll + " elements over {'', a, 'b b', é, and the non-UTF-8 bytes \\xe9, \\xc3, \\xff} (results compared byte for byte); plus @split/@join/@len/@select/@slice on every string of length <= " + sl + " over {a : , é \\xe9 \\xc3 \\xff} with delimiters {',', '::', 'é', 'aa', 'a:', ':,:'}; @range with 1-3 constant and dynamic arguments in " + ix + " and non-numbers; 252 @for loops (4 starts x 9 conditions x 7 increments) alone and under @len/@join; @in over 12 constant arrays x 10 values. Every program is compiled by NewStdKeyBuilder (optimising) and evaluated through BuildKey; one case = (program, match). non-trivial = the result is constrained by the statement, is not an error marker and agrees with the model"
		},
		Assumptions: func(string) []string {
			return []string{
				"'' stands for both the empty list and the list holding one empty string; every helper is allowed either reading (set-valued model)",
				"negative @select index, explicit negative @slice length, explicit empty @join delimiter and invalid @range arguments are not described by the statement: every reasonable answer (or an error marker) is accepted; a @slice start before the beginning may clamp the start or clip the window",
				"before each compile and evaluation the package-level sub-context pool is put into the state of a fresh process (no parent on any pooled object) by evaluating five nested @map calls with a nil context",
				"programs for which the model predicts more than 24 @for iterations are not executed (the implementation would run to its 1,000,000-iteration guard); the same holds for programs whose @for would not end on the empty match that Compile evaluates every stage against",
				"only the sequential part of C17; two concurrent evaluators sharing the pool are not covered by this harness",
			}
		},
		Worker:         worker,
		Replay:         replay,
		HangSeconds:    60,
		QuickBudget:    3 * time.Minute,
		ThoroughBudget: 15 * time.Minute,
	})
}
