// Harness exprarray decides the sequential part of C17: the array helpers
// @split @join @len @map @filter @reduce @select @slice @in @range @for {$ ..}
// {@ ..} obey list semantics. Every program of a small grammar (sources x up
// to two stacked operations, sub-expressions drawn from 8 scalar helpers with
// named keys and nested array helpers) is compiled by the real KeyBuilder and
// evaluated through BuildKey on every list of 0..3 elements over
// {"", a, "b b", é, \xe9, \xc3, \xff}; the result must be a member of the set the reference list
// model (ref.go) allows. The concurrent-evaluator part of C17 is decided
// elsewhere.
package main

import (
	"encoding/json"
	"fmt"
	"strconv"
	"strings"
	"time"

	"rare/pkg/expressions"
	"rare/pkg/expressions/stdlib"
	"verif/runner"
)

// ---- running the real code ------------------------------------------------------

// The sub-context pool of funcsRange.go is package-level state: a pooled
// sub-context keeps the parent of its previous use. So that a case cannot
// influence the next one, the pool is put into the state of a fresh process
// (every pooled object without a parent) before each compile and each
// evaluation: five nested @map calls evaluated with a nil context reset all
// five pooled objects.
var primer *expressions.CompiledKeyBuilder

func prime() {
	if primer == nil {
		kb, err := stdlib.NewStdKeyBuilderEx(false).Compile("{@map x {@map x {@map x {@map x {@map x {@map x {0}}}}}}}")
		if err != nil {
			panic("harness: primer does not compile: " + err.Error())
		}
		primer = kb
	}
	if got := primer.BuildKey(nil); got != "x" {
		panic("harness: primer returned " + strconv.Quote(got))
	}
}

type compiled struct {
	ckb  *expressions.CompiledKeyBuilder
	cerr string
	cpan string
}

func compileTemplate(tmpl string) *compiled {
	c := &compiled{}
	prime()
	func() {
		defer func() {
			if r := recover(); r != nil {
				c.cpan = fmt.Sprint(r)
			}
		}()
		ckb, err := stdlib.NewStdKeyBuilder().Compile(tmpl)
		c.ckb = ckb
		if err != nil {
			c.cerr = err.Error()
		}
	}()
	return c
}

// compileCached is used when a failure is localised: the sub-programs of the
// failing programs repeat. (Compiled programs hold no state of their own; the
// pool they share is reset before every evaluation.)
var compileCache = map[string]*compiled{}

func compileCached(tmpl string) *compiled {
	if c, ok := compileCache[tmpl]; ok {
		return c
	}
	if len(compileCache) > 20000 {
		compileCache = map[string]*compiled{}
	}
	c := compileTemplate(tmpl)
	compileCache[tmpl] = c
	return c
}

func (c *compiled) eval(x ctx) (out string, pan string) {
	if c.cpan != "" {
		return "", "at compile time: " + c.cpan
	}
	prime()
	defer func() {
		if r := recover(); r != nil {
			pan = fmt.Sprint(r)
		}
	}()
	return c.ckb.BuildKey(&expressions.KeyBuilderContextArray{Elements: x.G, Keys: x.K}), ""
}

func panicClass(msg string) string {
	switch {
	case strings.Contains(msg, "index out of range"):
		return "index-out-of-range"
	case strings.Contains(msg, "nil pointer"):
		return "nil-pointer-dereference"
	case strings.Contains(msg, "slice bounds"):
		return "slice-bounds-out-of-range"
	case strings.Contains(msg, "divide by zero"):
		return "integer-divide-by-zero"
	}
	return "other"
}

// ---- checking one case -------------------------------------------------------------

type result struct {
	ok   bool
	skip bool
	got  string
	pan  string
	cerr string
	want acc
}

func check(n *Node, c *compiled, x ctx) result {
	return checkWant(n, c, x, ref(n, env{g: x.G, keys: x.K}))
}

// probeSkips: Compile evaluates every stage once against an empty match to
// find constants (EvalStaticStage). A @for whose condition only ends thanks to
// a group or key would run to the 1,000,000-iteration guard there (with a
// growing value: quadratic time and memory), so such a program is not compiled.
func probeSkips(n *Node) bool {
	return ref(n, env{keys: map[string]string{}}).skip
}

func checkWant(n *Node, c *compiled, x ctx, want acc) result {
	if want.skip {
		return result{ok: true, skip: true, want: want}
	}
	if c == nil {
		if probeSkips(n) {
			return result{ok: true, skip: true, want: want}
		}
		c = compileCached(n.String())
	}
	got, pan := c.eval(x)
	r := result{got: got, pan: pan, cerr: c.cerr, want: want}
	r.ok = pan == "" && c.cerr == "" && want.accepts(got)
	return r
}

// children evaluated in the same context as the node itself (not the
// sub-expressions of @map/@filter/@reduce/@for)
func mainChildren(n *Node) []*Node {
	if n.K != "call" {
		return nil
	}
	switch n.S {
	case "@map", "@filter", "@reduce", "@for", "@select", "@slice", "@split", "@join", "@len":
		return n.A[:1]
	}
	return n.A
}

// localise finds the innermost helper call that fails on its own.
func localise(n *Node, x ctx) (*Node, result) {
	for _, ch := range mainChildren(n) {
		if ch.K != "call" {
			continue
		}
		if r := check(ch, nil, x); !r.ok {
			return localise(ch, x)
		}
	}
	return n, check(n, nil, x)
}

// elementCount: how many elements the (real) value of n has, for naming the
// input class of a failing @slice/@select.
func elementCount(n *Node, x ctx) int {
	v := ""
	if n.K == "call" {
		v = check(n, nil, x).got
	} else if a := ref(n, env{g: x.G, keys: x.K}); len(a.vals) > 0 {
		v = a.vals[0]
	}
	if v == "" {
		return 0
	}
	return strings.Count(v, nul) + 1
}

// classify names the defect class of a failing helper call.
func classify(n *Node, x ctx, r result) string {
	fail := "wrong-result"
	if r.pan != "" {
		fail = "panic-" + panicClass(r.pan)
	} else if r.cerr != "" {
		fail = "compile-error"
	}
	if n.K != "call" {
		return "C17/template/" + fail
	}
	name := strings.TrimPrefix(n.S, "@")
	if n.S == "@" || n.S == "$" {
		name = "concat"
	}
	subFeature := func(fs ...*Node) string {
		k, a := false, false
		for _, f := range fs {
			k = k || f.usesKey()
			a = a || f.usesArrayHelper()
		}
		switch {
		case k && a:
			return "nested-helper-with-named-key"
		case k:
			return "named-key"
		case a:
			return "nested-array-helper"
		}
		return "plain-subexpression"
	}
	switch n.S {
	case "@map", "@filter", "@reduce":
		if n.A[1].usesNegativeGroup() && strings.Contains(r.pan, "index out of range") {
			return "C17/subcontext/negative-group-index/" + fail
		}
		return "C17/" + name + "/" + subFeature(n.A[1]) + "/" + fail
	case "@for":
		if (n.A[1].usesNegativeGroup() || n.A[2].usesNegativeGroup()) && strings.Contains(r.pan, "index out of range") {
			return "C17/subcontext/negative-group-index/" + fail
		}
		if r.pan == "" && len(r.want.vals) == 1 {
			// the expected sequence without its leading empty elements
			w := r.want.vals[0]
			t := strings.TrimLeft(w, nul)
			if t != w && r.got == t {
				return "C17/for/leading-empty-element/dropped"
			}
		}
		return "C17/for/" + subFeature(n.A[1], n.A[2]) + "/" + fail
	case "@split":
		class := "default-delimiter"
		if len(n.A) > 1 {
			class = "single-byte-delimiter"
			if d, ok := constText(n.A[1]); !ok {
				class = "delimiter-from-the-match"
			} else if len(d) > 1 {
				class = "multibyte-delimiter"
			}
		}
		if fail == "wrong-result" {
			fail = "wrong-list"
		}
		return "C17/split/" + class + "/" + fail
	case "@slice":
		cnt := elementCount(n.A[0], x)
		s := litInt(n.A[1])
		class := "start-in-range"
		switch {
		case s >= 0 && s >= cnt:
			class = "start-past-end"
		case s < 0 && -s <= cnt:
			class = "negative-start-in-range"
		case s < 0:
			class = "start-before-beginning"
		}
		if fail == "wrong-result" {
			fail = "wrong-list"
			// an allowed list with one more separator in front of it
			for _, v := range r.want.vals {
				if r.got == nul+v {
					fail = "leading-separator"
				}
			}
		}
		return "C17/slice/" + class + "/" + fail
	case "@select":
		cnt := elementCount(n.A[0], x)
		i := litInt(n.A[1])
		class := "index-in-range"
		if i < 0 {
			class = "negative-index"
		} else if i >= cnt {
			class = "index-past-end"
		}
		return "C17/select/" + class + "/" + fail
	case "@range":
		return "C17/range/" + strconv.Itoa(len(n.A)) + "-arguments/" + fail
	}
	return "C17/" + name + "/" + fail
}

type Case struct {
	Family   string     `json:"family"`
	Template string     `json:"template,omitempty"`
	Ctx      ctx        `json:"match"`
	Node     *Node      `json:"node,omitempty"`
	Size     *sizeRef   `json:"size,omitempty"`    // family "size": program and match are regenerated from (shape, n)
	History  []histStep `json:"history,omitempty"` // family "history": the evaluations in order; the last one is judged
	// families "arglist" and "delim": the helper call under the consumer, the
	// twin program (constant arguments replaced by groups) and its match
	Inner     *Node `json:"inner,omitempty"`
	Twin      *Node `json:"twin,omitempty"`
	TwinInner *Node `json:"twin_inner,omitempty"`
	TwinCtx   *ctx  `json:"twin_match,omitempty"`
}

func caseOf(p *program, x ctx) Case {
	if p.size != nil {
		return Case{Family: p.family, Size: p.size}
	}
	return Case{Family: p.family, Template: p.node.String(), Ctx: x, Node: p.node}
}

func quoteAll(l []string) string {
	q := make([]string, len(l))
	for i, s := range l {
		q[i] = strconv.Quote(s)
	}
	return "[" + strings.Join(q, " ") + "]"
}

func describe(n *Node, x ctx, r result, blamed *Node, br result) string {
	var sb strings.Builder
	fmt.Fprintf(&sb, "template %s\ngroups %s keys k=%q e=%q n=%q\n", n.String(), quoteAll(x.G), x.K["k"], x.K["e"], x.K["n"])
	if r.pan != "" {
		fmt.Fprintf(&sb, "panicked: %s\n", r.pan)
	} else {
		fmt.Fprintf(&sb, "returned %q = list %s\n", r.got, quoteAll(strings.Split(r.got, nul)))
	}
	if r.cerr != "" {
		fmt.Fprintf(&sb, "compile error: %s\n", r.cerr)
	}
	fmt.Fprintf(&sb, "the list model allows %s", quoteAll(r.want.vals))
	if r.want.anyErr {
		sb.WriteString(" or an error marker")
	}
	if blamed != n {
		fmt.Fprintf(&sb, "\ninnermost failing helper: %s", blamed.String())
		if br.pan != "" {
			fmt.Fprintf(&sb, " panicked: %s", br.pan)
		} else {
			fmt.Fprintf(&sb, " returned %q, allowed %s", br.got, quoteAll(br.want.vals))
		}
	}
	return sb.String()
}

func report(w *runner.W, p *program, x ctx, r result) {
	n := p.node
	blamed, br := localise(n, x)
	if br.ok { // cannot happen: the node itself failed
		blamed, br = n, r
	}
	sig := classify(blamed, x, br)
	detail := describe(n, x, r, blamed, br)
	if p.size != nil {
		sig += "/size-family"
		detail = fmt.Sprintf("size shape %s, n = %d\n", p.size.Shape, p.size.N) + clipDetail(detail)
	}
	w.Violation(sig, detail, caseOf(p, x))
}

// clipDetail keeps the head of every line of a description of a big case.
func clipDetail(d string) string {
	lines := strings.Split(d, "\n")
	for i, l := range lines {
		if len(l) > 400 {
			lines[i] = l[:400] + "…"
		}
	}
	return strings.Join(lines, "\n")
}

// ---- worker ------------------------------------------------------------------------

func worker(w *runner.W) {
	var programNo int64
	var cur Case
	w.SetCase(func() any { return cur })
	enumerate(w.Quick(), func(p *program) bool {
		programNo++
		if !w.Owns(programNo) {
			return true
		}
		if programNo%512 < int64(w.N) && w.Expired() {
			return false
		}
		if !p.materialize() {
			return true
		}
		forCap = 24
		if p.forCap > 0 {
			forCap = p.forCap
		}
		defer func() { forCap = 24 }()
		tmpl := p.node.String()
		var c, noOpt *compiled
		twinFamily := p.family == "arglist" || p.family == "delim"
		if probeSkips(p.node) {
			w.Add("programs_not_compiled_probe_would_not_terminate", 1)
			return true
		}
		w.Add("programs", 1)
		w.Add("programs_"+p.family, 1)
		w.Max("max_helper_nesting", int64(p.node.depth()))
		// the same compiled program over the matches in order; the small
		// families also in reverse order (state kept inside a compiled stage
		// between evaluations would show as a different answer)
		seq := p.ctxs
		if p.family != "chain2" && len(p.ctxs) > 1 {
			seq = append([]ctx{}, p.ctxs...)
			for i := len(p.ctxs) - 1; i >= 0; i-- {
				seq = append(seq, p.ctxs[i])
			}
		}
		for si := range seq {
			x := seq[si]
			cur = caseOf(p, x)
			id := &p.ctxs[si%len(p.ctxs)]
			if si >= len(p.ctxs) {
				id = &p.ctxs[2*len(p.ctxs)-1-si]
			}
			if p.size != nil || twinFamily {
				id = nil // no memo of big values, nor of programs whose nodes are not shared with other programs
			}
			want := ref(p.node, env{g: x.G, keys: x.K, id: id})
			if want.skip {
				w.Add("not_executed_model_predicts_nontermination", 1)
				continue
			}
			if c == nil {
				c = compileTemplate(tmpl)
			}
			r := checkWant(p.node, c, x, want)
			nontrivial := r.ok && !r.want.free && !isErrorMarker(r.got)
			w.Eval(nontrivial)
			if r.want.free {
				w.Add("unconstrained_by_statement", 1)
				if p.size != nil {
					w.Add("size_family_unconstrained_overlapping_delimiter_under_another_helper", 1)
				}
			}
			if r.want.pred != nil {
				w.Add("judged_by_the_split_test_instead_of_a_listed_set", 1)
			}
			if !r.ok {
				report(w, p, x, r)
				continue
			}
			if twinFamily {
				// the same program without the optimiser, and its twin with every
				// constant argument replaced by a group of that value (arglist.go)
				if noOpt == nil {
					noOpt = compileTemplateNoOpt(tmpl)
				}
				ci := si
				if si >= len(p.ctxs) {
					ci = 2*len(p.ctxs) - 1 - si
				}
				tx := x
				if p.twin != nil {
					tx = p.twinCtxs[ci]
				}
				if !checkTwin(w, p, noOpt, x, tx, r.got) {
					continue
				}
			}
			if p.size != nil {
				w.Add("size_family_cases", 1)
				w.Max("size_family_largest_n", int64(p.size.N))
				if len(r.got) > 64 {
					w.Outcome(p.node.S, p.size.Shape, strconv.Itoa(len(r.got)))
					continue
				}
			}
			w.Outcome(p.node.S, r.got)
			if nontrivial && w.WantSample() && p.family == "chain2" && strings.Count(r.got, nul) >= 2 && programNo%97 < int64(w.N) {
				w.Sample(map[string]any{"template": tmpl, "match": x, "result_go_quoted": strconv.Quote(r.got)})
			}
		}
		return true
	})
	forCap = 24
	// family "history" (history.go)
	historyFamily(w, &programNo)
}

func replay(w *runner.W, raw json.RawMessage) {
	var c Case
	if err := json.Unmarshal(raw, &c); err != nil {
		panic(err)
	}
	if c.Family == "history" && len(c.History) > 0 {
		replayHistory(w, c)
		return
	}
	p := &program{family: c.Family, node: c.Node, ctxs: []ctx{c.Ctx}, inner: c.Inner, twin: c.Twin, twinInner: c.TwinInner}
	if c.Size != nil {
		p = sizeProgramByRef(c.Size)
		forCap = p.forCap
	}
	x := p.ctxs[0]
	r := check(p.node, nil, x)
	if r.skip {
		fmt.Println("the model predicts non-termination; not executed")
		return
	}
	if !r.ok {
		report(w, p, x, r)
		return
	}
	if c.Family == "arglist" || c.Family == "delim" {
		tx := x
		if c.TwinCtx != nil {
			tx = *c.TwinCtx
		}
		checkTwin(w, p, nil, x, tx, r.got)
	}
}

func main() {
	runner.Main(&runner.Spec{
		Name:       "exprarray",
		Properties: []string{"C17"},
		Level:      "exploration",
		Rule: func(prop, tier string) string {
			ll, ix, sl, sz := "0..3", "-5..5", "5", strconv.Itoa(sizeCapThorough)
			al, dl, jl := "0..5", "4", "3"
			a5 := "; lists of 5 arguments: only the first five constant forms and the first three group values"
			af := "{a constant text, the constant \"\", {@range 0}, {coalesce \"\"}, {@split \",d\" \",\"} (a list with a leading empty element), {coalesce \"\" text}, {@split \"t,,\" \",\"} (trailing empty elements), the nested {@ \"\" text}}"
			ag := "a text, empty, a list with a leading empty element, a list with a trailing empty element, a list of two empty elements"
			if tier != "thorough" {
				ll, ix, sl, sz = "0..2", "-3..3", "4", strconv.Itoa(sizeCapQuick)
				al, dl, jl, a5 = "0..4", "3", "2", ""
				af = "{a constant text, the constant \"\", {@range 0}, {coalesce \"\"}, {@split \",d\" \",\"} (a list with a leading empty element)}"
				ag = "a text, empty, a list with a leading empty element"
			}
			return "programs: 20 sources ({0}; @split of the joined list by {default, ',', '::', ' ', 'é', 'ab'}; {@ ..}/{$ ..} of groups, of list+element, of constants; 4 @range; 2 @for) x chains of 0, 1 and 2 operations out of {@len; @join default/''/5 delimiters; @split default/5 delimiters; @map with 11 sub-expressions; @filter with 9; @reduce with 7 x initial {unset, '', I, 0}; @select index " + ix + "; @slice start " + ix + " x length {unset, " + ix + "}} (sub-expressions: {0} {1} {-1} named keys, upper len sumi eq not if coalesce lt, nested @split/@join/@map/@len/@in), each on every list of " + ll + " elements over {'', a, 'b b', é, and the non-UTF-8 bytes \\xe9, \\xc3, \\xff} (results compared byte for byte); plus @split/@join/@len/@select/@slice on every string of length <= " + sl + " over {a : , é \\xe9 \\xc3 \\xff} with delimiters {',', '::', 'é', 'aa', 'a:', ':,:'}; @range with 1-3 constant and dynamic arguments in " + ix + " and non-numbers; 252 @for loops (4 starts x 9 conditions x 7 increments) alone and under @len/@join; @in over 12 constant arrays x 10 values. Family nest: " + strconv.Itoa(len(nestPrograms())) + " programs with array helpers inside the sub-expression of array helpers ({@map} 2, 3 and 4 deep over the separators space, comma, semicolon; {0}, {1} and named keys used AFTER an inner @map/@filter/@reduce/@len ran inside the same sub-expression; inner @reduce inside @map inside @map; @for around and inside @map), alone and under @len/@join/@select, on every list of " + ll + " elements over {'', a, 'b b', 'a,b c', 'x;y,z w', 'a b;c', '1 22 333'} and of 0..2 elements over the byte alphabet. Family size (signatures end in /size-family): " + strconv.Itoa(len(sizeShapes())) + " fixed program shapes on inputs whose size n is swept over 0..70 and 2^k-1, 2^k, 2^k+1 (k >= 7) up to " + sz + " (programs that copy n*n bytes: up to 257..1025 quick / 1025..4097 thorough): lists of n elements e0..e(n-1), with empty elements at the start, middle and end, one element followed by n empty ones, n empty ones, n/2 leading empty ones; @split/@join/@len/@select over them with the delimiters {',', '::', 'aba', 'abab', 'ababa', 'aa'} (1..5 bytes, four of them self-overlapping), also with elements that end in a prefix or start with a suffix of the delimiter (when the allowed decompositions are too many to list, the outermost @split is judged by a test - no element contains the delimiter and the join gives the string back - and @join of @split by the same delimiter must give the string back); @select index and @slice start in {-n-1,-n,-n+1,-2,-1,0,1,2,n/2,n-2,n-1,n,n+1} x length {unset,0,1,2,n/2,n-1,n,n+1}; @range with 10 argument shapes producing about n elements (constant and from groups) and 5 @for loops producing n elements, alone and under @len/@join/@select -1/@reduce sumi/@slice -2; @map (6), @filter (8), @reduce (6) over the n elements; the nest programs over n structured elements and over elements with n innermost parts. Families arglist and delim (constant versus dynamic arguments crossed with empty versus non-empty values): {$ ..} and {@ ..} with " + al + " arguments where EVERY argument independently is one of " + af + " or the group {p+1}, which over the matches (all combinations) is " + ag + " (texts carry the argument position" + a5 + "); each list alone and under @len, @select 0..5 and -1, @slice 1 / -2 / 1 2, @join ',' and default; @split of every string of length <= " + dl + " over {a , :} (so starting and ending with the delimiter, holding it twice, being it) by ',' and '::' with the input a constant or a group and the delimiter a constant text or the constant sub-expression {coalesce \"\" d}, under the same consumers and @join by the same delimiter; {@join {@split {1} {2}} {2}} with the delimiter taken from the match ({',', '::', ' ', 'a'} x strings of length <= " + dl + " over {a , : space}: must give the string back or an error marker); @join of every list of 0.." + jl + " elements over {'', a, b} given as a constant sub-expression ({@split \"..\" \";\"}, {@ ..}, {@range 0}, \"\") by the default delimiter, ',', '::', '' and {coalesce \"\" \",\"}, alone and under @split/@len{@split} by the same delimiter. Each such program is judged by the list model AND must return byte for byte the same as (a) itself compiled by NewStdKeyBuilderEx(false) (no optimiser; signature C17/<helper>/optimiser-changes-result) and (b) its twin: the same helpers with every constant argument replaced by a group holding the value the real code gives that argument on its own (signature C17/<helper>/constant-and-dynamic-arguments-disagree); every program is evaluated over all its matches forward and backward (programs without a group: on two matches). Family history: every program of the families chain0, chain1, range, for, in and nest: the sub-context pool is put into the fresh-process state ONCE, the program is compiled ONCE and evaluated over all its matches forward and backward with nothing in between, then alternately with each of 6 other compiled expressions (disturbers taking 1..4 nested sub-contexts from the same pool, binding {1}, resolving keys) on their own matches; named keys differ from match to match; every result must equal that of a fresh compilation on a fresh pool (signature C17/<helper>/value-depends-on-earlier-evaluations). Every program is compiled by NewStdKeyBuilder (optimising) and evaluated through BuildKey; one case = (program, match). non-trivial = the result is constrained by the statement, is not an error marker and agrees with the model (history: the fresh result is not an error marker or panic)"
		},
		Assumptions: func(string) []string {
			return []string{
				"'' stands for both the empty list and the list holding one empty string; every helper is allowed either reading (set-valued model)",
				"negative @select index, explicit negative @slice length, explicit empty @join delimiter and invalid @range arguments are not described by the statement: every reasonable answer (or an error marker) is accepted; a @slice start before the beginning may clamp the start or clip the window",
				"before each compile and evaluation the package-level sub-context pool is put into the state of a fresh process (no parent on any pooled object) by evaluating six nested @map calls with a nil context; only the history family evaluates without that (once at the start of each program's history)",
				"{1} inside @map/@filter is not described by the statement; the model takes it as empty and no program relies on it",
				"size sweeps stop at the cap of the tier; between the swept sizes (71..126, 130..254, ...) only the small lists are covered; programs whose @for would run longer than n+2 iterations in the model are not executed",
				"programs for which the model predicts more than 24 @for iterations are not executed (the implementation would run to its 1,000,000-iteration guard); the same holds for programs whose @for would not end on the empty match that Compile evaluates every stage against",
				"families arglist and delim: '{$ ..}/{@ ..} concatenate their arguments in order' (and the sentences on @split/@join) define the result by the VALUES of the arguments, so a constant argument and a group holding the same value must give the same result, and the optimiser must be invisible; which of the two readings of an empty argument (no element / one empty element) is taken stays free, as everywhere in the model. {@} without arguments ('an array of all matches') and {tab ..} are outside the statement and not enumerated",
				"a @split/@join delimiter that is not a constant is not described by the statement (rare silently uses the default): only the inverse law {@join {@split s d} d} == s is demanded of it, an error marker being accepted too",
				"only the sequential part of C17; two concurrent evaluators sharing the pool are not covered by this harness",
			}
		},
		Worker:         worker,
		Replay:         replay,
		HangSeconds:    60,
		QuickBudget:    3 * time.Minute,
		ThoroughBudget: 15 * time.Minute,
	})
}
