package main

import (
	"strconv"
	"strings"
)

// Node is a template expression. It prints to rare's template syntax and is
// interpreted by the reference model in ref.go; it is also the replayable
// form of a case.
type Node struct {
	K string  `json:"k"`           // lit | grp | key | cat | call
	S string  `json:"s,omitempty"` // literal text / key name / helper name
	I int     `json:"i,omitempty"` // group index
	A []*Node `json:"a,omitempty"` // call arguments / cat parts
}

func lit(s string) *Node              { return &Node{K: "lit", S: s} }
func num(i int) *Node                 { return &Node{K: "lit", S: strconv.Itoa(i)} }
func grp(i int) *Node                 { return &Node{K: "grp", I: i} }
func key(s string) *Node              { return &Node{K: "key", S: s} }
func cat(p ...*Node) *Node            { return &Node{K: "cat", A: p} }
func call(f string, a ...*Node) *Node { return &Node{K: "call", S: f, A: a} }

func isIntText(s string) bool {
	if s == "" {
		return false
	}
	i := 0
	if s[0] == '-' {
		i = 1
	}
	if i == len(s) {
		return false
	}
	for ; i < len(s); i++ {
		if s[i] < '0' || s[i] > '9' {
			return false
		}
	}
	return true
}

// String prints the node as an argument of a helper call (a call node printed
// this way is also a complete template). Literal text never contains { } " \
// so no escaping is needed; text arguments are always quoted, a concatenation
// is one quoted argument holding only text, {n} and {name}. A concatenation
// that holds helper calls is written without quotes (`{@len {0}}:{0}:{k}` is
// one argument: the tokenizer only splits at spaces outside braces); its text
// parts then must not contain spaces.
func (n *Node) String() string {
	switch n.K {
	case "lit":
		if isIntText(n.S) {
			return n.S
		}
		return `"` + n.S + `"`
	case "grp":
		return "{" + strconv.Itoa(n.I) + "}"
	case "key":
		return "{" + n.S + "}"
	case "cat":
		var sb strings.Builder
		hasCall := false
		for _, p := range n.A {
			if p.K == "call" {
				hasCall = true
			}
		}
		if hasCall {
			for _, p := range n.A {
				switch p.K {
				case "lit":
					if strings.ContainsAny(p.S, " \t\n\"") || p.S == "" {
						panic("text inside an unquoted concatenation must not be empty or hold spaces or quotes")
					}
					sb.WriteString(p.S)
				case "grp", "key", "call":
					sb.WriteString(p.String())
				default:
					panic("cat holds only text, groups, keys and calls")
				}
			}
			return sb.String()
		}
		sb.WriteByte('"')
		for _, p := range n.A {
			switch p.K {
			case "lit":
				sb.WriteString(p.S)
			case "grp", "key":
				sb.WriteString(p.String())
			default:
				panic("cat holds only text, groups and keys")
			}
		}
		sb.WriteByte('"')
		return sb.String()
	case "call":
		var sb strings.Builder
		sb.WriteByte('{')
		sb.WriteString(n.S)
		for _, a := range n.A {
			sb.WriteByte(' ')
			sb.WriteString(a.String())
		}
		sb.WriteByte('}')
		return sb.String()
	}
	panic("bad node kind " + n.K)
}

// features of a sub-expression that matter for classifying a failure
func (n *Node) usesKey() bool {
	if n.K == "key" {
		return true
	}
	for _, a := range n.A {
		if a.usesKey() {
			return true
		}
	}
	return false
}

func (n *Node) usesGroup() bool {
	if n.K == "grp" {
		return true
	}
	for _, a := range n.A {
		if a.usesGroup() {
			return true
		}
	}
	return false
}

func (n *Node) usesNegativeGroup() bool {
	if n.K == "grp" && n.I < 0 {
		return true
	}
	for _, a := range n.A {
		if a.usesNegativeGroup() {
			return true
		}
	}
	return false
}

func (n *Node) usesArrayHelper() bool {
	if n.K == "call" && (strings.HasPrefix(n.S, "@") || n.S == "$") {
		return true
	}
	for _, a := range n.A {
		if a.usesArrayHelper() {
			return true
		}
	}
	return false
}

func (n *Node) depth() int {
	d := 0
	for _, a := range n.A {
		if x := a.depth(); x > d {
			d = x
		}
	}
	if n.K == "call" && (strings.HasPrefix(n.S, "@") || n.S == "$") {
		d++
	}
	return d
}
