package main

// Families "arglist" and "delim": CONSTANT versus DYNAMIC arguments crossed
// with EMPTY versus NON-EMPTY values at every argument position.
//
// The other families build the argument lists of {$ ..}/{@ ..} from groups of
// the match or from non-empty constants only, and give @split/@join constant
// inputs only inside @in. Whether an argument is known when the expression is
// compiled is a dimension of its own: Compile evaluates every stage against an
// empty match to find constants, helpers pre-compute on constant arguments,
// and the optimiser folds constant stages into literals - and an empty value
// is exactly what such code tends to lose ("flush the run if it is not
// empty"). Here every argument independently is a constant text, the constant
// "", a constant sub-expression that is empty or a list with empty elements,
// or a group that over the matches is a text, empty, or a list with empty
// elements; the result is consumed by @len/@select/@slice/@join so that a lost
// or added element shifts a count or an index.
//
// Two oracles per (program, match):
//   - the list model of ref.go (as in every family);
//   - the TWIN: "{$ ..}/{@ ..} concatenate their arguments in order", "@split
//     and @join are inverse" etc. define the result by the VALUES of the
//     arguments, so the same helper with every constant argument replaced by a
//     group that holds that argument's value must return byte for byte the
//     same (whichever reading of an empty argument - no element or one empty
//     element - the implementation takes, it cannot depend on when the value
//     became known). The value of a constant argument is what the real code
//     returns for that argument on its own. Signature
//     C17/<helper>/constant-and-dynamic-arguments-disagree.
//   - the program compiled WITHOUT the optimiser (NewStdKeyBuilderEx(false))
//     must return the same as compiled with it:
//     C17/<helper>/optimiser-changes-result.

import (
	"fmt"
	"strconv"
	"strings"

	"rare/pkg/expressions/stdlib"
	"verif/runner"
)

// argForm is one way to write the argument at position p (0-based).
type argForm struct {
	name  string
	node  func(p int) *Node    // constant forms
	group func(p int) []string // dynamic form: the values group {p+1} takes over the matches
}

func pos(s string, p int) string { return s + strconv.Itoa(p) }

func argForms(quick bool) []argForm {
	forms := []argForm{
		{name: "constant-text", node: func(p int) *Node { return lit(pos("c", p)) }},
		{name: "constant-empty", node: func(p int) *Node { return lit("") }},
		{name: "constant-range-0", node: func(p int) *Node { return call("@range", num(0)) }},
		{name: "constant-coalesce-empty", node: func(p int) *Node { return call("coalesce", lit("")) }},
		{name: "constant-split-leading-empty", node: func(p int) *Node { return call("@split", lit(pos(",d", p)), lit(",")) }},
	}
	if !quick {
		forms = append(forms,
			argForm{name: "constant-coalesce-text", node: func(p int) *Node { return call("coalesce", lit(""), lit(pos("k", p))) }},
			argForm{name: "constant-split-trailing-empties", node: func(p int) *Node { return call("@split", lit(pos("t", p)+",,"), lit(",")) }},
			argForm{name: "constant-nested-concat", node: func(p int) *Node { return call("@", lit(""), lit(pos("n", p))) }},
		)
	}
	forms = append(forms, argForm{name: "group", group: func(p int) []string {
		v := []string{pos("g", p), "", nul + pos("h", p)}
		if !quick {
			v = append(v, pos("i", p)+nul, nul)
		}
		return v
	}})
	return forms
}

// consumers of a list: a lost or added element shifts a count or an index
type consumer struct {
	name  string
	build func(in *Node) *Node
}

func listConsumers() []consumer {
	out := []consumer{
		{"identity", func(in *Node) *Node { return in }},
		{"@len", func(in *Node) *Node { return call("@len", in) }},
	}
	for _, i := range []int{0, 1, 2, 3, 4, 5, -1} {
		i := i
		out = append(out, consumer{"@select", func(in *Node) *Node { return call("@select", in, num(i)) }})
	}
	out = append(out,
		consumer{"@slice", func(in *Node) *Node { return call("@slice", in, num(1)) }},
		consumer{"@slice", func(in *Node) *Node { return call("@slice", in, num(-2)) }},
		consumer{"@slice", func(in *Node) *Node { return call("@slice", in, num(1), num(2)) }},
		consumer{"@join", func(in *Node) *Node { return call("@join", in, lit(",")) }},
		consumer{"@join", func(in *Node) *Node { return call("@join", in) }},
	)
	return out
}

// two matches for a program without a group: the compiled program is still
// evaluated more than once, on matches whose (unused) groups differ
func constantMatches(n int) []ctx {
	a := ctx{G: make([]string, n+1), K: caseKeys}
	b := ctx{G: make([]string, n+1), K: caseKeys}
	for i := range b.G {
		b.G[i] = "zz"
	}
	return []ctx{a, b}
}

// realConstant: what the real code returns for a constant argument on its own.
func realConstant(n *Node) (string, bool) {
	if n.K == "lit" {
		return n.S, true
	}
	c := compileCached(n.String())
	if c.cerr != "" {
		return "", false
	}
	got, pan := c.eval(ctx{K: caseKeys})
	return got, pan == ""
}

// twinProgram fills in the matches and the twin of a program whose inner
// helper call is `head` applied to the argument nodes args (nil = dynamic,
// group {p+1} with the values vals[p]); fixed arguments (a constant delimiter)
// are appended to both forms.
func twinProgram(p *program, wrap func(*Node) *Node, head string, args []*Node, vals [][]string, fixed ...*Node) (*Node, []ctx) {
	n := len(args)
	pa := make([]*Node, n)
	ta := make([]*Node, n)
	constVal := make([]string, n)
	twinOK := n > 0
	anyConst := false
	for i, a := range args {
		ta[i] = grp(i + 1)
		if a == nil {
			pa[i] = grp(i + 1)
			continue
		}
		anyConst = true
		pa[i] = a
		v, ok := realConstant(a)
		if !ok {
			twinOK = false // the argument does not evaluate on its own: the model check reports it
		}
		constVal[i] = v
	}
	p.inner = call(head, append(pa, fixed...)...)
	node := wrap(p.inner)
	// the matches: every combination of the values of the groups
	var ctxs, tctxs []ctx
	idx := make([]int, n)
	for {
		g := make([]string, n+1)
		tg := make([]string, n+1)
		for i := range args {
			if args[i] == nil {
				g[i+1] = vals[i][idx[i]]
				tg[i+1] = g[i+1]
			} else {
				tg[i+1] = constVal[i]
			}
		}
		ctxs = append(ctxs, ctx{G: g, K: caseKeys})
		tctxs = append(tctxs, ctx{G: tg, K: caseKeys})
		i := n - 1
		for ; i >= 0; i-- {
			if args[i] != nil {
				continue
			}
			idx[i]++
			if idx[i] < len(vals[i]) {
				break
			}
			idx[i] = 0
		}
		if i < 0 {
			break
		}
	}
	if len(ctxs) == 1 {
		c2 := constantMatches(n)[1]
		ctxs = append(ctxs, c2)
		tctxs = append(tctxs, ctx{G: append([]string{"zz"}, tctxs[0].G[1:]...), K: caseKeys})
	}
	if twinOK && anyConst {
		p.twinInner = call(head, append(ta, fixed...)...)
		p.twin = wrap(p.twinInner)
		p.twinCtxs = tctxs
	}
	return node, ctxs
}

func enumerateArglist(quick bool, f func(p *program) bool) bool {
	allForms := argForms(quick)
	maxArgs := 5
	if quick {
		maxArgs = 4
	}
	cons := listConsumers()
	for _, head := range []string{"$", "@"} {
		for n := 0; n <= maxArgs; n++ {
			if n == 0 && head == "@" {
				continue // "Use {@} for an array of all matches": not a list built from arguments
			}
			// thorough: the longest lists with the argument forms of the quick tier
			forms := allForms
			if !quick && n == maxArgs {
				forms = argForms(true)
			}
			choice := make([]int, n)
			for {
				for _, c := range cons {
					head, c, ch := head, c, append([]int{}, choice...)
					p := &program{family: "arglist"}
					p.build = func() (*Node, []ctx) {
						args := make([]*Node, len(ch))
						vals := make([][]string, len(ch))
						for i, k := range ch {
							if forms[k].node != nil {
								args[i] = forms[k].node(i)
							} else {
								vals[i] = forms[k].group(i)
							}
						}
						return twinProgram(p, c.build, head, args, vals)
					}
					if !f(p) {
						return false
					}
				}
				i := n - 1
				for ; i >= 0; i-- {
					choice[i]++
					if choice[i] < len(forms) {
						break
					}
					choice[i] = 0
				}
				if i < 0 {
					break
				}
			}
		}
	}
	return true
}

// ---- family "delim": the helpers that carry a delimiter ---------------------------

func stringsOver(alpha []string, maxLen int) []string {
	out := []string{""}
	prev := []string{""}
	for l := 1; l <= maxLen; l++ {
		var cur []string
		for _, p := range prev {
			for _, a := range alpha {
				cur = append(cur, p+a)
			}
		}
		out = append(out, cur...)
		prev = cur
	}
	return out
}

func enumerateDelim(quick bool, f func(p *program) bool) bool {
	strLen, listLen := 4, 3
	if quick {
		strLen, listLen = 3, 2
	}
	// @split: the input a constant or a group, the delimiter a constant text or
	// a constant sub-expression; inputs that start and end with the delimiter,
	// hold it twice in a row, are the delimiter, are empty
	inputs := stringsOver([]string{"a", ",", ":"}, strLen)
	for _, d := range []string{",", "::"} {
		d := d
		cons := append(listConsumers(), consumer{"@join", func(in *Node) *Node { return call("@join", in, lit(d)) }})
		dforms := []*Node{lit(d), call("coalesce", lit(""), lit(d))}
		for _, s := range inputs {
			for di, dn := range dforms {
				for _, constInput := range []bool{true, false} {
					if !constInput && di == 0 {
						continue // the twin itself; the family "split" runs it
					}
					for _, c := range cons {
						s, dn, c, constInput := s, dn, c, constInput
						p := &program{family: "delim"}
						p.build = func() (*Node, []ctx) {
							args, vals := []*Node{lit(s)}, [][]string{nil}
							if !constInput {
								args, vals = []*Node{nil}, [][]string{{s}}
							}
							node, ctxs := twinProgram(p, c.build, "@split", args, vals, dn)
							// the twin: the input from a group, the delimiter a constant text
							p.twinInner = call("@split", grp(1), lit(d))
							p.twin = c.build(p.twinInner)
							if p.twinCtxs == nil {
								p.twinCtxs = ctxs
							}
							return node, ctxs
						}
						if !f(p) {
							return false
						}
					}
				}
			}
		}
	}
	// "@split and @join are inverse for any non-empty delimiter": the delimiter
	// taken from the match (the same group for both helpers)
	var rt []ctx
	for _, d := range []string{",", "::", " ", "a"} {
		for _, s := range stringsOver([]string{"a", ",", ":", " "}, strLen) {
			rt = append(rt, ctx{G: []string{"", s, d}, K: caseKeys})
		}
	}
	if !f(&program{family: "delim", node: call("@join", call("@split", grp(1), grp(2)), grp(2)), ctxs: rt}) {
		return false
	}
	// @join: the list a constant sub-expression or a group; the delimiter
	// default, a constant text, empty, a constant sub-expression
	var lists [][]string
	var gen func(pre []string, n int)
	gen = func(pre []string, n int) {
		lists = append(lists, append([]string{}, pre...))
		if n == 0 {
			return
		}
		for _, e := range []string{"", "a", "b"} {
			gen(append(pre, e), n-1)
		}
	}
	gen(nil, listLen)
	type jd struct {
		node *Node // nil: default delimiter
		text string
	}
	for _, d := range []jd{{nil, " "}, {lit(","), ","}, {lit("::"), "::"}, {lit(""), ""}, {call("coalesce", lit(""), lit(",")), ","}} {
		d := d
		cons := []consumer{{"identity", func(in *Node) *Node { return in }}}
		if d.text != "" && d.text != " " {
			cons = append(cons,
				consumer{"@split", func(in *Node) *Node { return call("@split", in, lit(d.text)) }},
				consumer{"@len", func(in *Node) *Node { return call("@len", call("@split", in, lit(d.text))) }},
			)
		}
		for _, l := range lists {
			var constForms []*Node
			switch {
			case len(l) == 0:
				constForms = []*Node{call("@range", num(0)), lit("")}
			default:
				constForms = []*Node{call("@split", lit(strings.Join(l, ";")), lit(";"))}
				if len(l) >= 2 {
					var el []*Node
					for _, e := range l {
						el = append(el, lit(e))
					}
					constForms = append(constForms, call("@", el...))
				}
			}
			for _, cf := range constForms {
				for _, c := range cons {
					cf, c := cf, c
					p := &program{family: "delim"}
					p.build = func() (*Node, []ctx) {
						var fixed []*Node
						if d.node != nil {
							fixed = []*Node{d.node}
						}
						node, ctxs := twinProgram(p, c.build, "@join", []*Node{cf}, [][]string{nil}, fixed...)
						if p.twin != nil && d.node != nil && d.node.K != "lit" {
							p.twinInner = call("@join", grp(1), lit(d.text))
							p.twin = c.build(p.twinInner)
						}
						return node, ctxs
					}
					if !f(p) {
						return false
					}
				}
			}
		}
	}
	return true
}

// ---- the twin and optimiser checks ------------------------------------------------

func compileTemplateNoOpt(tmpl string) *compiled {
	c := &compiled{}
	prime()
	func() {
		defer func() {
			if r := recover(); r != nil {
				c.cpan = fmt.Sprint(r)
			}
		}()
		ckb, err := stdlib.NewStdKeyBuilderEx(false).Compile(tmpl)
		c.ckb = ckb
		if err != nil {
			c.cerr = err.Error()
		}
	}()
	return c
}

var twinMemo = map[string]string{}

// twinResult: the all-dynamic form on the match that binds every group to the
// value of the argument it stands for.
func twinResult(twin *Node, tx ctx) string {
	t := twin.String()
	k := t + "\x01" + strings.Join(tx.G, "\x02")
	if r, ok := twinMemo[k]; ok {
		return r
	}
	if len(twinMemo) > 200000 {
		twinMemo = map[string]string{}
	}
	c := compileCached(t)
	got, pan := c.eval(tx)
	switch {
	case pan != "":
		got = "panic: " + panicClass(pan)
	case c.cerr != "":
		got = "compile error: " + c.cerr
	}
	twinMemo[k] = got
	return got
}

// checkTwin: got is what the optimised program p returned on x (and the model
// accepted). noOpt is p compiled without the optimiser (nil: compile here).
func checkTwin(w *runner.W, p *program, noOpt *compiled, x, tx ctx, got string) bool {
	tmpl := p.node.String()
	if noOpt == nil {
		noOpt = compileTemplateNoOpt(tmpl)
	}
	w.Add("twin_comparisons", 1)
	plain, pan := noOpt.eval(x)
	if pan != "" {
		plain = "panic: " + panicClass(pan)
	} else if noOpt.cerr != "" {
		plain = "compile error: " + noOpt.cerr
	}
	if plain != got {
		// blame the inner helper when it differs on its own
		blamed := p.node
		if p.inner != nil && p.inner != p.node {
			a, _ := compileTemplate(p.inner.String()).eval(x)
			b, _ := compileTemplateNoOpt(p.inner.String()).eval(x)
			if a != b {
				blamed = p.inner
			}
		}
		w.Violation("C17/"+helperName(blamed)+"/optimiser-changes-result",
			fmt.Sprintf("template %s\ngroups %s\ncompiled by NewStdKeyBuilder (optimising) it returned %q = list %s\ncompiled by NewStdKeyBuilderEx(false) it returned %q = list %s",
				tmpl, quoteAll(x.G), got, quoteAll(strings.Split(got, nul)), plain, quoteAll(strings.Split(plain, nul))),
			caseOfTwin(p, x, tx))
		return false
	}
	if p.twin == nil {
		return true
	}
	tw := twinResult(p.twin, tx)
	if tw == got {
		return true
	}
	blamed := p.node
	if p.inner != nil && p.twinInner != nil && p.inner != p.node {
		a, _ := compileCached(p.inner.String()).eval(x)
		if a != twinResult(p.twinInner, tx) {
			blamed = p.inner
		}
	}
	w.Violation("C17/"+helperName(blamed)+"/constant-and-dynamic-arguments-disagree",
		fmt.Sprintf("template %s\ngroups %s\nreturned %q = list %s\nthe same helpers with every constant argument replaced by a group holding that argument's value:\ntemplate %s\ngroups %s\nreturned %q = list %s\n(the list model allows both; the result is defined by the values of the arguments, not by when they are known)",
			tmpl, quoteAll(x.G), got, quoteAll(strings.Split(got, nul)),
			p.twin.String(), quoteAll(tx.G), tw, quoteAll(strings.Split(tw, nul))),
		caseOfTwin(p, x, tx))
	return false
}

func caseOfTwin(p *program, x, tx ctx) Case {
	c := Case{Family: p.family, Template: p.node.String(), Ctx: x, Node: p.node, Inner: p.inner}
	if p.twin != nil {
		c.Twin, c.TwinInner, c.TwinCtx = p.twin, p.twinInner, &tx
	}
	return c
}
