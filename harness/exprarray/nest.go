package main

// Family "nest": array helpers inside the sub-expression of array helpers, up
// to four deep. Every @map/@filter/@reduce/@for takes its sub-context from one
// package-level pool, so an inner helper runs while the outer one holds its
// own sub-context: the outer element ({0}, {1}) and the named keys of the
// enclosing match must still be bound AFTER the inner helper returned inside
// the same sub-expression.

// levels of structure inside one element of the top-level list
var nestDelims = []string{" ", ",", ";"}

// mapJoin: {@join {@map {@split <of> d} <fn>} d}: apply fn to every d-separated part of <of>.
func mapJoin(of *Node, d string, fn *Node) *Node {
	return call("@join", call("@map", call("@split", of, lit(d)), fn), lit(d))
}

// deepMap: @map nested depth deep; the innermost sub-expression is leaf, and
// at every level the text `after` (which may use {0} and named keys) follows
// the inner helper inside the same sub-expression.
func deepMap(depth int, leaf *Node, after func(level int) []*Node) *Node {
	// level 0 is the outermost @map over the NUL-separated list {0}
	var sub func(level int) *Node
	sub = func(level int) *Node {
		if level == depth-1 {
			return leaf
		}
		inner := mapJoin(grp(0), nestDelims[level], sub(level+1))
		if after == nil {
			return inner
		}
		return cat(append([]*Node{inner}, after(level)...)...)
	}
	return call("@map", grp(0), sub(0))
}

// nestPrograms: the programs of the family; every one works on the list {0}.
func nestPrograms() []*Node {
	keyLeaf := cat(grp(0), key("k"))
	afterElemKey := func(level int) []*Node { return []*Node{lit("|"), grp(0), key("k")} }
	afterKeyOnly := func(level int) []*Node { return []*Node{lit("/"), key("e")} }
	var out []*Node
	for depth := 2; depth <= 4; depth++ {
		out = append(out,
			deepMap(depth, keyLeaf, nil),
			deepMap(depth, call("upper", grp(0)), afterElemKey),
			deepMap(depth, keyLeaf, afterKeyOnly),
			deepMap(depth, call("len", grp(0)), afterElemKey),
		)
	}
	words := call("@split", grp(0), lit(" "))
	out = append(out,
		// the outer element after an inner helper that used no sub-context of its own
		call("@map", grp(0), cat(call("@len", words), lit(":"), grp(0), lit(":"), key("k"))),
		// ... after an inner @map, @filter, @reduce
		call("@map", grp(0), cat(call("@join", call("@map", words, call("upper", grp(0))), lit("+")), lit(":"), grp(0), key("k"))),
		call("@map", grp(0), cat(call("@join", call("@filter", words, call("eq", grp(0), key("e"))), lit("+")), lit(":"), grp(0), key("k"))),
		call("@map", grp(0), cat(call("@reduce", words, cat(grp(1), grp(0))), lit(":"), grp(0), key("k"))),
		call("@map", grp(0), call("sumi", call("@reduce", call("@map", words, call("len", grp(0))), call("sumi", grp(0), grp(1))), call("len", grp(0)))),
		// inside @filter: the element is tested after an inner helper ran
		call("@filter", grp(0), call("if", call("@len", call("@filter", words, grp(0))), call("eq", grp(0), key("e")), lit("1"))),
		call("@filter", grp(0), call("eq", call("@join", call("@map", words, grp(0)), lit(" ")), grp(0))),
		// inside @reduce: memo {0} and element {1} after an inner @map / @reduce
		call("@reduce", grp(0), cat(call("@len", call("@map", call("@split", grp(1), lit(" ")), call("upper", grp(0)))), lit("<"), grp(0), lit("|"), grp(1), lit(">"), key("k"))),
		call("@reduce", grp(0), cat(call("@reduce", call("@split", grp(1), lit(" ")), cat(grp(0), lit("+"), grp(1))), lit("<"), grp(0), lit("|"), grp(1), lit(">"))),
		call("@reduce", grp(0), cat(call("@join", call("@map", call("@split", grp(0), lit("|")), cat(grp(0), key("e"))), lit("|")), lit("<"), grp(1), lit(">")), lit("I")),
		// inner @reduce inside @map inside @map
		call("@map", grp(0), mapJoin(grp(0), " ", cat(call("@reduce", call("@split", grp(0), lit(",")), cat(grp(1), lit("."), grp(0))), lit("="), grp(0), key("k")))),
		// @for whose increment and condition run inner helpers, then use {0}/{1}
		call("@for", lit("a b"), call("lt", call("sumi", call("@len", call("@split", grp(0), lit(" "))), grp(1)), num(6)),
			cat(call("@join", call("@map", call("@split", grp(0), lit(" ")), call("upper", grp(0))), lit(" ")), lit("_c"), grp(1))),
		// @for inside @map: the loop's sub-context nests inside the mapper's
		call("@map", grp(0), cat(call("@join", call("@for", grp(0), call("lt", grp(1), num(2)), cat(grp(0), key("k"))), lit("+")), lit(":"), grp(0))),
	)
	return out
}

// structured elements for the nest programs: words, comma and semicolon lists
var nestElems = []string{"", "a", "b b", "a,b c", "x;y,z w", "a b;c", "1 22 333"}

func nestLists(maxLen int) [][]string {
	out := [][]string{{}}
	prev := [][]string{{}}
	for l := 1; l <= maxLen; l++ {
		var cur [][]string
		for _, p := range prev {
			for _, e := range nestElems {
				cur = append(cur, append(append([]string{}, p...), e))
			}
		}
		out = append(out, cur...)
		prev = cur
	}
	return out
}

func enumerateNest(quick bool, f func(p *program) bool) bool {
	maxLen := 3
	if quick {
		maxLen = 2
	}
	var cs []ctx
	for _, l := range nestLists(maxLen) {
		cs = append(cs, listCtx(l, " "))
	}
	for _, l := range allLists(2) {
		cs = append(cs, listCtx(l, " "))
	}
	for _, n := range nestPrograms() {
		if !f(&program{family: "nest", node: n, ctxs: cs}) {
			return false
		}
		for _, outer := range []func(*Node) *Node{
			func(in *Node) *Node { return call("@len", in) },
			func(in *Node) *Node { return call("@join", in, lit("#")) },
			func(in *Node) *Node { return call("@select", in, num(1)) },
		} {
			if !f(&program{family: "nest", node: outer(n), ctxs: cs}) {
				return false
			}
		}
	}
	return true
}
