package main

// ZONE-NAME family: the tz argument ranges over every zone NAME the process can
// load ("forall zones {utc, fixed-offset and DST IANA zones available on the
// host}"), not only over a handful of zone shapes. The names are the union of
//   - staticZoneNames: the 598 names of the IANA database 2025b (main and
//     backward files: Area/City, Etc/*, the legacy short names EST MST HST
//     EST5EDT CST6CDT MST7MDT PST8PDT WET CET MET EET UTC GMT ..., country and
//     US/* links), which the embedded time/tzdata resolves on any host, and
//   - every file below the host's zoneinfo directory (the first that exists of
//     $ZONEINFO and the directories package time searches), thorough tier:
//     including its posix/ and right/ trees.
// A name is a "supported time zone" when time.LoadLocation(name) - the very
// lookup the documentation promises ("a valid IANA Time Zone") - succeeds in
// this process; a name it rejects is counted and not judged (the statement says
// nothing about names outside the database). What the name MEANS is taken from
// that lookup: the reference asks the loaded location for offset/abbreviation at
// a unix second and computes every calendar field itself (calendar.go).

import (
	"io/fs"
	"os"
	"path/filepath"
	"sort"
	"strings"
	"time"
)

var staticZoneNames = []string{
	"Africa/Abidjan", "Africa/Accra", "Africa/Addis_Ababa", "Africa/Algiers", "Africa/Asmara", "Africa/Asmera", "Africa/Bamako", "Africa/Bangui",
	"Africa/Banjul", "Africa/Bissau", "Africa/Blantyre", "Africa/Brazzaville", "Africa/Bujumbura", "Africa/Cairo", "Africa/Casablanca", "Africa/Ceuta",
	"Africa/Conakry", "Africa/Dakar", "Africa/Dar_es_Salaam", "Africa/Djibouti", "Africa/Douala", "Africa/El_Aaiun", "Africa/Freetown",
	"Africa/Gaborone", "Africa/Harare", "Africa/Johannesburg", "Africa/Juba", "Africa/Kampala", "Africa/Khartoum", "Africa/Kigali", "Africa/Kinshasa",
	"Africa/Lagos", "Africa/Libreville", "Africa/Lome", "Africa/Luanda", "Africa/Lubumbashi", "Africa/Lusaka", "Africa/Malabo", "Africa/Maputo",
	"Africa/Maseru", "Africa/Mbabane", "Africa/Mogadishu", "Africa/Monrovia", "Africa/Nairobi", "Africa/Ndjamena", "Africa/Niamey", "Africa/Nouakchott",
	"Africa/Ouagadougou", "Africa/Porto-Novo", "Africa/Sao_Tome", "Africa/Timbuktu", "Africa/Tripoli", "Africa/Tunis", "Africa/Windhoek",
	"America/Adak", "America/Anchorage", "America/Anguilla", "America/Antigua", "America/Araguaina", "America/Argentina/Buenos_Aires",
	"America/Argentina/Catamarca", "America/Argentina/ComodRivadavia", "America/Argentina/Cordoba", "America/Argentina/Jujuy",
	"America/Argentina/La_Rioja", "America/Argentina/Mendoza", "America/Argentina/Rio_Gallegos", "America/Argentina/Salta",
	"America/Argentina/San_Juan", "America/Argentina/San_Luis", "America/Argentina/Tucuman", "America/Argentina/Ushuaia", "America/Aruba",
	"America/Asuncion", "America/Atikokan", "America/Atka", "America/Bahia", "America/Bahia_Banderas", "America/Barbados", "America/Belem",
	"America/Belize", "America/Blanc-Sablon", "America/Boa_Vista", "America/Bogota", "America/Boise", "America/Buenos_Aires", "America/Cambridge_Bay",
	"America/Campo_Grande", "America/Cancun", "America/Caracas", "America/Catamarca", "America/Cayenne", "America/Cayman", "America/Chicago",
	"America/Chihuahua", "America/Ciudad_Juarez", "America/Coral_Harbour", "America/Cordoba", "America/Costa_Rica", "America/Coyhaique",
	"America/Creston", "America/Cuiaba", "America/Curacao", "America/Danmarkshavn", "America/Dawson", "America/Dawson_Creek", "America/Denver",
	"America/Detroit", "America/Dominica", "America/Edmonton", "America/Eirunepe", "America/El_Salvador", "America/Ensenada", "America/Fort_Nelson",
	"America/Fort_Wayne", "America/Fortaleza", "America/Glace_Bay", "America/Godthab", "America/Goose_Bay", "America/Grand_Turk", "America/Grenada",
	"America/Guadeloupe", "America/Guatemala", "America/Guayaquil", "America/Guyana", "America/Halifax", "America/Havana", "America/Hermosillo",
	"America/Indiana/Indianapolis", "America/Indiana/Knox", "America/Indiana/Marengo", "America/Indiana/Petersburg", "America/Indiana/Tell_City",
	"America/Indiana/Vevay", "America/Indiana/Vincennes", "America/Indiana/Winamac", "America/Indianapolis", "America/Inuvik", "America/Iqaluit",
	"America/Jamaica", "America/Jujuy", "America/Juneau", "America/Kentucky/Louisville", "America/Kentucky/Monticello", "America/Knox_IN",
	"America/Kralendijk", "America/La_Paz", "America/Lima", "America/Los_Angeles", "America/Louisville", "America/Lower_Princes", "America/Maceio",
	"America/Managua", "America/Manaus", "America/Marigot", "America/Martinique", "America/Matamoros", "America/Mazatlan", "America/Mendoza",
	"America/Menominee", "America/Merida", "America/Metlakatla", "America/Mexico_City", "America/Miquelon", "America/Moncton", "America/Monterrey",
	"America/Montevideo", "America/Montreal", "America/Montserrat", "America/Nassau", "America/New_York", "America/Nipigon", "America/Nome",
	"America/Noronha", "America/North_Dakota/Beulah", "America/North_Dakota/Center", "America/North_Dakota/New_Salem", "America/Nuuk",
	"America/Ojinaga", "America/Panama", "America/Pangnirtung", "America/Paramaribo", "America/Phoenix", "America/Port-au-Prince",
	"America/Port_of_Spain", "America/Porto_Acre", "America/Porto_Velho", "America/Puerto_Rico", "America/Punta_Arenas", "America/Rainy_River",
	"America/Rankin_Inlet", "America/Recife", "America/Regina", "America/Resolute", "America/Rio_Branco", "America/Rosario", "America/Santa_Isabel",
	"America/Santarem", "America/Santiago", "America/Santo_Domingo", "America/Sao_Paulo", "America/Scoresbysund", "America/Shiprock", "America/Sitka",
	"America/St_Barthelemy", "America/St_Johns", "America/St_Kitts", "America/St_Lucia", "America/St_Thomas", "America/St_Vincent",
	"America/Swift_Current", "America/Tegucigalpa", "America/Thule", "America/Thunder_Bay", "America/Tijuana", "America/Toronto", "America/Tortola",
	"America/Vancouver", "America/Virgin", "America/Whitehorse", "America/Winnipeg", "America/Yakutat", "America/Yellowknife", "Antarctica/Casey",
	"Antarctica/Davis", "Antarctica/DumontDUrville", "Antarctica/Macquarie", "Antarctica/Mawson", "Antarctica/McMurdo", "Antarctica/Palmer",
	"Antarctica/Rothera", "Antarctica/South_Pole", "Antarctica/Syowa", "Antarctica/Troll", "Antarctica/Vostok", "Arctic/Longyearbyen", "Asia/Aden",
	"Asia/Almaty", "Asia/Amman", "Asia/Anadyr", "Asia/Aqtau", "Asia/Aqtobe", "Asia/Ashgabat", "Asia/Ashkhabad", "Asia/Atyrau", "Asia/Baghdad",
	"Asia/Bahrain", "Asia/Baku", "Asia/Bangkok", "Asia/Barnaul", "Asia/Beirut", "Asia/Bishkek", "Asia/Brunei", "Asia/Calcutta", "Asia/Chita",
	"Asia/Choibalsan", "Asia/Chongqing", "Asia/Chungking", "Asia/Colombo", "Asia/Dacca", "Asia/Damascus", "Asia/Dhaka", "Asia/Dili", "Asia/Dubai",
	"Asia/Dushanbe", "Asia/Famagusta", "Asia/Gaza", "Asia/Harbin", "Asia/Hebron", "Asia/Ho_Chi_Minh", "Asia/Hong_Kong", "Asia/Hovd", "Asia/Irkutsk",
	"Asia/Istanbul", "Asia/Jakarta", "Asia/Jayapura", "Asia/Jerusalem", "Asia/Kabul", "Asia/Kamchatka", "Asia/Karachi", "Asia/Kashgar",
	"Asia/Kathmandu", "Asia/Katmandu", "Asia/Khandyga", "Asia/Kolkata", "Asia/Krasnoyarsk", "Asia/Kuala_Lumpur", "Asia/Kuching", "Asia/Kuwait",
	"Asia/Macao", "Asia/Macau", "Asia/Magadan", "Asia/Makassar", "Asia/Manila", "Asia/Muscat", "Asia/Nicosia", "Asia/Novokuznetsk", "Asia/Novosibirsk",
	"Asia/Omsk", "Asia/Oral", "Asia/Phnom_Penh", "Asia/Pontianak", "Asia/Pyongyang", "Asia/Qatar", "Asia/Qostanay", "Asia/Qyzylorda", "Asia/Rangoon",
	"Asia/Riyadh", "Asia/Saigon", "Asia/Sakhalin", "Asia/Samarkand", "Asia/Seoul", "Asia/Shanghai", "Asia/Singapore", "Asia/Srednekolymsk",
	"Asia/Taipei", "Asia/Tashkent", "Asia/Tbilisi", "Asia/Tehran", "Asia/Tel_Aviv", "Asia/Thimbu", "Asia/Thimphu", "Asia/Tokyo", "Asia/Tomsk",
	"Asia/Ujung_Pandang", "Asia/Ulaanbaatar", "Asia/Ulan_Bator", "Asia/Urumqi", "Asia/Ust-Nera", "Asia/Vientiane", "Asia/Vladivostok", "Asia/Yakutsk",
	"Asia/Yangon", "Asia/Yekaterinburg", "Asia/Yerevan", "Atlantic/Azores", "Atlantic/Bermuda", "Atlantic/Canary", "Atlantic/Cape_Verde",
	"Atlantic/Faeroe", "Atlantic/Faroe", "Atlantic/Jan_Mayen", "Atlantic/Madeira", "Atlantic/Reykjavik", "Atlantic/South_Georgia", "Atlantic/St_Helena",
	"Atlantic/Stanley", "Australia/ACT", "Australia/Adelaide", "Australia/Brisbane", "Australia/Broken_Hill", "Australia/Canberra", "Australia/Currie",
	"Australia/Darwin", "Australia/Eucla", "Australia/Hobart", "Australia/LHI", "Australia/Lindeman", "Australia/Lord_Howe", "Australia/Melbourne",
	"Australia/NSW", "Australia/North", "Australia/Perth", "Australia/Queensland", "Australia/South", "Australia/Sydney", "Australia/Tasmania",
	"Australia/Victoria", "Australia/West", "Australia/Yancowinna", "Brazil/Acre", "Brazil/DeNoronha", "Brazil/East", "Brazil/West", "CET", "CST6CDT",
	"Canada/Atlantic", "Canada/Central", "Canada/Eastern", "Canada/Mountain", "Canada/Newfoundland", "Canada/Pacific", "Canada/Saskatchewan",
	"Canada/Yukon", "Chile/Continental", "Chile/EasterIsland", "Cuba", "EET", "EST", "EST5EDT", "Egypt", "Eire", "Etc/GMT", "Etc/GMT+0", "Etc/GMT+1",
	"Etc/GMT+10", "Etc/GMT+11", "Etc/GMT+12", "Etc/GMT+2", "Etc/GMT+3", "Etc/GMT+4", "Etc/GMT+5", "Etc/GMT+6", "Etc/GMT+7", "Etc/GMT+8", "Etc/GMT+9",
	"Etc/GMT-0", "Etc/GMT-1", "Etc/GMT-10", "Etc/GMT-11", "Etc/GMT-12", "Etc/GMT-13", "Etc/GMT-14", "Etc/GMT-2", "Etc/GMT-3", "Etc/GMT-4", "Etc/GMT-5",
	"Etc/GMT-6", "Etc/GMT-7", "Etc/GMT-8", "Etc/GMT-9", "Etc/GMT0", "Etc/Greenwich", "Etc/UCT", "Etc/UTC", "Etc/Universal", "Etc/Zulu",
	"Europe/Amsterdam", "Europe/Andorra", "Europe/Astrakhan", "Europe/Athens", "Europe/Belfast", "Europe/Belgrade", "Europe/Berlin",
	"Europe/Bratislava", "Europe/Brussels", "Europe/Bucharest", "Europe/Budapest", "Europe/Busingen", "Europe/Chisinau", "Europe/Copenhagen",
	"Europe/Dublin", "Europe/Gibraltar", "Europe/Guernsey", "Europe/Helsinki", "Europe/Isle_of_Man", "Europe/Istanbul", "Europe/Jersey",
	"Europe/Kaliningrad", "Europe/Kiev", "Europe/Kirov", "Europe/Kyiv", "Europe/Lisbon", "Europe/Ljubljana", "Europe/London", "Europe/Luxembourg",
	"Europe/Madrid", "Europe/Malta", "Europe/Mariehamn", "Europe/Minsk", "Europe/Monaco", "Europe/Moscow", "Europe/Nicosia", "Europe/Oslo",
	"Europe/Paris", "Europe/Podgorica", "Europe/Prague", "Europe/Riga", "Europe/Rome", "Europe/Samara", "Europe/San_Marino", "Europe/Sarajevo",
	"Europe/Saratov", "Europe/Simferopol", "Europe/Skopje", "Europe/Sofia", "Europe/Stockholm", "Europe/Tallinn", "Europe/Tirane", "Europe/Tiraspol",
	"Europe/Ulyanovsk", "Europe/Uzhgorod", "Europe/Vaduz", "Europe/Vatican", "Europe/Vienna", "Europe/Vilnius", "Europe/Volgograd", "Europe/Warsaw",
	"Europe/Zagreb", "Europe/Zaporozhye", "Europe/Zurich", "Factory", "GB", "GB-Eire", "GMT", "GMT+0", "GMT-0", "GMT0", "Greenwich", "HST", "Hongkong",
	"Iceland", "Indian/Antananarivo", "Indian/Chagos", "Indian/Christmas", "Indian/Cocos", "Indian/Comoro", "Indian/Kerguelen", "Indian/Mahe",
	"Indian/Maldives", "Indian/Mauritius", "Indian/Mayotte", "Indian/Reunion", "Iran", "Israel", "Jamaica", "Japan", "Kwajalein", "Libya", "MET", "MST",
	"MST7MDT", "Mexico/BajaNorte", "Mexico/BajaSur", "Mexico/General", "NZ", "NZ-CHAT", "Navajo", "PRC", "PST8PDT", "Pacific/Apia", "Pacific/Auckland",
	"Pacific/Bougainville", "Pacific/Chatham", "Pacific/Chuuk", "Pacific/Easter", "Pacific/Efate", "Pacific/Enderbury", "Pacific/Fakaofo",
	"Pacific/Fiji", "Pacific/Funafuti", "Pacific/Galapagos", "Pacific/Gambier", "Pacific/Guadalcanal", "Pacific/Guam", "Pacific/Honolulu",
	"Pacific/Johnston", "Pacific/Kanton", "Pacific/Kiritimati", "Pacific/Kosrae", "Pacific/Kwajalein", "Pacific/Majuro", "Pacific/Marquesas",
	"Pacific/Midway", "Pacific/Nauru", "Pacific/Niue", "Pacific/Norfolk", "Pacific/Noumea", "Pacific/Pago_Pago", "Pacific/Palau", "Pacific/Pitcairn",
	"Pacific/Pohnpei", "Pacific/Ponape", "Pacific/Port_Moresby", "Pacific/Rarotonga", "Pacific/Saipan", "Pacific/Samoa", "Pacific/Tahiti",
	"Pacific/Tarawa", "Pacific/Tongatapu", "Pacific/Truk", "Pacific/Wake", "Pacific/Wallis", "Pacific/Yap", "Poland", "Portugal", "ROC", "ROK",
	"Singapore", "Turkey", "UCT", "US/Alaska", "US/Aleutian", "US/Arizona", "US/Central", "US/East-Indiana", "US/Eastern", "US/Hawaii",
	"US/Indiana-Starke", "US/Michigan", "US/Mountain", "US/Pacific", "US/Samoa", "UTC", "Universal", "W-SU", "WET", "Zulu",
}

// hostZoneDirs: where package time looks on unix hosts (zoneinfo_unix.go), after $ZONEINFO.
var hostZoneDirs = []string{"/usr/share/zoneinfo", "/usr/share/lib/zoneinfo", "/usr/lib/locale/TZ", "/etc/zoneinfo"}

func hostZoneFiles() []string {
	dirs := hostZoneDirs
	if zi := os.Getenv("ZONEINFO"); zi != "" {
		dirs = append([]string{zi}, dirs...)
	}
	for _, root := range dirs {
		st, err := os.Stat(root)
		if err != nil || !st.IsDir() {
			continue
		}
		root = filepath.Clean(root)
		var names []string
		filepath.WalkDir(root, func(p string, d fs.DirEntry, err error) error {
			if err != nil || d.IsDir() {
				return nil
			}
			names = append(names, filepath.ToSlash(strings.TrimPrefix(p, root+string(filepath.Separator))))
			return nil
		})
		return names
	}
	return nil
}

// zoneNameCandidates: sorted, without duplicates. Quick leaves out the host's
// posix/ and right/ copies of the database.
func zoneNameCandidates(quick bool) []string {
	seen := map[string]bool{}
	var out []string
	for _, list := range [][]string{staticZoneNames, hostZoneFiles()} {
		for _, n := range list {
			if quick && (strings.HasPrefix(n, "posix/") || strings.HasPrefix(n, "right/")) {
				continue
			}
			if n == "" || strings.ContainsAny(n, "\"{}\\ \t\n") { // cannot be written as one quoted argument
				continue
			}
			if !seen[n] {
				seen[n] = true
				out = append(out, n)
			}
		}
	}
	sort.Strings(out)
	return out
}

// namedZone: the zone a name denotes on this host, nil when the database has no such name.
func namedZone(name string) *zone {
	loc, err := time.LoadLocation(name)
	if err != nil {
		return nil
	}
	return &zone{label: name, arg: name, iana: name, loc: loc}
}

// nameClass: the class of zone name a signature carries (never the name itself).
func nameClass(name string) string {
	switch {
	case strings.HasPrefix(name, "posix/") || strings.HasPrefix(name, "right/"):
		return "posix-or-right-tree-name"
	case strings.HasPrefix(name, "Etc/"):
		return "etc-name"
	case strings.Contains(name, "/"):
		return "area-city-name"
	}
	for i := 0; i < len(name); i++ {
		if name[i] >= 'a' && name[i] <= 'z' {
			return "single-word-name" // Cuba, Japan, Zulu, GB-Eire, ...
		}
	}
	return "abbreviation-like-name" // EST, MST7MDT, CET, GMT+0, UTC, PRC, NZ, W-SU, ...
}

// nameProbes: the instants a zone name is probed at. The grid separates zones
// whose rules differ (northern/southern daylight saving, fixed offset, US vs EU
// change-over weeks, rules before and after 1987/2007); the roll-over instants
// lie in the last and the first local hour of a day that ends a quarter, a year
// or an ISO week, where an offset that is an hour (or half an hour) off changes
// weekday, week, quarter and the day/month/year bucket.
func nameProbes(z *zone, quick bool) []int64 {
	var out []int64
	add := func(u int64) {
		if u >= firstSecond && u <= lastSecond {
			out = append(out, u)
		}
	}
	for y := 1970; y <= 2100; y++ {
		grid := !quick || y%4 == 2 || y == 2007 || y == 2100
		if grid {
			if quick {
				for _, md := range [][2]int{{1, 15}, {3, 20}, {4, 15}, {7, 15}, {10, 15}, {11, 2}} {
					add(time.Date(y, time.Month(md[0]), md[1], 12, 0, 0, 0, time.UTC).Unix())
				}
			} else {
				for m := 1; m <= 12; m++ {
					add(time.Date(y, time.Month(m), 15, 12, 0, 0, 0, time.UTC).Unix())
				}
				add(time.Date(y, 3, 20, 12, 0, 0, 0, time.UTC).Unix())
				add(time.Date(y, 11, 2, 12, 0, 0, 0, time.UTC).Unix())
			}
		}
		roll := y == 1970 || y == 1987 || y == 2006 || y == 2007 || y == 2024 || y == 2038 || y == 2100
		if !quick && y%4 == 0 {
			roll = true
		}
		if !roll {
			continue
		}
		days := [][2]int{{3, 31}, {6, 30}, {9, 30}, {12, 31}}
		for _, m := range []int{1, 7} { // the Sunday on or after the 15th: last day of an ISO week
			wd := int(time.Date(y, time.Month(m), 15, 12, 0, 0, 0, time.UTC).Weekday())
			days = append(days, [2]int{m, 15 + (7-wd)%7})
		}
		for _, md := range days {
			// local wall clock -> unix second through the zone database (enumeration only)
			add(time.Date(y, time.Month(md[0]), md[1], 23, 30, 0, 0, z.loc).Unix())
			add(time.Date(y, time.Month(md[0]), md[1], 23, 59, 59, 0, z.loc).Unix())
			add(time.Date(y, time.Month(md[0]), md[1]+1, 0, 0, 0, 0, z.loc).Unix())
			add(time.Date(y, time.Month(md[0]), md[1]+1, 0, 30, 0, 0, z.loc).Unix())
		}
	}
	sort.Slice(out, func(i, j int) bool { return out[i] < out[j] })
	k := 0
	for i, u := range out {
		if i == 0 || u != out[k-1] {
			out[k] = u
			k++
		}
	}
	return out[:k]
}
