package main

// ZONE-HISTORY family: the ORDER in which one process sees tz arguments.
//
// Every other family compiles valid zone names only, and a compiled expression
// is fresh per block - so anything the helpers remember BETWEEN expressions
// about a tz argument (a process-wide lookup table, a remembered failure, a
// "last zone" slot, a key that folds two spellings into one) is never
// exercised. Here one case is one PROCESS: the harness re-executes itself
// (environment variable historyEnv), and that fresh process does nothing but
// compile and evaluate, step by step, the time helpers with the tz arguments
// of one sequence. Package-level state of rare therefore starts clean for every
// sequence, and the verdict on a sequence depends on nothing but the sequence.
//
// Alphabet of tz arguments: per base zone (America/New_York, Europe/Berlin,
// Asia/Kolkata, EST, UTC, Etc/GMT+5) the exact name and spellings next to it
// (lower case, UPPER case, every path segment Title-cased, first / last segment
// lower-cased, one letter mistyped, a blank in front / behind, the last
// character missing, the first / the last path segment alone, and the names of
// the database the base is a prefix or suffix of or that are a prefix or suffix
// of it - Etc/GMT, EST5EDT, Etc/UTC) plus the argument omitted, "", local,
// LOCAL, Local.
//
// Oracle. The statement quantifies over "every instant and supported time
// zone"; the documentation: "The following values are accepted for a tz
// (timezone): utc, local, or a valid IANA Time Zone", default utc.
//  (1) A step whose tz argument is supported - omitted, "", utc, local, or a
//      name time.LoadLocation resolves in THIS process - must compile and must
//      report the calendar fields of the probe instants in that zone (the whole
//      per-instant oracle of checkInstant: timeformat, time round trip, time on
//      offset-less text, buckettime, timeattr), whatever came before it in the
//      process: the same (expression, input) gives the same output in a fresh
//      process and after any history.
//  (2) What a step with any other spelling yields is not judged (the statement
//      and the documentation do not say that a mis-cased name must be refused
//      or accepted; a panic is reported) - it is executed for what it leaves
//      behind.
//  (3) Two spellings that resolve to different zones must not be conflated:
//      follows from (1), the reference of each step is its own lookup.
// Which zone a spelling denotes is decided by package time alone, never by rare.

import (
	"bytes"
	"context"
	"encoding/hex"
	"encoding/json"
	"fmt"
	"hash/fnv"
	"os"
	"os/exec"
	"sort"
	"strings"
	"time"
)

const (
	historyEnv = "VERIF_EXPRTIME_ZONE_HISTORY"
	tzOmitted  = "<tz-argument-omitted>"
)

var histBases = []string{"America/New_York", "Europe/Berlin", "Asia/Kolkata", "EST", "UTC", "Etc/GMT+5"}

// the spellings every base zone is combined with
var histGlobals = []string{tzOmitted, "", "local", "LOCAL", "Local"}

func titleSegments(s string) string {
	segs := strings.Split(s, "/")
	for i, g := range segs {
		if g != "" {
			segs[i] = strings.ToUpper(g[:1]) + strings.ToLower(g[1:])
		}
	}
	return strings.Join(segs, "/")
}

// mistyped: the last letter of the name replaced by another one.
func mistyped(s string) string {
	b := []byte(s)
	for i := len(b) - 1; i >= 0; i-- {
		c := b[i]
		if (c >= 'a' && c <= 'z') || (c >= 'A' && c <= 'Z') {
			if c == 'x' || c == 'X' {
				b[i] = 'q'
			} else if c >= 'a' {
				b[i] = 'x'
			} else {
				b[i] = 'X'
			}
			break
		}
	}
	return string(b)
}

// relatedNames: the names of the compiled-in database list that the base is a
// proper prefix/suffix of, or that are a proper prefix/suffix of the base.
func relatedNames(base string) []string {
	var out []string
	for _, n := range staticZoneNames {
		if n == base {
			continue
		}
		if strings.HasPrefix(n, base) || strings.HasSuffix(n, base) || strings.HasPrefix(base, n) || strings.HasSuffix(base, n) {
			out = append(out, n)
		}
	}
	sort.Strings(out)
	if len(out) > 2 {
		out = out[:2]
	}
	return out
}

func dedupe(l []string) []string {
	seen := map[string]bool{}
	var out []string
	for _, s := range l {
		if !seen[s] {
			seen[s] = true
			out = append(out, s)
		}
	}
	return out
}

// histSpellings: every spelling of the alphabet that belongs to one base zone,
// the exact name first. core: {exact, lower, UPPER, one more case variant, typo}
// (fewer where two of them coincide); rel: the related names of the database.
func histSpellings(base string) (all, core, rel []string) {
	lower, upper, title := strings.ToLower(base), strings.ToUpper(base), titleSegments(base)
	all = []string{base, lower, upper, title}
	variant := title // a case variant that differs from the exact name and from lower/UPPER where there is one
	if i := strings.IndexByte(base, '/'); i >= 0 {
		j := strings.LastIndexByte(base, '/')
		firstLower := strings.ToLower(base[:i]) + base[i:]
		lastLower := base[:j+1] + strings.ToLower(base[j+1:])
		all = append(all, firstLower, lastLower)
		if variant == base {
			variant = firstLower
		}
	}
	typo := mistyped(base)
	all = append(all, typo, " "+base, base+" ", base[:len(base)-1])
	if i := strings.IndexByte(base, '/'); i >= 0 {
		all = append(all, base[:i], base[strings.LastIndexByte(base, '/')+1:])
	}
	rel = relatedNames(base)
	all = append(all, rel...)
	return dedupe(all), dedupe([]string{base, lower, upper, variant, typo}), rel
}

func histWholeAlphabet() []string {
	var whole []string
	for _, b := range histBases {
		all, _, _ := histSpellings(b)
		whole = append(whole, all...)
	}
	return dedupe(append(append(whole, histGlobals...), "utc"))
}

// histSequences enumerates the sequences of the tier, each once, in a fixed
// order; thorough enumerates a superset of quick.
//
//	quick:    per base zone every ordered pair over all its spellings + the
//	          globals + utc; every ordered pair over {exact, lower} of all six
//	          bases + their related names; per base zone every triple over
//	          {exact, lower, UPPER, one more case variant, typo, omitted}
//	thorough: additionally every ordered pair over the whole alphabet; per base
//	          zone every triple over those six + {blank in front, first related
//	          name, utc, local} and every 4-sequence over the six; every triple
//	          over {exact, lower, UPPER} of all six bases + {omitted, utc}
func histSequences(quick bool, f func(args []string) bool) {
	seen := map[string]bool{}
	stop := false
	emit := func(args []string) {
		if stop {
			return
		}
		k := strings.Join(args, "\x00")
		if seen[k] {
			return
		}
		seen[k] = true
		if !f(append([]string{}, args...)) {
			stop = true
		}
	}
	var product func(alpha []string, depth int, prefix []string)
	product = func(alpha []string, depth int, prefix []string) {
		if stop {
			return
		}
		if depth == 0 {
			emit(prefix)
			return
		}
		for _, a := range alpha {
			product(alpha, depth-1, append(prefix, a))
		}
	}
	var crossPairs, crossTriples []string
	for _, b := range histBases {
		all, core, rel := histSpellings(b)
		product(dedupe(append(append(all, histGlobals...), "utc")), 2, nil)
		crossPairs = append(append(crossPairs, b, strings.ToLower(b)), rel...)
		crossTriples = append(crossTriples, b, strings.ToLower(b), strings.ToUpper(b))
		product(dedupe(append(core, tzOmitted)), 3, nil)
	}
	product(dedupe(crossPairs), 2, nil)
	if quick {
		return
	}
	product(histWholeAlphabet(), 2, nil)
	for _, b := range histBases {
		_, core, rel := histSpellings(b)
		wide := append(append([]string{}, core...), tzOmitted, " "+b, "utc", "local")
		if len(rel) > 0 {
			wide = append(wide, rel[0])
		}
		product(dedupe(wide), 3, nil)
		product(dedupe(append(core, tzOmitted)), 4, nil)
	}
	product(dedupe(append(crossTriples, tzOmitted, "utc")), 3, nil)
}

// histRot: which helper is compiled first at every step (the others follow in
// turn) - a function of the sequence, so that it does not depend on the tier.
func histRot(args []string) int {
	h := fnv.New32a()
	for _, a := range args {
		h.Write([]byte(a))
		h.Write([]byte{0})
	}
	return int(h.Sum32() % 4)
}

// ---- the reference: which zone a tz argument denotes --------------------------

// histRefZone: nil when the argument is not a supported zone in this process.
func histRefZone(arg string) *zone {
	switch arg {
	case tzOmitted, "", "utc": // "[tz:utc]", "utc"
		return &zone{label: arg, iana: "UTC", loc: time.UTC}
	case "local": // "local"; time.Local is pinned by setGlobals
		return &zone{label: arg, iana: localIANA, loc: time.Local}
	}
	loc, err := time.LoadLocation(arg) // "a valid IANA Time Zone"
	if err != nil {
		return nil
	}
	return &zone{label: arg, iana: arg, loc: loc}
}

func histTzText(arg string) string {
	if arg == tzOmitted {
		return ""
	}
	return " " + q(arg)
}

// the templates of one step: every helper, every attribute, formats that show
// date, clock, offset and the hour alone, an hour and a day bucket, one
// offset-less text.
var histSel = &progSel{
	formats:    map[string]bool{"RFC3339": true, "NGINX": true, "HOUR": true, "DAY": true},
	buckets:    map[string]bool{"h": true, "day": true},
	offsetless: []string{"iso-space"},
}

var histHelpers = []string{"timeformat", "time", "buckettime", "timeattr"}

// buildHistProgs compiles the step's templates helper by helper, starting with
// helper number rot.
func buildHistProgs(z *zone, tz string, rot int) *zoneProgs {
	zp := &zoneProgs{z: z}
	zp.tf = make([]*prog, len(namedFormats))
	zp.tp = make([][2]*prog, len(namedFormats))
	zp.bt = make([]*prog, len(bucketNames))
	groups := []func(){
		func() { // timeformat
			for i, nf := range namedFormats {
				if histSel.formats[nf.name] {
					zp.tf[i] = compile("{timeformat {0} " + nf.name + tz + "}")
				}
			}
			if tz == "" {
				zp.tfDef = compile("{timeformat {0}}")
			} else {
				zp.tfDef = compile(`{timeformat {0} ""` + tz + "}")
			}
		},
		func() { // time
			for i, nf := range namedFormats {
				if histSel.formats[nf.name] && nf.roundTrip {
					zp.tp[i] = [2]*prog{compile("{time {0} " + nf.name + tz + "}"), compile("{time {0} " + nf.name + "}")}
				}
			}
			for _, id := range histSel.offsetless {
				st := styleByID(id)
				mode, fa := modeCustom, q(st.arg)
				if st.named {
					mode, fa = modeNamed, st.arg
				}
				pc := &parseCfg{helper: "time", mode: mode, tzGiven: true, a: st, b: st, tmpl: "{time {0} " + fa + tz + "}"}
				zp.tl = append(zp.tl, &offsetlessProg{st: st, pc: pc, p: compile(pc.tmpl)})
			}
		},
		func() { // buckettime
			for i, b := range bucketNames {
				if histSel.buckets[b.name] {
					zp.bt[i] = compile("{buckettime {0} " + b.name + " RFC3339" + tz + "}")
				}
			}
		},
		func() { // timeattr
			for _, a := range attrs {
				zp.ta = append(zp.ta, compile("{timeattr {0} "+a+tz+"}"))
			}
		},
	}
	for k := 0; k < len(groups); k++ {
		groups[(rot+k)%len(groups)]()
	}
	return zp
}

// histProbes: instants that tell the base zones (and UTC) apart and sit next to
// a day / quarter / year change of the zone.
func histProbes(z *zone) []int64 {
	return []int64{
		0,
		1174392000, // 2007-03-20T12:00:00Z: daylight saving in the US, not yet in the EU
		1579089600, // 2020-01-15T12:00:00Z
		1594814400, // 2020-07-15T12:00:00Z
		time.Date(2020, 6, 30, 23, 30, 0, 0, z.loc).Unix(),
		time.Date(2021, 1, 1, 0, 30, 0, 0, z.loc).Unix(),
	}
}

// histClass: what a supported step was preceded by (part of the signature).
func histClass(args []string, supported []bool, i int) string {
	if i == 0 {
		return "first-in-process"
	}
	rejectedVariant, rejectedOther, supportedVariant, otherZone := false, false, false, false
	for j := 0; j < i; j++ {
		fold := args[j] != tzOmitted && strings.EqualFold(args[j], args[i])
		switch {
		case !supported[j] && fold:
			rejectedVariant = true
		case !supported[j]:
			rejectedOther = true
		case args[j] == args[i]:
		case fold:
			supportedVariant = true
		default:
			otherZone = true
		}
	}
	switch {
	case rejectedVariant:
		return "after-unsupported-case-variant"
	case rejectedOther:
		return "after-unsupported-other-spelling"
	case otherZone:
		return "after-another-supported-argument"
	case supportedVariant:
		return "after-supported-case-variant"
	}
	return "after-the-same-argument"
}

// ---- one process = one sequence -----------------------------------------------

type histSpec struct {
	Args []string `json:"args"`
	Rot  int      `json:"rot"`
}

type histViolation struct {
	Step   int    `json:"step"`
	Sig    string `json:"sig"`
	Detail string `json:"detail"`
}

type histStep struct {
	Supported  bool   `json:"supported"`
	Nontrivial bool   `json:"nontrivial"` // supported: every helper compiled and answered a value at every probe
	Answer     string `json:"answer"`     // unsupported: rejected | value | mixed (not judged)
	Evals      int64  `json:"evals"`
	Digest     string `json:"digest"`
}

type histResult struct {
	Steps      []histStep      `json:"steps"`
	Violations []histViolation `json:"violations"`
}

// runHistoryHere executes the sequence in THIS process (only ever called in a
// process that has done nothing else with rare).
func runHistoryHere(spec histSpec) *histResult {
	setGlobals()
	res := &histResult{}
	supported := make([]bool, len(spec.Args))
	for i, arg := range spec.Args {
		i, arg := i, arg
		z := histRefZone(arg)
		supported[i] = z != nil
		tz := histTzText(arg)
		st := histStep{Supported: z != nil}
		history := fmt.Sprintf("zone-history family: step %d of one process whose tz arguments were, in order, %q (helper order rotated by %d)", i+1, spec.Args[:i+1], spec.Rot)
		if z == nil {
			// (2) not a supported zone: executed, not judged
			zp := buildHistProgs(&zone{label: arg, iana: "UTC", loc: time.UTC}, tz, spec.Rot)
			rejected, accepted := 0, 0
			var dig []string
			for _, p := range allProgs(zp) {
				switch {
				case tz != "" && !strings.Contains(p.tmpl, tz): // the round trip's template without tz argument
				case p.cerr != "" || p.cpanic != "":
					rejected++
				default:
					accepted++
				}
				for _, in := range []string{"1579089600", "2020-07-15T12:00:00Z"} {
					out, pn := p.eval(in)
					st.Evals++
					if pn != "" && p.cpanic == "" {
						res.Violations = append(res.Violations, histViolation{i, "C18/panic/" + helperOf(p.tmpl) + "/" + panicClass(pn), fmt.Sprintf("%s on input %q panicked: %s\n%s", p.tmpl, in, pn, history)})
					}
					dig = append(dig, out)
				}
				if p.cpanic != "" {
					res.Violations = append(res.Violations, histViolation{i, "C18/panic/" + helperOf(p.tmpl) + "/compile/" + panicClass(p.cpanic), fmt.Sprintf("compiling %s panicked: %s\n%s", p.tmpl, p.cpanic, history)})
				}
			}
			switch {
			case accepted == 0:
				st.Answer = "rejected"
			case rejected == 0:
				st.Answer = "value"
			default:
				st.Answer = "mixed"
			}
			st.Digest = st.Answer + ":" + strings.Join(dig, "|")
			res.Steps = append(res.Steps, st)
			continue
		}
		// (1) a supported zone: judged like any (zone, instant) of the harness
		cls := histClass(spec.Args, supported, i)
		o, a := z.at(0)
		what := fmt.Sprintf("\n%s; tz argument %q is supported (omitted, \"\", utc, local or time.LoadLocation succeeds in this process; at unix 0 it is %s %+d s)", history, arg, a, o)
		zp := buildHistProgs(z, tz, spec.Rot)
		compiled := true
		for _, p := range allProgs(zp) {
			if p.cerr != "" || p.cpanic != "" {
				compiled = false
				res.Violations = append(res.Violations, histViolation{i, "C18/zone-history/" + cls + "/" + helperOf(p.tmpl) + "/supported-zone-rejected", fmt.Sprintf("template %s did not compile: %s %s%s", p.tmpl, p.cerr, p.cpanic, what)})
			}
		}
		st.Nontrivial = compiled
		if compiled {
			rep := func(sig, detail string) {
				parts := strings.Split(sig, "/")
				if len(parts) < 3 || parts[1] == "panic" || parts[1] == "compile" {
					res.Violations = append(res.Violations, histViolation{i, sig, detail + what})
					return
				}
				failure := "calendar-fields-of-another-zone"
				if parts[len(parts)-1] == "error-marker" {
					failure = "error-marker"
				}
				res.Violations = append(res.Violations, histViolation{i, "C18/zone-history/" + cls + "/" + parts[1] + "/" + failure, detail + "\n(check " + sig + ")" + what})
			}
			var dig []string
			for _, u := range histProbes(z) {
				nt, d := zp.checkInstant(u, rep)
				if !nt {
					st.Nontrivial = false
				}
				dig = append(dig, d)
			}
			st.Evals = zp.evals
			st.Digest = strings.Join(dig, ";")
		}
		res.Steps = append(res.Steps, st)
	}
	return res
}

// historyChild is the re-executed side (called from main before anything else
// when historyEnv is set); it never returns.
func historyChild(env string) {
	raw, err := hex.DecodeString(env)
	var spec histSpec
	if err == nil {
		err = json.Unmarshal(raw, &spec)
	}
	if err != nil {
		fmt.Fprintln(os.Stderr, "bad "+historyEnv+": "+err.Error())
		os.Exit(2)
	}
	out, err := json.Marshal(runHistoryHere(spec))
	if err != nil {
		fmt.Fprintln(os.Stderr, err.Error())
		os.Exit(2)
	}
	os.Stdout.Write(out)
	os.Exit(0)
}

var histExe string

// runHistory executes the sequence in a fresh process. hang: the process did
// not finish within 60 s.
func runHistory(args []string, rot int) (res *histResult, hang bool) {
	if histExe == "" {
		exe, err := os.Executable()
		if err != nil {
			panic("harness: os.Executable: " + err.Error())
		}
		histExe = exe
	}
	spec, _ := json.Marshal(histSpec{Args: args, Rot: rot})
	for attempt := 0; ; attempt++ {
		ctx, cancel := context.WithTimeout(context.Background(), 60*time.Second)
		cmd := exec.CommandContext(ctx, histExe)
		cmd.Env = append(os.Environ(), historyEnv+"="+hex.EncodeToString(spec))
		var so, se bytes.Buffer
		cmd.Stdout, cmd.Stderr = &so, &se
		err := cmd.Run()
		timedOut := ctx.Err() == context.DeadlineExceeded
		cancel()
		if timedOut {
			return nil, true
		}
		if err == nil {
			r := &histResult{}
			if err = json.Unmarshal(so.Bytes(), r); err == nil && len(r.Steps) == len(args) {
				return r, false
			}
			err = fmt.Errorf("unreadable answer %q (%v)", so.String(), err)
		}
		// a panic outside the recovered calls is a harness self-check, a failed exec is the machine: never a finding
		if attempt >= 5 {
			panic("harness: zone-history process failed: " + err.Error() + " " + se.String())
		}
	}
}

func histCase(args []string, rot, step int) Case {
	return Case{Kind: "zone-history", TZArgs: append([]string{}, args[:step+1]...), HelperRot: rot}
}

// reportHistory files the violations of one sequence; the recorded case is the
// sequence up to the failing step.
func reportHistory(args []string, rot int, res *histResult, violation func(sig, detail string, c Case)) {
	for _, v := range res.Violations {
		violation(v.Sig, v.Detail, histCase(args, rot, v.Step))
	}
}
