package main

// Reference calendar: boring Go, nothing imported from rare and no use of
// time.Time's calendar arithmetic. The only thing taken from the time package
// is the zone database (offset and abbreviation in force at a unix second),
// which is the "supported time zone" input of the property, not the thing under
// test. Everything else (civil date, clock, weekday, ISO week, quarter, the
// text of every named format) is computed here from unixSecond+offset.

import (
	"fmt"
	"strconv"
	"strings"
)

type cal struct {
	Y           int64
	M, D        int
	h, m, s     int
	wd          int // 0 = Sunday
	isoY        int64
	isoW        int
	off         int    // seconds east of UTC
	abbr        string // zone abbreviation in force
	dayNo       int64  // days since 1970-01-01 of the local date
	localSecond int64
}

func floorDiv(a, b int64) int64 {
	q := a / b
	if (a%b != 0) && ((a < 0) != (b < 0)) {
		q--
	}
	return q
}

func floorMod(a, b int64) int64 { return a - floorDiv(a, b)*b }

// civilFromDays: proleptic Gregorian date of day number z (0 = 1970-01-01).
func civilFromDays(days int64) (y int64, m, d int) {
	z := days + 719468
	era := floorDiv(z, 146097)
	doe := z - era*146097 // [0, 146096]
	yoe := (doe - doe/1460 + doe/36524 - doe/146096) / 365
	y = yoe + era*400
	doy := doe - (365*yoe + yoe/4 - yoe/100) // [0, 365], March based
	mp := (5*doy + 2) / 153
	d = int(doy - (153*mp+2)/5 + 1)
	if mp < 10 {
		m = int(mp + 3)
	} else {
		m = int(mp - 9)
	}
	if m <= 2 {
		y++
	}
	return
}

func isLeap(y int64) bool { return y%4 == 0 && (y%100 != 0 || y%400 == 0) }

var cumDays = [12]int{0, 31, 59, 90, 120, 151, 181, 212, 243, 273, 304, 334}

func yearDay(y int64, m, d int) int { // 1-based
	yd := cumDays[m-1] + d
	if m > 2 && isLeap(y) {
		yd++
	}
	return yd
}

func calOf(u int64, off int, abbr string) cal {
	ls := u + int64(off)
	days := floorDiv(ls, 86400)
	sod := int(floorMod(ls, 86400))
	c := cal{off: off, abbr: abbr, dayNo: days, localSecond: ls}
	c.Y, c.M, c.D = civilFromDays(days)
	c.h, c.m, c.s = sod/3600, sod/60%60, sod%60
	c.wd = int(floorMod(days+4, 7)) // 1970-01-01 was a Thursday
	// ISO 8601: the week belongs to the year that holds its Thursday; week 1
	// holds the first Thursday.
	isoWd := c.wd
	if isoWd == 0 {
		isoWd = 7
	}
	thu := days + int64(4-isoWd)
	ty, tm, td := civilFromDays(thu)
	c.isoY = ty
	c.isoW = (yearDay(ty, tm, td)-1)/7 + 1
	return c
}

// quarter: "quarter is 1..4 with January-March = 1".
func (c cal) quarter() int { return (c.M-1)/3 + 1 }

var monthNames = [...]string{"January", "February", "March", "April", "May", "June", "July", "August", "September", "October", "November", "December"}
var dayNames = [...]string{"Sunday", "Monday", "Tuesday", "Wednesday", "Thursday", "Friday", "Saturday"}

func (c cal) numZone(colon bool) string {
	o := c.off
	sign := "+"
	if o < 0 {
		sign = "-"
		o = -o
	}
	if colon {
		return fmt.Sprintf("%s%02d:%02d", sign, o/3600, o/60%60)
	}
	return fmt.Sprintf("%s%02d%02d", sign, o/3600, o/60%60)
}

func (c cal) rfc3339() string {
	z := "Z"
	if c.off != 0 {
		z = c.numZone(true)
	}
	return fmt.Sprintf("%04d-%02d-%02dT%02d:%02d:%02d%s", c.Y, c.M, c.D, c.h, c.m, c.s, z)
}

// namedFormats: every name the documentation lists for timeformat ("Supported
// Formats" and "Additional formats for formatting") plus the alias NTZ of the
// table in funcsTime.go. roundTrip marks the formats "holding date, time and
// numeric offset"; minutePrecision/twoDigitYear describe "the precision the
// format carries".
type namedFormat struct {
	name            string
	roundTrip       bool
	minutePrecision bool
	twoDigitYear    bool
}

var namedFormats = []namedFormat{
	{name: "ANSIC"}, {name: "UNIX"}, {name: "RUBY", roundTrip: true},
	{name: "RFC822"}, {name: "RFC822Z", roundTrip: true, minutePrecision: true, twoDigitYear: true},
	{name: "RFC1123"}, {name: "RFC1123Z", roundTrip: true},
	{name: "RFC3339", roundTrip: true}, {name: "RFC3339N", roundTrip: true},
	{name: "NGINX", roundTrip: true},
	{name: "MONTH"}, {name: "MONTHNAME"}, {name: "MNTH"}, {name: "DAY"}, {name: "YEAR"},
	{name: "HOUR"}, {name: "MINUTE"}, {name: "SECOND"}, {name: "TIMEZONE"}, {name: "NTIMEZONE"}, {name: "NTZ"},
	{name: "WEEKDAY"}, {name: "WDAY"},
}

// expectText returns every conforming rendering of the instant in the named
// format. The standard formats are the well-known ones (ANSI C asctime, date(1),
// Ruby Time#to_s, RFC 822 / 1123 / 3339, the nginx access-log stamp); where a
// day of month may be blank- or zero-padded both are accepted, because the
// property is about the calendar fields, not the padding.
func (c cal) expectText(name string) []string {
	wdS, wdL := dayNames[c.wd][:3], dayNames[c.wd]
	moS, moL := monthNames[c.M-1][:3], monthNames[c.M-1]
	hms := fmt.Sprintf("%02d:%02d:%02d", c.h, c.m, c.s)
	hm := fmt.Sprintf("%02d:%02d", c.h, c.m)
	yy := fmt.Sprintf("%02d", floorMod(c.Y, 100))
	dayPads := []string{fmt.Sprintf("%2d", c.D), fmt.Sprintf("%02d", c.D)}
	d2 := fmt.Sprintf("%02d", c.D)
	both := func(f func(day string) string) []string {
		a, b := f(dayPads[0]), f(dayPads[1])
		if a == b {
			return []string{a}
		}
		return []string{a, b}
	}
	switch name {
	case "ANSIC":
		return both(func(day string) string { return fmt.Sprintf("%s %s %s %s %04d", wdS, moS, day, hms, c.Y) })
	case "UNIX":
		return both(func(day string) string { return fmt.Sprintf("%s %s %s %s %s %04d", wdS, moS, day, hms, c.abbr, c.Y) })
	case "RUBY":
		return []string{fmt.Sprintf("%s %s %s %s %s %04d", wdS, moS, d2, hms, c.numZone(false), c.Y)}
	case "RFC822":
		return []string{fmt.Sprintf("%s %s %s %s %s", d2, moS, yy, hm, c.abbr)}
	case "RFC822Z":
		return []string{fmt.Sprintf("%s %s %s %s %s", d2, moS, yy, hm, c.numZone(false))}
	case "RFC1123":
		return []string{fmt.Sprintf("%s, %s %s %04d %s %s", wdS, d2, moS, c.Y, hms, c.abbr)}
	case "RFC1123Z":
		return []string{fmt.Sprintf("%s, %s %s %04d %s %s", wdS, d2, moS, c.Y, hms, c.numZone(false))}
	case "RFC3339", "RFC3339N", "":
		return []string{c.rfc3339()}
	case "NGINX":
		return both(func(day string) string { return fmt.Sprintf("%s/%s/%04d:%s %s", day, moS, c.Y, hms, c.numZone(false)) })
	case "MONTH":
		return []string{fmt.Sprintf("%02d", c.M)}
	case "MONTHNAME":
		return []string{moL}
	case "MNTH":
		return []string{moS}
	case "DAY":
		return []string{d2}
	case "YEAR":
		return []string{fmt.Sprintf("%04d", c.Y)}
	case "HOUR":
		return []string{fmt.Sprintf("%02d", c.h)}
	case "MINUTE":
		return []string{fmt.Sprintf("%02d", c.m)}
	case "SECOND":
		return []string{fmt.Sprintf("%02d", c.s)}
	case "TIMEZONE":
		return []string{c.abbr}
	case "NTIMEZONE", "NTZ":
		return []string{c.numZone(false)}
	case "WEEKDAY":
		return []string{wdL}
	case "WDAY":
		return []string{wdS}
	}
	panic("unknown format " + name)
}

// digitGroups extracts the maximal runs of ASCII digits of s as numbers.
func digitGroups(s string) []int64 {
	var out []int64
	i := 0
	for i < len(s) {
		if s[i] < '0' || s[i] > '9' {
			i++
			continue
		}
		j := i
		for j < len(s) && s[j] >= '0' && s[j] <= '9' {
			j++
		}
		v, err := strconv.ParseInt(s[i:j], 10, 64)
		if err != nil {
			v = -1
		}
		out = append(out, v)
		i = j
	}
	return out
}

// bucket names of the documentation: "(*n*ano, *s*econd, *m*inute, *h*our,
// *d*ay, *mo*nth, *y*ear)"; fields = how many leading calendar fields
// (year, month, day, hour, minute, second) survive the truncation.
type bucketName struct {
	name   string
	fields int
	class  string
}

var bucketNames = []bucketName{
	{"n", 6, "nano"}, {"nano", 6, "nano"}, {"nanos", 6, "nano"},
	{"s", 6, "second"}, {"second", 6, "second"}, {"seconds", 6, "second"}, {"SECOND", 6, "second"},
	{"m", 5, "minute"}, {"minute", 5, "minute"}, {"minutes", 5, "minute"},
	{"h", 4, "hour"}, {"hour", 4, "hour"}, {"hours", 4, "hour"},
	{"d", 3, "day"}, {"day", 3, "day"}, {"days", 3, "day"}, {"Day", 3, "day"},
	{"mo", 2, "month"}, {"month", 2, "month"}, {"months", 2, "month"},
	{"y", 1, "year"}, {"year", 1, "year"}, {"years", 1, "year"},
}

// bucketOK: the truncated time must show exactly the leading calendar fields
// of the instant in the zone (the statement fixes the fields, not the
// punctuation, so only the digit groups are compared; a nano bucket may carry
// an all-zero fraction).
func (c cal) bucketOK(got string, fields int, nano bool) bool {
	want := []int64{c.Y, int64(c.M), int64(c.D), int64(c.h), int64(c.m), int64(c.s)}[:fields]
	g := digitGroups(got)
	if nano && len(g) == fields+1 && g[fields] == 0 {
		g = g[:fields]
	}
	if len(g) != len(want) {
		return false
	}
	for i := range want {
		if g[i] != want[i] {
			return false
		}
	}
	return !strings.Contains(got, "<")
}

// attrOK checks one timeattr answer.
func (c cal) attrOK(attr, got string) bool {
	switch attr {
	case "weekday":
		// the numbering is not fixed by the statement: Sunday may be 0 or 7
		if c.wd == 0 {
			return got == "0" || got == "7"
		}
		return got == strconv.Itoa(c.wd)
	case "week":
		g := digitGroups(got)
		return len(g) == 1 && g[0] == int64(c.isoW) && isDigitsOnly(got)
	case "yearweek":
		g := digitGroups(got)
		return len(g) == 2 && g[0] == c.isoY && g[1] == int64(c.isoW) && !strings.Contains(got, "<")
	case "quarter":
		return got == strconv.Itoa(c.quarter())
	}
	panic("unknown attr " + attr)
}

func isDigitsOnly(s string) bool {
	if s == "" {
		return false
	}
	for i := 0; i < len(s); i++ {
		if s[i] < '0' || s[i] > '9' {
			return false
		}
	}
	return true
}

// documented error markers (docs/usage/expressions.md "Errors")
var errorMarkers = []string{"<BAD-TYPE>", "<PARSE-ERROR>", "<ARGN>", "<CONST>", "<ENUM>", "<NAME>", "<EMPTY>", "<FILE>", "<VALUE>"}

func isErrorMarker(s string) bool {
	for _, m := range errorMarkers {
		if s == m {
			return true
		}
	}
	return false
}

// parseHMS parses a duration written with the units h, m, s (whole numbers,
// optional sign, e.g. "-1h0m5s", "90s") into whole seconds using big enough
// arithmetic; ok=false when the text has any other shape or a fraction.
func parseHMS(s string) (secs int64, ok bool) {
	neg := false
	if strings.HasPrefix(s, "-") {
		neg = true
		s = s[1:]
	}
	if s == "" {
		return 0, false
	}
	var total int64
	lastUnit := 4
	for s != "" {
		j := 0
		for j < len(s) && s[j] >= '0' && s[j] <= '9' {
			j++
		}
		if j == 0 || j == len(s) || j > 15 {
			return 0, false
		}
		v, _ := strconv.ParseInt(s[:j], 10, 64)
		var mult int64
		var rank int
		switch s[j] {
		case 'h':
			mult, rank = 3600, 3
		case 'm':
			mult, rank = 60, 2
			if j+1 < len(s) && s[j+1] == 's' { // milliseconds: not whole seconds
				return 0, false
			}
		case 's':
			mult, rank = 1, 1
		default:
			return 0, false
		}
		if rank >= lastUnit {
			return 0, false
		}
		lastUnit = rank
		total += v * mult
		s = s[j+1:]
	}
	if neg {
		total = -total
	}
	return total, true
}

// renderings of n whole seconds "expressed in s,m,h" (documentation of
// duration) that the reference itself produces.
func durationSpellings(n int64) []string {
	sign := ""
	a := n
	if a < 0 {
		sign = "-"
		a = -a
	}
	out := []string{fmt.Sprintf("%s%ds", sign, a)}
	h, m, s := a/3600, a/60%60, a%60
	out = append(out, fmt.Sprintf("%s%dh%dm%ds", sign, h, m, s))
	if a%60 == 0 {
		out = append(out, fmt.Sprintf("%s%dm", sign, a/60))
	}
	if a%3600 == 0 {
		out = append(out, fmt.Sprintf("%s%dh", sign, a/3600))
	}
	if a >= 60 {
		out = append(out, fmt.Sprintf("%s%dm%ds", sign, a/60, s))
	}
	return out
}
