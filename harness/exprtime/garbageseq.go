package main

// Garbage-sequence family (HISTORY of the detecting modes): entries that are
// not dates - an empty field, `-`, `n/a`, a status code, a header word, a
// date-shaped text with an impossible hour - before, between and after valid
// dates of ONE layout, on ONE compiled expression.
//
// The documentation of format omitted / "" / cache says "The first seen date
// will determine the format for all dates going forward": an entry that is not
// a date is not a seen date, so it must leave no trace. `auto` is "detected
// with each parse". Demanded of every sequence:
//   (G) a garbage entry yields the error marker ("unparseable input yields
//       the error marker");
//   (H) a valid date yields exactly what a FRESH compile of the same template
//       answers for that text alone (a compile that never saw garbage);
//   (R) when it yields a value, the value is right (judgeParsed).
// Kept out, as in the parse family: a valid date whose shape differs from the
// first valid date of the sequence (another layout after the cached one may
// yield the error marker - or may not; neither is judged), abbreviation styles
// in the caching modes, and texts dateparse itself reads as a date of some
// layout (unix epoch numbers, `2020`, `3.14`, `1.2.3.4`).

import (
	"fmt"
	"strings"
)

// gsImpossible stands for "this position's instant written in the
// configuration's own style with hour 25": garbage of the very shape of the
// valid dates around it.
const gsImpossible = "\x00hour-25"

type garbageKind struct{ text, class string }

// garbageAlphabet: none of these is a date in any layout (dateparse rejects
// every one of them, checked on the unchanged tree: all answer the error
// marker in all four modes).
var garbageAlphabet = []garbageKind{
	{"", "empty"},
	{"-", "placeholder"},
	{"n/a", "placeholder"},
	{" ", "placeholder"},
	{"0", "number"},
	{"404", "number"},
	{"12345", "number"},
	{"99999999", "number"},
	{"-1", "number"},
	{"yesterday", "word"},
	{"hello world", "word"},
	{gsImpossible, "date-shaped"},
}

// garbagePatterns: every word over {V(alid date), G(arbage)} of length 2..5
// with one to three G and at least one V: 2 + 6 + 14 + 25 = 47.
var garbagePatterns = func() []string {
	var out []string
	for n := 2; n <= 5; n++ {
		for bits := 0; bits < 1<<n; bits++ {
			g := 0
			b := make([]byte, n)
			for i := 0; i < n; i++ {
				if bits>>(n-1-i)&1 == 1 {
					b[i] = 'G'
					g++
				} else {
					b[i] = 'V'
				}
			}
			if g >= 1 && g <= 3 && g < n {
				out = append(out, string(b))
			}
		}
	}
	return out
}()

// garbageSeqCfgs: the detecting configurations of the parse family with one
// layout (format omitted, "", cache, auto x helper x tz argument x style).
func garbageSeqCfgs(z *zone) []*parseCfg {
	var out []*parseCfg
	for _, pc := range parseCfgs(z, false) {
		if pc.a == pc.b && (declaredStateful(pc.mode) || pc.mode == modeAuto) {
			out = append(out, pc)
		}
	}
	return out
}

// garbageSeqWindows: windows of 5 consecutive enumerated instants of three
// kinds - the +-2 s around a local month start, the +-2 s around a change of
// the zone's offset, a plain chunk of the sorted list (mostly three times of
// one day and the next enumerated day). Quick takes one window per zone (the
// middle one of its kind, the kind rotating with the zone's number); thorough
// takes the middle one of every kind and one more month start.
func garbageSeqWindows(z *zone, zoneNo int, ins []int64, quick bool) [][]int64 {
	var month, shift, chunk [][]int64
	for i := 2; i+2 < len(ins); i++ {
		if ins[i+2]-ins[i-2] != 4 {
			continue
		}
		off, abbr := z.at(ins[i])
		c := calOf(ins[i], off, abbr)
		o0, _ := z.at(ins[i-1])
		switch {
		case o0 != off:
			shift = append(shift, ins[i-2:i+3])
		case c.D == 1 && c.h == 0 && c.m == 0 && c.s == 0:
			month = append(month, ins[i-2:i+3])
		}
	}
	for i := 0; i+5 <= len(ins); i += 5 {
		chunk = append(chunk, ins[i:i+5])
	}
	kinds := [][][]int64{month, chunk, shift}
	pick := func(l [][]int64, num, den int) [][]int64 {
		if len(l) == 0 {
			return nil
		}
		return l[len(l)*num/den : len(l)*num/den+1]
	}
	var out [][]int64
	if quick {
		for k := 0; k < 3 && len(out) == 0; k++ {
			out = append(out, pick(kinds[(zoneNo+k)%3], 1, 2)...)
		}
		return out
	}
	for _, l := range kinds {
		out = append(out, pick(l, 1, 2)...)
	}
	return append(out, pick(month, 1, 4)...)
}

type gsEntry struct {
	u       int64
	c       cal
	garbage bool
	gclass  string
	text    string
}

// garbageSeqEntries builds one sequence: position i of the pattern stands for
// the i-th instant of the window (desc: the instants in decreasing order); a V
// is that instant written in the configuration's style, the j-th G is entry
// (rot+j) of the garbage alphabet.
func garbageSeqEntries(z *zone, pc *parseCfg, window []int64, pattern string, rot int, desc bool) []gsEntry {
	var out []gsEntry
	firstShape := ""
	g := 0
	for i := range pattern {
		u := window[i]
		if desc {
			u = window[len(pattern)-1-i]
		}
		off, abbr := z.at(u)
		c := calOf(u, off, abbr)
		if pattern[i] == 'G' {
			gk := garbageAlphabet[(rot+g)%len(garbageAlphabet)]
			g++
			text := gk.text
			if text == gsImpossible {
				bad := c
				bad.h = 25
				text = pc.a.render(bad)
			}
			out = append(out, gsEntry{u: u, c: c, garbage: true, gclass: gk.class, text: text})
			continue
		}
		text := pc.a.render(c)
		if declaredStateful(pc.mode) {
			// "The first seen date will determine the format": keep to one shape
			if firstShape == "" {
				firstShape = shape(text)
			} else if shape(text) != firstShape {
				continue
			}
		}
		out = append(out, gsEntry{u: u, c: c, text: text})
	}
	return out
}

// runGarbageSeq evaluates one compiled expression over one sequence forwards
// and then backwards. fresh caches, per configuration, what a fresh compile
// answers for a valid text evaluated alone.
func runGarbageSeq(z *zone, pc *parseCfg, window []int64, pattern string, rot int, desc bool, fresh map[string]string, rep reporter) (nontrivial bool, digest string, evals int64) {
	entries := garbageSeqEntries(z, pc, window, pattern, rot, desc)
	order := make([]int, 0, 2*len(entries))
	for i := range entries {
		order = append(order, i)
	}
	for i := len(entries) - 2; i >= 0; i-- {
		order = append(order, i)
	}
	p := compile(pc.tmpl)
	if p.cpanic != "" || p.cerr != "" {
		rep("C18/compile/rejected-template", fmt.Sprintf("template %s did not compile: %s %s", pc.tmpl, p.cerr, p.cpanic))
		return false, "", 0
	}
	nontrivial = true
	var seen []string
	garbageSeen, dateSeen, leadingGarbage := false, false, false
	for n, idx := range order {
		e := entries[idx]
		where := lazy(func() string {
			texts := make([]string, len(entries))
			for i := range entries {
				texts[i] = entries[i].text
			}
			return fmt.Sprintf("zone=%s (%s) text style %s; evaluation %d of one compiled %s over the entries %q (pattern %s, V = a valid date, G = not a date) forwards, then backwards", z.label, tzClass(z, pc.tzGiven), pc.a.id, n+1, pc.tmpl, texts, pattern)
		})
		got, pn := p.eval(e.text)
		if pn != "" {
			rep("C18/panic/"+pc.helper+"/"+panicClass(pn), fmt.Sprintf("%s on input %q panicked: %s\n%s", pc.tmpl, e.text, pn, where))
			return false, "", evals
		}
		evals++
		seen = append(seen, got)
		if e.garbage {
			// (G) "unparseable input yields the error marker"
			if !isErrorMarker(got) {
				nontrivial = false
				rep("C18/"+pc.helper+"/garbage-sequence/"+pc.mode+"/"+e.gclass+"-entry/no-error-marker",
					fmt.Sprintf("%s on %q, which is not a date, returned %q instead of an error marker\n%s", pc.tmpl, e.text, got, where))
			}
			if !dateSeen {
				leadingGarbage = true
			}
			garbageSeen = true
			continue
		}
		if isErrorMarker(got) {
			nontrivial = false
		}
		// (H) garbage leaves no trace: the answer is the one of a compile that never saw any
		f, have := fresh[e.text]
		if !have {
			f, pn = compile(pc.tmpl).eval(e.text)
			if pn != "" {
				rep("C18/panic/"+pc.helper+"/"+panicClass(pn), fmt.Sprintf("%s (fresh compile) on input %q panicked: %s\n%s", pc.tmpl, e.text, pn, where))
				return false, "", evals
			}
			evals++
			fresh[e.text] = f
		}
		if f != got {
			class := "before-any-garbage"
			switch {
			case leadingGarbage:
				class = "garbage-before-the-first-date"
			case garbageSeen:
				class = "garbage-after-a-date"
			}
			rep("C18/"+pc.helper+"/garbage-sequence/"+pc.mode+"/valid-date/"+class+"/differs-from-fresh-compile",
				fmt.Sprintf("%s on the valid date %q (unix %d, %s) returned %q after %d earlier evaluation(s) of the same compiled expression, but %q when compiled afresh and evaluated on this text only\n%s", pc.tmpl, e.text, e.u, e.c.rfc3339(), got, n, f, where))
		}
		dateSeen = true
		// (R) reference
		judgeParsed(z, pc, pc.a, e.u, e.c, e.text, got, where, rep)
	}
	return nontrivial, strings.Join(seen, ","), evals
}

func garbageSeqCase(z *zone, pc *parseCfg, win []int64, pattern string, rot int, desc bool) Case {
	c := Case{Kind: "garbage-sequence", Zone: z.label, Prog: pc.tmpl, StyleA: pc.a.id, StyleB: pc.a.id, Window: append([]int64{}, win...), Pattern: pattern, Rot: rot, Desc: desc}
	for _, e := range garbageSeqEntries(z, pc, win, pattern, rot, desc) {
		c.Texts = append(c.Texts, e.text)
	}
	return c
}

// runGarbageSeqCfg: every pattern x rotation of the garbage alphabet x order
// of the instants (bothOrders=false, quick: increasing for even rotations,
// decreasing for odd ones) for one configuration and window. each is called
// per sequence with its outcome.
func runGarbageSeqCfg(z *zone, pc *parseCfg, win []int64, bothOrders bool, rep reporter, at func(pattern string, rot int, desc bool), each func(nontrivial bool, digest string, evals int64)) {
	fresh := map[string]string{}
	for _, pattern := range garbagePatterns {
		for rot := range garbageAlphabet {
			for _, desc := range []bool{false, true} {
				if !bothOrders && desc != (rot%2 == 1) {
					continue
				}
				at(pattern, rot, desc)
				each(runGarbageSeq(z, pc, win, pattern, rot, desc, fresh, rep))
			}
		}
	}
}
