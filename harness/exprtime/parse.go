package main

// Parse family (HISTORY x CONFIGURATION): every helper that reads date text
// through smartDateParseWrapper (`time`, `buckettime`) x every way of naming
// the format (omitted, "", cache, auto, the ten named date-and-time formats,
// custom layouts) x tz argument (the zone's own argument, omitted) x text
// with a numeric offset / without any offset / with a zone abbreviation.
//
// One case = ONE compiled expression evaluated over a window of consecutive
// enumerated instants, forwards and then backwards; every answer is compared
//   (H) with a FRESH compile of the same template evaluating only that entry
//       ("parses ... back to the same instant": the answer is a function of
//       the text and the arguments, not of what the stage parsed before), and
//   (R) with the reference calendar, where the statement or the documentation
//       fixes the answer (see refTime / refBucket).
// What the documentation declares stateful is left out of (H): format
// omitted / "" / cache = "The first seen date will determine the format for
// all dates going forward", so those modes only ever see texts of one shape
// (same layout, same widths) and never texts with a zone abbreviation, whose
// detected layout depends on the abbreviation. `auto` ("detected with each
// parse") is also run over sequences that alternate two layouts A,B,A,B,A.

import (
	"fmt"
	"strconv"
	"strings"
	"time"
)

type offKind int

const (
	offNone offKind = iota
	offNumeric
	offAbbr
)

func (k offKind) String() string {
	return [...]string{"offsetless-text", "numeric-offset-text", "zone-abbreviation-text"}[k]
}

// textStyle: one way of writing an instant as text.
type textStyle struct {
	id     string
	arg    string // explicit format argument: a name of the documented table or a custom Go layout
	named  bool
	layout string // Go layout, used only by the self-check of render
	kind   offKind
	minute bool // carries no seconds
	yy     bool // two-digit year
	detect bool // offered to the detecting modes (NGINX's blank-padded day is not a shape dateparse knows)
	render func(c cal) string
}

func ymdhms(c cal, f string) string { return fmt.Sprintf(f, c.Y, c.M, c.D, c.h, c.m, c.s) }

func namedStyle(name, layout string, kind offKind, minute, yy, detect bool) *textStyle {
	return &textStyle{id: name, arg: name, named: true, layout: layout, kind: kind, minute: minute, yy: yy, detect: detect,
		render: func(c cal) string { return c.expectText(name)[0] }}
}

var textStyles = []*textStyle{
	// no offset in the text: the wall clock is read in the tz argument's zone
	{id: "iso-space", arg: "2006-01-02 15:04:05", kind: offNone, detect: true,
		render: func(c cal) string { return ymdhms(c, "%04d-%02d-%02d %02d:%02d:%02d") }},
	{id: "iso-T", arg: "2006-01-02T15:04:05", kind: offNone, detect: true,
		render: func(c cal) string { return ymdhms(c, "%04d-%02d-%02dT%02d:%02d:%02d") }},
	{id: "slash-ymd", arg: "2006/01/02 15:04:05", kind: offNone, detect: true,
		render: func(c cal) string { return ymdhms(c, "%04d/%02d/%02d %02d:%02d:%02d") }},
	{id: "us-mdy", arg: "01/02/2006 15:04:05", kind: offNone, detect: true,
		render: func(c cal) string { return fmt.Sprintf("%02d/%02d/%04d %02d:%02d:%02d", c.M, c.D, c.Y, c.h, c.m, c.s) }},
	{id: "compact", arg: "20060102150405", kind: offNone, detect: true,
		render: func(c cal) string { return ymdhms(c, "%04d%02d%02d%02d%02d%02d") }},
	{id: "iso-minute", arg: "2006-01-02 15:04", kind: offNone, minute: true, detect: true,
		render: func(c cal) string { return fmt.Sprintf("%04d-%02d-%02d %02d:%02d", c.Y, c.M, c.D, c.h, c.m) }},
	namedStyle("ANSIC", time.ANSIC, offNone, false, false, true),
	// numeric offset in the text: an absolute instant
	namedStyle("RFC3339", time.RFC3339, offNumeric, false, false, true),
	namedStyle("RFC3339N", time.RFC3339Nano, offNumeric, false, false, false),
	{id: "iso-space-offset", arg: "2006-01-02 15:04:05 -0700", kind: offNumeric, detect: true,
		render: func(c cal) string { return ymdhms(c, "%04d-%02d-%02d %02d:%02d:%02d") + " " + c.numZone(false) }},
	{id: "nginx-zero-padded", arg: "02/Jan/2006:15:04:05 -0700", kind: offNumeric, detect: true,
		render: func(c cal) string {
			return fmt.Sprintf("%02d/%s/%04d:%02d:%02d:%02d %s", c.D, monthNames[c.M-1][:3], c.Y, c.h, c.m, c.s, c.numZone(false))
		}},
	namedStyle("RFC1123Z", time.RFC1123Z, offNumeric, false, false, true),
	namedStyle("RFC822Z", time.RFC822Z, offNumeric, true, true, true),
	namedStyle("RUBY", time.RubyDate, offNumeric, false, false, true),
	namedStyle("NGINX", "_2/Jan/2006:15:04:05 -0700", offNumeric, false, false, false),
	// zone abbreviation in the text: outside the statement ("numeric offset"); history oracle only
	namedStyle("RFC1123", time.RFC1123, offAbbr, false, false, true),
	namedStyle("UNIX", time.UnixDate, offAbbr, false, false, true),
	namedStyle("RFC822", time.RFC822, offAbbr, true, true, true),
	{id: "iso-space-abbr", arg: "2006-01-02 15:04:05 MST", kind: offAbbr, detect: true,
		render: func(c cal) string { return ymdhms(c, "%04d-%02d-%02d %02d:%02d:%02d") + " " + c.abbr }},
}

func init() {
	for _, s := range textStyles {
		if s.layout == "" {
			s.layout = s.arg
		}
	}
}

func styleByID(id string) *textStyle {
	for _, s := range textStyles {
		if s.id == id {
			return s
		}
	}
	return nil
}

// shape: the text with digits, letters and signs made anonymous. Two texts of
// one style have the same shape when all their fields have the same widths.
func shape(s string) string {
	b := []byte(s)
	for i, ch := range b {
		switch {
		case ch >= '0' && ch <= '9':
			b[i] = '0'
		case ch >= 'a' && ch <= 'z', ch >= 'A' && ch <= 'Z':
			b[i] = 'a'
		case ch == '+':
			b[i] = '-'
		}
	}
	return string(b)
}

const (
	modeNamed   = "explicit-named"
	modeCustom  = "explicit-custom"
	modeOmitted = "format-omitted"
	modeEmpty   = "format-empty"
	modeCache   = "cache"
	modeAuto    = "auto"
)

func declaredStateful(mode string) bool {
	return mode == modeOmitted || mode == modeEmpty || mode == modeCache
}

type parseCfg struct {
	helper  string // time | buckettime
	bucket  bucketName
	mode    string
	tzGiven bool
	a, b    *textStyle // entries 0,2,4.. are written in a, entries 1,3,.. in b (b == a: one layout)
	tmpl    string
}

func (pc *parseCfg) key() string { return pc.tmpl + "|" + pc.a.id + "|" + pc.b.id }

// buckets used by the parse family, one per class
var parseBuckets = []bucketName{{"s", 6, "second"}, {"minutes", 5, "minute"}, {"h", 4, "hour"}, {"day", 3, "day"}, {"mo", 2, "month"}, {"years", 1, "year"}, {"nanos", 6, "nano"}}

// parseCfgs: every configuration of the parse family for one zone. all=false
// (quick) pairs every detectable style with its successor for the alternating
// `auto` sequences; all=true pairs it with every other style.
func parseCfgs(z *zone, all bool) []*parseCfg {
	var out []*parseCfg
	var detectable []*textStyle
	for _, s := range textStyles {
		if s.detect {
			detectable = append(detectable, s)
		}
	}
	n := 0
	add := func(mode string, tzGiven bool, a, b *textStyle) {
		var fa string
		switch mode {
		case modeNamed:
			fa = " " + a.arg
		case modeCustom:
			fa = " " + q(a.arg)
		case modeOmitted:
			fa = ""
		case modeEmpty:
			fa = ` ""`
		case modeCache:
			fa = " cache"
		case modeAuto:
			fa = " auto"
		}
		tz := ""
		if tzGiven {
			tz = tzArg(z)
		}
		out = append(out, &parseCfg{helper: "time", mode: mode, tzGiven: tzGiven, a: a, b: b, tmpl: "{time {0}" + fa + tz + "}"})
		bk := parseBuckets[n%len(parseBuckets)]
		n++
		out = append(out, &parseCfg{helper: "buckettime", bucket: bk, mode: mode, tzGiven: tzGiven, a: a, b: b, tmpl: "{buckettime {0} " + bk.name + fa + tz + "}"})
	}
	variants := []bool{false}
	if z.arg != "" {
		variants = []bool{true, false}
	}
	for _, tzGiven := range variants {
		for _, s := range textStyles {
			if s.named {
				add(modeNamed, tzGiven, s, s)
			} else {
				add(modeCustom, tzGiven, s, s)
			}
		}
		for _, s := range detectable {
			if s.kind != offAbbr {
				if !tzGiven {
					add(modeOmitted, tzGiven, s, s) // the tz argument cannot be given without a format argument
				}
				add(modeEmpty, tzGiven, s, s)
				add(modeCache, tzGiven, s, s)
			}
			add(modeAuto, tzGiven, s, s)
		}
		for i, a := range detectable {
			if all && tzGiven == variants[0] {
				for _, b := range detectable {
					if b != a {
						add(modeAuto, tzGiven, a, b)
					}
				}
			} else {
				add(modeAuto, tzGiven, a, detectable[(i+1)%len(detectable)])
			}
		}
	}
	return out
}

// parseWindows: windows of 5 consecutive enumerated instants of the zone -
// every stride-th chunk of the sorted list plus the +-2 s around every tStride-th
// change of the zone's offset (where offset-less wall clocks repeat or skip).
func parseWindows(z *zone, ins []int64, stride, tStride int) [][]int64 {
	var out [][]int64
	for i, k := 0, 0; i+5 <= len(ins); i, k = i+5, k+1 {
		if k%stride == 0 {
			out = append(out, ins[i:i+5])
		}
	}
	t := 0
	for i := 2; i+2 < len(ins); i++ {
		if ins[i]-ins[i-1] != 1 {
			continue
		}
		o0, _ := z.at(ins[i-1])
		o1, _ := z.at(ins[i])
		if o0 != o1 && ins[i-1]-ins[i-2] == 1 && ins[i+1]-ins[i] == 1 && ins[i+2]-ins[i+1] == 1 {
			if t%tStride == 0 {
				out = append(out, ins[i-2:i+3])
			}
			t++
		}
	}
	return out
}

func tzClass(z *zone, tzGiven bool) string {
	switch {
	case !tzGiven || z.arg == "":
		return "tz-omitted"
	case z.arg == "utc" || z.arg == "local":
		return "tz-" + z.arg
	}
	return "tz-iana"
}

var utcZone = zones[0]

// runParseCfg evaluates one configuration over one window. It returns whether
// every answer of the long-lived expression was a value and a digest.
func runParseCfg(z *zone, pc *parseCfg, window []int64, rep reporter) (nontrivial bool, digest string, evals int64) {
	type entry struct {
		u     int64
		c     cal
		style *textStyle
		text  string
	}
	var entries []entry
	for i, u := range window {
		st := pc.a
		if i%2 == 1 {
			st = pc.b
		}
		off, abbr := z.at(u)
		c := calOf(u, off, abbr)
		e := entry{u, c, st, st.render(c)}
		// harness self-check: the reference rendering is the Go layout's
		if g := time.Unix(u, 0).In(z.loc).Format(st.layout); g != e.text && !contains(c.expectText2(st), g) {
			panic(fmt.Sprintf("harness self-check: style %s renders %d in %s as %q, package time as %q", st.id, u, z.label, e.text, g))
		}
		if declaredStateful(pc.mode) && len(entries) > 0 && shape(e.text) != shape(entries[0].text) {
			continue // "The first seen date will determine the format": keep to one shape
		}
		entries = append(entries, e)
	}
	order := make([]int, 0, 2*len(entries))
	for i := range entries {
		order = append(order, i)
	}
	for i := len(entries) - 2; i >= 0; i-- {
		order = append(order, i)
	}

	p := compile(pc.tmpl)
	if p.cpanic != "" || p.cerr != "" {
		rep("C18/compile/rejected-template", fmt.Sprintf("template %s did not compile: %s %s", pc.tmpl, p.cerr, p.cpanic))
		return false, "", 0
	}
	nontrivial = true
	cls := pc.mode
	var seen []string
	freshOf, haveFresh := make([]string, len(entries)), make([]bool, len(entries))
	for n, idx := range order {
		e := entries[idx]
		kind := e.style.kind.String()
		where := lazy(func() string {
			texts := make([]string, len(entries))
			for i := range entries {
				texts[i] = entries[i].text
			}
			return fmt.Sprintf("zone=%s (%s) unix=%d (%s) text style %s; evaluation %d of one compiled %s over the texts %q forwards, then backwards", z.label, tzClass(z, pc.tzGiven), e.u, e.c.rfc3339(), e.style.id, n+1, pc.tmpl, texts)
		})
		got, pn := p.eval(e.text)
		if pn != "" {
			rep("C18/panic/"+pc.helper+"/"+panicClass(pn), fmt.Sprintf("%s on input %q panicked: %s\n%s", pc.tmpl, e.text, pn, where))
			return false, "", evals
		}
		evals++
		seen = append(seen, got)
		if isErrorMarker(got) {
			nontrivial = false
		}
		// (H) history independence
		if !haveFresh[idx] {
			f, pn := compile(pc.tmpl).eval(e.text)
			if pn != "" {
				rep("C18/panic/"+pc.helper+"/"+panicClass(pn), fmt.Sprintf("%s (fresh compile) on input %q panicked: %s\n%s", pc.tmpl, e.text, pn, where))
				return false, "", evals
			}
			evals++
			freshOf[idx], haveFresh[idx] = f, true
		}
		fresh := freshOf[idx]
		if fresh != got {
			rep("C18/"+pc.helper+"/history/"+cls+"/"+kind+"/differs-from-fresh-compile",
				fmt.Sprintf("%s on %q returned %q after %d earlier evaluation(s) of the same compiled expression, but %q when compiled afresh and evaluated on this text only\n%s", pc.tmpl, e.text, got, n, fresh, where))
		}
		// (R) reference
		judgeParsed(z, pc, e.style, e.u, e.c, e.text, got, where, rep)
	}
	return nontrivial, strings.Join(seen, ","), evals
}

// judgeParsed: oracle (R) on one answer of a parsing helper for the text of a
// genuine instant (see refTime / refBucket for what is demanded).
func judgeParsed(z *zone, pc *parseCfg, st *textStyle, u int64, c cal, text, got string, where fmt.Stringer, rep reporter) {
	cls, kind := pc.mode, st.kind.String()
	if st.yy && (c.Y < 1969 || c.Y > 2068) {
		return // a two-digit year does not carry the century
	}
	explicit := pc.mode == modeNamed || pc.mode == modeCustom
	if isErrorMarker(got) {
		// "If the format is unable to be resolved, it must be specified manually": a detecting mode may
		// give up; an explicit format must read the text written in exactly that format
		if explicit && st.kind != offAbbr {
			rep("C18/"+pc.helper+"/parse/"+cls+"/"+kind+"/error-marker", fmt.Sprintf("%s on %q (the instant written in that very format) returned %q\n%s", pc.tmpl, text, got, where))
		}
		return
	}
	var ok bool
	var want string
	if pc.helper == "time" {
		ok, want = refTime(z, pc, st, u, c, got)
	} else {
		ok, want = refBucket(z, pc, st, c, got)
	}
	if !ok {
		rep("C18/"+pc.helper+"/parse/"+cls+"/"+kind+"/wrong-"+map[string]string{"time": "instant", "buckettime": "fields"}[pc.helper],
			fmt.Sprintf("%s on %q returned %q, want %s\n%s", pc.tmpl, text, got, want, where))
	}
}

// lazy: a detail string that is only built when it is printed.
type lazy func() string

func (l lazy) String() string { return l() }

// expectText2: every conforming rendering of a named style (blank- or
// zero-padded day); custom styles have exactly one.
func (c cal) expectText2(st *textStyle) []string {
	if st.named {
		return c.expectText(st.id)
	}
	return nil
}

// refTime: what `time` must answer.
//   - text with a numeric offset: "parses what timeformat printed back to the
//     same instant, to the precision the format carries" - whatever the tz argument;
//   - text without offset: "all datetimes are processed as UTC, unless explicit in
//     the datetime itself, or overridden via a parameter" - any instant whose
//     calendar fields in the tz argument's zone (UTC when omitted) are the text's
//     (two instants where a wall clock repeats);
//   - text with a zone abbreviation: not constrained.
func refTime(z *zone, pc *parseCfg, st *textStyle, u int64, c cal, got string) (bool, string) {
	if st.kind == offAbbr {
		return true, ""
	}
	v, err := strconv.ParseInt(got, 10, 64)
	if st.kind == offNumeric {
		want := u
		if st.minute {
			want = u - floorMod(u+int64(c.off), 60)
		}
		return err == nil && v == want, strconv.FormatInt(want, 10)
	}
	rz := z
	if !pc.tzGiven {
		rz = utcZone
	}
	want := fmt.Sprintf("an instant that reads %04d-%02d-%02d %02d:%02d:%02d in %s", c.Y, c.M, c.D, c.h, c.m, c.s, rz.iana)
	if st.minute {
		want = fmt.Sprintf("the instant that reads %04d-%02d-%02d %02d:%02d:00 in %s", c.Y, c.M, c.D, c.h, c.m, rz.iana)
	}
	if err != nil {
		return false, want
	}
	o, a := rz.at(v)
	cv := calOf(v, o, a)
	ws := c.s
	if st.minute {
		ws = 0
	}
	return cv.Y == c.Y && cv.M == c.M && cv.D == c.D && cv.h == c.h && cv.m == c.m && cv.s == ws, want
}

// refBucket: "buckettime ... report the calendar fields of that instant in that
// zone" (truncated). Constrained when the text carries no offset (its fields are
// the answer in any zone) or the zone's own numeric offset together with the
// zone as tz (see Assumptions: text whose offset differs from tz is not constrained).
func refBucket(z *zone, pc *parseCfg, st *textStyle, c cal, got string) (bool, string) {
	if st.kind == offAbbr || (st.kind == offNumeric && !pc.tzGiven && c.off != 0) {
		return true, ""
	}
	cc := c
	if st.minute {
		cc.s = 0
	}
	want := fmt.Sprintf("the first %d of year..second = %d-%d-%d %d:%d:%d", pc.bucket.fields, cc.Y, cc.M, cc.D, cc.h, cc.m, cc.s)
	return cc.bucketOK(got, pc.bucket.fields, pc.bucket.class == "nano"), want
}
