// Harness exprtime decides C18: timeformat / buckettime / timeattr report the
// calendar fields of an instant in a zone, `time` with an explicit format
// parses back what timeformat printed (named formats carrying date, time and a
// numeric offset), duration <-> durationformat agree on whole seconds, garbage
// yields an error marker.
//
// Enumeration (no sampling): for each zone, every day 1970-01-01..2100-12-31
// at local 00:00:00, 12:00:00 and 23:59:59, every second within +-2 s of every
// local month start (hence quarter and year starts), of every local ISO-week
// start (Monday 00:00) and of every change of the zone's offset/abbreviation;
// quick takes every 11th day and every 5th week but all month starts and all
// zone transitions. Each instant is run through the real helpers (compiled
// from templates, evaluated through BuildKey) for every named format, bucket
// name and attribute; the oracle is calendar.go.
//
// Zone-name family (zonenames.go): every zone name the process can load x a
// grid of probe instants x every helper, so that a tz argument that is
// resolved to another zone than the database's shows.
//
// Zone-history family (zonehistory.go): one fresh process per sequence of 2-3
// (thorough 4) tz arguments - exact names, case variants, typos, blanks,
// prefixes/suffixes, omitted, utc, local - every helper compiled and evaluated
// at every step, so that anything the process remembers about an earlier tz
// argument (also a rejected one) shows in what a later supported one yields.
package main

import (
	"encoding/json"
	"fmt"
	"os"
	"sort"
	"strconv"
	"strings"
	"time"
	_ "time/tzdata"

	"rare/pkg/expressions"
	"rare/pkg/expressions/stdlib"
	"verif/runner"
)

// ---- zones ---------------------------------------------------------------

type zone struct {
	label string // name in cases / signatures
	arg   string // tz argument of the helpers ("" = argument omitted)
	iana  string // database name used by the reference to look up offsets
	loc   *time.Location
}

// "local" is bound to America/St_Johns (half-hour offset, transitions at 00:01
// local until 2011) by assigning time.Local before anything is compiled.
const localIANA = "America/St_Johns"

var zones = []*zone{
	{label: "default", arg: "", iana: "UTC"},
	{label: "utc", arg: "utc", iana: "UTC"},
	{label: "Etc/GMT+5", arg: "Etc/GMT+5", iana: "Etc/GMT+5"},
	{label: "America/New_York", arg: "America/New_York", iana: "America/New_York"},
	{label: "Europe/Berlin", arg: "Europe/Berlin", iana: "Europe/Berlin"},
	{label: "Australia/Lord_Howe", arg: "Australia/Lord_Howe", iana: "Australia/Lord_Howe"},
	{label: "Asia/Kolkata", arg: "Asia/Kolkata", iana: "Asia/Kolkata"},
	{label: "local", arg: "local", iana: localIANA},
}

// thorough only: more shapes of zone (offset 0 in winter, southern DST, +05:45,
// a skipped calendar day in 2011, DST starting at midnight)
var moreZones = []*zone{
	{label: "Europe/London", arg: "Europe/London", iana: "Europe/London"},
	{label: "Pacific/Auckland", arg: "Pacific/Auckland", iana: "Pacific/Auckland"},
	{label: "Asia/Kathmandu", arg: "Asia/Kathmandu", iana: "Asia/Kathmandu"},
	{label: "Pacific/Apia", arg: "Pacific/Apia", iana: "Pacific/Apia"},
	{label: "America/Sao_Paulo", arg: "America/Sao_Paulo", iana: "America/Sao_Paulo"},
}

func zonesFor(quick bool) []*zone {
	if quick {
		return zones
	}
	return append(append([]*zone{}, zones...), moreZones...)
}

func setGlobals() {
	loc, err := time.LoadLocation(localIANA)
	if err != nil {
		panic(err)
	}
	time.Local = loc
	for _, z := range zonesFor(false) {
		if z.loc == nil {
			l, err := time.LoadLocation(z.iana)
			if err != nil {
				panic(err)
			}
			z.loc = l
		}
	}
}

func (z *zone) at(u int64) (off int, abbr string) {
	abbr, off = time.Unix(u, 0).In(z.loc).Zone()
	return
}

const (
	firstSecond = int64(0)          // 1970-01-01T00:00:00Z
	lastSecond  = int64(4133980799) // 2100-12-31T23:59:59Z
	lastDay     = lastSecond / 86400
)

// instants enumerates the unix seconds of one zone, sorted and without
// duplicates.
func (z *zone) instants(quick bool) []int64 {
	var out []int64
	add := func(u int64) {
		if u >= firstSecond && u <= lastSecond {
			out = append(out, u)
		}
	}
	around := func(u int64) {
		for d := int64(-2); d <= 2; d++ {
			add(u + d)
		}
	}
	dayStride, weekStride := int64(1), int64(1)
	if quick {
		dayStride, weekStride = 11, 5
	}
	weekNo := int64(0)
	for day := int64(-1); day <= lastDay+1; day++ {
		y, m, d := civilFromDays(day)
		// local wall clock -> unix second through the zone database
		// (enumeration only; the oracle recomputes the fields from the second)
		midnight := time.Date(int(y), time.Month(m), d, 0, 0, 0, 0, z.loc).Unix()
		if floorMod(day, dayStride) == 0 {
			add(midnight)
			add(time.Date(int(y), time.Month(m), d, 12, 0, 0, 0, z.loc).Unix())
			add(time.Date(int(y), time.Month(m), d, 23, 59, 59, 0, z.loc).Unix())
		}
		if d == 1 {
			around(midnight)
		}
		if floorMod(day+4, 7) == 1 { // Monday
			if weekNo%weekStride == 0 {
				around(midnight)
			}
			weekNo++
		}
		// zone transitions inside this UTC day
		t0, t1 := day*86400, day*86400+86400
		o0, a0 := z.at(t0)
		o1, a1 := z.at(t1)
		if o0 != o1 || a0 != a1 {
			lo, hi := t0, t1 // zone(lo) == zone(t0), zone(hi) != zone(t0)
			for hi-lo > 1 {
				mid := lo + (hi-lo)/2
				om, am := z.at(mid)
				if om == o0 && am == a0 {
					lo = mid
				} else {
					hi = mid
				}
			}
			around(hi)
		}
	}
	sort.Slice(out, func(i, j int) bool { return out[i] < out[j] })
	k := 0
	for i, u := range out {
		if i == 0 || u != out[k-1] {
			out[k] = u
			k++
		}
	}
	return out[:k]
}

// ---- running the real helpers --------------------------------------------

type prog struct {
	tmpl   string
	ckb    *expressions.CompiledKeyBuilder
	cerr   string
	cpanic string
}

func compile(tmpl string) *prog {
	p := &prog{tmpl: tmpl}
	func() {
		defer func() {
			if r := recover(); r != nil {
				p.cpanic = fmt.Sprint(r)
			}
		}()
		ckb, err := stdlib.NewStdKeyBuilder().Compile(tmpl)
		p.ckb = ckb
		if err != nil {
			p.cerr = err.Error()
		}
	}()
	return p
}

func (p *prog) eval(in string) (out string, panicked string) {
	if p.cpanic != "" {
		return "", "compile: " + p.cpanic
	}
	if p.ckb == nil {
		return "", "compile returned nil"
	}
	defer func() {
		if r := recover(); r != nil {
			panicked = fmt.Sprint(r)
		}
	}()
	ctx := &expressions.KeyBuilderContextArray{Elements: []string{in}}
	return p.ckb.BuildKey(ctx), ""
}

func q(s string) string { return `"` + s + `"` }

type zoneProgs struct {
	z     *zone
	tf    []*prog    // per namedFormats index (nil: not selected)
	tfDef *prog      // format omitted / empty
	tp    [][2]*prog // per namedFormats index: [tz given, tz omitted]; nil unless roundTrip
	bt    []*prog    // per bucketNames (nil: not selected)
	ta    []*prog    // per attrs
	tl    []*offsetlessProg
	evals int64 // template evaluations made by checkInstant
}

// offsetlessProg: `time` with an explicit format and the zone as tz on text
// that carries no offset (zone-name family; the parse family does this for the
// main zones).
type offsetlessProg struct {
	st *textStyle
	pc *parseCfg
	p  *prog
}

// progSel: which templates buildProgsSel compiles; nil = all of them.
type progSel struct {
	formats, buckets map[string]bool
	offsetless       []string // ids of offset-less text styles for {time text FORMAT tz}
}

// nameFamilySel: the templates of the zone-name family - every helper, every
// attribute, one bucket spelling per bucket class, the formats that show the
// clock, the date, the weekday, the numeric offset and the abbreviation.
var nameFamilySel = &progSel{
	formats:    map[string]bool{"UNIX": true, "RFC822": true, "RFC1123Z": true, "RFC3339": true, "NGINX": true, "DAY": true, "HOUR": true, "TIMEZONE": true, "NTZ": true, "WEEKDAY": true},
	buckets:    map[string]bool{"n": true, "s": true, "minutes": true, "h": true, "day": true, "mo": true, "years": true},
	offsetless: []string{"iso-space", "ANSIC"},
}

var attrs = []string{"weekday", "week", "yearweek", "quarter"}

type garbageProg struct {
	helper string
	tmpl   string
	good   string // a parseable input, evaluated before every unparseable one
	inputs []string
}

func tzArg(z *zone) string {
	if z.arg != "" {
		return " " + q(z.arg)
	}
	return ""
}

// buildProgs compiles, from scratch, every per-instant template of a zone.
func buildProgs(z *zone) *zoneProgs { return buildProgsSel(z, nil) }

func buildProgsSel(z *zone, sel *progSel) *zoneProgs {
	zp := &zoneProgs{z: z}
	tz := tzArg(z)
	for _, nf := range namedFormats {
		if sel != nil && !sel.formats[nf.name] {
			zp.tf = append(zp.tf, nil)
			zp.tp = append(zp.tp, [2]*prog{})
			continue
		}
		zp.tf = append(zp.tf, compile("{timeformat {0} "+nf.name+tz+"}"))
		var pair [2]*prog
		if nf.roundTrip {
			pair[0] = compile("{time {0} " + nf.name + tz + "}")
			pair[1] = compile("{time {0} " + nf.name + "}")
		}
		zp.tp = append(zp.tp, pair)
	}
	if z.arg == "" {
		zp.tfDef = compile("{timeformat {0}}")
	} else {
		zp.tfDef = compile(`{timeformat {0} ""` + tz + "}")
	}
	for _, b := range bucketNames {
		if sel != nil && !sel.buckets[b.name] {
			zp.bt = append(zp.bt, nil)
			continue
		}
		zp.bt = append(zp.bt, compile("{buckettime {0} "+b.name+" RFC3339"+tz+"}"))
	}
	for _, a := range attrs {
		zp.ta = append(zp.ta, compile("{timeattr {0} "+a+tz+"}"))
	}
	if sel != nil {
		for _, id := range sel.offsetless {
			st := styleByID(id)
			mode, fa := modeCustom, q(st.arg)
			if st.named {
				mode, fa = modeNamed, st.arg
			}
			pc := &parseCfg{helper: "time", mode: mode, tzGiven: true, a: st, b: st, tmpl: "{time {0} " + fa + tz + "}"}
			zp.tl = append(zp.tl, &offsetlessProg{st: st, pc: pc, p: compile(pc.tmpl)})
		}
	}
	return zp
}

// garbageProgs: unparseable inputs per helper. Each template is compiled once
// and fed good, bad, good, bad, ... so that an answer remembered from the
// previous evaluation cannot pass for the bad input.
func garbageProgs(z *zone) []garbageProg {
	var out []garbageProg
	tz := tzArg(z)
	const goodUnix = "1583107199" // 2020-03-01T23:59:59Z
	notNumbers := []string{"", "x", "abc", "12x", "x12", "1 2", "--1", "1-", "é", "2020-01-01", "\x00"}
	out = append(out,
		garbageProg{"timeformat", "{timeformat {0} RFC3339" + tz + "}", goodUnix, notNumbers},
		garbageProg{"timeformat", "{timeformat {0} DAY" + tz + "}", goodUnix, notNumbers},
		garbageProg{"timeattr", "{timeattr {0} quarter" + tz + "}", goodUnix, notNumbers},
		garbageProg{"timeattr", "{timeattr {0} yearweek" + tz + "}", goodUnix, notNumbers},
	)
	off, abbr := z.at(1583107199)
	base := calOf(1583107199, off, abbr)
	for _, nf := range namedFormats {
		if !nf.roundTrip {
			continue
		}
		good := base.expectText(nf.name)[0]
		bad := []string{"", "x", "abc", "0", "1583020800", "yesterday", good + "x", "x" + good, good[:len(good)-1], good[:len(good)/2],
			"2020-02-30T00:00:00Z", "32/Jan/2020:00:00:00 +0000"}
		for _, v := range []string{strings.Replace(good, "Mar", "Mrz", 1), strings.Replace(good, ":59", ":61", 1)} {
			if v != good {
				bad = append(bad, v)
			}
		}
		if nf.name == "RFC3339" || nf.name == "RFC3339N" {
			bad = append(bad, "2020-13-01T00:00:00Z", "2020-01-01T25:00:00Z", "2020-01-01 00:00:00", "2020-01-01T00:00:00")
		}
		out = append(out, garbageProg{"time/" + nf.name, "{time {0} " + nf.name + tz + "}", good, bad})
	}
	out = append(out,
		garbageProg{"buckettime", "{buckettime {0} day RFC3339" + tz + "}", base.rfc3339(), []string{"", "x", "abc", "yesterday", "2020-02-30T00:00:00Z", "2020-13-01T00:00:00Z", "2020-01-01T00:00:00Zx", "12:00"}},
	)
	if z.label == "default" {
		notDur := []string{"", "x", "abc", "h", "s", "1x", "1hh", "h1", "1h-", "--1h", "1 h", "1h 2m", "é", "5 s", "1d"}
		out = append(out,
			garbageProg{"duration", "{duration {0}}", "1h1m1s", notDur},
			garbageProg{"durationformat", "{durationformat {0}}", "3661", []string{"", "x", "abc", "1h", "5s", "12x", "--1", "1 2", "é"}},
		)
	}
	return out
}

type Case struct {
	Kind  string `json:"kind"` // instant | duration | garbage | config
	Zone  string `json:"zone,omitempty"`
	Unix  int64  `json:"unix,omitempty"`
	Secs  int64  `json:"secs,omitempty"`
	Prog  string `json:"template,omitempty"`
	Input string `json:"input,omitempty"`
	Local string `json:"reference_local_time,omitempty"`
	// Sequence: what the same freshly compiled expressions were evaluated on
	// before this case, in order (instants or seconds), this case last
	Sequence []int64 `json:"sequence,omitempty"`
	// parse family: one compiled Prog over Window forwards then backwards, entries written in StyleA/StyleB in turns
	Window []int64  `json:"window,omitempty"`
	StyleA string   `json:"text_style_a,omitempty"`
	StyleB string   `json:"text_style_b,omitempty"`
	Texts  []string `json:"texts,omitempty"`
	// garbage-sequence family: position i of Pattern is the i-th instant of Window (Desc: in decreasing order)
	// written in StyleA (V) or the next entry of the garbage alphabet starting at Rot (G)
	Pattern string `json:"pattern,omitempty"`
	Rot     int    `json:"garbage_alphabet_rotation,omitempty"`
	Desc    bool   `json:"instants_in_decreasing_order,omitempty"`
	// zone-history family: the tz arguments one fresh process compiles and evaluates the helpers with, in order
	// (the last one is the judged step); HelperRot: which of timeformat, time, buckettime, timeattr comes first at every step
	TZArgs    []string `json:"tz_arguments_of_the_process_in_order,omitempty"`
	HelperRot int      `json:"helper_order_rotation,omitempty"`
}

type reporter func(sig, detail string)

func panicClass(msg string) string {
	switch {
	case strings.Contains(msg, "index out of range"):
		return "index-out-of-range"
	case strings.Contains(msg, "nil pointer"):
		return "nil-pointer-dereference"
	case strings.Contains(msg, "slice bounds"):
		return "slice-bounds-out-of-range"
	case strings.Contains(msg, "divide by zero"):
		return "integer-divide-by-zero"
	}
	return "other"
}

// checkInstant runs every per-instant check; it returns whether every helper
// produced a non-error value and a digest of what was printed.
func (zp *zoneProgs) checkInstant(u int64, rep reporter) (nontrivial bool, digest string) {
	off, abbr := zp.z.at(u)
	c := calOf(u, off, abbr)
	selfCheck(zp.z, u, c)
	in := strconv.FormatInt(u, 10)
	nontrivial = true
	where := fmt.Sprintf("zone=%s unix=%d (%s, %s)", zp.z.label, u, c.rfc3339(), dayNames[c.wd])

	run := func(helper string, p *prog, input string) (string, bool) {
		zp.evals++
		out, pn := p.eval(input)
		if pn != "" {
			rep("C18/panic/"+helper+"/"+panicClass(pn), fmt.Sprintf("%s on input %q panicked: %s\n%s", p.tmpl, input, pn, where))
			nontrivial = false
			return "", false
		}
		if isErrorMarker(out) {
			nontrivial = false
		}
		return out, true
	}

	// timeformat: "timeformat ... report[s] the calendar fields of that instant in that zone"
	printed := make([]string, len(namedFormats))
	for i, nf := range namedFormats {
		if zp.tf[i] == nil {
			continue
		}
		got, ok := run("timeformat", zp.tf[i], in)
		if !ok {
			continue
		}
		printed[i] = got
		want := c.expectText(nf.name)
		if !contains(want, got) {
			rep("C18/timeformat/"+nf.name+"/wrong-text", fmt.Sprintf("%s printed %q, the calendar says %q\n%s", zp.tf[i].tmpl, got, want, where))
		}
		if nf.name == "RFC1123Z" {
			digest = got
		}
	}
	if got, ok := run("timeformat", zp.tfDef, in); ok {
		if want := c.expectText(""); !contains(want, got) {
			rep("C18/timeformat/default-format/wrong-text", fmt.Sprintf("%s printed %q, the calendar says %q\n%s", zp.tfDef.tmpl, got, want, where))
		}
	}

	// time: "`time` with an explicit format parses what `timeformat` printed back to the same instant,
	// to the precision the format carries, for every named format holding date, time and numeric offset"
	for i, nf := range namedFormats {
		if !nf.roundTrip || printed[i] == "" || isErrorMarker(printed[i]) {
			continue
		}
		if nf.twoDigitYear && (c.Y < 1969 || c.Y > 2068) {
			continue // a two-digit year does not carry the century
		}
		if off%60 != 0 {
			continue // a numeric offset is written in hours and minutes: it does not carry the seconds of this offset
		}
		want := u
		if nf.minutePrecision {
			want = u - floorMod(u+int64(off), 60)
		}
		for v, p := range zp.tp[i] {
			got, ok := run("time", p, printed[i])
			if !ok {
				continue
			}
			if got != strconv.FormatInt(want, 10) {
				class := "wrong-instant"
				if isErrorMarker(got) {
					class = "error-marker"
				}
				variant := "tz-given"
				if v == 1 {
					variant = "tz-omitted"
				}
				rep("C18/time/roundtrip/"+nf.name+"/"+class, fmt.Sprintf("%s on %q (printed by %s) returned %q, want %d (%s)\n%s", p.tmpl, printed[i], zp.tf[i].tmpl, got, want, variant, where))
			}
		}
	}

	// buckettime: "report the calendar fields of that instant in that zone" (truncated to the bucket)
	stamp := c.rfc3339()
	for i, b := range bucketNames {
		if zp.bt[i] == nil || off%60 != 0 { // (the stamp cannot carry an offset with seconds)
			continue
		}
		got, ok := run("buckettime", zp.bt[i], stamp)
		if !ok {
			continue
		}
		if !c.bucketOK(got, b.fields, b.class == "nano") {
			rep("C18/buckettime/"+b.class+"/wrong-fields", fmt.Sprintf("%s on %q returned %q, want the first %d of year..second = %d-%d-%d %d:%d:%d\n%s", zp.bt[i].tmpl, stamp, got, b.fields, c.Y, c.M, c.D, c.h, c.m, c.s, where))
		}
	}

	// timeattr: "(weekday, ISO week, yearweek, quarter) ... quarter is 1..4 with January-March = 1"
	for i, a := range attrs {
		got, ok := run("timeattr", zp.ta[i], in)
		if !ok {
			continue
		}
		if !c.attrOK(a, got) {
			rep("C18/timeattr/"+a+"/wrong-value", fmt.Sprintf("%s returned %q; the calendar says weekday=%d (0=Sunday) ISO week=%d-W%d quarter=%d month=%d\n%s", zp.ta[i].tmpl, got, c.wd, c.isoY, c.isoW, c.quarter(), c.M, where))
		}
		digest += "|" + got
	}

	// time with the zone as tz on text without offset: "all datetimes are processed as UTC, unless explicit
	// in the datetime itself, or overridden via a parameter" (documentation) - see refTime
	for _, tl := range zp.tl {
		text := tl.st.render(c)
		got, ok := run("time", tl.p, text)
		if !ok {
			continue
		}
		judgeParsed(zp.z, tl.pc, tl.st, u, c, text, got, lazy(func() string { return where }), rep)
		digest += "|" + got
	}
	return
}

// selfCheck compares the reference calendar with Go's own (a disagreement is
// an error of the harness, never a finding).
func selfCheck(z *zone, u int64, c cal) {
	t := time.Unix(u, 0).In(z.loc)
	y, m, d := t.Date()
	iy, iw := t.ISOWeek()
	if int64(y) != c.Y || int(m) != c.M || d != c.D || t.Hour() != c.h || t.Minute() != c.m || t.Second() != c.s || int(t.Weekday()) != c.wd || int64(iy) != c.isoY || iw != c.isoW {
		panic(fmt.Sprintf("harness self-check: reference calendar disagrees with package time at %d in %s: %+v vs %s", u, z.label, c, t))
	}
}

func contains(l []string, s string) bool {
	for _, x := range l {
		if x == s {
			return true
		}
	}
	return false
}

// ---- durations -------------------------------------------------------------

// representable range of whole seconds in a time.Duration; the property is
// claimed inside it ("whole seconds"), see Assumptions.
const maxDurSecs = int64(9223372036)

func durationValues(quick bool) []int64 {
	n := int64(100000)
	if quick {
		n = 4000
	}
	var out []int64
	for v := -n; v <= n; v++ {
		out = append(out, v)
	}
	for _, b := range []int64{86399, 86400, 86401, 359999, 360000, 31535999, 31536000, 2147483647, 2147483648, 4294967295, 4294967296, 9223372035, maxDurSecs} {
		if b > n {
			out = append(out, b, -b)
		}
	}
	// a coarse sweep of the rest of the range
	step := int64(92233717) // ~100 points per sign
	if quick {
		step *= 5
	}
	for v := n + step; v < maxDurSecs; v += step {
		out = append(out, v, -v)
	}
	return out
}

type durProgs struct{ format, parse *prog }

func buildDurProgs() *durProgs {
	return &durProgs{format: compile("{durationformat {0}}"), parse: compile("{duration {0}}")}
}

// checkDuration: "`duration` and `durationformat` convert to and from whole seconds consistently"
func (dp *durProgs) checkDuration(n int64, rep reporter) (nontrivial bool, digest string) {
	in := strconv.FormatInt(n, 10)
	nontrivial = true
	text, pn := dp.format.eval(in)
	if pn != "" {
		rep("C18/panic/durationformat/"+panicClass(pn), fmt.Sprintf("{durationformat %d} panicked: %s", n, pn))
		return false, ""
	}
	if back, ok := parseHMS(text); !ok || back != n {
		rep("C18/durationformat/whole-seconds/wrong-text", fmt.Sprintf("{durationformat %d} printed %q, which reads as %d seconds (h/m/s readable: %v)", n, text, back, ok))
		nontrivial = false
	} else {
		got, pn := dp.parse.eval(text)
		if pn != "" {
			rep("C18/panic/duration/"+panicClass(pn), fmt.Sprintf("{duration %q} panicked: %s", text, pn))
			return false, ""
		}
		if got != in {
			rep("C18/duration/roundtrip/wrong-seconds", fmt.Sprintf("{durationformat %d} printed %q but {duration %q} returned %q", n, text, text, got))
			nontrivial = false
		}
	}
	for _, sp := range durationSpellings(n) {
		got, pn := dp.parse.eval(sp)
		if pn != "" {
			rep("C18/panic/duration/"+panicClass(pn), fmt.Sprintf("{duration %q} panicked: %s", sp, pn))
			return false, ""
		}
		if got != in {
			rep("C18/duration/hms-spelling/wrong-seconds", fmt.Sprintf("{duration %q} returned %q, want %d", sp, got, n))
			nontrivial = false
		}
	}
	return nontrivial, text
}

// ---- configuration errors ----------------------------------------------------

// Unparseable *arguments* must not be accepted silently either ("unparseable
// input yields the error marker"): an unknown zone, attribute or bucket.
var configCases = []struct{ helper, tmpl string }{
	{"timeformat/zone", `{timeformat {0} RFC3339 "Not/AZone"}`},
	{"time/zone", `{time {0} RFC3339 "Not/AZone"}`},
	{"timeattr/zone", `{timeattr {0} quarter "Not/AZone"}`},
	{"buckettime/zone", `{buckettime {0} day RFC3339 "Not/AZone"}`},
	{"timeattr/attribute", `{timeattr {0} fortnight}`},
	{"buckettime/bucket", `{buckettime {0} fortnight RFC3339}`},
	{"buckettime/bucket", `{buckettime {0} minutesx RFC3339}`},
}

// ---- worker -----------------------------------------------------------------

// Every helper keeps being evaluated through the SAME compiled expression over
// a run of consecutive enumerated instants, first in increasing and then in
// decreasing order, so that anything a compiled stage remembers between
// evaluations shows. The sharding unit is a block of consecutive instants
// (with 4 instants of overlap into the previous block, so that every window of
// 5 consecutive instants - the +-2 s neighbourhoods - lies inside one block);
// the expressions are compiled from scratch for every block, which makes a
// recorded case (its sequence) exactly replayable.
const (
	blockLen     = 28
	blockOverlap = 4
)

// visitOrder: the block forwards, then backwards.
func visitOrder(blk []int64) []int64 {
	order := append([]int64{}, blk...)
	for i := len(blk) - 2; i >= 0; i-- {
		order = append(order, blk[i])
	}
	return order
}

func blocks(n int, f func(lo, start, hi int) bool) {
	for start := 0; start < n; start += blockLen {
		lo, hi := start-blockOverlap, start+blockLen
		if lo < 0 {
			lo = 0
		}
		if hi > n {
			hi = n
		}
		if !f(lo, start, hi) {
			return
		}
	}
}

func worker(w *runner.W) {
	setGlobals()
	var caseNo int64
	var cur func() Case
	w.SetCase(func() any {
		if cur == nil {
			return nil
		}
		return cur()
	})
	rep := func(sig, detail string) {
		c := cur()
		if n := len(c.Sequence); n >= 2 {
			detail += fmt.Sprintf("\nsame compiled expression; evaluation %d of its block, the previous one was on %d (replay runs the whole sequence)", n, c.Sequence[n-2])
		}
		w.Violation(sig, detail, c)
	}
	perInstant := int64(len(namedFormats) + 1 + len(bucketNames) + len(attrs) + 12)

	// zone-history family: one fresh process per sequence of tz arguments, see zonehistory.go
	histSampled := false
	stopped := false
	histSequences(w.Quick(), func(args []string) bool {
		caseNo++
		if !w.Owns(caseNo) {
			return true
		}
		if w.Expired() {
			stopped = true
			return false
		}
		rot := histRot(args)
		cur = func() Case { return histCase(args, rot, len(args)-1) }
		res, hang := runHistory(args, rot)
		w.Add("zone_history_processes", 1)
		if hang {
			w.Violation("C18/zone-history/hang", fmt.Sprintf("a process that compiles and evaluates the time helpers with the tz arguments %q did not finish within 60 s", args), cur())
			w.Eval(false)
			return true
		}
		reportHistory(args, rot, res, func(sig, detail string, c Case) { w.Violation(sig, detail, c) })
		nt, judgedAfterHistory := true, false
		var dig []string
		for i, st := range res.Steps {
			w.Add("zone_history_template_evaluations", st.Evals)
			if st.Supported {
				w.Add("zone_history_steps_supported_zone_judged", 1)
				nt = nt && st.Nontrivial
				judgedAfterHistory = judgedAfterHistory || i > 0
			} else {
				w.Add("zone_history_steps_unsupported_spelling_not_judged", 1)
				if st.Answer != "rejected" {
					w.Add("zone_history_steps_unsupported_spelling_answered_with_a_value", 1)
				}
			}
			dig = append(dig, st.Digest)
		}
		w.Eval(nt && judgedAfterHistory)
		w.Max("zone_history_longest_sequence", int64(len(args)))
		w.Outcome("zone-history", strings.Join(args, "\x00"), strings.Join(dig, "\x00"))
		if !histSampled && w.WantSample() && nt && judgedAfterHistory && len(args) == 3 && !res.Steps[0].Supported {
			histSampled = true
			w.Sample(cur())
		}
		return true
	})
	if stopped || w.Param("family", "all") == "zone-history" { // development aid (-p family=zone-history): this family only
		return
	}

	// zone-name family: every zone name of the database x probe instants x every helper, see zonenames.go
	sampled := false
	for _, name := range zoneNameCandidates(w.Quick()) {
		z := namedZone(name)
		if z == nil {
			caseNo++
			if w.Owns(caseNo) {
				w.Add("zone_name_candidates_not_loadable_not_judged", 1)
			}
			continue
		}
		// thorough: the larger probe set for every name but the host's posix/ and right/ copies of the database
		probes := nameProbes(z, w.Quick() || nameClass(name) == "posix-or-right-tree-name")
		first := true
		for lo := 0; lo < len(probes); lo += nameBlockLen {
			caseNo++
			if !w.Owns(caseNo) {
				continue
			}
			if w.Expired() {
				return
			}
			hi := lo + nameBlockLen
			if hi > len(probes) {
				hi = len(probes)
			}
			setGlobals()
			zp := buildProgsSel(z, nameFamilySel)
			for _, p := range allProgs(zp) {
				if p.cpanic != "" || p.cerr != "" {
					c := Case{Kind: "zone-name", Zone: z.label, Prog: p.tmpl}
					w.Violation("C18/zone-name/"+nameClass(name)+"/"+helperOf(p.tmpl)+"/rejected-zone-of-the-host-database", fmt.Sprintf("template %s did not compile: %s %s; time.LoadLocation(%q) succeeds in this process", p.tmpl, p.cerr, p.cpanic, name), c)
				}
			}
			blk := probes[lo:hi]
			nrep := nameFamilyRep(z, rep)
			for i, u := range blk {
				i, u := i, u
				cur = func() Case {
					return Case{Kind: "zone-name", Zone: z.label, Unix: u, Sequence: append([]int64{}, blk[:i+1]...)}
				}
				before := zp.evals
				nt, digest := zp.checkInstant(u, nrep)
				w.Eval(nt)
				w.Add("zone_name_family_template_evaluations", zp.evals-before)
				w.Add("zone_name_family_instants", 1)
				w.Outcome("zone-name", z.label, digest)
				if !sampled && w.WantSample() && nt && first && u%89 == 0 {
					sampled = true
					off, abbr := z.at(u)
					w.Sample(Case{Kind: "zone-name", Zone: z.label, Unix: u, Local: calOf(u, off, abbr).rfc3339()})
				}
			}
			if lo == 0 {
				w.Add("zone_names", 1)
			}
			first = false
		}
	}
	if w.Param("family", "all") == "zone-name" { // development aid (-p family=zone-name with VERIF_HARNESS=exprtime): this family only
		return
	}

	for zoneNo, z := range zonesFor(w.Quick()) {
		setGlobals()
		for _, p := range allProgs(buildProgs(z)) {
			if p.cpanic != "" || p.cerr != "" {
				c := Case{Kind: "config", Zone: z.label, Prog: p.tmpl}
				w.Violation("C18/compile/rejected-template", fmt.Sprintf("template %s did not compile: %s %s", p.tmpl, p.cerr, p.cpanic), c)
			}
		}
		ins := z.instants(w.Quick())
		stop := false
		blocks(len(ins), func(lo, start, hi int) bool {
			caseNo++
			if !w.Owns(caseNo) {
				return true
			}
			if w.Expired() {
				stop = true
				return false
			}
			setGlobals()
			zp := buildProgs(z)
			order := visitOrder(ins[lo:hi])
			for i, u := range order {
				i, u := i, u
				cur = func() Case {
					return Case{Kind: "instant", Zone: z.label, Unix: u, Sequence: append([]int64{}, order[:i+1]...)}
				}
				nt, digest := zp.checkInstant(u, rep)
				w.Eval(nt)
				w.Add("template_evaluations", perInstant)
				if i < hi-lo && lo+i >= start { // first visit of an instant of this block
					w.Add("instants", 1)
					w.Outcome(z.label, digest)
					if w.WantSample() && nt && u%977 == 0 {
						off, abbr := z.at(u)
						w.Sample(Case{Kind: "instant", Zone: z.label, Unix: u, Local: calOf(u, off, abbr).rfc3339()})
					}
				} else {
					w.Add("revisits_same_compiled_expression_other_neighbour", 1)
				}
			}
			w.Add("blocks_of_consecutive_instants", 1)
			return true
		})
		if stop {
			return
		}
		// parse family: one compiled parsing expression over a window of instants, see parse.go
		stride, tStride := 67, 1
		if w.Quick() {
			stride, tStride = 61, 6
		}
		cfgs := parseCfgs(z, !w.Quick())
		for _, win := range parseWindows(z, ins, stride, tStride) {
			caseNo++
			if !w.Owns(caseNo) {
				continue
			}
			if w.Expired() {
				return
			}
			setGlobals()
			for _, pc := range cfgs {
				pc, win := pc, win
				cur = func() Case { return parseCase(z, pc, win) }
				nt, digest, evals := runParseCfg(z, pc, win, rep)
				w.Eval(nt)
				w.Add("parse_family_cases", 1)
				w.Add("parse_family_template_evaluations", evals)
				w.Outcome("parse", z.label, pc.tmpl, digest)
				if w.WantSample() && nt && pc.mode == modeAuto && pc.a != pc.b && win[0]%7 == 0 {
					w.Sample(parseCase(z, pc, win))
				}
			}
			w.Add("parse_family_windows", 1)
		}
		// garbage-sequence family: entries that are not dates around valid dates of one layout, see garbageseq.go
		gcfgs := garbageSeqCfgs(z)
		for _, win := range garbageSeqWindows(z, zoneNo, ins, w.Quick()) {
			for _, pc := range gcfgs {
				caseNo++
				if !w.Owns(caseNo) {
					continue
				}
				if w.Expired() {
					return
				}
				setGlobals()
				pc, win := pc, win
				runGarbageSeqCfg(z, pc, win, !w.Quick(), rep, func(pattern string, rot int, desc bool) {
					cur = func() Case { return garbageSeqCase(z, pc, win, pattern, rot, desc) }
				}, func(nt bool, digest string, evals int64) {
					w.Eval(nt)
					w.Add("garbage_sequence_cases", 1)
					w.Add("garbage_sequence_template_evaluations", evals)
					w.Outcome("garbage-sequence", z.label, pc.tmpl, digest)
					if w.WantSample() && nt && pc.mode == modeCache && strings.HasPrefix(digest, "<") {
						w.Sample(cur())
					}
				})
				w.Add("garbage_sequence_configurations_x_windows", 1)
			}
		}
		// unparseable input
		for _, g := range garbageProgs(z) {
			caseNo++
			if !w.Owns(caseNo) {
				continue
			}
			g := g
			checkGarbage(z, g, func(in string) {
				cur = func() Case { return Case{Kind: "garbage", Zone: z.label, Prog: g.tmpl, Input: in} }
			}, rep)
			w.Eval(true)
			w.Add("garbage_inputs", int64(len(g.inputs)))
		}
	}
	for _, cc := range configCases {
		caseNo++
		if !w.Owns(caseNo) {
			continue
		}
		cc := cc
		cur = func() Case { return Case{Kind: "config", Prog: cc.tmpl, Input: "1583020800"} }
		checkConfig(cc.helper, cc.tmpl, rep)
		w.Eval(true)
		w.Add("garbage_inputs", 1)
	}
	vals := durationValues(w.Quick())
	blocks(len(vals), func(lo, start, hi int) bool {
		caseNo++
		if !w.Owns(caseNo) {
			return true
		}
		if w.Expired() {
			return false
		}
		dp := buildDurProgs()
		order := visitOrder(vals[lo:hi])
		for i, n := range order {
			i, n := i, n
			cur = func() Case { return Case{Kind: "duration", Secs: n, Sequence: append([]int64{}, order[:i+1]...)} }
			nt, digest := dp.checkDuration(n, rep)
			w.Eval(nt)
			if i < hi-lo && lo+i >= start {
				w.Add("durations", 1)
				w.Outcome("duration", digest)
			}
		}
		return true
	})
}

// zone-name family: a zone's probe instants are cut into blocks; one block =
// one fresh compile of the family's templates evaluated over the block in order.
const nameBlockLen = 64

func helperOf(tmpl string) string {
	t := strings.TrimPrefix(tmpl, "{")
	if i := strings.IndexByte(t, ' '); i > 0 {
		return t[:i]
	}
	return "helper"
}

// nameFamilyRep files what checkInstant reports for a zone of the zone-name
// family under the family's own signatures: class of name x helper x failure
// class (the check that failed is kept in the detail).
func nameFamilyRep(z *zone, rep reporter) reporter {
	cls := nameClass(z.label)
	return func(sig, detail string) {
		parts := strings.Split(sig, "/")
		if len(parts) < 3 || parts[1] == "panic" || parts[1] == "compile" {
			rep(sig, detail)
			return
		}
		failure := "calendar-fields-of-another-zone"
		if parts[len(parts)-1] == "error-marker" {
			failure = "error-marker"
		}
		o, a := z.at(0)
		rep("C18/zone-name/"+cls+"/"+parts[1]+"/"+failure, detail+fmt.Sprintf("\nzone-name family (check %s): tz argument %q is a zone of this process's database (time.LoadLocation succeeds; at unix 0 it is %s %+d s)", sig, z.label, a, o))
	}
}

func parseCase(z *zone, pc *parseCfg, win []int64) Case {
	c := Case{Kind: "parse", Zone: z.label, Prog: pc.tmpl, StyleA: pc.a.id, StyleB: pc.b.id, Window: append([]int64{}, win...)}
	for i, u := range win {
		st := pc.a
		if i%2 == 1 {
			st = pc.b
		}
		off, abbr := z.at(u)
		c.Texts = append(c.Texts, st.render(calOf(u, off, abbr)))
	}
	return c
}

func allProgs(zp *zoneProgs) []*prog {
	var out []*prog
	add := func(ps ...*prog) {
		for _, p := range ps {
			if p != nil {
				out = append(out, p)
			}
		}
	}
	add(zp.tf...)
	add(zp.tfDef)
	for _, p := range zp.tp {
		add(p[0], p[1])
	}
	add(zp.bt...)
	add(zp.ta...)
	for _, tl := range zp.tl {
		add(tl.p)
	}
	return out
}

// checkGarbage: "unparseable input yields the error marker". One compiled
// expression is fed good, bad, good, bad, ...
func checkGarbage(z *zone, g garbageProg, at func(in string), rep reporter) {
	p := compile(g.tmpl)
	for _, in := range g.inputs {
		at(g.good)
		out, pn := p.eval(g.good)
		if pn != "" {
			rep("C18/panic/"+g.helper+"/"+panicClass(pn), fmt.Sprintf("%s on input %q panicked: %s", p.tmpl, g.good, pn))
			return
		}
		if isErrorMarker(out) {
			rep("C18/sequence/"+g.helper+"/good-input-rejected-after-bad", fmt.Sprintf("%s (zone %s) on the parseable input %q returned %q (evaluated in turns with unparseable inputs)", p.tmpl, z.label, g.good, out))
		}
		at(in)
		out, pn = p.eval(in)
		if pn != "" {
			rep("C18/panic/"+g.helper+"/"+panicClass(pn), fmt.Sprintf("%s on input %q panicked: %s", p.tmpl, in, pn))
			return
		}
		if !isErrorMarker(out) {
			rep("C18/garbage/"+g.helper+"/no-error-marker", fmt.Sprintf("%s on unparseable input %q returned %q instead of an error marker (previous input: %q)", p.tmpl, in, out, g.good))
		}
	}
}

func checkConfig(helper, tmpl string, rep reporter) {
	p := compile(tmpl)
	out, pn := p.eval("1583020800")
	if pn != "" {
		rep("C18/panic/"+helper+"/"+panicClass(pn), fmt.Sprintf("%s panicked: %s", tmpl, pn))
		return
	}
	if !isErrorMarker(out) || p.cerr == "" {
		rep("C18/garbage/"+helper+"/no-error-marker", fmt.Sprintf("%s (unknown argument) returned %q, compile error %q; want an error marker and a compile error", tmpl, out, p.cerr))
	}
}

func replay(w *runner.W, raw json.RawMessage) {
	var c Case
	if err := json.Unmarshal(raw, &c); err != nil {
		panic(err)
	}
	setGlobals()
	cur := c
	rep := func(sig, detail string) { w.Violation(sig, detail, cur) }
	switch c.Kind {
	case "instant":
		seq := c.Sequence
		if len(seq) == 0 {
			seq = []int64{c.Unix}
		}
		for _, z := range zonesFor(false) {
			if z.label == c.Zone {
				zp := buildProgs(z)
				for _, u := range seq {
					zp.checkInstant(u, rep)
				}
			}
		}
	case "zone-name":
		z := namedZone(c.Zone)
		if z == nil {
			return
		}
		seq := c.Sequence
		if len(seq) == 0 && c.Unix != 0 {
			seq = []int64{c.Unix}
		}
		zp := buildProgsSel(z, nameFamilySel)
		for _, p := range allProgs(zp) {
			if (p.cpanic != "" || p.cerr != "") && (c.Prog == "" || c.Prog == p.tmpl) {
				w.Violation("C18/zone-name/"+nameClass(z.label)+"/"+helperOf(p.tmpl)+"/rejected-zone-of-the-host-database", fmt.Sprintf("template %s did not compile: %s %s", p.tmpl, p.cerr, p.cpanic), cur)
			}
		}
		nrep := nameFamilyRep(z, rep)
		for _, u := range seq {
			zp.checkInstant(u, nrep)
		}
	case "zone-history":
		if len(c.TZArgs) == 0 || len(c.TZArgs) > 8 {
			return
		}
		res, hang := runHistory(c.TZArgs, c.HelperRot)
		if hang {
			w.Violation("C18/zone-history/hang", "the process did not finish within 60 s", cur)
			return
		}
		// the recorded case ends with the judged step
		for _, v := range res.Violations {
			if v.Step == len(c.TZArgs)-1 {
				w.Violation(v.Sig, v.Detail, cur)
			}
		}
	case "parse":
		for _, z := range zonesFor(false) {
			if z.label != c.Zone {
				continue
			}
			for _, pc := range parseCfgs(z, true) {
				if pc.tmpl == c.Prog && pc.a.id == c.StyleA && pc.b.id == c.StyleB {
					runParseCfg(z, pc, c.Window, rep)
					return
				}
			}
		}
	case "garbage-sequence":
		for _, z := range zonesFor(false) {
			if z.label != c.Zone {
				continue
			}
			for _, pc := range garbageSeqCfgs(z) {
				if pc.tmpl == c.Prog && pc.a.id == c.StyleA && len(c.Pattern) >= 1 && len(c.Pattern) <= len(c.Window) {
					runGarbageSeq(z, pc, c.Window, c.Pattern, c.Rot, c.Desc, map[string]string{}, rep)
					return
				}
			}
		}
	case "duration":
		seq := c.Sequence
		if len(seq) == 0 {
			seq = []int64{c.Secs}
		}
		dp := buildDurProgs()
		for _, n := range seq {
			dp.checkDuration(n, rep)
		}
	case "garbage":
		for _, z := range zonesFor(false) {
			if z.label != c.Zone {
				continue
			}
			for _, g := range garbageProgs(z) {
				if g.tmpl == c.Prog {
					checkGarbage(z, g, func(string) {}, rep)
					return
				}
			}
		}
	case "config":
		for _, cc := range configCases {
			if cc.tmpl == c.Prog {
				checkConfig(cc.helper, cc.tmpl, rep)
			}
		}
	}
}

func main() {
	if spec := os.Getenv(historyEnv); spec != "" {
		historyChild(spec) // one sequence of tz arguments in a fresh process (zonehistory.go); never returns
	}
	runner.Main(&runner.Spec{
		Name:       "exprtime",
		Properties: []string{"C18"},
		Level:      "exploration",
		Rule: func(prop, tier string) string {
			days, weeks, dur := "every day", "every ISO-week start", "-100000..100000"
			if tier != "thorough" {
				days, weeks, dur = "every 11th day", "every 5th ISO-week start", "-4000..4000"
			}
			pwin, ppairs := "every 61st chunk of 5 of the zone's sorted instants + the +-2 s around every 6th change of offset", "every detectable style with its successor in the list"
			if tier == "thorough" {
				pwin, ppairs = "every 67th chunk of 5 of the zone's sorted instants + the +-2 s around every change of offset", "all ordered pairs of the 17 detectable styles with the tz argument given, successor pairs with it omitted"
			}
			gwin, gorder := "one window of 5 consecutive enumerated seconds (the middle one of its kind in the zone's list; the kind - +-2 s around a local month start, a chunk of the sorted instants, +-2 s around a change of offset - rotates with the zone)", "the instants in increasing order for even rotations and in decreasing order for odd ones"
			if tier == "thorough" {
				gwin, gorder = "up to four windows of 5 consecutive enumerated seconds (the middle +-2 s around a local month start, the one a quarter into the list, the middle chunk of the sorted instants, the middle +-2 s around a change of offset if the zone has one)", "the instants in increasing and in decreasing order"
			}
			more := ""
			if tier == "thorough" {
				more = ", Europe/London, Pacific/Auckland, Asia/Kathmandu, Pacific/Apia, America/Sao_Paulo"
			}
			nameTrees, nameGrid, nameRoll := "without its posix/ and right/ trees", "Jan 15, Mar 20, Apr 15, Jul 15, Oct 15, Nov 2 of 1970, 1974, ... 2098 (every 4th year), 2007 and 2100", "the years 1970, 1987, 2006, 2007, 2024, 2038, 2100"
			if tier == "thorough" {
				nameTrees, nameGrid, nameRoll = "including its posix/ and right/ trees", "the 15th of every month, Mar 20 and Nov 2 of every year 1970..2100", "those years and every 4th year 1972..2100 (the names of the posix/ and right/ trees: the quick tier's instants)"
			}
			histAlphabetSize := strconv.Itoa(len(histWholeAlphabet()))
			histSeqs := "per base zone every ordered pair over all its spellings + the globals; every ordered pair over {exact, lower case} of the six bases + their related names; per base zone every triple over {exact, lower, UPPER, one more case variant, typo, omitted}"
			if tier == "thorough" {
				histSeqs += "; every ordered pair over the whole alphabet; per base zone every triple over those six + {blank in front, first related name, utc, local} and every 4-sequence over the six; every triple over {exact, lower, UPPER} of the six bases + {omitted, utc}"
			}
			return "zones {tz omitted, utc, Etc/GMT+5, America/New_York, Europe/Berlin, Australia/Lord_Howe, Asia/Kolkata, local(=America/St_Johns via time.Local)" + more + "} from the embedded time/tzdata x unix seconds in [1970-01-01, 2100-12-31]: " + days + " at local 00:00:00, 12:00:00, 23:59:59; +-2 s around every local month start (so every quarter and year start), " + weeks + " (Monday 00:00 local) and every change of the zone's offset/abbreviation (found by bisection over every day) x {timeformat in all 23 named formats + default; time round trip of the printed text for RUBY, RFC822Z, RFC1123Z, RFC3339, RFC3339N, NGINX with and without tz; buckettime for 23 spellings of the 7 buckets; timeattr weekday, week, yearweek, quarter}; one (zone, second) = ~75 template evaluations through BuildKey. Order of evaluation: the instants of a zone are cut into blocks of 28 consecutive enumerated instants (+4 of overlap, so every +-2 s neighbourhood lies inside a block); for every block all templates are compiled from scratch and the SAME compiled expressions are evaluated on the block in increasing and then in decreasing order (every instant is checked after its predecessor and after its successor), one case = one evaluation of an instant in such a sequence; durations likewise in blocks of consecutive values, both orders; each unparseable input is evaluated right after a parseable one on the same compiled expression. Plus durationformat/duration on whole seconds " + dur + " and a sweep to +-9223372036 (5 spellings each), and lists of unparseable inputs/arguments per helper. non-trivial = no helper returned an error marker or panicked for the (zone, second) or duration case; an unparseable-input case counts when the helper was reached and answered. PARSE FAMILY (history x configuration of every helper that reads date text through smartDateParseWrapper): per zone, windows of 5 consecutive enumerated instants (" + pwin + ") x {time; buckettime with buckets s, minutes, h, day, mo, years, nanos in rotation} x format argument {omitted, \"\", cache, auto, the named formats ANSIC UNIX RUBY RFC822 RFC822Z RFC1123 RFC1123Z RFC3339 RFC3339N NGINX, custom layouts 2006-01-02 15:04:05 | 2006-01-02T15:04:05 | 2006/01/02 15:04:05 | 01/02/2006 15:04:05 | 20060102150405 | 2006-01-02 15:04 | 2006-01-02 15:04:05 -0700 | 02/Jan/2006:15:04:05 -0700 | 2006-01-02 15:04:05 MST} x tz argument {the zone's own, omitted} x text written by the reference in 19 styles (7 without offset, 8 with numeric offset, 4 with the zone abbreviation); an explicit format gets the text of that format, the detecting modes get every style dateparse has a shape for (cache/\"\"/omitted: not the abbreviation styles); auto additionally over sequences alternating two styles A,B,A,B,A (" + ppairs + "). One case = ONE compiled expression evaluated over the window forwards and then backwards (9 evaluations), each answer compared (H) with a fresh compile of the same template evaluating only that text and (R) with the reference (numeric offset: the instant to the format's precision; no offset: an instant whose calendar fields in the tz argument's zone, UTC when omitted, are the text's; abbreviation: not constrained; a detecting mode may answer the error marker, an explicit format may not); non-trivial = every answer of the long-lived expression was a value. GARBAGE-SEQUENCE FAMILY (history of the detecting modes): per zone, " + gwin + " x {time; buckettime} x format argument {omitted, \"\", cache, auto} x tz argument {the zone's own, omitted} x every text style the mode is offered in the parse family (one layout per sequence) x every word over {V = the position's instant as a valid date, G = an entry that is not a date} of length 2..5 with one to three G and at least one V (47 words: garbage before, between and after the dates) x 12 rotations of the garbage alphabet {empty string, -, n/a, one blank, 0, 404, 12345, 99999999, -1, yesterday, hello world, the position's instant in the sequence's own style with hour 25} (the j-th G of a word is entry rotation+j, so every garbage entry stands at every G position) x " + gorder + ". One case = ONE compiled expression evaluated over the sequence forwards and then backwards; every garbage entry must yield an error marker, every valid date exactly what a fresh compile of the template answers for that text alone (garbage leaves no trace) and, when it is a value, the reference's instant/fields as in the parse family; non-trivial = every valid date of the sequence yielded a value and every garbage entry an error marker" + ". ZONE-NAME FAMILY (the tz argument over every zone NAME, not a handful of zone shapes): names = the 598 names of the IANA database 2025b compiled into the harness (Area/City, Etc/*, the legacy short names EST MST HST EST5EDT CST6CDT MST7MDT PST8PDT WET CET MET EET UTC GMT GMT+0..., country and US/* links; resolved by the embedded time/tzdata on any host) + every file of the host's zoneinfo directory (" + nameTrees + "); a name is used when time.LoadLocation(name) succeeds in this process (others are counted and not judged) x probe instants per name: " + nameGrid + " at 12:00 UTC, and, for " + nameRoll + ", local 23:30:00, 23:59:59, next day 00:00:00, 00:30:00 at the end of Mar 31, Jun 30, Sep 30, Dec 31 and of the Sunday on/after Jan 15 and Jul 15 (last/first local hour of a day, ISO week, quarter, year) x {timeformat UNIX RFC822 RFC1123Z RFC3339 NGINX DAY HOUR TIMEZONE NTZ WEEKDAY + default; time round trip of RFC1123Z RFC3339 NGINX with and without tz; time on offset-less text (2006-01-02 15:04:05, ANSIC) with the name as tz; buckettime n s minutes h day mo years on RFC3339 text; timeattr weekday week yearweek quarter} = 30 template evaluations per (name, instant); the probes of a name are cut into blocks of 64, one fresh compile per block, evaluated in increasing order; oracle: offset/abbreviation of the loaded location at the second, every field recomputed by calendar.go; signatures C18/zone-name/<class of name>/<helper>/<failure>; non-trivial as for (zone, second)" + ". ZONE-HISTORY FAMILY (the ORDER in which one process sees tz arguments; one case = one FRESH PROCESS - the harness re-executes itself, so package-level state of rare starts clean for every sequence - that compiles and evaluates the helpers with the tz arguments of one sequence, step by step): alphabet = per base zone of {America/New_York, Europe/Berlin, Asia/Kolkata, EST, UTC, Etc/GMT+5} the exact name, lower case, UPPER case, every path segment Title-cased, first / last path segment lower-cased, the last letter mistyped, a blank in front / behind, the last character missing, the first / the last path segment alone, and the related names of the database (the base is a prefix or suffix of them or they of it: Etc/GMT, EST5EDT, Etc/UTC), plus the globals {argument omitted, \"\", local, LOCAL, Local, utc} (" + histAlphabetSize + " arguments in all); sequences: " + histSeqs + "; at every step every helper is compiled with the step's tz argument (timeformat RFC3339 NGINX HOUR DAY + default, time round trip RFC3339 NGINX + time on offset-less text, buckettime h day, timeattr x 4; the helper compiled first rotates with a hash of the sequence) and, when the argument is supported (omitted, \"\", utc, local, or time.LoadLocation accepts it in this process), evaluated at 6 probe instants (unix 0, 2007-03-20, 2020-01-15, 2020-07-15 at 12:00 UTC, 2020-06-30 23:30 and 2021-01-01 00:30 local) against the per-instant oracle above = 96 template evaluations per judged step; a supported argument must compile and report the fields of ITS zone whatever the process saw before (fresh process == after any history; two arguments resolving to different zones are never conflated); a step with any other spelling is executed and NOT judged (only a panic is reported; how it was answered is counted); signatures C18/zone-history/<first-in-process|after-unsupported-case-variant|after-unsupported-other-spelling|after-another-supported-argument|after-supported-case-variant|after-the-same-argument>/<helper>/<supported-zone-rejected|error-marker|calendar-fields-of-another-zone>; non-trivial = a supported argument was judged after at least one earlier step and every supported step compiled and yielded values only"
		},
		Assumptions: func(string) []string {
			return []string{
				"zone offsets and abbreviations are taken from Go's embedded tzdata (time/tzdata); calendar fields, ISO weeks, quarters and the text of every named format are recomputed independently from unixSecond+offset",
				"the helpers are functions of the local calendar fields, whose breakpoints are all enumerated; not every second of 130 years is executed",
				"RFC822Z carries a two-digit year and minutes: the round trip is demanded to the minute and only for years 1969..2068",
				"buckettime is given the instant as RFC3339 text with the zone's own offset and the zone as tz; text whose offset differs from the tz argument is not constrained (the statement and the documentation disagree on which wins)",
				"blank- and zero-padded days are both accepted in ANSIC/UNIX/NGINX; Sunday may be 0 or 7; only digit groups of buckettime/yearweek output are compared",
				"durations are claimed for |seconds| <= 9223372036 (what a 64-bit nanosecond duration holds); which layouts cache/auto detection recognises is not part of the statement: a detecting mode may answer the error marker, but must answer what a fresh compile answers and, when it answers, the right instant",
				"parse family: the documentation declares format omitted / \"\" / cache stateful (\"The first seen date will determine the format for all dates going forward\"), so those modes are only run over texts of one shape (same style, same field widths; entries of another shape are left out of the sequence) and never over abbreviation styles; text with a zone abbreviation is judged by history independence only (the statement speaks of numeric offsets); offset-less text is read in the tz argument's zone per the documentation (\"processed as UTC, unless explicit in the datetime itself, or overridden via a parameter\"), both instants accepted where a wall clock repeats; time.Local is pinned to America/St_Johns for tz=local",
				"zone-name family: \"supported time zone\" = a name time.LoadLocation resolves in this process (documentation: \"utc, local, or a valid IANA Time Zone\"); which zone a name denotes is taken from that lookup (host zoneinfo directory first, embedded time/tzdata otherwise), so the set of names and their rules are those of the host the check runs on; a name the database does not have is not judged (the statement does not say whether further aliases may exist); an offset that is not a whole number of minutes (Africa/Monrovia before 1972) cannot be written as a numeric offset, so the round trip and buckettime on RFC3339 text are not demanded at such instants",
				"zone-history family: which zone a tz argument denotes is decided by package time alone (documentation: \"The following values are accepted for a tz (timezone): utc, local, or a valid IANA Time Zone\", default utc): omitted, \"\", utc -> UTC, local -> time.Local (pinned to America/St_Johns), any other text -> time.LoadLocation in the process under test, which on this host is case-sensitive (america/new_york, AMERICA/NEW_YORK, Est are not names of the database); a spelling it does not accept (also Utc, LOCAL, which rare happens to accept) is executed for what it leaves behind and not judged - neither statement nor documentation say whether it must be refused; every sequence runs in its own process, so no verdict depends on an earlier case; histories longer than 3 (thorough 4) steps, goroutines compiling concurrently and histories through a --funcs file are not covered here",
				"garbage-sequence family: an entry that is not a date is not a \"seen date\" (documentation of cache) and is unparseable input (statement), so it must yield the error marker and leave no trace; the garbage alphabet holds only texts that are no date in any layout - texts dateparse itself reads as a date of some layout (a unix epoch number such as 1460653945, 2020, 3.14, 1.2.3.4) count as dates of ANOTHER layout and are not used; what a caching mode answers for a date of another layout after the first seen date (error marker, or a value because it detected again) is not judged in either direction: the documentation's sentence describes the shortcut, not a promise that other layouts fail - valid dates whose shape differs from the first valid date of a sequence are left out of it",
			}
		},
		Worker:         worker,
		Replay:         replay,
		HangSeconds:    60,
		QuickBudget:    3 * time.Minute,
		ThoroughBudget: 15 * time.Minute,
	})
}
