// Harness exprconc decides the concurrent-evaluation clauses of C10 and C17:
// one compiled expression (array helpers sharing the pooled sub-contexts,
// funcs-file functions with their per-call-site pools, the cached time
// format, optimised and unoptimised compilations) is evaluated by 2-3
// goroutines with different matches under the controlled runtime. Every
// schedule with at most B deviations is executed; a scheduling point sits at
// every context look-up (GetMatch/GetKey), every pool mutex operation and
// every atomic operation, and the vector-clock detector watches the struct
// fields and package variables of the expression packages. Oracle: every
// evaluation returns what the same expression returns for that match when it
// is evaluated alone.
package main

import (
	"encoding/json"
	"fmt"
	"os"
	"sort"
	"strings"
	"time"

	"rare/pkg/expressions"
	"rare/pkg/expressions/funcfile"
	"rare/pkg/expressions/funclib"
	"rare/pkg/expressions/stdlib"
	vrt "rare/verifrt"
	"verif/mc"
	"verif/runner"
)

type match struct {
	Groups []string          `json:"groups"`
	Keys   map[string]string `json:"keys"`
}

// ctx is the match context; every look-up is a scheduling point, so a
// goroutine can be descheduled in the middle of an evaluation.
type ctx struct {
	m      *match
	yields bool
}

func (c *ctx) GetMatch(idx int) string {
	if c.yields {
		vrt.YieldAt("GetMatch")
	}
	if idx < 0 || idx >= len(c.m.Groups) {
		return ""
	}
	return c.m.Groups[idx]
}

func (c *ctx) GetKey(key string) string {
	if c.yields {
		vrt.YieldAt("GetKey")
	}
	if v, ok := c.m.Keys[key]; ok {
		return v
	}
	return "<NOKEY>"
}

const nul = "\x00"

// numeric matches for the all-builtins family (indices 3 and 4)
var numMatches = []*match{
	// small on purpose: counts and ranges built from them stay tiny
	{Groups: []string{"1337", "100", "7"}, Keys: map[string]string{"k": "b", "n": "2"}},
	{Groups: []string{"2468", "60", "3"}, Keys: map[string]string{"k": "q", "n": "3"}},
}

// builtinPrograms builds one small program per builtin function, arity and
// argument style that compiles: every helper is then evaluated by two
// goroutines with different numeric matches (a scratch buffer or cache hoisted
// into a compiled stage is shared by all workers of the extractor).
func builtinPrograms() []program {
	var names []string
	for n := range funclib.Builtins {
		names = append(names, n)
	}
	sort.Strings(names)
	var out []program
	for _, n := range names {
		if n == "@for" { // a group value as condition never turns false: the loop runs to its iteration cap (covered by the for-key program)
			continue
		}
		for arity := 1; arity <= 3; arity++ {
			for _, style := range []string{"dyn", "lastconst"} {
				args := []string{"{0}", "{1}", "{2}"}[:arity]
				if style == "lastconst" {
					if arity == 1 {
						continue
					}
					args = append(append([]string{}, args[:arity-1]...), "2")
				}
				t := "{" + n + " " + strings.Join(args, " ") + "}"
				p := program{Prop: "C10", Name: "builtin/" + n, Template: t}
				if _, err := compile(&p, true); err != nil {
					continue
				}
				out = append(out, p)
			}
		}
	}
	return out
}

var matches = []*match{
	{Groups: []string{"a" + nul + "b" + nul + "c", "x,y", "2021-03-04 05:06:07", "7", "2021-03-04 05:06:07"}, Keys: map[string]string{"k": "b", "n": "2"}},
	{Groups: []string{"p" + nul + "q", "1,2,3", "2020-11-12 13:14:15", "40", "-"}, Keys: map[string]string{"k": "q", "n": "3"}},
	{Groups: []string{"", "z", "1999-12-31 23:59:59", "x", "1999-12-31 23:59:59"}, Keys: map[string]string{"k": "", "n": "1"}},
}

type program struct {
	Prop     string `json:"prop"`
	Name     string `json:"name"`
	Funcs    string `json:"funcs,omitempty"`
	Template string `json:"template"`
	// Template2, when set, is a second expression compiled by the same
	// builder; goroutines with an odd index evaluate it (two DIFFERENT compiled
	// expressions share the package-level pools)
	Template2 string `json:"template2,omitempty"`
}

var programs = []program{
	{"C17", "map-key", "", `{@map {0} "{0}{k}"}`, ""},
	{"C17", "filter-key", "", `{@filter {0} {eq {0} {k}}}`, ""},
	{"C17", "reduce", "", `{@reduce {0} "{0}{1}" {k}}`, ""},
	{"C17", "for-key", "", `{@for {k} {lt {1} 3} "{0}{k}"}`, ""}, // (a key-dependent bound would make the optimiser's empty probe run to the iteration cap at every compile)
	{"C17", "nested-map", "", `{@map {@split {1} ,} "{@join {@map {0} {0}{k}} +}"}`, ""},
	{"C17", "map-in-filter", "", `{@filter {@map {0} "{0}{k}"} {not {eq {0} {k}{k}}}}`, ""},
	{"C17", "slice-join", "", `{@join {@slice {0} 1} {k}}`, ""},
	{"C17", "in-select", "", `{@in {k} {@ a b q}}{@len {0}}{@select {0} 1}`, ""},
	{"C10", "funcs-two-args", "dbl {0}{0}\nwrap {1}<{dbl {0}}>{k}\n", `{wrap {k} {1}}`, ""},
	{"C10", "funcs-nested-map", "each {@map {0} \"{0}{1}\"}\nouter {each {0}}|{each {1}}\n", `{outer {0} {@split {1} ,}}`, ""},
	{"C10", "funcs-missing-arg", "pair {0}-{1}-{2}\n", `{pair {k}}{pair {n} {k}}`, ""},
	{"C10", "time-cached-format", "", `{timeformat {time {2}} RFC3339}`, ""},
	{"C10", "time-in-funcs", "ts {time {0}}\n", `{ts {2}}/{ts {2}}`, ""},
	{"C10", "const-fold-mixed", "", `{sumi 1 2}{upper {k}}{@len {@split "a,b" ,}}{coalesce "" {n}}`, ""},
	// formulas: numeric and non-numeric bindings (the error branch) share the per-stage context pool
	{"C10", "math-formula", "", `{! [3] * 2 + n}`, ""},
	{"C10", "math-in-funcs", "add2 {! [0] + [1]}\n", `{add2 {add2 {3} {n}} {3}}`, ""},
	{"C10", "pair/math-vs-math", "", `{! [3] + 1}`, `{! n * [3]}`},
	// the cached time format next to entries that are not dates
	{"C10", "time-cached-format-with-garbage", "", `{time {4}}`, ""},
	// two different expressions at once
	{"C17", "pair/map-vs-reduce", "", `{@map {0} "{0}{k}"}`, `{@reduce {0} "{0}{1}" {k}}`},
	{"C17", "pair/nested-map-vs-filter", "", `{@map {@split {1} ,} "{@join {@map {0} {0}{k}} +}"}`, `{@filter {0} {eq {0} {k}}}`},
	{"C17", "pair/for-vs-map", "", `{@for {k} {lt {1} 3} "{0}{k}"}`, `{@map {0} "{@len {@split {0}{k} b}}"}`},
	{"C10", "pair/funcs-vs-builtin", "each {@map {0} \"{0}{1}\"}\npair {0}-{1}-{2}\n", `{each {0} {k}}`, `{pair {k}}{@map {0} "{0}{n}"}`},
	{"C10", "pair/two-funcs", "dbl {0}{0}\nwrap {1}<{dbl {0}}>{k}\n", `{wrap {k} {1}}`, `{dbl {n}}{wrap {1} {k}}`},
}

type Case struct {
	Program  program  `json:"program"`
	Optimize bool     `json:"optimize"`
	Gs       []int    `json:"goroutines"`          // index of the match each goroutine evaluates
	Pool     int      `json:"pool_size,omitempty"` // objects in the shared sub-context pool at the start (0 = the default of 5; -1 = empty)
	Vector   []int    `json:"vector"`
	Trace    []string `json:"schedule,omitempty"`
}

func compile2(p *program, optimize bool) (a, b *expressions.CompiledKeyBuilder, err error) {
	kb := funclib.NewKeyBuilderEx(optimize)
	if p.Funcs != "" {
		if _, err := funcfile.LoadDefinitions(kb, strings.NewReader(p.Funcs), "funcs"); err != nil {
			return nil, nil, err
		}
	}
	ca, cerr := kb.Compile(p.Template)
	if cerr != nil {
		return nil, nil, fmt.Errorf("%v", cerr)
	}
	if p.Template2 == "" {
		return ca, ca, nil
	}
	cb, cerr := kb.Compile(p.Template2)
	if cerr != nil {
		return nil, nil, fmt.Errorf("%v", cerr)
	}
	return ca, cb, nil
}

func compile(p *program, optimize bool) (*expressions.CompiledKeyBuilder, error) {
	kb := funclib.NewKeyBuilderEx(optimize)
	if p.Funcs != "" {
		if _, err := funcfile.LoadDefinitions(kb, strings.NewReader(p.Funcs), "funcs"); err != nil {
			return nil, err
		}
	}
	c, err := kb.Compile(p.Template)
	if err != nil {
		return nil, fmt.Errorf("%v", err)
	}
	return c, nil
}

// alone evaluates the program for one match on its own (fresh compile,
// unoptimised: the sequential reference the statement refers to).
func alone(p *program, m *match) string {
	stdlib.VerifResetPools()
	c, err := compile(p, false)
	if err != nil {
		panic(err)
	}
	return c.BuildKey(&ctx{m: m})
}

// alone2: the same for the second template of a pair program.
func alone2(p *program, m *match) string {
	if p.Template2 == "" {
		return alone(p, m)
	}
	stdlib.VerifResetPools()
	_, c, err := compile2(p, false)
	if err != nil {
		panic(err)
	}
	return c.BuildKey(&ctx{m: m})
}

type obs struct {
	results [][]string // per goroutine: the value of each of its evaluations
}

const evalsPerGoroutine = 2

func run(ex vrt.Chooser, c *Case, trace bool) (*obs, *vrt.Result) {
	o := &obs{results: make([][]string, len(c.Gs))}
	switch {
	case c.Pool == 0:
		stdlib.VerifResetPools()
	case c.Pool < 0:
		stdlib.VerifResetPoolsN(0)
	default:
		stdlib.VerifResetPoolsN(c.Pool)
	}
	res := vrt.Run(ex, vrt.Options{Race: true, Trace: trace}, func() {
		compiledA, compiledB, err := compile2(&c.Program, c.Optimize)
		if err != nil {
			panic(err)
		}
		var wg vrt.WaitGroup
		for gi, mi := range c.Gs {
			wg.Add(1)
			vrt.GoNamed("eval", func() {
				defer wg.Done()
				cx := &ctx{m: matches[mi], yields: true}
				compiled := compiledA
				if gi%2 == 1 {
					compiled = compiledB
				}
				for k := 0; k < evalsPerGoroutine; k++ {
					o.results[gi] = append(o.results[gi], compiled.BuildKey(cx))
				}
			})
		}
		wg.Wait()
	})
	return o, res
}

type finding struct{ sig, detail string }

func check(c *Case, o *obs, res *vrt.Result, want []string, want2 ...[]string) []finding {
	wantOf := func(gi int) string {
		if gi%2 == 1 && len(want2) > 0 && want2[0] != nil {
			return want2[0][c.Gs[gi]]
		}
		return want[c.Gs[gi]]
	}
	var fs []finding
	p := c.Program
	for _, f := range res.Faults {
		first := f
		if i := strings.IndexByte(first, '\n'); i >= 0 {
			first = first[:i]
		}
		switch {
		case strings.HasPrefix(f, "data race on "):
			name := strings.TrimPrefix(first, "data race on ")
			if i := strings.IndexByte(name, ':'); i >= 0 {
				name = name[:i]
			}
			fs = append(fs, finding{p.Prop + "/concurrent/race/" + slug(name), f})
		default:
			fs = append(fs, finding{p.Prop + "/concurrent/" + p.Name + "/runtime-fault/" + slug(first), f})
		}
	}
	if len(res.Blocked) > 0 {
		fs = append(fs, finding{p.Prop + "/concurrent/" + p.Name + "/deadlock", fmt.Sprint(res.Blocked)})
		return fs
	}
	for gi, rs := range o.results {
		for k, r := range rs {
			if r != wantOf(gi) {
				fs = append(fs, finding{p.Prop + "/concurrent/" + p.Name + "/differs-from-evaluation-alone",
					fmt.Sprintf("template %s (funcs %q) optimize=%v\ngoroutine %d evaluation %d on match %d returned %q, alone it returns %q (second template, evaluated by odd goroutines: %s)", p.Template, p.Funcs, c.Optimize, gi, k, c.Gs[gi], r, wantOf(gi), p.Template2)})
			}
		}
		if len(rs) != evalsPerGoroutine {
			fs = append(fs, finding{p.Prop + "/concurrent/" + p.Name + "/evaluation-did-not-return", fmt.Sprintf("goroutine %d finished %d of %d evaluations", gi, len(rs), evalsPerGoroutine)})
		}
	}
	return fs
}

func slug(s string) string {
	var sb strings.Builder
	for _, r := range s {
		if (r >= 'a' && r <= 'z') || (r >= 'A' && r <= 'Z') || (r >= '0' && r <= '9') || r == '.' {
			sb.WriteRune(r)
		} else {
			sb.WriteByte('_')
		}
	}
	out := sb.String()
	if len(out) > 60 {
		out = out[:60]
	}
	return out
}

func worker(w *runner.W) {
	bound := 3
	if !w.Quick() {
		bound = 4
	}
	var unitNo int64
	for pi := range programs {
		p := programs[pi]
		if p.Prop != w.Prop {
			continue
		}
		w.SetCase(func() any { return Case{Program: p} })
		want := make([]string, len(matches))
		var want2 []string
		for i, m := range matches {
			want[i] = alone(&p, m)
		}
		if p.Template2 != "" {
			want2 = make([]string, len(matches))
			for i, m := range matches {
				want2[i] = alone2(&p, m)
			}
		}
		groups := [][]int{{0, 1}, {1, 0}, {0, 0}, {2, 1}}
		if !w.Quick() {
			groups = append(groups, []int{0, 1, 2})
		}
		type variant struct {
			optimize bool
			gs       []int
			pool     int
		}
		var variants []variant
		for _, optimize := range []bool{true, false} {
			for _, gs := range groups {
				variants = append(variants, variant{optimize, gs, 0})
			}
		}
		if strings.Contains(p.Template, "{@") || strings.Contains(p.Funcs, "{@") {
			// the shared sub-context pool nearly empty / empty at the start
			variants = append(variants, variant{true, []int{0, 1}, 1}, variant{true, []int{0, 1}, -1}, variant{false, []int{1, 0}, 1})
		}
		for _, v := range variants {
			optimize := v.optimize
			{
				gs := v.gs
				c := &Case{Program: p, Optimize: optimize, Gs: gs, Pool: v.pool}
				b := bound
				if len(gs) > 2 {
					b = bound - 1
				}
				w.SetCase(func() any { return *c })
				units := mc.Units(b, func(e *mc.Explorer) {
					run(e, c, false)
					e.EndExecution()
				})
				for _, u := range units {
					unitNo++
					if !w.Owns(unitNo) {
						continue
					}
					if w.Expired() {
						return
					}
					ex := mc.NewSubtree(b, u)
					for ex.Next() {
						w.SetCase(func() any { cc := *c; cc.Vector = ex.Vector(); return cc })
						o, res := run(ex, c, false)
						ex.EndExecution()
						w.Eval(res.Switches > 1)
						w.Add("transitions", int64(res.Steps))
						for _, f := range check(c, o, res, want, want2) {
							cc := *c
							cc.Vector = ex.Vector()
							w.Violation(f.sig, f.detail, cc)
						}
						w.Outcome(p.Name, fmt.Sprint(optimize), fmt.Sprint(gs), fmt.Sprint(o.results), fmt.Sprint(res.Switches))
						if w.WantSample() && res.Switches > 4 {
							_, r2 := run(replayOf(ex.Vector()), c, true)
							cc := *c
							cc.Vector, cc.Trace = ex.Vector(), r2.Trace
							w.Sample(cc)
						}
					}
					w.Add("choice_points", ex.ChoicePoints)
				}
				if w.Shard == 0 {
					w.Add("program_x_goroutine_sets", 1)
				}
			}
		}
	}
	if w.Prop == "C10" {
		builtinFamily(w, &unitNo)
	}
	w.Max("deviation_bound_completed", int64(bound))
}

// builtinFamily: every builtin under two concurrent evaluators, 1 deviation
// (quick) / 2 (thorough); the oracle is the race detector plus equality with
// the evaluation alone.
func builtinFamily(w *runner.W, unitNo *int64) {
	b := 1
	if !w.Quick() {
		b = 2
	}
	base := len(matches)
	matches = append(matches, numMatches...)
	defer func() { matches = matches[:base] }()
	for _, p := range builtinPrograms() {
		*unitNo++
		if !w.Owns(*unitNo) {
			continue
		}
		if w.Expired() {
			return
		}
		p := p
		t0 := time.Now()
		defer func(t0 time.Time, name string) {
			if d := time.Since(t0); d > 2*time.Second && os.Getenv("VERIF_DEBUG") != "" {
				fmt.Fprintf(os.Stderr, "slow builtin program %s: %v\n", name, d)
			}
		}(t0, p.Template)
		w.SetCase(func() any { return Case{Program: p} })
		want := make([]string, len(matches))
		ok := true
		for i := base; i < len(matches); i++ {
			func() {
				defer func() {
					if recover() != nil {
						ok = false // panics are C08's subject
					}
				}()
				want[i] = alone(&p, matches[i])
			}()
		}
		if !ok {
			continue
		}
		// a helper that is stateful by design (the time format cached from the
		// first parsed value) gives order-dependent results already sequentially:
		// the statement's "evaluates like alone" is not defined for it
		if !orderIndependent(&p, matches[base], matches[base+1], want[base], want[base+1]) {
			w.Add("builtin_programs_order_dependent_by_design", 1)
			continue
		}
		for _, optimize := range []bool{true, false} {
			c := &Case{Program: p, Optimize: optimize, Gs: []int{base, base + 1}}
			ex := mc.New(b)
			for ex.Next() {
				w.SetCase(func() any { cc := *c; cc.Vector = ex.Vector(); return cc })
				o, res := run(ex, c, false)
				ex.EndExecution()
				w.Eval(res.Switches > 1)
				w.Add("transitions", int64(res.Steps))
				for _, f := range check(c, o, res, want) {
					cc := *c
					cc.Vector = ex.Vector()
					w.Violation(f.sig, f.detail, cc)
				}
				w.Outcome(p.Template, fmt.Sprint(optimize), fmt.Sprint(o.results))
			}
			w.Add("choice_points", ex.ChoicePoints)
		}
		w.Add("builtin_programs", 1)
	}
}

// orderIndependent evaluates one compiled expression sequentially on a then b
// and on b then a and compares with the evaluations alone.
func orderIndependent(p *program, a, b *match, wa, wb string) (ok bool) {
	defer func() {
		if recover() != nil {
			ok = false
		}
	}()
	for _, order := range [][2]*match{{a, b}, {b, a}} {
		stdlib.VerifResetPools()
		c, err := compile(p, false)
		if err != nil {
			return false
		}
		for _, m := range order {
			got := c.BuildKey(&ctx{m: m})
			want := wa
			if m == b {
				want = wb
			}
			if got != want {
				return false
			}
		}
	}
	return true
}

func replayOf(vec []int) *mc.Explorer {
	ex := mc.NewReplay(vec)
	ex.Next()
	return ex
}

func replay(w *runner.W, raw json.RawMessage) {
	var c Case
	if err := json.Unmarshal(raw, &c); err != nil {
		panic(err)
	}
	if strings.HasPrefix(c.Program.Name, "builtin/") {
		matches = append(matches, numMatches...)
	}
	want := make([]string, len(matches))
	for i, m := range matches {
		func() {
			defer func() { recover() }()
			want[i] = alone(&c.Program, m)
		}()
	}
	var want2 []string
	if c.Program.Template2 != "" {
		want2 = make([]string, len(matches))
		for i, m := range matches {
			func() {
				defer func() { recover() }()
				want2[i] = alone2(&c.Program, m)
			}()
		}
	}
	o, res := run(replayOf(c.Vector), &c, true)
	for _, f := range check(&c, o, res, want, want2) {
		w.Violation(f.sig, f.detail+"\nschedule: "+strings.Join(res.Trace, " "), c)
	}
}

func main() {
	runner.Main(&runner.Spec{
		Name:       "exprconc",
		Properties: []string{"C10", "C17"},
		Level:      "model_checking",
		Rule: func(prop, tier string) string {
			return "one compiled expression per program (C17: @map/@filter/@reduce/@for/@slice/@in with named keys, nested map inside map and inside filter; C10: funcs-file functions with 1-3 arguments, nested calls and missing arguments, the cached time format, mixed constant folding; plus pair programs in which the goroutines with an odd index evaluate a SECOND, different expression compiled by the same builder - map vs reduce, nested map vs filter, @for vs map, two funcs-file functions, a funcs function vs builtins: different compiled expressions share the package-level pools; each compiled with and without optimisation) evaluated twice by each of 2 (thorough: also 3) goroutines on different matches under the controlled runtime; every schedule with at most 3 (quick) / 4 (thorough) deviations (one less with 3 goroutines), with scheduling points at every context look-up, pool mutex and atomic operation, and the vector-clock race detector on fields and package variables of expressions, stdlib, funcfile and slicepool. Programs with array helpers also start with the shared sub-context pool holding one object and none (the boundary a run with many workers and nested helpers reaches). Oracle: every evaluation equals the unoptimised evaluation of that match alone. Non-trivial = more than one goroutine switch."
		},
		Assumptions: func(string) []string {
			return []string{"state captured in closure-local variables is not under the race detector; its corruption is observed through wrong results at the look-up scheduling points"}
		},
		Worker:         worker,
		Replay:         replay,
		HangSeconds:    120,
		QuickBudget:    3 * time.Minute,
		ThoroughBudget: 20 * time.Minute,
	})
}
