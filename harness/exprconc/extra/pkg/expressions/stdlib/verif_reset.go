package stdlib

import "rare/pkg/slicepool"

// VerifResetPools puts the package-level sub-context pool into the state of a
// fresh process, so that one explored execution cannot influence the next.
func VerifResetPools() {
	subContextPool = slicepool.NewObjectPool[subContext](5)
}

// VerifResetPoolsN is VerifResetPools with a pool of n objects: with n = 1 or
// 0 the first concurrent Gets already meet at the "pool nearly empty"
// boundary that a run with many workers and nested helpers reaches later.
func VerifResetPoolsN(n int) {
	subContextPool = slicepool.NewObjectPool[subContext](n)
}
