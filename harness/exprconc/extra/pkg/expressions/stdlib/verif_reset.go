package stdlib

import "rare/pkg/slicepool"

// VerifResetPools puts the package-level sub-context pool into the state of a
// fresh process, so that one explored execution cannot influence the next.
func VerifResetPools() {
	subContextPool = slicepool.NewObjectPool[subContext](5)
}
