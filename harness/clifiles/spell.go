package main

// Two families about WHAT a path argument names and WHAT its size says:
//
// SPELLING: one existing (or, per the operating system, not existing) file
// named through every spelling whose meaning the operating system defines
// unambiguously: ./x, a//b, a/./b, a/dir/../b, an absolute path, a trailing
// slash behind a file, `..` behind a missing directory, symbolic links to a
// file (relative, chained, absolute target, dangling), a path through a
// symbolic link to a directory that lives ELSEWHERE, and `link/../x`, where
// the operating system resolves `..` relative to the link's target. The same
// spellings as the directory part of a glob pattern and as the directory
// argument of -R, and symbolic links inside a walked directory.
// The reference never cleans a path lexically: the expected bytes are what
// os.ReadFile / os.ReadDir deliver for the argument AS GIVEN (string
// concatenation with the working directory, no filepath.Join).
//
// SIZELESS: inputs whose stat() size is 0 although they have content: a named
// pipe fed by a writer goroutine of the harness, and procfs files.

import (
	"fmt"
	"os"
	"path"
	"path/filepath"
	"sort"
	"strings"
	"syscall"
	"time"
)

const (
	famSpelling = "spelling"
	famSizeless = "sizeless"
)

// ---------------------------------------------------------------- shapes

// path-argument spellings: named as `<arg> t/other.log` (paths), `<arg> <arg>
// t/other.log` (twice) and `-R <arg> t/other.log` (recursive-paths: -R with
// an argument that is not a directory)
var spellArgShapes = []string{
	"plain-name", // t/e0.log, the control
	"dot-slash", "double-slash", "dot-inside", "dotdot-after-plain-dir",
	"absolute", "absolute-dotdot-after-plain-dir",
	"symlink-to-file", "symlink-chain", "symlink-absolute-target",
	"through-symlinked-dir",
	"dotdot-after-symlinked-dir",        // t/ln/../x.log names o/x.log (N=1: a decoy t/x.log exists)
	"dotdot-after-symlinked-dir-absent", // t/ln/../e0.log: o/e0.log does not exist (t/e0.log does)
	"dotdot-after-missing-dir",          // t/nosuch/../e0.log cannot be opened (t/e0.log exists)
	"file-trailing-slash",               // t/e0.log/ cannot be opened
	"dangling-symlink",
	"symlink-to-dir-as-file",
}

// glob spellings: the directory part of the pattern is spelled, the last
// component is the pattern
var spellGlobShapes = []string{
	"glob-through-symlinked-dir",      // t/ln/*
	"glob-dotdot-after-symlinked-dir", // t/ln/../x*  (N=1: decoy t/x.log)
	"glob-dotdot-after-plain-dir",     // t/sub/../e0*
	"glob-dot-slash",                  // ./t/e0*
	"glob-double-slash",               // t//e0*
	"glob-absolute",                   // <cwd>/t/e0*
	"glob-matches-symlinks",           // t/l* matching a symlink to a file, a chained one and a dangling one
}

// -R spellings
var spellWalkShapes = []string{
	"R-symlink-to-file-inside", "R-symlink-to-file-outside", "R-symlinked-dir-inside", "R-dangling-inside",
	"R-arg-symlink-to-dir",             // -R t/ln          (statement silent: is it a directory argument?)
	"R-arg-symlinked-dir-slash",        // -R t/ln/
	"R-arg-dotdot-after-symlinked-dir", // -R t/ln/..       (the directory o; N=1: decoys t/x.log, t/deep/in.log)
	"R-arg-dotdot-after-plain-dir",     // -R t/sub/..
	"R-arg-dot-slash", "R-arg-trailing-slash", "R-arg-double-slash", "R-arg-absolute",
}

var decoyShapes = map[string]bool{"dotdot-after-symlinked-dir": true, "glob-dotdot-after-symlinked-dir": true, "R-arg-dotdot-after-symlinked-dir": true}

var fifoSizesQuick = []int{0, 20, 4097, 70000}
var fifoSizesThorough = []int{0, 1, 9, 10, 11, 20, 511, 512, 513, 4095, 4096, 4097, 65535, 65536, 65537, 70000, 262145}

var procfsFiles = []string{"/proc/version", "/proc/filesystems"}

// spellCases lists the cases of the two families (deterministic).
func spellCases(quick bool) []Case {
	var out []Case
	kinds := []string{kPlain, kGzip}
	for _, kind := range kinds {
		for _, z := range []bool{false, true} {
			if kind == kGzip && !z && quick {
				continue // raw gzip bytes add nothing to a spelling; thorough only
			}
			add := func(shape, form string, n, readers int) {
				out = append(out, Case{Variant: "filter", Family: famSpelling, Shape: shape, Kinds: []string{kind}, N: n, Form: form, Gunzip: z, Readers: readers})
			}
			for _, shape := range spellArgShapes {
				for n := 0; n <= 1; n++ {
					if n == 1 && !decoyShapes[shape] {
						continue
					}
					add(shape, fPaths, n, 1)
					add(shape, fTwice, n, 2)
					add(shape, fRecursivePaths, n, 1)
					if !quick {
						add(shape, fPaths, n, 2)
						add(shape, fTwice, n, 1)
						add(shape, fRecursivePaths, n, 2)
					}
				}
			}
			for _, shape := range append(append([]string{}, spellGlobShapes...), spellWalkShapes...) {
				form := fGlob
				if strings.HasPrefix(shape, "R-") {
					form = fRecursive
				}
				for n := 0; n <= 1; n++ {
					if n == 1 && !decoyShapes[shape] {
						continue
					}
					add(shape, form, n, 1)
					add(shape, form, n, 2)
				}
			}
		}
	}
	// named pipes
	sizes := fifoSizesQuick
	if !quick {
		sizes = fifoSizesThorough
	}
	for _, n := range sizes {
		for _, shape := range []string{"fifo-plain", "fifo-plain-z", "fifo-gzip-z"} {
			for _, form := range []string{"fifo-first", "fifo-last", fGlob} {
				for _, r := range []int{1, 2} {
					out = append(out, Case{Variant: "filter", Family: famSizeless, Shape: shape, N: n, Form: form, Gunzip: strings.HasSuffix(shape, "-z"), Readers: r})
				}
			}
		}
	}
	// procfs files
	for i := range procfsFiles {
		for _, z := range []bool{false, true} {
			for _, form := range []string{fPaths, fTwice} {
				out = append(out, Case{Variant: "filter", Family: famSizeless, Shape: "procfs", N: i, Form: form, Gunzip: z, Readers: 1})
			}
		}
	}
	return out
}

// ---------------------------------------------------------------- reference (operating-system resolution only)

// osPath is the path the operating system is asked for: the argument as given,
// relative to the working directory of the process. No filepath.Join, which
// would remove `..` lexically.
func osPath(dir, arg string) string {
	if strings.HasPrefix(arg, "/") {
		return arg
	}
	return dir + "/" + arg
}

// lexicalClean: an own, purely lexical normalisation of a slash-separated
// path (path.Clean works on strings only). Used ONLY to compute a second
// NAME under which the lines of a source may be reported, never to find bytes.
func lexicalClean(p string) string { return path.Clean(p) }

// osInput: what reading the argument must deliver, by letting the operating
// system resolve it. "Each path argument ... is opened and read exactly once
// per mention"; "An input that cannot be opened or fails while being read is
// counted as a read error".
func osInput(dir, arg, tag string, gunzip bool) *input {
	in := &input{src: arg, kind: tag}
	contentKind := kPlain
	if strings.HasSuffix(arg, ".gz") {
		contentKind = kGzip // every *.gz this family writes (or links to) is intact gzip
	}
	b, err := os.ReadFile(osPath(dir, arg))
	if err != nil {
		in.fails = true // missing, dangling, not a directory, is a directory
		return in
	}
	if gunzip && contentKind == kGzip {
		// "with -z gzip content is delivered decompressed"
		data, failed := gunzipAll(b)
		if failed {
			panic("reference: intact gzip does not decode")
		}
		in.lines = splitLines(data)
		return in
	}
	// "non-gzip files are read from their first byte"
	in.lines = splitLines(b)
	return in
}

// nameAliases: the statement fixes the source name only for standard input
// ("under the name <stdin>"). For a file the name as given, its lexically
// cleaned form and the form with every symbolic link resolved (relative to
// the working directory and absolute) are accepted.
func nameAliases(dir, src string) []string {
	var out []string
	addA := func(a string) {
		if a == "" || a == src {
			return
		}
		for _, x := range out {
			if x == a {
				return
			}
		}
		out = append(out, a)
	}
	addA(lexicalClean(src))
	if res, err := filepath.EvalSymlinks(osPath(dir, src)); err == nil {
		addA(res)
		if rd, err := filepath.EvalSymlinks(dir); err == nil && strings.HasPrefix(res, rd+"/") {
			addA(res[len(rd)+1:])
		}
	} else if d, f := splitLast(src); d != "" {
		// the last component does not resolve (dangling, missing): resolve the directory part
		if res, err := filepath.EvalSymlinks(osPath(dir, d)); err == nil {
			addA(res + "/" + f)
			if rd, err := filepath.EvalSymlinks(dir); err == nil && strings.HasPrefix(res, rd+"/") {
				addA(res[len(rd)+1:] + "/" + f)
			}
		}
	}
	return out
}

// splitLast splits a path into its directory part (as given, without the
// separating slashes) and its last component.
func splitLast(p string) (string, string) {
	q := strings.TrimRight(p, "/")
	i := strings.LastIndexByte(q, '/')
	if i < 0 {
		return "", q
	}
	return strings.TrimRight(q[:i], "/"), q[i+1:]
}

// ---------------------------------------------------------------- building a spelling case

type spellBuilder struct {
	dir, kind, ext string
}

func (b *spellBuilder) must(err error) {
	if err != nil {
		panic(err)
	}
}

func (b *spellBuilder) mkdir(rel string) { b.must(os.MkdirAll(b.dir+"/"+rel, 0o755)) }

// file writes content(kind, i) to rel+ext and returns that name.
func (b *spellBuilder) file(rel string, i int) string {
	name := rel + b.ext
	b.must(os.MkdirAll(filepath.Dir(b.dir+"/"+name), 0o755))
	b.must(os.WriteFile(b.dir+"/"+name, content(b.kind, i), 0o644))
	return name
}

func (b *spellBuilder) link(target, rel string) string {
	b.must(os.MkdirAll(filepath.Dir(b.dir+"/"+rel), 0o755))
	b.must(os.Symlink(target, b.dir+"/"+rel))
	return rel
}

// elsewhere builds o/x, o/deep/in and the link t/ln -> ../o/deep
func (b *spellBuilder) elsewhere() {
	b.file("o/x", 2)
	b.file("o/deep/in", 1)
	b.link("../o/deep", "t/ln")
}

// buildSpelling writes the files of a spelling case and returns the expectation.
func buildSpelling(dir string, c Case) (*expectation, string) {
	if len(c.Kinds) != 1 {
		panic("spelling case without a content kind")
	}
	b := &spellBuilder{dir: dir, kind: c.Kinds[0], ext: ".log"}
	if b.kind == kGzip {
		b.ext = ".gz"
	}
	b.mkdir("t")
	b.must(os.WriteFile(dir+"/stdin.sentinel", []byte(stdinSentinel), 0o644))
	exp := &expectation{stdinName: "stdin.sentinel", variant: c.Variant, sigScope: "spelling/" + c.Shape}
	tag := "spell-" + c.Shape
	decoy := c.N == 1
	other := func() *input {
		b.must(os.WriteFile(dir+"/"+otherName, []byte(otherContent), 0o644))
		return &input{src: otherName, kind: "other", lines: splitLines([]byte(otherContent))}
	}
	withAliases := func(in *input) *input {
		in.aliases = nameAliases(dir, in.src)
		return in
	}

	switch {
	case c.Form == fPaths || c.Form == fTwice || c.Form == fRecursivePaths:
		var arg string
		switch c.Shape {
		case "plain-name":
			arg = b.file("t/e0", 0)
		case "dot-slash":
			arg = "./" + b.file("t/e0", 0)
		case "double-slash":
			b.file("t/e0", 0)
			arg = "t//e0" + b.ext
		case "dot-inside":
			b.file("t/e0", 0)
			arg = "t/./e0" + b.ext
		case "dotdot-after-plain-dir":
			b.file("t/e0", 0)
			b.mkdir("t/sub")
			arg = "t/sub/../e0" + b.ext
		case "absolute":
			arg = dir + "/" + b.file("t/e0", 0)
		case "absolute-dotdot-after-plain-dir":
			b.file("t/e0", 0)
			b.mkdir("t/sub")
			arg = dir + "/t/sub/../e0" + b.ext
		case "symlink-to-file":
			b.file("t/e0", 0)
			arg = b.link("e0"+b.ext, "t/lf"+b.ext)
		case "symlink-chain":
			b.file("t/e0", 0)
			b.link("e0"+b.ext, "t/lf"+b.ext)
			arg = b.link("lf"+b.ext, "t/l2"+b.ext)
		case "symlink-absolute-target":
			b.file("o/x", 2)
			arg = b.link(dir+"/o/x"+b.ext, "t/la"+b.ext)
		case "through-symlinked-dir":
			b.elsewhere()
			arg = "t/ln/in" + b.ext
		case "dotdot-after-symlinked-dir":
			b.elsewhere()
			if decoy {
				b.file("t/x", 3)
			}
			arg = "t/ln/../x" + b.ext
		case "dotdot-after-symlinked-dir-absent":
			b.elsewhere()
			b.file("t/e0", 0)
			arg = "t/ln/../e0" + b.ext
		case "dotdot-after-missing-dir":
			b.file("t/e0", 0)
			arg = "t/nosuch/../e0" + b.ext
		case "file-trailing-slash":
			arg = b.file("t/e0", 0) + "/"
		case "dangling-symlink":
			b.file("t/e0", 0)
			arg = b.link("nothing"+b.ext, "t/dang"+b.ext)
		case "symlink-to-dir-as-file":
			b.elsewhere()
			arg = "t/ln"
		default:
			panic("spelling shape " + c.Shape)
		}
		o := other()
		mentions := 1
		switch c.Form {
		case fPaths:
			exp.cliArgs = []string{arg, otherName}
		case fTwice:
			exp.cliArgs = []string{arg, arg, otherName}
			mentions = 2
		case fRecursivePaths:
			// with -R an argument that is not a directory is still a path argument
			exp.cliArgs = []string{"-R", arg, otherName}
		}
		for i := 0; i < mentions; i++ {
			in := withAliases(osInput(dir, arg, tag, c.Gunzip))
			if c.Shape == "symlink-to-dir-as-file" && c.Form == fRecursivePaths {
				// -R with a symbolic link to a directory: see R-arg-symlink-to-dir
				in.fails = false
				in.optional, in.mayFail = true, true
				exp.inputs = append(exp.inputs, optionalBelow(dir, "t/ln", tag, c.Gunzip)...)
			}
			exp.inputs = append(exp.inputs, in)
		}
		exp.inputs = append(exp.inputs, o)

	case c.Form == fGlob:
		var pattern string
		withOther := true
		switch c.Shape {
		case "glob-through-symlinked-dir":
			b.elsewhere()
			pattern = "t/ln/*"
		case "glob-dotdot-after-symlinked-dir":
			b.elsewhere()
			if decoy {
				b.file("t/x", 3)
			}
			pattern = "t/ln/../x*"
		case "glob-dotdot-after-plain-dir":
			b.file("t/e0", 0)
			b.mkdir("t/sub")
			pattern = "t/sub/../e0*"
		case "glob-dot-slash":
			b.file("t/e0", 0)
			pattern = "./t/e0*"
		case "glob-double-slash":
			b.file("t/e0", 0)
			pattern = "t//e0*"
		case "glob-absolute":
			b.file("t/e0", 0)
			pattern = dir + "/t/e0*"
		case "glob-matches-symlinks":
			b.file("t/e0", 0)
			b.link("e0"+b.ext, "t/lf"+b.ext)
			b.link("lf"+b.ext, "t/l2"+b.ext)
			b.link("nothing"+b.ext, "t/ldang"+b.ext)
			pattern = "t/l*"
		default:
			panic("glob shape " + c.Shape)
		}
		// "each glob expansion": the names in the directory part AS THE OPERATING
		// SYSTEM RESOLVES IT that match the last component
		i := strings.LastIndexByte(pattern, '/')
		dpart, last := pattern[:i+1], pattern[i+1:]
		des, err := os.ReadDir(osPath(dir, dpart))
		if err != nil {
			panic(err)
		}
		var names []string
		for _, de := range des {
			if ok, _ := path.Match(last, de.Name()); ok {
				names = append(names, dpart+de.Name())
			}
		}
		sort.Strings(names)
		if len(names) == 0 {
			panic("glob shape without expansion")
		}
		for _, n := range names {
			exp.inputs = append(exp.inputs, withAliases(osInput(dir, n, tag, c.Gunzip)))
		}
		exp.cliArgs = []string{pattern}
		if withOther {
			exp.cliArgs = append(exp.cliArgs, otherName)
			exp.inputs = append(exp.inputs, other())
		}

	case c.Form == fRecursive:
		var root string
		outside := false // the walked directory does not hold t/other.log: name it separately
		acceptEither := false
		switch c.Shape {
		case "R-symlink-to-file-inside":
			b.file("t/e0", 0)
			b.link("e0"+b.ext, "t/lf"+b.ext)
			root = "t"
		case "R-symlink-to-file-outside":
			b.file("t/e0", 0)
			b.file("o/x", 2)
			b.link(dir+"/o/x"+b.ext, "t/la"+b.ext)
			root = "t"
		case "R-symlinked-dir-inside":
			b.file("t/e0", 0)
			b.elsewhere()
			root = "t"
		case "R-dangling-inside":
			b.file("t/e0", 0)
			b.link("nothing"+b.ext, "t/dang"+b.ext)
			root = "t"
		case "R-arg-symlink-to-dir":
			b.elsewhere()
			root, outside, acceptEither = "t/ln", true, true
		case "R-arg-symlinked-dir-slash":
			b.elsewhere()
			root, outside = "t/ln/", true
		case "R-arg-dotdot-after-symlinked-dir":
			b.elsewhere()
			if decoy {
				b.file("t/x", 3)
				b.file("t/deep/in", 4)
			}
			root, outside = "t/ln/..", true
		case "R-arg-dotdot-after-plain-dir":
			b.file("t/e0", 0)
			b.file("t/sub/s", 1)
			root = "t/sub/.."
		case "R-arg-dot-slash":
			b.file("t/e0", 0)
			b.file("t/sub/s", 1)
			root = "./t"
		case "R-arg-trailing-slash":
			b.file("t/e0", 0)
			b.file("t/sub/s", 1)
			root = "t/"
		case "R-arg-double-slash":
			b.file("t/e0", 0)
			b.file("t/sub/s", 1)
			root = "t//sub"
			outside = true
		case "R-arg-absolute":
			b.file("t/e0", 0)
			b.file("t/sub/s", 1)
			root = dir + "/t"
		default:
			panic("walk shape " + c.Shape)
		}
		var o *input
		if outside {
			o = other()
		} else {
			other() // written before the reference walks the directory
		}
		exp.cliArgs = []string{"-R", root}
		if acceptEither {
			// a symbolic link to a directory named with -R: the statement does not
			// say whether that is "a directory argument" (then the files below it
			// are read) or a path argument (then it fails as a directory read as a
			// file); both accepted
			exp.inputs = append(exp.inputs, optionalBelow(dir, root, tag, c.Gunzip)...)
			exp.inputs = append(exp.inputs, withAliases(&input{src: root, kind: tag, optional: true, mayFail: true}))
		} else {
			exp.inputs = append(exp.inputs, walkOS(dir, strings.TrimRight(root, "/"), tag, c.Gunzip, false)...)
		}
		if outside {
			exp.cliArgs = append(exp.cliArgs, otherName)
			exp.inputs = append(exp.inputs, o)
		}
	default:
		panic("spelling form " + c.Form)
	}
	desc := fmt.Sprintf("[spelling %s, content %s, decoy=%v; files: %s]", c.Shape, b.kind, decoy, listTree(dir))
	return exp, desc
}

// walkOS: "(with -R) each regular file below a directory argument": own
// recursion over os.ReadDir on paths built by string concatenation. Regular
// files are required; what is reached only through a symbolic link is not a
// regular file below the directory, the statement is silent about it: reading
// it, skipping it, and (for what cannot be read as a file) reporting it as a
// read error are all accepted.
func walkOS(dir, rel, tag string, gunzip, optional bool) []*input {
	var out []*input
	des, err := os.ReadDir(osPath(dir, rel) + "/")
	if err != nil {
		panic(fmt.Sprintf("reference walk of %s: %v", rel, err))
	}
	for _, de := range des {
		p := rel + "/" + de.Name()
		switch {
		case de.IsDir():
			out = append(out, walkOS(dir, p, tag, gunzip, optional)...)
		case de.Type().IsRegular():
			in := osInput(dir, p, tag, gunzip)
			in.optional = optional
			in.aliases = nameAliases(dir, p)
			out = append(out, in)
		case de.Type()&os.ModeSymlink != 0:
			fi, err := os.Stat(osPath(dir, p))
			switch {
			case err != nil: // dangling
				out = append(out, &input{src: p, kind: tag + "-symlink", optional: true, mayFail: true, aliases: nameAliases(dir, p)})
			case fi.IsDir():
				out = append(out, &input{src: p, kind: tag + "-symlink", optional: true, mayFail: true, aliases: nameAliases(dir, p)})
				out = append(out, optionalBelow(dir, p, tag+"-symlink", gunzip)...)
			default:
				in := osInput(dir, p, tag+"-symlink", gunzip)
				in.optional = true
				in.aliases = nameAliases(dir, p)
				out = append(out, in)
			}
		}
	}
	return out
}

func optionalBelow(dir, rel, tag string, gunzip bool) []*input {
	return walkOS(dir, strings.TrimRight(rel, "/"), tag, gunzip, true)
}

// listTree describes the files of a case directory (for the violation detail).
func listTree(dir string) string {
	var out []string
	var rec func(rel string)
	rec = func(rel string) {
		des, _ := os.ReadDir(dir + "/" + rel)
		for _, de := range des {
			p := de.Name()
			if rel != "" {
				p = rel + "/" + de.Name()
			}
			switch {
			case de.IsDir():
				out = append(out, p+"/")
				rec(p)
			case de.Type()&os.ModeSymlink != 0:
				t, _ := os.Readlink(dir + "/" + p)
				out = append(out, p+" -> "+t)
			case de.Type()&os.ModeNamedPipe != 0:
				out = append(out, p+" (fifo)")
			default:
				if !strings.HasPrefix(p, "stdin.") {
					out = append(out, p)
				}
			}
		}
	}
	rec("")
	return strings.Join(out, " ")
}

// ---------------------------------------------------------------- sizeless inputs

// fifoFeed is the writer side of a named pipe: a goroutine that opens the
// pipe for writing (which blocks until the process under test opens it for
// reading), writes the data and closes.
type fifoFeed struct {
	path string
	data []byte
	done chan struct{}
	// results, valid after done is closed
	written int
	err     error
}

func (f *fifoFeed) start() {
	f.done = make(chan struct{})
	go func() {
		defer close(f.done)
		var fd int
		var err error
		for {
			fd, err = syscall.Open(f.path, syscall.O_WRONLY|syscall.O_CLOEXEC, 0)
			if err != syscall.EINTR {
				break
			}
		}
		if err != nil {
			f.err = err
			return
		}
		defer syscall.Close(fd)
		for f.written < len(f.data) {
			n, err := syscall.Write(fd, f.data[f.written:])
			if err == syscall.EINTR {
				continue
			}
			if err != nil {
				f.err = err // EPIPE: the reader went away
				return
			}
			f.written += n
		}
	}()
}

// finish is called after the process under test has exited. A writer that is
// still blocked (the pipe was never opened, or not read to its end) is
// released by opening the read side without blocking and closing it again;
// its writes then fail with EPIPE. Time only bounds the wait for the writer
// goroutine, it decides nothing.
func (f *fifoFeed) finish() {
	deadline := time.Now().Add(20 * time.Second)
	for {
		select {
		case <-f.done:
			return
		default:
		}
		if fd, err := syscall.Open(f.path, syscall.O_RDONLY|syscall.O_NONBLOCK|syscall.O_CLOEXEC, 0); err == nil {
			syscall.Close(fd)
		}
		select {
		case <-f.done:
			return
		case <-time.After(20 * time.Millisecond):
		}
		if time.Now().After(deadline) {
			panic("harness: the writer of " + f.path + " cannot be released")
		}
	}
}

func sizeClassFifo(n int) string {
	switch {
	case n == 0:
		return "empty"
	case n <= 4096:
		return "b1-4096"
	case n <= 65536:
		return "b4097-65536"
	}
	return "b65537-"
}

const fifoName = "t/p.fifo"

// buildSizeless prepares a case of the sizeless family. skip != "" means the
// case cannot be judged here (no procfs, unstable content); it is counted.
func buildSizeless(dir string, c Case) (exp *expectation, desc string, skip string) {
	must := func(err error) {
		if err != nil {
			panic(err)
		}
	}
	must(os.MkdirAll(dir+"/t", 0o755))
	must(os.WriteFile(dir+"/stdin.sentinel", []byte(stdinSentinel), 0o644))
	must(os.WriteFile(dir+"/"+otherName, []byte(otherContent), 0o644))
	other := &input{src: otherName, kind: "other", lines: splitLines([]byte(otherContent))}
	exp = &expectation{stdinName: "stdin.sentinel", variant: c.Variant, sigScope: "sizeless/" + c.Shape}
	switch c.Shape {
	case "fifo-plain", "fifo-plain-z", "fifo-gzip-z":
		// "Each path argument [and] each glob expansion ... is opened and read
		// exactly once"; "with -z gzip content is delivered decompressed and
		// non-gzip files are read from their first byte"
		text := sizedText(c.N)
		data := text
		if c.Shape == "fifo-gzip-z" {
			data = gzStored(text)
		}
		must(syscall.Mkfifo(dir+"/"+fifoName, 0o644))
		exp.fifos = []*fifoFeed{{path: dir + "/" + fifoName, data: data}}
		in := &input{src: fifoName, kind: c.Shape + "-" + sizeClassFifo(c.N), lines: splitLines(text)}
		switch c.Form {
		case "fifo-first":
			exp.cliArgs = []string{fifoName, otherName}
			exp.inputs = []*input{in, other}
		case "fifo-last":
			exp.cliArgs = []string{otherName, fifoName}
			exp.inputs = []*input{other, in}
		case fGlob:
			exp.cliArgs = []string{"t/*"}
			exp.inputs = []*input{other, in}
		default:
			panic("fifo form " + c.Form)
		}
		desc = fmt.Sprintf("[%s = named pipe into which the harness writes %d bytes (%s, %d bytes of text) once it is opened; %s]", fifoName, len(data), c.Shape, c.N, otherName)
	case "procfs":
		name := procfsFiles[c.N]
		before, err := os.ReadFile(name)
		if err != nil {
			return nil, "", "procfs_absent_skipped"
		}
		in := &input{src: name, kind: "procfs", lines: splitLines(before)}
		exp.procfs = name
		exp.procfsBefore = before
		switch c.Form {
		case fPaths:
			exp.cliArgs = []string{name, otherName}
			exp.inputs = []*input{in, other}
		case fTwice:
			in2 := *in
			exp.cliArgs = []string{name, otherName, name}
			exp.inputs = []*input{in, other, &in2}
		default:
			panic("procfs form " + c.Form)
		}
		desc = fmt.Sprintf("[%s (stat size 0, %d bytes when read), %s]", name, len(before), otherName)
	default:
		panic("sizeless shape " + c.Shape)
	}
	return exp, desc, ""
}

// runSpell executes one case of the spelling or sizeless family.
func (e *env) runSpell(c Case) {
	e.seq++
	dir := filepath.Join(e.tmp, fmt.Sprintf("p%d", e.seq))
	defer os.RemoveAll(dir)
	switch c.Family {
	case famSpelling:
		if err := os.MkdirAll(dir, 0o755); err != nil {
			panic(err)
		}
		exp, desc := buildSpelling(dir, c)
		e.w.Add("spelling_family_cases", 1)
		e.judge(dir, desc, c, exp)
	case famSizeless:
		exp, desc, skip := buildSizeless(dir, c)
		if skip != "" {
			e.w.Add(skip, 1)
			return
		}
		e.w.Add("sizeless_family_cases", 1)
		e.judge(dir, desc, c, exp)
	default:
		panic("family " + c.Family)
	}
}

func spellRule(tier string) string {
	quick := tier != "thorough"
	sizes := fifoSizesQuick
	if !quick {
		sizes = fifoSizesThorough
	}
	s := fmt.Sprintf("SPELLING and SIZELESS families (filter command, %d cases): ", len(spellCases(quick)))
	s += "(7) one file named through a spelling, next to an intact t/other.log; the tree has a plain directory t/sub, a directory o/deep ELSEWHERE and the symbolic link t/ln -> ../o/deep; path-argument spellings {" + strings.Join(spellArgShapes, ", ") +
		"} (dotdot-after-symlinked-dir = t/ln/../x.log, which the operating system resolves to o/x.log, without and with a decoy t/x.log of different content; -absent: t/ln/../e0.log does not exist although t/e0.log does; dotdot-after-missing-dir and file-trailing-slash cannot be opened although their lexically cleaned form can) named as `<arg> other`, `<arg> <arg> other` and `-R <arg> other`; glob spellings of the directory part {" + strings.Join(spellGlobShapes, ", ") +
		"}; -R spellings {" + strings.Join(spellWalkShapes, ", ") + "}; content {plain, gzip} x -z {off,on}"
	if quick {
		s += " (gzip content with -z only)"
	}
	s += " x --readers {1,2}"
	if quick {
		s += " (path arguments: 1 for paths and -R, 2 for twice)"
	}
	s += "; the expected bytes are what os.ReadFile/os.ReadDir deliver for the argument as given (never a lexically cleaned path); "
	s += fmt.Sprintf("(8) inputs whose stat size is 0: a named pipe t/p.fifo into which a writer goroutine of the harness writes n bytes of text (n in %v; plain without -z, plain with -z, gzip with -z) once the process has opened it, named first, last and through t/*, --readers {1,2}; procfs files %v (read by the harness before and after the run, judged only when both reads agree) named once and twice x -z {off,on}; ", sizes, procfsFiles)
	return s
}
