package main

// SIZE families of C06: one or two simple input shapes parametrised by a
// size n (bytes of a file on disk / after decompression, position of a
// truncation or of a flipped bit in a small gzip file, number of path
// arguments, depth of a directory chain, number of directory entries), each
// combined with a handful of configurations. The oracle is the one of the
// small trees (checkFilter + exit status), fed with an expectation computed
// from the bytes on disk.

import (
	"bytes"
	"compress/gzip"
	"encoding/binary"
	"fmt"
	"hash/crc32"
	"os"
	"path/filepath"
	"sort"
	"strings"
	"time"
)

const (
	famFileSize = "filesize"    // a file of n bytes (on disk / decompressed)
	famTruncate = "gz-truncate" // a small gzip file cut after n bytes
	famBitflip  = "gz-bitflip"  // a small gzip file with bit n flipped
	famArgs     = "args"        // n path arguments
	famDepth    = "depth"       // -R over a chain of n nested directories
	famEntries  = "entries"     // a directory with n entries
)

const otherName = "t/other.log"
const otherContent = "o 1\nb 2\n"

// ---------------------------------------------------------------- sizes

func triples(ks ...int) []int {
	var out []int
	for _, k := range ks {
		out = append(out, 1<<k-1, 1<<k, 1<<k+1)
	}
	return out
}

func upTo(n int) []int {
	var out []int
	for i := 0; i <= n; i++ {
		out = append(out, i)
	}
	return out
}

func fileSizes(quick bool) []int {
	s := append(upTo(70), triples(7, 8, 9, 10, 11, 12, 15, 16, 17)...)
	if !quick {
		s = append(s, triples(13, 14, 18, 19)...)
	}
	sort.Ints(s)
	return s
}

// the sizes that are also named through a glob and through -R in the quick tier
var fileSizesAllForms = map[int]bool{0: true, 1: true, 9: true, 10: true, 11: true, 17: true, 18: true, 19: true, 20: true, 4096: true, 131072: true, 131073: true}

func byteClass(n int) string {
	switch {
	case n <= 20:
		return "b0-20"
	case n <= 4097:
		return "b21-4097"
	}
	return "b4098-"
}

func countClass(n int) string {
	switch {
	case n <= 3:
		return "n0-3"
	case n <= 16:
		return "n4-16"
	case n <= 64:
		return "n17-64"
	}
	return "n65-"
}

var fileShapes = []string{"plain", "plain-1line", "gzip-stored", "gzip-deflate", "gzip-ondisk", "magic2", "magic3-sp", "magic3-txt"}

// sizedText is n bytes of text whose line i carries i: `L<i> <i>` lines while
// they fit, the rest filled with an unterminated run of z.
func sizedText(n int) []byte {
	var b bytes.Buffer
	b.Grow(n)
	for i := 0; ; i++ {
		l := fmt.Sprintf("L%d %d\n", i, i)
		if b.Len()+len(l) > n {
			break
		}
		b.WriteString(l)
	}
	for b.Len() < n {
		b.WriteByte('z')
	}
	return b.Bytes()
}

// gzStored is an own gzip container (fixed 10-byte header, stored deflate
// blocks, CRC-32 and length trailer): 18 + 5*blocks + len(data) bytes.
func gzStored(data []byte) []byte {
	var b bytes.Buffer
	b.Write([]byte{0x1f, 0x8b, 8, 0, 0, 0, 0, 0, 0, 0xff})
	le16 := func(v int) { b.WriteByte(byte(v)); b.WriteByte(byte(v >> 8)) }
	if len(data) == 0 {
		b.Write([]byte{1, 0, 0, 0xff, 0xff})
	}
	for off := 0; off < len(data); {
		k := len(data) - off
		if k > 65535 {
			k = 65535
		}
		if off+k == len(data) {
			b.WriteByte(1)
		} else {
			b.WriteByte(0)
		}
		le16(k)
		le16(^k & 0xffff)
		b.Write(data[off : off+k])
		off += k
	}
	var t [8]byte
	binary.LittleEndian.PutUint32(t[0:], crc32.ChecksumIEEE(data))
	binary.LittleEndian.PutUint32(t[4:], uint32(len(data)))
	b.Write(t[:])
	return b.Bytes()
}

func gzDeflate(data []byte) []byte {
	var b bytes.Buffer
	zw := gzip.NewWriter(&b)
	zw.Write(data)
	zw.Close()
	return b.Bytes()
}

// gzOnDisk is a valid gzip file of exactly n bytes on disk (n >= 20).
func gzOnDisk(n int) ([]byte, bool) {
	switch {
	case n < 20:
		return nil, false
	case n == 20:
		// an empty fixed-Huffman block: the shortest gzip file there is
		return []byte{0x1f, 0x8b, 8, 0, 0, 0, 0, 0, 0, 0xff, 0x03, 0x00, 0, 0, 0, 0, 0, 0, 0, 0}, true
	case n < 24:
		// 1..3 literals in a fixed-Huffman block
		b := gzDeflate(sizedText(n - 20))
		return b, len(b) == n
	}
	for k := 1; ; k++ {
		d := n - 18 - 5*k
		if d < 1 {
			return nil, false
		}
		if (d+65534)/65535 == k {
			b := gzStored(sizedText(d))
			return b, len(b) == n
		}
	}
}

// fileShape returns the bytes of the file of the given shape and size.
func fileShape(shape string, n int) (data []byte, name string, ok bool) {
	magic := func(m ...byte) ([]byte, string, bool) {
		if n == 0 {
			return nil, "", false // the empty plain file
		}
		d := sizedText(n)
		copy(d, m)
		return d, "t/f.log", true
	}
	switch shape {
	case "plain":
		return sizedText(n), "t/f.log", true
	case "plain-1line":
		if n == 0 {
			return nil, "", false
		}
		return append([]byte("L"), bytes.Repeat([]byte("y"), n-1)...), "t/f.log", true
	case "gzip-stored": // n bytes after decompression
		return gzStored(sizedText(n)), "t/f.gz", true
	case "gzip-deflate": // n bytes after decompression
		return gzDeflate(sizedText(n)), "t/f.gz", true
	case "gzip-ondisk": // n bytes on disk
		b, ok := gzOnDisk(n)
		return b, "t/f.gz", ok
	case "magic2": // text that merely starts with the gzip magic
		return magic(0x1f, 0x8b)
	case "magic3-sp": // ... and the deflate method byte, then a blank
		return magic(0x1f, 0x8b, 0x08, ' ')
	case "magic3-txt": // ... and the deflate method byte, then the text goes on
		return magic(0x1f, 0x8b, 0x08)
	}
	panic("shape " + shape)
}

// ---------------------------------------------------------------- gzip bases

type gzBase struct {
	data    []byte
	hdrLen  int // length of the header of the first member (fixed part and optional fields)
	member1 int // length of the first member
}

func gzHeaderLen(b []byte) int {
	flg := b[3]
	p := 10
	if flg&4 != 0 { // FEXTRA
		p += 2 + int(b[p]) + int(b[p+1])<<8
	}
	for _, bit := range []byte{8, 16} { // FNAME, FCOMMENT
		if flg&bit != 0 {
			for b[p] != 0 {
				p++
			}
			p++
		}
	}
	if flg&2 != 0 { // FHCRC
		p += 2
	}
	return p
}

func gzBases() map[string]*gzBase {
	out := map[string]*gzBase{}
	// b1: fixed header, three deflate blocks
	b1 := gz("t0 1\nb 3\n", "u0 2\nb 4\nv0 5\n", "w0 6\n")
	out["b1"] = &gzBase{data: b1, member1: len(b1)}
	// b2: header with extra field, name and comment, two deflate blocks
	var bb bytes.Buffer
	zw := gzip.NewWriter(&bb)
	zw.Header.Name = "n.log"
	zw.Header.Comment = "c d"
	zw.Header.Extra = []byte{1, 2, 3, 4, 5}
	zw.Header.ModTime = time.Unix(1600000000, 0)
	zw.Write([]byte("h0 1\nb 3\n"))
	zw.Flush()
	zw.Write([]byte("i0 2\nb 4\n"))
	zw.Close()
	out["b2"] = &gzBase{data: bb.Bytes(), member1: bb.Len()}
	// b3: two members
	m1 := gz("m0 1\nb 7\n")
	out["b3"] = &gzBase{data: append(append([]byte{}, m1...), gz("b 2\nx0 3\n")...), member1: len(m1)}
	for _, b := range out {
		b.hdrLen = gzHeaderLen(b.data)
	}
	return out
}

var gzBaseNames = []string{"b1", "b2", "b3"}

// region names the part of the base file a byte position lies in.
func (b *gzBase) region(pos int) string {
	switch {
	case pos < b.hdrLen:
		return "header"
	case pos < b.member1-8:
		return "body"
	case pos < b.member1:
		return "trailer"
	case pos < b.member1+10:
		return "member2-header"
	case pos < len(b.data)-8:
		return "member2-body"
	}
	return "member2-trailer"
}

// ---------------------------------------------------------------- enumeration

// sizedCases lists the cases of the size families of a tier (deterministic).
func sizedCases(quick bool) []Case {
	var out []Case
	add := func(fam, shape string, n int, form string, z bool, readers int) {
		out = append(out, Case{Variant: "filter", Family: fam, Shape: shape, N: n, Form: form, Gunzip: z, Readers: readers})
	}
	// a file of n bytes
	for _, n := range fileSizes(quick) {
		for _, shape := range fileShapes {
			if _, _, ok := fileShape(shape, n); !ok {
				continue
			}
			for _, z := range []bool{false, true} {
				add(famFileSize, shape, n, fPaths, z, 1)
				if !quick || fileSizesAllForms[n] {
					add(famFileSize, shape, n, fGlob, z, 1)
					add(famFileSize, shape, n, fRecursive, z, 1)
				}
			}
		}
	}
	// a gzip file cut after n bytes / with bit n flipped, read with -z
	bases := gzBases()
	for _, bn := range gzBaseNames {
		b := bases[bn]
		for n := 0; n <= len(b.data); n++ {
			add(famTruncate, bn, n, fPaths, true, 1)
		}
		for bit := 0; bit < 8*len(b.data); bit++ {
			r := b.region(bit / 8)
			if quick && (r == "body" || r == "member2-body") {
				continue
			}
			add(famBitflip, bn, bit, fPaths, true, 1)
		}
	}
	// n path arguments: n distinct files / the same file n times
	maxArgs := 40
	if !quick {
		maxArgs = 130
	}
	for n := 1; n <= maxArgs; n++ {
		if n > 70 && n < 127 {
			continue
		}
		for _, shape := range []string{"distinct-plain", "same-plain", "distinct-gzip", "same-gzip"} {
			for _, r := range []int{1, 3} {
				add(famArgs, shape, n, fPaths, strings.HasSuffix(shape, "gzip"), r)
			}
		}
	}
	// -R over a chain of n nested directories with a file at every level
	maxDepth := 12
	if !quick {
		maxDepth = 40
	}
	for n := 1; n <= maxDepth; n++ {
		for _, r := range []int{1, 2} {
			add(famDepth, "chain", n, fRecursive, false, r)
		}
	}
	// a directory with n entries
	es := append(upTo(70), 127, 128, 129, 255, 256, 257, 300)
	if !quick {
		es = append(es, 511, 512, 513, 1023, 1024, 1025)
	}
	for _, n := range es {
		add(famEntries, "files", n, fGlob, false, 3)
		add(famEntries, "files", n, fRecursive, false, 1)
		add(famEntries, "mixed", n, fRecursive, false, 3)
		if !quick {
			add(famEntries, "files", n, fGlob, false, 1)
			add(famEntries, "files", n, fRecursive, false, 3)
			add(famEntries, "mixed", n, fRecursive, false, 1)
		}
	}
	return out
}

// ---------------------------------------------------------------- expectation

// gzipOrRaw: the expectation for a file read with -z whose content is not
// intact gzip. "with -z gzip content is delivered decompressed and non-gzip
// files are read from their first byte": when the file is taken for gzip
// content it "fails while being read" (read error, exit status 2, any prefix
// of what a decoder can deliver); when rawOK, the statement also allows to
// take it for a non-gzip file, which is then read from its first byte to its
// last with the usual exit status.
func gzipOrRaw(src, kind string, raw []byte, rawOK bool) *input {
	dec, failed := gunzipAll(raw)
	in := &input{src: src, kind: kind, lines: splitLines(dec), fails: failed, prefixOK: failed}
	if failed && rawOK {
		in.alt = &input{src: src, kind: kind, lines: splitLines(raw)}
	}
	return in
}

// buildSized writes the files of a size-family case below dir and returns
// the expectation and a description of the files.
func buildSized(dir string, c Case) (*expectation, string) {
	must := func(err error) {
		if err != nil {
			panic(err)
		}
	}
	write := func(rel string, data []byte) {
		must(os.MkdirAll(filepath.Dir(filepath.Join(dir, rel)), 0o755))
		must(os.WriteFile(filepath.Join(dir, rel), data, 0o644))
	}
	must(os.MkdirAll(filepath.Join(dir, "t"), 0o755))
	write("stdin.sentinel", []byte(stdinSentinel))
	exp := &expectation{stdinName: "stdin.sentinel", variant: c.Variant}
	desc := ""
	plainIn := func(src, kind string, data []byte) *input {
		return &input{src: src, kind: kind, lines: splitLines(data)}
	}
	// the one file under test next to an intact plain file, named by path,
	// through t/* or through -R t
	oneFile := func(name string, in *input) {
		write(otherName, []byte(otherContent))
		other := plainIn(otherName, "other", []byte(otherContent))
		switch c.Form {
		case fPaths:
			exp.cliArgs = []string{name, otherName}
		case fGlob:
			exp.cliArgs = []string{"t/*"}
		case fRecursive:
			exp.cliArgs = []string{"-R", "t"}
		default:
			panic("form " + c.Form)
		}
		exp.inputs = []*input{in, other}
	}
	switch c.Family {
	case famFileSize:
		data, name, ok := fileShape(c.Shape, c.N)
		if !ok {
			panic("shape not applicable")
		}
		write(name, data)
		kind := "size-" + c.Shape + "-" + byteClass(c.N)
		var in *input
		switch {
		case !c.Gunzip:
			in = plainIn(name, kind, data)
		case strings.HasPrefix(c.Shape, "gzip"):
			// "with -z gzip content is delivered decompressed"
			dec, failed := gunzipAll(data)
			if failed {
				panic("reference: intact gzip does not decode: " + c.Shape)
			}
			in = plainIn(name, kind, dec)
		case strings.HasPrefix(c.Shape, "magic"):
			// not gzip, but a reader that probes only the first bytes may take
			// it for gzip: both readings accepted
			in = gzipOrRaw(name, kind, data, true)
			if !in.fails { // (it decodes: then it IS gzip content)
				in.alt = nil
			}
		default:
			// "non-gzip files are read from their first byte"
			in = plainIn(name, kind, data)
		}
		oneFile(name, in)
		desc = fmt.Sprintf("[%s = %s of %d bytes (%d on disk), %s]", name, c.Shape, c.N, len(data), otherName)
	case famTruncate, famBitflip:
		b := gzBases()[c.Shape]
		if b == nil {
			panic("base " + c.Shape)
		}
		var data []byte
		var region string
		if c.Family == famTruncate {
			data = append([]byte{}, b.data[:c.N]...)
			region = "intact"
			if c.N < len(b.data) {
				region = b.region(c.N)
			}
			if c.N == b.member1 {
				region = "intact"
			}
			desc = fmt.Sprintf("[t/f.gz = gzip file %s (%d bytes, header %d) cut after %d bytes]", c.Shape, len(b.data), b.hdrLen, c.N)
		} else {
			data = append([]byte{}, b.data...)
			data[c.N/8] ^= 1 << (c.N % 8)
			region = b.region(c.N / 8)
			desc = fmt.Sprintf("[t/f.gz = gzip file %s (%d bytes, header %d) with bit %d of byte %d flipped]", c.Shape, len(b.data), b.hdrLen, c.N%8, c.N/8)
		}
		write("t/f.gz", data)
		kind := map[string]string{famTruncate: "trunc-", famBitflip: "flip-"}[c.Family] + region
		// damage inside the header leaves open whether the file is gzip content at all
		in := gzipOrRaw("t/f.gz", kind, data, region == "header")
		if !c.Gunzip {
			in = plainIn("t/f.gz", kind, data)
		}
		oneFile("t/f.gz", in)
	case famArgs:
		kind := "args-" + c.Shape + "-" + countClass(c.N)
		isGz := strings.HasSuffix(c.Shape, "gzip")
		for i := 0; i < c.N; i++ {
			j := i
			if strings.HasPrefix(c.Shape, "same") {
				j = 0
			}
			text := fmt.Sprintf("a%d %d\nb 1\nlast%d", j, j, j)
			name := fmt.Sprintf("t/a%02d.log", j)
			data := []byte(text)
			if isGz {
				name = fmt.Sprintf("t/a%02d.gz", j)
				data = gzDeflate(data)
			}
			if i == j {
				write(name, data)
			}
			// "opened and read exactly once per mention"
			exp.cliArgs = append(exp.cliArgs, name)
			exp.inputs = append(exp.inputs, plainIn(name, kind, []byte(text)))
		}
		desc = fmt.Sprintf("[%d path arguments, %s]", c.N, c.Shape)
	case famDepth:
		kind := "depth-" + countClass(c.N)
		rel := "t"
		for lvl := 0; lvl <= c.N; lvl++ {
			if lvl > 0 {
				rel += fmt.Sprintf("/d%d", lvl)
			}
			name := fmt.Sprintf("%s/f%d.log", rel, lvl)
			text := fmt.Sprintf("f%d %d\nb 1\n", lvl, lvl)
			write(name, []byte(text))
			// "(with -R) each regular file below a directory argument"
			exp.inputs = append(exp.inputs, plainIn(name, kind, []byte(text)))
		}
		exp.cliArgs = []string{"-R", "t"}
		desc = fmt.Sprintf("[t/f0.log, t/d1/f1.log, ... %d nested directories]", c.N)
	case famEntries:
		kind := "entries-" + c.Shape + "-" + countClass(c.N)
		for i := 0; i < c.N; i++ {
			name := fmt.Sprintf("t/e%04d.log", i)
			if c.Shape == "mixed" && i%7 == 3 {
				name = fmt.Sprintf("t/e%04d.d/in.log", i)
			}
			text := fmt.Sprintf("e%d %d\n", i, i)
			write(name, []byte(text))
			exp.inputs = append(exp.inputs, plainIn(name, kind, []byte(text)))
		}
		switch c.Form {
		case fGlob:
			if c.Shape != "files" {
				panic("glob over directories")
			}
			exp.cliArgs = []string{"t/*"}
			if c.N == 0 {
				exp.exitAmbiguous = true // a glob without any expansion
			}
		case fRecursive:
			exp.cliArgs = []string{"-R", "t"}
		default:
			panic("form " + c.Form)
		}
		desc = fmt.Sprintf("[t/ with %d entries, %s]", c.N, c.Shape)
	default:
		panic("family " + c.Family)
	}
	return exp, desc
}

// runSized executes one case of a size family.
func (e *env) runSized(c Case) {
	e.seq++
	dir := filepath.Join(e.tmp, fmt.Sprintf("s%d", e.seq))
	exp, desc := buildSized(dir, c)
	e.w.Add("size_family_cases", 1)
	e.judge(dir, desc, c, exp)
	os.RemoveAll(dir)
}

func sizeRule(tier string) string {
	quick := tier != "thorough"
	fs := fileSizes(quick)
	s := fmt.Sprintf("SIZE families (filter command, %d cases): ", len(sizedCases(quick)))
	s += fmt.Sprintf("(1) a file of n bytes next to an intact file, n in 0..70 and 2^k-1..2^k+1 up to %d (%d sizes), shapes {plain text whose line i carries i; one line of n bytes; gzip with stored blocks / default deflate whose DECOMPRESSED size is n; gzip whose ON-DISK size is n (n>=20: 10-byte header, deflate, 8-byte trailer); text that merely starts with the gzip magic 1f 8b, with 1f 8b 08 20, with 1f 8b 08} x -z {off,on} named by path", fs[len(fs)-1], len(fs))
	if quick {
		s += " (and through t/* and -R t for n in {0,1,9,10,11,17..20,4096,131072,131073}); "
	} else {
		s += ", through t/* and through -R t; "
	}
	s += "(2) three small gzip files (three deflate blocks; header with extra field, name and comment; two members) cut after EVERY number of bytes 0..len, read with -z; (3) the same files with one flipped bit, every bit of the header(s) and trailer(s)"
	if !quick {
		s += " and of the deflate bodies"
	}
	s += ", read with -z; "
	if quick {
		s += "(4) n = 1..40 path arguments: n distinct files / the same file n times, plain and gzip with -z, --readers {1,3}; (5) -R over a chain of n = 1..12 nested directories with a file at every level, --readers {1,2}; (6) a directory with n = 0..70, 127..129, 255..257, 300 entries named by t/* and by -R t (all files / every 7th entry a directory holding a file), --readers 3 for t/* and the mixed directory, 1 for -R over files; "
	} else {
		s += "(4) n = 1..70, 127..130 path arguments: n distinct files / the same file n times, plain and gzip with -z, --readers {1,3}; (5) -R over a chain of n = 1..40 nested directories with a file at every level, --readers {1,2}; (6) a directory with n = 0..70, 127..129, 255..257, 300, 511..513, 1023..1025 entries named by t/* and by -R t (all files / every 7th entry a directory holding a file), --readers {1,3}; "
	}
	return s
}
