package main

// Independent reference for C06. Imports nothing from rare. The tree is
// written by buildTree; what rare is expected to deliver is recomputed from
// the bytes ON DISK (os.ReadDir / os.ReadFile), with an own newline splitter;
// compress/gzip is used only to produce the expected decoded text.

import (
	"bytes"
	"compress/gzip"
	"fmt"
	"io"
	"os"
	"path/filepath"
	"regexp"
	"sort"
	"strconv"
	"strings"
)

const (
	kPlain     = "plain"      // text: CRLF line, empty line, unterminated last line
	kPlainBad  = "plain-bad"  // text with an unparsable increment (histogram variant)
	kEmpty     = "empty"      // zero bytes
	kGzip      = "gzip"       // one gzip member
	kGzip2     = "gzip2"      // two concatenated gzip members
	kTruncGz   = "trunc-gz"   // gzip cut inside the second deflate block
	kCorruptGz = "corrupt-gz" // gzip whose second deflate block has a reserved block type
	kBadCrcGz  = "badcrc-gz"  // gzip with a wrong CRC in the trailer (fails after all data)
	kFakeGz    = "fake-gz"    // plain text in a file named .gz
	kSubdir    = "subdir"     // directory with in.log and sub/deep.log
	kMissing   = "missing"    // a name that does not exist
)

const (
	fPaths          = "paths"
	fGlob           = "glob"
	fRecursive      = "recursive"
	fRecursivePaths = "recursive-paths"
	fTwice          = "twice"
	fDirAsFile      = "dir-as-file"
	fDash           = "dash"
	fDashFirst      = "dash-first" // `-` followed by path arguments
	fNone           = "none"
	fGlobLiteral    = "literal-name-with-pattern-characters" // an existing file t/x[1].log named literally
	fGlobExt        = "glob-by-extension"                    // t/*.log t/e?.gz
)

const literalName = "t/x[1].log"
const literalContent = "lit 1\nb 2\n"

const histoRegex = `^(\w+) (\S+)$`

var histoRe = regexp.MustCompile(histoRegex)

const stdinSentinel = "SENTINEL 1000000\n"
const stdinExtra = "in 1\nb 100\n"

type entry struct {
	kind string
	name string // path relative to the working directory, e.g. t/e0.log
}

type tree struct {
	dir     string
	entries []entry
}

func (t *tree) describe() string {
	var s []string
	for _, e := range t.entries {
		s = append(s, e.name+"="+e.kind)
	}
	return "[" + strings.Join(s, " ") + "]"
}

func gz(parts ...string) []byte {
	var b bytes.Buffer
	zw := gzip.NewWriter(&b)
	for i, p := range parts {
		if i > 0 {
			zw.Flush() // ends the deflate block with a sync marker
		}
		zw.Write([]byte(p))
	}
	zw.Close()
	return b.Bytes()
}

// content returns the bytes of the file of entry i of the given kind.
func content(kind string, i int) []byte {
	switch kind {
	case kPlain:
		return []byte(fmt.Sprintf("p%d 1\r\nb 20\n\nlast%d 3", i, i))
	case kPlainBad:
		return []byte(fmt.Sprintf("x%d 1x\nb 5\n", i))
	case kEmpty:
		return nil
	case kGzip:
		return gz(fmt.Sprintf("g%d 1\nb 7\ng%d 2\n", i, i))
	case kGzip2:
		return append(gz(fmt.Sprintf("m%d 1\n", i)), gz("b 2\n")...)
	case kTruncGz:
		b := gz(fmt.Sprintf("t%d 1\nb 3\n", i), fmt.Sprintf("u%d 2\nb 4\nv%d 5\n", i, i))
		m := bytes.Index(b, []byte{0x00, 0x00, 0xff, 0xff})
		if m < 0 {
			panic("no sync marker")
		}
		return b[:m+4+3] // three bytes into the second block
	case kCorruptGz:
		b := gz(fmt.Sprintf("c%d 1\nb 3\n", i), fmt.Sprintf("d%d 2\nb 4\n", i))
		m := bytes.Index(b, []byte{0x00, 0x00, 0xff, 0xff})
		if m < 0 {
			panic("no sync marker")
		}
		b[m+4] = 0x07 // BFINAL=1, BTYPE=11 (reserved)
		return b
	case kBadCrcGz:
		b := gz(fmt.Sprintf("k%d 1\nb 9\n", i))
		b[len(b)-8] ^= 0xff
		return b
	case kFakeGz:
		return []byte(fmt.Sprintf("f%d 1\nb 2\n", i))
	}
	panic("content of " + kind)
}

func entryName(kind string, i int) string {
	switch kind {
	case kGzip, kGzip2, kTruncGz, kCorruptGz, kBadCrcGz, kFakeGz:
		return fmt.Sprintf("t/e%d.gz", i)
	case kSubdir:
		return fmt.Sprintf("t/e%dd", i)
	}
	return fmt.Sprintf("t/e%d.log", i)
}

// buildTree writes the tree under dir/t and the standard-input files.
func buildTree(dir string, kinds []string) *tree {
	t := &tree{dir: dir}
	must := func(err error) {
		if err != nil {
			panic(err)
		}
	}
	for i, k := range kinds {
		e := entry{kind: k, name: entryName(k, i)}
		t.entries = append(t.entries, e)
		p := filepath.Join(dir, e.name)
		switch k {
		case kMissing:
		case kSubdir:
			must(os.MkdirAll(filepath.Join(p, "sub"), 0o755))
			must(os.WriteFile(filepath.Join(p, "in.log"), []byte(fmt.Sprintf("s%d 1\n", i)), 0o644))
			must(os.WriteFile(filepath.Join(p, "sub", "deep.log"), []byte(fmt.Sprintf("d%d 2\nb 1\n", i)), 0o644))
		default:
			must(os.WriteFile(p, content(k, i), 0o644))
		}
	}
	must(os.WriteFile(filepath.Join(dir, "stdin.sentinel"), []byte(stdinSentinel), 0o644))
	must(os.WriteFile(filepath.Join(dir, "stdin.extra"), []byte(stdinExtra), 0o644))
	var sb []byte
	if len(kinds) == 1 && kinds[0] != kSubdir && kinds[0] != kMissing {
		sb = content(kinds[0], 0)
	}
	must(os.WriteFile(filepath.Join(dir, "stdin.data"), sb, 0o644))
	return t
}

// splitLines is the reference line splitter: segments between LF, one CR
// before the LF removed, an unterminated non-empty rest is a line.
func splitLines(b []byte) []string {
	var out []string
	for len(b) > 0 {
		i := bytes.IndexByte(b, '\n')
		if i < 0 {
			out = append(out, string(b))
			break
		}
		l := b[:i]
		if len(l) > 0 && l[len(l)-1] == '\r' {
			l = l[:len(l)-1]
		}
		out = append(out, string(l))
		b = b[i+1:]
	}
	return out
}

// gunzipAll decodes as much as a gzip decoder can; failed says whether the
// stream ended in an error.
func gunzipAll(b []byte) (data []byte, failed bool) {
	zr, err := gzip.NewReader(bytes.NewReader(b))
	if err != nil {
		return nil, true
	}
	var out bytes.Buffer
	buf := make([]byte, 1)
	for {
		n, err := zr.Read(buf)
		out.Write(buf[:n])
		if err == io.EOF {
			return out.Bytes(), false
		}
		if err != nil {
			return out.Bytes(), true
		}
	}
}

// input is one expected read of one named source.
type input struct {
	src      string
	kind     string
	lines    []string // expected lines (all decodable lines for a failing stream)
	fails    bool     // cannot be opened or fails while being read
	prefixOK bool     // failing stream: any prefix of lines accepted
	// alt: the other reading of a file whose classification (gzip content /
	// non-gzip file) the statement leaves open; nil when there is only one
	alt *input
	// spelling family (spell.go): further names under which the lines of this
	// source may be reported (the statement fixes only the name <stdin>)
	aliases []string
	// optional: the statement does not say whether this is an input at all (what
	// -R reaches only through a symbolic link): read exactly once or not at all
	optional bool
	// mayFail (with optional): reporting it as a read error (exit status 2, the
	// name on stderr) is accepted as well
	mayFail bool
}

type expectation struct {
	cliArgs       []string
	stdinName     string
	inputs        []*input
	exitAmbiguous bool // statement silent (empty glob expansion)
	refusedOK     bool // -z with stdin: an up-front refusal is also accepted
	anyRefusalOK  bool // `-` mixed with paths: a usage refusal is also accepted
	variant       string
	// filled in by checkFilter: inputs with two admissible readings (input.alt)
	readAsPlain, readAsGzip int
	// spelling / sizeless families (spell.go)
	sigScope                      string      // one violation per case: C06/<variant>/<sigScope>/<class of the first failed clause>
	fifos                         []*fifoFeed // named pipes fed by the harness while the process runs
	procfs                        string      // a procfs file whose content is read again after the run
	procfsBefore                  []byte
	optionalRead, optionalSkipped int
}

// mayFailReported: the exit status 2 may stem from an input about which the
// statement is silent (input.mayFail) when stderr names it.
func (e *expectation) mayFailReported(stderr string) bool {
	for _, in := range e.inputs {
		if !in.mayFail {
			continue
		}
		for _, n := range append([]string{in.src}, in.aliases...) {
			if strings.Contains(stderr, n) {
				return true
			}
		}
	}
	return false
}

// fileInput computes what reading the file at rel (relative to t.dir) must
// deliver. "with -z gzip content is delivered decompressed and non-gzip files
// are read from their first byte".
func fileInput(t *tree, rel, kind string, gunzip bool) *input {
	in := &input{src: rel, kind: kind}
	b, err := os.ReadFile(filepath.Join(t.dir, rel))
	if err != nil {
		// missing, or a directory given as a file: "cannot be opened or fails
		// while being read"
		in.fails = true
		return in
	}
	isGz := false
	switch kind {
	case kGzip, kGzip2, kTruncGz, kCorruptGz, kBadCrcGz:
		isGz = true
	}
	if gunzip && isGz {
		data, failed := gunzipAll(b)
		in.lines = splitLines(data)
		if failed {
			in.fails = true
			in.prefixOK = true
		}
		switch kind {
		case kGzip, kGzip2:
			if failed {
				panic("reference: intact gzip does not decode")
			}
		default:
			if !failed {
				panic("reference: damaged gzip decodes without error: " + kind)
			}
		}
		return in
	}
	in.lines = splitLines(b)
	return in
}

// walkFiles lists the regular files below rel (own recursion on os.ReadDir).
func walkFiles(t *tree, rel string, out *[]string) {
	des, err := os.ReadDir(filepath.Join(t.dir, rel))
	if err != nil {
		return
	}
	for _, de := range des {
		p := rel + "/" + de.Name()
		if de.IsDir() {
			walkFiles(t, p, out)
		} else if de.Type().IsRegular() {
			*out = append(*out, p)
		}
	}
}

func kindOfPath(t *tree, rel string) string {
	for _, e := range t.entries {
		if e.name == rel {
			return e.kind
		}
		if strings.HasPrefix(rel, e.name+"/") {
			return "subdir-file"
		}
	}
	if rel == "t" {
		return "root-dir"
	}
	return "?"
}

// expect builds the expectation of a case from the statement.
func expect(t *tree, c Case) *expectation {
	exp := &expectation{stdinName: "stdin.sentinel", variant: c.Variant}
	addPath := func(rel string, recursive bool) {
		// "Each path argument ... and (with -R) each regular file below a
		// directory argument is opened and read exactly once per mention"
		fi, err := os.Stat(filepath.Join(t.dir, rel))
		if err == nil && fi.IsDir() {
			if recursive {
				var files []string
				walkFiles(t, rel, &files)
				for _, f := range files {
					exp.inputs = append(exp.inputs, fileInput(t, f, kindOfPath(t, f), c.Gunzip))
				}
				return
			}
			// a directory given as a file fails while being read
			k := kindOfPath(t, rel)
			if k == kSubdir {
				k = "subdir-as-file"
			}
			exp.inputs = append(exp.inputs, &input{src: rel, kind: k, fails: true})
			return
		}
		exp.inputs = append(exp.inputs, fileInput(t, rel, kindOfPath(t, rel), c.Gunzip))
	}
	var names []string
	for _, e := range t.entries {
		names = append(names, e.name)
	}
	switch c.Form {
	case fPaths:
		exp.cliArgs = names
		for _, n := range names {
			addPath(n, false)
		}
	case fTwice:
		exp.cliArgs = append(append([]string{}, names...), names...)
		for _, n := range exp.cliArgs {
			addPath(n, false)
		}
	case fDirAsFile:
		exp.cliArgs = append([]string{"t"}, names...)
		for _, n := range exp.cliArgs {
			addPath(n, false)
		}
	case fRecursivePaths:
		exp.cliArgs = append([]string{"-R"}, names...)
		for _, n := range names {
			addPath(n, true)
		}
	case fRecursive:
		exp.cliArgs = []string{"-R", "t"}
		addPath("t", true)
	case fGlob:
		// "each glob expansion": the entries of t/ that exist
		exp.cliArgs = []string{"t/*"}
		des, _ := os.ReadDir(filepath.Join(t.dir, "t"))
		var ns []string
		for _, de := range des {
			ns = append(ns, "t/"+de.Name())
		}
		sort.Strings(ns)
		for _, n := range ns {
			addPath(n, false)
		}
		if len(ns) == 0 {
			exp.exitAmbiguous = true
		}
	case fGlobLiteral:
		// "Each path argument ... is opened and read exactly once per mention":
		// the argument names an existing file; that its name is also a pattern
		// (which matches x1.log, not the file itself) does not make it less of
		// a path argument
		if err := os.WriteFile(filepath.Join(t.dir, literalName), []byte(literalContent), 0o644); err != nil {
			panic(err)
		}
		exp.cliArgs = append(append([]string{}, names...), literalName)
		for _, n := range names {
			addPath(n, false)
		}
		exp.inputs = append(exp.inputs, fileInput(t, literalName, "literal-name", c.Gunzip))
	case fGlobExt:
		// "each glob expansion": the existing entries with that extension
		exp.cliArgs = []string{"t/*.log", "t/e?.gz"}
		des, _ := os.ReadDir(filepath.Join(t.dir, "t"))
		var logs, gzs []string
		for _, de := range des {
			n := de.Name()
			if strings.HasSuffix(n, ".log") {
				logs = append(logs, "t/"+n)
			}
			if strings.HasSuffix(n, ".gz") && len(n) == len("e0.gz") && n[0] == 'e' {
				gzs = append(gzs, "t/"+n)
			}
		}
		sort.Strings(logs)
		sort.Strings(gzs)
		if len(logs) == 0 || len(gzs) == 0 {
			panic("glob-by-extension needs a .log and a .gz entry (formApplies)")
		}
		for _, n := range append(logs, gzs...) {
			addPath(n, false)
		}
	case fDashFirst:
		// "`-` ... reads standard input under the name <stdin>" and "Each path
		// argument ... is opened and read exactly once per mention": both hold
		// when everything is read; refusing the combination is accepted too
		exp.cliArgs = append([]string{"-"}, names...)
		exp.stdinName = "stdin.extra"
		exp.inputs = append(exp.inputs, &input{src: "<stdin>", kind: "stdin-extra", lines: splitLines([]byte(stdinExtra))})
		for _, n := range names {
			addPath(n, false)
		}
		exp.anyRefusalOK = true
	case fDash, fNone:
		// "`-` or no argument reads standard input under the name <stdin>"
		if c.Form == fDash {
			exp.cliArgs = []string{"-"}
		}
		exp.stdinName = "stdin.data"
		b, _ := os.ReadFile(filepath.Join(t.dir, "stdin.data"))
		k := kEmpty
		if len(t.entries) == 1 {
			k = t.entries[0].kind
		}
		exp.inputs = append(exp.inputs, &input{src: "<stdin>", kind: "stdin-" + k, lines: splitLines(b)})
		if c.Gunzip {
			exp.refusedOK = true
		}
	default:
		panic("form " + c.Form)
	}
	if len(exp.cliArgs) == 0 && c.Form != fNone {
		// no entries at all: the command line would have no path argument and
		// read standard input: "no argument reads standard input"
		exp.stdinName = "stdin.sentinel"
		exp.inputs = []*input{{src: "<stdin>", kind: "stdin-sentinel", lines: splitLines([]byte(stdinSentinel))}}
		if c.Gunzip {
			exp.refusedOK = true
		}
	}
	if c.Form == fRecursivePaths && len(names) == 0 {
		// `-R` alone: still no path argument
		exp.stdinName = "stdin.sentinel"
		exp.inputs = []*input{{src: "<stdin>", kind: "stdin-sentinel", lines: splitLines([]byte(stdinSentinel))}}
		if c.Gunzip {
			exp.refusedOK = true
		}
	}
	return exp
}

func (e *expectation) firstErrorKind() string {
	for _, in := range e.inputs {
		if in.fails {
			return in.kind
		}
	}
	return ""
}

// matchedAndParse computes, over the completely read inputs, the number of
// matching lines and of unparsable increments for the variant.
func (e *expectation) matchedAndParse() (matched, parseErrs int) {
	for _, in := range e.inputs {
		for _, l := range in.lines {
			if e.variant == "filter" {
				matched++ // every line matches and the key is never empty
				continue
			}
			m := histoRe.FindStringSubmatch(l)
			if m == nil {
				continue
			}
			matched++
			if _, err := strconv.ParseInt(m[2], 10, 64); err != nil {
				parseErrs++
			}
		}
	}
	return
}

// exitStatus encodes: "An input that cannot be opened or fails while being
// read ... makes the exit status 2 ...; otherwise the exit status is 2 if the
// aggregator saw unparsable increments, 1 if nothing matched, and 0
// otherwise."
func (e *expectation) exitStatus() (int, string) {
	if k := e.firstErrorKind(); k != "" {
		return 2, "read-error:" + k
	}
	matched, parseErrs := e.matchedAndParse()
	if e.variant == "histo" && parseErrs > 0 {
		return 2, "unparsable-increments"
	}
	if matched == 0 {
		return 1, "nothing-matched"
	}
	return 0, "ok"
}

// histoBounds: per key, the count every completely processed input
// contributes (lo) and the most that can be contributed when failing streams
// deliver all their decodable lines (hi). All increments are positive.
func (e *expectation) histoBounds() (lo, hi map[string]int64, parseErrs int) {
	lo, hi = map[string]int64{}, map[string]int64{}
	for _, in := range e.inputs {
		for _, l := range in.lines {
			m := histoRe.FindStringSubmatch(l)
			if m == nil {
				continue
			}
			v, err := strconv.ParseInt(m[2], 10, 64)
			if err != nil {
				parseErrs++
				continue
			}
			hi[m[1]] += v
			if !in.prefixOK {
				lo[m[1]] += v
			}
		}
	}
	return
}
