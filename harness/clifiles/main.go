// Harness clifiles decides the configuration/input-enumeration part of C06 on
// the REAL rare binary ($RARE_BIN, built by ./check from the repository under
// test): every directory tree with up to 3 entries over a fixed set of entry
// kinds x every argument form x -z on/off x --readers {1,2}, for a `filter`
// command line that prints source:line:text of every line and a `histogram`
// command line with an increment expression (to reach the "unparsable
// increments" exit status). The oracle is an independent reference computed
// in reference.go (os.ReadDir walking, own newline splitting, compress/gzip
// only to produce the expected decoded text). helpers.DetermineErrorState is
// also enumerated directly over {0,1,2}^3. size.go adds the SIZE families
// (file sizes up to 512 KiB, a gzip file cut at every byte / with every
// header and trailer bit flipped, up to 130 path arguments, 40 nested
// directories, 1025 directory entries). spell.go adds the SPELLING family (one
// file named through every spelling the operating system defines: ./, //, /./,
// dir/../, absolute, symbolic links, `..` behind a symbolic link to a directory
// elsewhere; as path argument, directory part of a glob, -R argument) and the
// SIZELESS family (named pipes, procfs files: stat size 0 with content).
package main

import (
	"bytes"
	"encoding/json"
	"fmt"
	"os"
	"path/filepath"
	"sort"
	"strings"
	"time"

	"rare/cmd/helpers"
	"verif/runner"
)

// Case is one replayable execution.
type Case struct {
	Variant string   `json:"variant"` // filter | histo | exitstate
	Kinds   []string `json:"kinds"`   // entry kinds of the tree, entry i is named e<i>...
	Form    string   `json:"form"`
	Gunzip  bool     `json:"z"`
	Readers int      `json:"readers"`
	// size families only (size.go): family, input shape and the size n
	Family string `json:"family,omitempty"`
	Shape  string `json:"shape,omitempty"`
	N      int    `json:"n,omitempty"`
	// exitstate only
	ReadErrors  int  `json:"read_errors,omitempty"`
	Matched     int  `json:"matched,omitempty"`
	ParseErrors int  `json:"parse_errors,omitempty"`
	NilAgg      bool `json:"nil_agg,omitempty"`
	// informational
	Cmdline string `json:"cmdline,omitempty"`
}

var allKinds = []string{kPlain, kPlainBad, kEmpty, kGzip, kGzip2, kTruncGz, kCorruptGz, kBadCrcGz, kFakeGz, kSubdir, kMissing}

var allForms = []string{fPaths, fGlob, fRecursive, fRecursivePaths, fTwice, fDirAsFile, fDash, fNone, fDashFirst, fGlobLiteral, fGlobExt}

var variants = []string{"filter", "histo"}

// enumerate trees: all sequences of kinds of length 0..maxEntries
func enumTrees(minEntries, maxEntries int, f func(kinds []string) bool) {
	for n := minEntries; n <= maxEntries; n++ {
		idx := make([]int, n)
		for {
			kinds := make([]string, n)
			for i, k := range idx {
				kinds[i] = allKinds[k]
			}
			if !f(kinds) {
				return
			}
			i := n - 1
			for ; i >= 0; i-- {
				idx[i]++
				if idx[i] < len(allKinds) {
					break
				}
				idx[i] = 0
			}
			if i < 0 {
				break
			}
		}
	}
}

func formApplies(form string, kinds []string) bool {
	switch form {
	case fDashFirst:
		return len(kinds) >= 1
	case fGlobExt:
		// both patterns must have an expansion (what an argument without any is, the statement does not say)
		var log, gz bool
		for _, k := range kinds {
			switch k {
			case kPlain, kPlainBad, kEmpty:
				log = true
			case kGzip, kGzip2, kTruncGz, kCorruptGz, kBadCrcGz, kFakeGz:
				gz = true
			}
		}
		return log && gz
	case fDash, fNone:
		// standard input carries the bytes of the single entry; trees with
		// more entries add nothing to these forms
		if len(kinds) > 1 {
			return false
		}
		if len(kinds) == 1 && (kinds[0] == kSubdir || kinds[0] == kMissing) {
			return false
		}
	}
	return true
}

type env struct {
	w     *runner.W
	bin   string
	tmp   string // private temp dir of this worker
	seq   int
	home  string
	hangs int // processes killed after 60 s; the enumeration stops after 3
}

func newEnv(w *runner.W) *env {
	bin := os.Getenv("RARE_BIN")
	if bin == "" {
		panic("RARE_BIN is not set (harness must be registered with mode cli in harness/MAP)")
	}
	if _, err := os.Stat(bin); err != nil {
		panic(fmt.Sprintf("RARE_BIN=%s: %v", bin, err))
	}
	tmp, err := os.MkdirTemp("", "verif-clifiles-")
	if err != nil {
		panic(err)
	}
	home := filepath.Join(tmp, "home")
	os.MkdirAll(home, 0o755)
	return &env{w: w, bin: bin, tmp: tmp, home: home}
}

func (e *env) close() { os.RemoveAll(e.tmp) }

// workdir creates a fresh working directory holding the tree `t/` and the
// standard-input file.
func (e *env) workdir(kinds []string) (string, *tree) {
	e.seq++
	dir := filepath.Join(e.tmp, fmt.Sprintf("c%d", e.seq))
	if err := os.MkdirAll(filepath.Join(dir, "t"), 0o755); err != nil {
		panic(err)
	}
	t := buildTree(dir, kinds)
	return dir, t
}

func worker(w *runner.W) {
	e := newEnv(w)
	defer e.close()

	maxEntries := 3
	var caseNo int64
	onlySize := w.Param("only", "") == "size" // debugging aid: -p only=size runs the size families alone

	// direct enumeration of DetermineErrorState over {0,1,2}^3 (+ nil aggregator)
	for r := 0; r <= 2; r++ {
		for m := 0; m <= 2; m++ {
			for p := 0; p <= 2; p++ {
				for _, nilAgg := range []bool{false, true} {
					if nilAgg && p > 0 {
						continue
					}
					caseNo++
					if !w.Owns(caseNo) {
						continue
					}
					c := Case{Variant: "exitstate", ReadErrors: r, Matched: m, ParseErrors: p, NilAgg: nilAgg}
					w.SetCase(func() any { return c })
					checkExitState(w, c)
				}
			}
		}
	}

	stop := false
	enumTrees(0, maxEntries, func(kinds []string) bool {
		if onlySize {
			return false
		}
		for _, form := range allForms {
			if !formApplies(form, kinds) {
				continue
			}
			if w.Quick() && len(kinds) == 3 && (form == fGlobLiteral || form == fGlobExt) {
				continue // quick: these two forms with trees of up to 2 entries
			}
			caseNo++
			if !w.Owns(caseNo) {
				continue
			}
			if w.Expired() {
				stop = true
				return false
			}
			if e.hangs >= 3 {
				w.Cap("enumeration stopped after 3 hanging processes in one worker")
				stop = true
				return false
			}
			dir, t := e.workdir(kinds)
			for _, variant := range variants {
				if form == fDashFirst && variant != "filter" {
					continue // sources are only visible in the filter output
				}
				for _, z := range []bool{false, true} {
					for _, readers := range []int{1, 2} {
						c := Case{Variant: variant, Kinds: kinds, Form: form, Gunzip: z, Readers: readers}
						w.SetCase(func() any { return c })
						e.runCase(dir, t, c)
					}
				}
			}
			os.RemoveAll(dir)
		}
		return true
	})
	if stop {
		return
	}
	// SIZE families (size.go)
	onlyFam := w.Param("fam", "") // debugging aid: -p fam=<family>
	for _, c := range sizedCases(w.Quick()) {
		if onlyFam != "" && c.Family != onlyFam {
			continue
		}
		caseNo++
		if !w.Owns(caseNo) {
			continue
		}
		if w.Expired() {
			return
		}
		if e.hangs >= 3 {
			w.Cap("enumeration stopped after 3 hanging processes in one worker")
			return
		}
		c := c
		w.SetCase(func() any { return c })
		e.runSized(c)
	}
	// SPELLING and SIZELESS families (spell.go)
	for _, c := range spellCases(w.Quick()) {
		if onlyFam != "" && c.Family != onlyFam {
			continue
		}
		caseNo++
		if !w.Owns(caseNo) {
			continue
		}
		if w.Expired() {
			return
		}
		if e.hangs >= 3 {
			w.Cap("enumeration stopped after 3 hanging processes in one worker")
			return
		}
		c := c
		w.SetCase(func() any { return c })
		e.runSpell(c)
	}
	if w.Quick() || onlySize {
		return
	}
	// thorough: additionally every tree with 4 entries, for the filter command
	// with -z and the three forms that name every entry
	enumTrees(4, 4, func(kinds []string) bool {
		for _, form := range []string{fPaths, fGlob, fRecursive} {
			caseNo++
			if !w.Owns(caseNo) {
				continue
			}
			if w.Expired() {
				return false
			}
			if e.hangs >= 3 {
				w.Cap("enumeration stopped after 3 hanging processes in one worker")
				return false
			}
			dir, t := e.workdir(kinds)
			for _, readers := range []int{1, 2} {
				c := Case{Variant: "filter", Kinds: kinds, Form: form, Gunzip: true, Readers: readers}
				w.SetCase(func() any { return c })
				e.runCase(dir, t, c)
			}
			os.RemoveAll(dir)
		}
		return true
	})
}

type fakeBatcher int

func (f fakeBatcher) ReadErrors() int { return int(f) }

type fakeExtractor uint64

func (f fakeExtractor) MatchedLines() uint64 { return uint64(f) }

type fakeAgg uint64

func (f fakeAgg) ParseErrors() uint64 { return uint64(f) }

// checkExitState: "An input that cannot be opened or fails while being read
// ... makes the exit status 2 ...; otherwise the exit status is 2 if the
// aggregator saw unparsable increments, 1 if nothing matched, and 0
// otherwise."
func checkExitState(w *runner.W, c Case) {
	want := 0
	switch {
	case c.ReadErrors > 0:
		want = 2
	case !c.NilAgg && c.ParseErrors > 0:
		want = 2
	case c.Matched == 0:
		want = 1
	}
	got := -1
	func() {
		defer func() {
			if p := recover(); p != nil {
				w.Violation("C06/DetermineErrorState/panic", fmt.Sprintf("panic: %v", p), c)
				got = -2
			}
		}()
		var err error
		if c.NilAgg {
			err = helpers.DetermineErrorState(fakeBatcher(c.ReadErrors), fakeExtractor(c.Matched), nil)
		} else {
			err = helpers.DetermineErrorState(fakeBatcher(c.ReadErrors), fakeExtractor(c.Matched), fakeAgg(c.ParseErrors))
		}
		if err == nil {
			got = 0
		} else if ec, ok := err.(interface{ ExitCode() int }); ok {
			got = ec.ExitCode()
		} else {
			got = 2 // main() exits 2 for an error without an exit code
		}
	}()
	w.Eval(true)
	w.Add("exitstate_cases", 1)
	if got == -2 {
		return
	}
	w.Outcome("exitstate", fmt.Sprint(got))
	if got != want {
		w.Violation(fmt.Sprintf("C06/DetermineErrorState/want%d-got%d", want, got),
			fmt.Sprintf("DetermineErrorState(readErrors=%d, matched=%d, parseErrors=%d, nilAgg=%v) gave exit status %d, the statement demands %d", c.ReadErrors, c.Matched, c.ParseErrors, c.NilAgg, got, want), c)
	}
}

// runCase executes one case against the binary and applies the oracle.
func (e *env) runCase(dir string, t *tree, c Case) {
	e.judge(dir, t.describe(), c, expect(t, c))
}

// judge runs the command line of the case and applies the oracle to the
// expectation exp.
func (e *env) judge(dir, treeDesc string, c Case, exp *expectation) {
	w := e.w
	args := buildArgs(c, exp)
	c.Cmdline = "rare " + shellJoin(args) + " < " + exp.stdinName
	for _, f := range exp.fifos {
		f.start()
	}
	res := runRare(e.bin, dir, e.home, args, filepath.Join(dir, exp.stdinName), 2)
	w.Add("process_runs", 1)
	feedNote := ""
	for _, f := range exp.fifos {
		f.finish() // never blocks: see fifoFeed.finish
		feedNote += fmt.Sprintf("\nwriter of %s: %d of %d bytes written, error %v", filepath.Base(f.path), f.written, len(f.data), f.err)
	}
	if exp.procfs != "" {
		// a procfs file is judged only when it read the same before and after the run
		after, err := os.ReadFile(exp.procfs)
		if err != nil || !bytes.Equal(after, exp.procfsBefore) {
			w.Add("procfs_unstable_skipped", 1)
			return
		}
	}

	viol := func(sig, msg string) {
		detail := fmt.Sprintf("%s\ncmd (cwd holds tree t/): %s\ntree: %s\nexit=%d\nstdout=%q\nstderr=%q%s", msg, clip(c.Cmdline, 400), treeDesc, res.exit, clip(res.stdout, 600), clip(res.stderr, 600), feedNote)
		w.Violation(sig, detail, c)
	}
	pre := "C06/" + c.Variant + "/"
	if res.hang {
		w.Eval(false)
		viol(pre+"hang/"+c.Form, "the process did not exit within 60 s")
		e.hangs++
		return
	}
	if res.startErr != nil {
		panic(fmt.Sprintf("cannot run %s: %v", e.bin, res.startErr))
	}
	if strings.Contains(res.stderr, "panic:") || strings.Contains(res.stderr, "goroutine 1 [") || res.signaled {
		w.Eval(true)
		viol(pre+"crash/"+c.Form, "the process crashed")
		return
	}

	nontrivial := len(exp.inputs) > 0
	w.Eval(nontrivial)
	bad := false
	// families with a sigScope file ONE violation per case, under the scope and
	// the class of the first failed clause; the detail lists the failed clauses
	var failed []string
	firstClass := ""
	report := func(sig, msg string) {
		bad = true
		if exp.sigScope == "" {
			viol(sig, msg)
			return
		}
		if firstClass == "" {
			firstClass = sigClass(strings.TrimPrefix(sig, pre))
		}
		if len(failed) < 6 {
			failed = append(failed, sig+": "+msg)
		} else if len(failed) == 6 {
			failed = append(failed, "...")
		}
	}

	// accept-set for what the statement leaves open
	if exp.refusedOK && res.exit == 2 && strings.TrimSpace(res.stdout) == "" && strings.Contains(res.stderr, "stdin") {
		// -z with standard input is refused up front with a usage error;
		// the statement says nothing about this combination
		w.Outcome(c.Variant, "refused-z-stdin")
		return
	}

	if exp.anyRefusalOK {
		if res.exit == 2 && strings.TrimSpace(res.stdout) == "" && strings.TrimSpace(res.stderr) != "" {
			w.Outcome(c.Variant, "refused-dash-with-paths")
			return
		}
		// dedicated signature: the path arguments after `-` are not read at all
		pathSeen, pathDue := false, false
		for _, in := range exp.inputs {
			if in.src == "<stdin>" {
				continue
			}
			if len(in.lines) > 0 || in.fails {
				pathDue = true
			}
			if strings.Contains(res.stdout, in.src+":") || strings.Contains(res.stderr, in.src) {
				pathSeen = true
			}
		}
		if pathDue && !pathSeen {
			// exactly this and nothing else is filed under this signature: the
			// first argument is `-`, further path arguments exist, none of them
			// was opened (no line, no error message names them)
			report(pre+"dash-first/path-arguments-not-read", "`-` followed by path arguments: only standard input was read, the path arguments were neither read nor refused (\"Each path argument ... is opened and read exactly once per mention\")")
			// everything else is still checked, for standard input alone
			exp.inputs = exp.inputs[:1]
		}
	}

	var obsKey string
	if c.Variant == "filter" {
		obsKey = checkFilter(c, exp, res, report)
	} else {
		obsKey = checkHisto(dir, c, exp, res, report)
	}

	w.Add("either_reading_allowed_read_as_non_gzip", int64(exp.readAsPlain))
	w.Add("either_reading_allowed_read_as_failing_gzip", int64(exp.readAsGzip))
	// exit status
	wantExit, reason := exp.exitStatus()
	if !exp.exitAmbiguous {
		if res.exit == 2 && wantExit != 2 && exp.mayFailReported(res.stderr) {
			// an input the statement is silent about was reported as unreadable
			w.Add("optional_input_reported_as_read_error", 1)
		} else if res.exit != wantExit {
			report(fmt.Sprintf("%sexit/want%d-got%d/%s", pre, wantExit, res.exit, reason),
				fmt.Sprintf("exit status %d, the statement demands %d (%s)", res.exit, wantExit, reason))
		}
	} else if res.exit != 1 && res.exit != 2 {
		report(fmt.Sprintf("%sexit/want1or2-got%d/%s", pre, res.exit, reason), "a glob without any expansion: exit status must be 1 (nothing matched) or 2 (reported as unreadable)")
	}
	// "counted as a read error": the failure must be reported on stderr
	if k := exp.firstErrorKind(); k != "" && !exp.exitAmbiguous {
		if !strings.Contains(strings.ToLower(res.stderr), "error") {
			report(pre+"stderr/error-not-mentioned/"+k, "an input failed but stderr does not mention an error")
		}
	}
	w.Add("optional_input_read", int64(exp.optionalRead))
	w.Add("optional_input_not_read", int64(exp.optionalSkipped))
	if bad && exp.sigScope != "" {
		viol(pre+exp.sigScope+"/"+firstClass, strings.Join(failed, "\n"))
	}
	if !bad {
		w.Outcome(c.Variant, fmt.Sprint(res.exit), obsKey)
		if w.WantSample() && len(exp.inputs) >= 2 && exp.firstErrorKind() != "" {
			w.Sample(c)
		}
	}
}

// sigClass maps a signature of the grid oracle (without the C06/<variant>/
// prefix) to the class of the failed clause.
func sigClass(rest string) string {
	switch {
	case strings.HasPrefix(rest, "content/"):
		return "wrong-content"
	case strings.HasPrefix(rest, "exit/"):
		return "exit-status"
	case strings.HasPrefix(rest, "stderr/"):
		return "error-not-mentioned"
	}
	if i := strings.IndexByte(rest, '/'); i >= 0 {
		return rest[:i]
	}
	return rest
}

func clip(s string, n int) string {
	if len(s) > n {
		return s[:n] + "…"
	}
	return s
}

func shellJoin(args []string) string {
	var sb strings.Builder
	for i, a := range args {
		if i > 0 {
			sb.WriteByte(' ')
		}
		if a != "" && strings.IndexFunc(a, func(r rune) bool {
			return !(r == '/' || r == '.' || r == '-' || r == '_' || r == '=' || (r >= '0' && r <= '9') || (r >= 'a' && r <= 'z') || (r >= 'A' && r <= 'Z'))
		}) < 0 {
			sb.WriteString(a)
		} else {
			sb.WriteString("'" + strings.ReplaceAll(a, "'", `'\''`) + "'")
		}
	}
	return sb.String()
}

func buildArgs(c Case, exp *expectation) []string {
	args := []string{"--nocolor", "--noformat", "--nounicode"}
	if c.Variant == "filter" {
		// no -m: every line matches with {0} = the whole line
		args = append(args, "filter", "-e", "{src}:{line}:{0}")
	} else {
		args = append(args, "histogram", "-m", histoRegex, "-e", "{1}", "-e", "{2}", "-n", "1000", "--snapshot", "--csv", "out.csv")
	}
	args = append(args, "--readers", fmt.Sprint(c.Readers), "--workers", fmt.Sprint(c.Readers))
	if c.Gunzip {
		args = append(args, "-z")
	}
	args = append(args, exp.cliArgs...)
	return args
}

// checkFilter compares the printed source:line:text triples with the
// reference. Returns a canonical description of the observation.
func checkFilter(c Case, exp *expectation, res runResult, report func(sig, msg string)) string {
	pre := "C06/filter/"
	type lt struct {
		line int
		text string
	}
	got := map[string][]lt{}
	out := res.stdout
	if out != "" && !strings.HasSuffix(out, "\n") {
		report(pre+"output/unterminated", "stdout does not end in a newline")
	}
	for _, l := range strings.Split(strings.TrimSuffix(out, "\n"), "\n") {
		if l == "" && out == "" {
			break
		}
		parts := strings.SplitN(l, ":", 3)
		n := 0
		if len(parts) == 3 {
			if _, err := fmt.Sscanf(parts[1], "%d", &n); err != nil || fmt.Sprint(n) != parts[1] {
				n = 0
			}
		}
		if len(parts) != 3 || n <= 0 {
			report(pre+"output/unparsable-line", fmt.Sprintf("stdout line %q is not source:line:text", l))
			continue
		}
		got[parts[0]] = append(got[parts[0]], lt{n, parts[2]})
	}
	// source names: the statement fixes only <stdin>; lines reported under an
	// accepted alias of an expected source (input.aliases) that is not itself
	// an expected source count for that source
	isSrc := map[string]bool{}
	for _, in := range exp.inputs {
		isSrc[in.src] = true
	}
	for _, in := range exp.inputs {
		if len(got[in.src]) > 0 {
			continue
		}
		for _, a := range in.aliases {
			if !isSrc[a] && len(got[a]) > 0 {
				got[in.src] = got[a]
				delete(got, a)
				break
			}
		}
	}
	// an input the statement is silent about (input.optional): read exactly
	// once, or not at all
	for i, in := range exp.inputs {
		if !in.optional {
			continue
		}
		if len(got[in.src]) == 0 {
			exp.inputs[i] = &input{src: in.src, kind: in.kind, aliases: in.aliases, mayFail: in.mayFail}
			exp.optionalSkipped++
		} else {
			exp.optionalRead++
		}
	}
	// an input the statement lets be classified either way (see input.alt):
	// when exactly the bytes of the other reading were delivered, that reading
	// is the one the rest of the oracle (content, exit status) is held to
	for i, in := range exp.inputs {
		if in.alt == nil {
			continue
		}
		g := got[in.src]
		same := len(g) == len(in.alt.lines)
		seen := map[int]bool{}
		for _, x := range g {
			if x.line < 1 || x.line > len(in.alt.lines) || seen[x.line] || in.alt.lines[x.line-1] != x.text {
				same = false
				break
			}
			seen[x.line] = true
		}
		if same && !(len(in.alt.lines) == 0 && in.fails && res.exit == 2) {
			exp.inputs[i] = in.alt
			exp.readAsPlain++
		} else {
			exp.readAsGzip++
		}
	}
	// every named input is read exactly once per mention
	bySrc := map[string][]*input{}
	var srcs []string
	for _, in := range exp.inputs {
		if _, ok := bySrc[in.src]; !ok {
			srcs = append(srcs, in.src)
		}
		bySrc[in.src] = append(bySrc[in.src], in)
	}
	var obs []string
	for src := range got {
		if _, ok := bySrc[src]; !ok {
			report(pre+"content/unexpected-source", fmt.Sprintf("lines attributed to %q, which is not one of the named inputs %v", src, srcs))
		}
	}
	for _, src := range srcs {
		ins := bySrc[src]
		in := ins[0]
		k := len(ins) // mentions
		tag := in.kind
		if c.Gunzip {
			tag += "-z"
		}
		g := got[src]
		sort.Slice(g, func(i, j int) bool {
			if g[i].line != g[j].line {
				return g[i].line < g[j].line
			}
			return g[i].text < g[j].text
		})
		count := map[int]int{}
		for _, x := range g {
			count[x.line]++
		}
		if !in.prefixOK {
			// exact: each line exactly k times with its text
			for _, x := range g {
				if x.line > len(in.lines) {
					report(pre+"content/"+tag+"/extra-line", fmt.Sprintf("%s: line number %d beyond the %d lines of the input", src, x.line, len(in.lines)))
				} else if x.text != in.lines[x.line-1] {
					report(pre+"content/"+tag+"/wrong-text", fmt.Sprintf("%s line %d: got %q want %q", src, x.line, x.text, in.lines[x.line-1]))
				}
			}
			for i := range in.lines {
				switch {
				case count[i+1] < k:
					report(pre+"content/"+tag+"/line-missing", fmt.Sprintf("%s line %d delivered %d times, mentioned %d times", src, i+1, count[i+1], k))
				case count[i+1] > k:
					report(pre+"content/"+tag+"/line-duplicated", fmt.Sprintf("%s line %d delivered %d times, mentioned %d times", src, i+1, count[i+1], k))
				}
			}
		} else {
			// a failing gzip stream: any prefix of its decoded lines (the last
			// delivered line may itself be cut short), per mention
			for _, x := range g {
				if x.line > len(in.lines) {
					report(pre+"content/"+tag+"/extra-line", fmt.Sprintf("%s: line number %d beyond the %d decodable lines", src, x.line, len(in.lines)))
				} else if x.text != in.lines[x.line-1] {
					last := count[x.line+1] < count[x.line] // some mention ended here
					if !(last && strings.HasPrefix(in.lines[x.line-1], x.text)) {
						report(pre+"content/"+tag+"/wrong-text", fmt.Sprintf("%s line %d: got %q, decodable text is %q", src, x.line, x.text, in.lines[x.line-1]))
					}
				}
			}
			prev := k
			for i := 1; i <= len(in.lines); i++ {
				if count[i] > prev {
					report(pre+"content/"+tag+"/not-a-prefix", fmt.Sprintf("%s: line %d delivered %d times but line %d only %d times", src, i, count[i], i-1, prev))
				}
				prev = count[i]
			}
		}
		obs = append(obs, fmt.Sprintf("%s=%d", tag, len(g)))
	}
	return strings.Join(obs, ",")
}

// checkHisto compares the exported counts with the reference aggregation.
func checkHisto(dir string, c Case, exp *expectation, res runResult, report func(sig, msg string)) string {
	pre := "C06/histo/"
	lo, hi, parseErrs := exp.histoBounds()
	_ = parseErrs
	b, err := os.ReadFile(filepath.Join(dir, "out.csv"))
	os.Remove(filepath.Join(dir, "out.csv"))
	if err != nil {
		report(pre+"csv/not-written", "the csv export was not written: "+err.Error())
		return ""
	}
	got := map[string]int64{}
	lines := strings.Split(strings.TrimSuffix(string(b), "\n"), "\n")
	if len(lines) == 0 || lines[0] != "group,value" {
		report(pre+"csv/bad-header", fmt.Sprintf("csv header %q", lines[0]))
		return ""
	}
	for _, l := range lines[1:] {
		i := strings.LastIndexByte(l, ',')
		var v int64
		if i < 0 {
			report(pre+"csv/bad-row", fmt.Sprintf("csv row %q", l))
			continue
		}
		if _, err := fmt.Sscanf(l[i+1:], "%d", &v); err != nil {
			report(pre+"csv/bad-row", fmt.Sprintf("csv row %q", l))
			continue
		}
		if _, dup := got[l[:i]]; dup {
			report(pre+"csv/duplicate-key", fmt.Sprintf("csv key %q twice", l[:i]))
		}
		got[l[:i]] = v
	}
	keys := map[string]bool{}
	for k := range got {
		keys[k] = true
	}
	for k := range hi {
		keys[k] = true
	}
	var ks []string
	for k := range keys {
		ks = append(ks, k)
	}
	sort.Strings(ks)
	var obs []string
	for _, k := range ks {
		g, ok := got[k]
		l, inLo := lo[k]
		h := hi[k]
		switch {
		case !ok && inLo:
			report(pre+"counts/key-missing", fmt.Sprintf("key %q (reference count %d) is not exported", k, l))
		case ok && g < l:
			report(pre+"counts/too-low", fmt.Sprintf("key %q exported %d, reference %d (inputs not completely processed)", k, g, l))
		case ok && g > h:
			report(pre+"counts/too-high", fmt.Sprintf("key %q exported %d, reference at most %d (input read more than once per mention)", k, g, h))
		}
		obs = append(obs, fmt.Sprintf("%s=%d", k, g))
	}
	return strings.Join(obs, ",")
}

func replay(w *runner.W, raw json.RawMessage) {
	var c Case
	if err := json.Unmarshal(raw, &c); err != nil {
		panic(err)
	}
	if c.Variant == "exitstate" {
		checkExitState(w, c)
		return
	}
	e := newEnv(w)
	defer e.close()
	if c.Family == famSpelling || c.Family == famSizeless {
		e.runSpell(c)
		return
	}
	if c.Family != "" {
		e.runSized(c)
		return
	}
	dir, t := e.workdir(c.Kinds)
	e.runCase(dir, t, c)
}

func main() {
	runner.Main(&runner.Spec{
		Name:       "clifiles",
		Properties: []string{"C06"},
		Level:      "exploration",
		Rule: func(prop, tier string) string {
			return "real rare binary, one process per case: every directory tree t/ with 0..3 entries (ordered, named e0..e2) over the kinds {" + strings.Join(allKinds, ", ") +
				"} (1+11+121+1331 trees; a subdir entry holds in.log and sub/deep.log) x argument forms {" + strings.Join(allForms, ", ") +
				"} (paths: every entry by name; glob: t/*; recursive: -R t; recursive-paths: -R with every entry by name; twice: every entry named twice; dir-as-file: t itself then every entry; dash/none: standard input carrying the bytes of the single entry, trees of <=1 file entries only; dash-first: `-` followed by every entry, filter only; literal-name-with-pattern-characters: every entry by name plus an existing file t/x[1].log named literally, which as a pattern does not match itself; glob-by-extension: `t/*.log t/e?.gz` for trees holding at least one entry of each extension - these two forms with trees of up to 2 entries in the quick tier) x -z {off,on} x --readers=--workers {1,2} x command {filter -e '{src}:{line}:{0}' (every line printed), histogram -m '" + histoRegex + "' -e {1} -e {2} --csv}; " +
				sizeRule(tier) + spellRule(tier) +
				map[string]string{"quick": "", "thorough": "thorough adds every tree with 4 entries (14641) x forms {paths, glob, recursive} x filter x -z x --readers {1,2}; "}[tier] +
				"standard input always comes from a file (a sentinel line when it must not be read). Oracle: multiset of source:line:text (filter) / exported counts (histogram) against an independent reference, exit status, error mention on stderr. Plus helpers.DetermineErrorState over {0,1,2}^3 (and a nil aggregator). non-trivial = at least one named input exists in the reference (a case whose inputs are all absent only checks the exit status)"
		},
		Assumptions: func(string) []string {
			return []string{
				"one OS schedule per configuration (the schedule-exhaustive part of C06 is the vrt pipeline harness)",
				"-z together with standard input: the up-front refusal (exit 2, no output) is accepted as well as reading the bytes undecoded; the statement is silent",
				"a glob without any expansion (t/* on an empty tree): exit 1 or 2 accepted, the statement is silent",
				"a truncated or corrupt gzip stream under -z: any prefix of the decodable lines is accepted (the last one possibly cut short), but the failure must be reported and the exit status must be 2",
				"size families, -z: a file whose gzip header is damaged (cut inside the header, a flipped header bit that makes it undecodable) and a text file that merely starts with the gzip magic may be taken either for gzip content (then it fails while being read: error reported, exit status 2, any prefix of what a decoder delivers) or for a non-gzip file (then every byte from the first to the last is delivered and the exit status is the usual one); damage behind an intact header (body, trailer, second member) is gzip content that fails while being read; a file a gzip decoder decodes without error (e.g. a flipped bit in the modification time or the name) is gzip content and must be delivered decompressed",
				"`-` followed by path arguments: reading standard input and every path, or refusing the command line (exit 2, nothing on stdout, a message on stderr) are both accepted",
				"file names contain no glob metacharacters and no colon",
				"spelling family: what a path names is what the operating system resolves for the argument as given (os.ReadFile / os.ReadDir on the unchanged string; `..` behind a symbolic link to a directory is resolved relative to the link's target); the statement fixes the source name only for standard input, so the lines of a file are accepted under the argument as given, under its lexically cleaned form and under the form with every symbolic link resolved (relative or absolute) - the CONTENT must be that of the file the operating system resolves; symbolic-link loops are not enumerated",
				"-R: what is reached only through a symbolic link below a walked directory (a link to a file, to a directory, a dangling link) is not \"a regular file below a directory argument\": reading it exactly once, not reading it, and - for a link that cannot be read as a file - reporting it as a read error (exit status 2, named on stderr) are all accepted; the same for `-R link` where link is a symbolic link to a directory without a trailing slash (directory argument or path argument: the statement is silent); `-R link/` and `-R link/..` are directory arguments",
				"sizeless family: a named pipe is fed by the harness (the writer opens it for writing, which succeeds when the process opens it for reading, writes once, closes); a writer the process never serves is released after the process has exited; named pipes are named once per command line and never put below a -R directory (not regular files; nothing would ever write to them); procfs files are judged only when the harness read identical bytes before and after the run, a machine without /proc skips them (counters procfs_absent_skipped / procfs_unstable_skipped)",
				"spelling and sizeless families file one violation per case under C06/filter/<family>/<shape>/<class of the first failed clause: wrong-content, exit-status, error-not-mentioned>",
			}
		},
		Worker:         worker,
		Replay:         replay,
		HangSeconds:    150,
		QuickBudget:    10 * time.Minute,
		ThoroughBudget: 30 * time.Minute,
	})
}
